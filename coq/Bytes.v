(* Bytes.v -- strings as lists of bytes, and the `str` primitives the crate uses.

   A Rust `str`/`String` is modelled as `list N`, one `N` per UTF-8 byte.  All
   decisions the crate takes are on ASCII bytes ('/', '~', '0', '1', '-',
   digits); all offsets it exposes are byte offsets.  Theorems quantify over
   all `list N`, a superset of valid UTF-8.

   Definitions only (plus trivial computation lemmas); proofs live in Proofs/. *)

From Coq Require Export List NArith Bool Lia.
Export ListNotations.
Open Scope N_scope.

Definition str := list N.

Definition SLASH : N := 47.   (* '/' *)
Definition TILDE : N := 126.  (* '~' *)
Definition ZERO  : N := 48.   (* '0' *)
Definition ONE   : N := 49.   (* '1' *)
Definition NINE  : N := 57.   (* '9' *)
Definition DASH  : N := 45.   (* '-' *)

Definition USIZE_MAX : N := 18446744073709551615.   (* 2^64 - 1 *)

(* length as N (Rust `len()`), kept separate from `length` : nat *)
Definition len {A} (s : list A) : N := N.of_nat (length s).

Fixpoint str_eqb (a b : str) : bool :=
  match a, b with
  | [], [] => true
  | x :: a', y :: b' => (x =? y) && str_eqb a' b'
  | _, _ => false
  end.

(* `str::cmp`: bytewise lexicographic, a proper prefix is smaller *)
Fixpoint str_cmp (a b : str) : comparison :=
  match a, b with
  | [], [] => Eq
  | [], _ :: _ => Lt
  | _ :: _, [] => Gt
  | x :: a', y :: b' =>
      match x ?= y with
      | Eq => str_cmp a' b'
      | c => c
      end
  end.

Definition str_ltb (a b : str) : bool := match str_cmp a b with Lt => true | _ => false end.

(* outcome of a modelled Rust computation that may panic *)
Inductive outcome (A : Type) : Type :=
| Ret (a : A)
| Panic
| OutOfFuel.
Arguments Ret {A} a.
Arguments Panic {A}.
Arguments OutOfFuel {A}.

Inductive result (A E : Type) := Ok (a : A) | Err (e : E).
Arguments Ok {A E} a.
Arguments Err {A E} e.

(* ---- iterator / str primitives ------------------------------------------------ *)

(* `s.bytes().position(f)` *)
Fixpoint position (f : N -> bool) (s : str) : option nat :=
  match s with
  | [] => None
  | b :: r => if f b then Some O else option_map S (position f r)
  end.

(* `s.find(c)` for an ASCII char c: byte index of the first occurrence *)
Definition find (c : N) (s : str) : option nat := position (N.eqb c) s.

(* `s.rfind(c)`: byte index of the last occurrence *)
Fixpoint rfind (c : N) (s : str) : option nat :=
  match s with
  | [] => None
  | b :: r =>
      match rfind c r with
      | Some i => Some (S i)
      | None => if c =? b then Some O else None
      end
  end.

(* `s.split(c)`: always at least one piece *)
Fixpoint split_on (c : N) (s : str) : list str :=
  match s with
  | [] => [[]]
  | b :: r =>
      if b =? c then [] :: split_on c r
      else match split_on c r with
           | h :: t => (b :: h) :: t
           | [] => [[b]]
           end
  end.

(* `s.split_once(c)` *)
Definition split_once (c : N) (s : str) : option (str * str) :=
  match find c s with
  | Some i => Some (firstn i s, skipn (S i) s)
  | None => None
  end.

(* `s.rsplit_once(c)` *)
Definition rsplit_once (c : N) (s : str) : option (str * str) :=
  match rfind c s with
  | Some i => Some (firstn i s, skipn (S i) s)
  | None => None
  end.

(* `s.starts_with(p)` / `s.strip_prefix(p)` *)
Fixpoint starts_with (s p : str) : bool :=
  match p, s with
  | [], _ => true
  | x :: p', y :: s' => (x =? y) && starts_with s' p'
  | _ :: _, [] => false
  end.

Definition strip_prefix (s p : str) : option str :=
  if starts_with s p then Some (skipn (length p) s) else None.

(* `s.ends_with(p)` / `s.strip_suffix(p)` *)
Definition ends_with (s p : str) : bool :=
  Nat.leb (length p) (length s) && str_eqb (skipn (length s - length p) s) p.

Definition strip_suffix (s p : str) : option str :=
  if ends_with s p then Some (firstn (length s - length p) s) else None.

(* indexing by a machine integer without ever converting a huge N to unary nat *)
Fixpoint nth_N {A} (l : list A) (i : N) : option A :=
  match l with
  | [] => None
  | x :: r => if i =? 0 then Some x else nth_N r (i - 1)
  end.

(* `s.as_bytes().get(i)` *)
Definition get_byte (s : str) (i : N) : option N := nth_N s i.

(* ---- list updates --------------------------------------------------------- *)

Fixpoint set_nth {A} (n : nat) (x : A) (l : list A) : list A :=
  match n, l with
  | O, _ :: r => x :: r
  | S n', y :: r => y :: set_nth n' x r
  | _, [] => []
  end.

Fixpoint remove_nth {A} (n : nat) (l : list A) : list A :=
  match n, l with
  | O, _ :: r => r
  | S n', y :: r => y :: remove_nth n' r
  | _, [] => []
  end.

(* ---- views ---------------------------------------------------------------- *)

(* A borrowed sub-slice of an input text: (start, length) in bytes. *)
Record view := mkview { vstart : nat; vlen : nat }.

Definition view_of (p : str) (v : view) : str := firstn (vlen v) (skipn (vstart v) p).

Definition whole (p : str) : view := mkview 0 (length p).
