(* SpecHist.v -- C09 / C10: the document as a state machine under resolve / assign / delete /
   write-through, implementation level (Model/Tree.v on the pointer TEXT) and specification level
   (SpecTree.v on the token list).  Also the separately written resolve_mut copy of the JSON
   backend.  Definitions only. *)
From JP Require Export Value Spec Model.Index Model.Tree SpecTree.

(* ---- src/resolve.rs: the JSON ResolveMut copy goes through the shared helper `parse_index` ------ *)

(*  fn parse_index(token, array_len, position, offset) -> Result<usize, Error> {
        token.to_index().map_err(FailedToParseIndex)?.for_len(array_len).map_err(OutOfBounds) }      *)
Definition parse_index (token : str) (array_len position offset : N) : result N resolve_error :=
  match index_from_str token with
  | Err e => Err (RFailedToParseIndex position offset e)
  | Ok i =>
      match for_len i array_len with
      | Err (l, ix) => Err (ROutOfBounds position offset l ix)
      | Ok idx => Ok idx
      end
  end.

Fixpoint json_resolve_mut_loop (fuel : nat) (ptr : str) (v : value) (offset position : N) (rpath : list sel)
  : outcome (result (list sel * value) resolve_error) :=
  match fuel with
  | O => OutOfFuel
  | S fuel' =>
      match split_front ptr with
      | None => Ret (Ok (rev rpath, v))
      | Some (token, rem) =>
          let tok_len := len token in
          match v with
          | Arr array =>
              match parse_index token (len array) position offset with
              | Err e => Ret (Err e)
              | Ok idx =>
                  match nth_error array (N.to_nat idx) with          (* &mut array[idx] *)
                  | Some child =>
                      json_resolve_mut_loop fuel' rem child (offset + (1 + tok_len)) (position + 1)
                                            (Idx (N.to_nat idx) :: rpath)
                  | None => Panic
                  end
              end
          | Obj m =>
              match obj_lookup (decoded token) m with
              | Some child =>
                  json_resolve_mut_loop fuel' rem child (offset + (1 + tok_len)) (position + 1)
                                        (Key (decoded token) :: rpath)
              | None => Ret (Err (RNotFound position offset))
              end
          | _ => Ret (Err (RUnreachable position offset))
          end
      end
  end.

Definition json_resolve_mut (ptr : str) (d : value) := json_resolve_mut_loop (S (length ptr)) ptr d 0 0 [].

(* ---- operations and histories -------------------------------------------------------------------- *)

Inductive tree_op :=
| OAssign (p : str) (v : value)
| ODelete (p : str)
| OResolve (p : str)
| OWrite (p : str) (v : value).          (* *resolve_mut(p) = v *)

Definition op_ptr (o : tree_op) : str :=
  match o with OAssign p _ | ODelete p | OResolve p | OWrite p _ => p end.

Definition op_valid (o : tree_op) : Prop := valid_ptr (op_ptr o) = true.

Inductive tree_out :=
| TAssign (r : result (option value) assign_error)
| TDelete (r : option value)
| TResolve (r : result (list sel * value) resolve_error)
| TWrite (r : result unit resolve_error).

(* implementation level: the transliterated walks on the pointer text *)
Definition impl_tree_step (be : backend) (d : value) (o : tree_op) : outcome (value * tree_out) :=
  match o with
  | OAssign p v =>
      match assign p d v with
      | Ret (d', r) => Ret (d', TAssign r) | Panic => Panic | OutOfFuel => OutOfFuel
      end
  | ODelete p =>
      match delete be p d with
      | Ret (d', r) => Ret (d', TDelete r) | Panic => Panic | OutOfFuel => OutOfFuel
      end
  | OResolve p =>
      match resolve p d with
      | Ret r => Ret (d, TResolve r) | Panic => Panic | OutOfFuel => OutOfFuel
      end
  | OWrite p v =>
      match write_through p d v with
      | Ret (Ok d') => Ret (d', TWrite (Ok tt))
      | Ret (Err e) => Ret (d, TWrite (Err e))
      | Panic => Panic | OutOfFuel => OutOfFuel
      end
  end.

Fixpoint impl_tree_run (be : backend) (d : value) (ops : list tree_op) : outcome (value * list tree_out) :=
  match ops with
  | [] => Ret (d, [])
  | o :: r =>
      match impl_tree_step be d o with
      | Ret (d', out) =>
          match impl_tree_run be d' r with
          | Ret (d'', outs) => Ret (d'', out :: outs) | Panic => Panic | OutOfFuel => OutOfFuel
          end
      | Panic => Panic | OutOfFuel => OutOfFuel
      end
  end.

(* specification level: the reference tree (maps, vectors, scalars) under RFC 6901 operations *)
Definition spec_tree_step (be : backend) (d : value) (o : tree_op) : value * tree_out :=
  match o with
  | OAssign p v => let '(d', r) := spec_assign (tokens p) d v 0 0 in (d', TAssign r)
  | ODelete p => let '(d', r) := spec_delete be (tokens p) d in (d', TDelete r)
  | OResolve p => (d, TResolve (spec_resolve (tokens p) d 0 0))
  | OWrite p v =>
      match spec_write_through (tokens p) d v with
      | Ok d' => (d', TWrite (Ok tt))
      | Err e => (d, TWrite (Err e))
      end
  end.

Fixpoint spec_tree_run (be : backend) (d : value) (ops : list tree_op) : value * list tree_out :=
  match ops with
  | [] => (d, [])
  | o :: r =>
      let '(d', out) := spec_tree_step be d o in
      let '(d'', outs) := spec_tree_run be d' r in
      (d'', out :: outs)
  end.

(* every array of the document has a length that is a usize *)
Inductive arrays_fit : value -> Prop :=
| fit_scalar v : is_container v = false -> arrays_fit v
| fit_Arr l : len l <= USIZE_MAX -> Forall arrays_fit l -> arrays_fit (Arr l)
| fit_Obj m : Forall (fun kv => arrays_fit (snd kv)) m -> arrays_fit (Obj m).

(* the error values produced along the way are well formed: they locate a token of their pointer *)
Definition out_wf (o : tree_op) (out : tree_out) : Prop :=
  match out with
  | TAssign (Err e) => error_locates_culprit (op_ptr o) (ae_position e) (ae_offset e)
  | TResolve (Err e) => error_locates_culprit (op_ptr o) (re_position e) (re_offset e)
  | TWrite (Err e) => error_locates_culprit (op_ptr o) (re_position e) (re_offset e)
  | _ => True
  end.
