(* FeaturesModel.v -- static part of the C20 model: cargo features, cfg expressions, closure
   under the declared implications, crate availability.  The data (implications, which feature
   switches which crate on, the gated crate-path references of the sources) is regenerated from
   /repo on every run into Generated/Features.v by tools/featgen.py.  Definitions only. *)
From Coq Require Export List Bool Arith.
Export ListNotations.

Inductive feat := Fstd | Fserde | Fjson | Ftoml | Fassign | Fresolve | Fdelete | Fmiette.

Definition all_feats : list feat := [Fstd; Fserde; Fjson; Ftoml; Fassign; Fresolve; Fdelete; Fmiette].

Definition feat_eqb (a b : feat) : bool :=
  match a, b with
  | Fstd, Fstd | Fserde, Fserde | Fjson, Fjson | Ftoml, Ftoml
  | Fassign, Fassign | Fresolve, Fresolve | Fdelete, Fdelete | Fmiette, Fmiette => true
  | _, _ => false
  end.

Definition mem (f : feat) (S : list feat) : bool := existsb (feat_eqb f) S.

Inductive cfg :=
| CTrue | CFalse
| CFeat (f : feat)
| CNot (c : cfg)
| CAll (l : list cfg)
| CAny (l : list cfg).

Fixpoint eval (S : list feat) (c : cfg) : bool :=
  match c with
  | CTrue => true
  | CFalse => false
  | CFeat f => mem f S
  | CNot c => negb (eval S c)
  | CAll l => forallb (eval S) l
  | CAny l => existsb (eval S) l
  end.

(* closure of a requested feature set under the [features] table: 8 rounds suffice for 8 features *)
Section Closure.
  Variable implications : feat -> list feat.
  Definition close_once (S : list feat) : list feat :=
    S ++ flat_map implications S.
  Fixpoint close_n (n : nat) (S : list feat) : list feat :=
    match n with O => S | S n' => close_n n' (close_once S) end.
  Definition closure (S : list feat) : list feat := close_n 8 S.
End Closure.

(* all 2^8 subsets of the eight real features *)
Fixpoint powerset (l : list feat) : list (list feat) :=
  match l with
  | [] => [[]]
  | x :: r => let p := powerset r in p ++ map (cons x) p
  end.

Definition all_subsets : list (list feat) := powerset all_feats.

Section Sites.
  Variable implications : feat -> list feat.
  (* (gate around the reference, condition under which the referenced thing exists, source line) *)
  Variable sites : list (cfg * cfg * nat).

  (* a site is fine under S if its gate is off or what it names exists *)
  Definition site_ok (S : list feat) (s : cfg * cfg * nat) : bool :=
    let '(g, req, _) := s in implb (eval S g) (eval S req).

  Definition sites_ok (S : list feat) : bool := forallb (site_ok S) sites.

  (* the lines of the sites that would fail under the requested set S *)
  Definition failing_lines (S : list feat) : list nat :=
    map (fun s => snd s) (filter (fun s => negb (site_ok (closure implications S) s)) sites).

  Definition all_configs_ok : bool :=
    forallb (fun S => sites_ok (closure implications S)) all_subsets.
End Sites.
