(* Extract.v -- extraction of the driver to OCaml, ExtrOcamlBasic only. *)
From Coq Require Extraction.
From Coq Require Import ExtrOcamlBasic.
From JP Require Import Driver.
Extraction Language OCaml.
Extraction "model.ml" run_line.
