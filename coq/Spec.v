(* Spec.v -- the objects a user has in mind: RFC 6901 grammar, escaping, and
   "a pointer is a list of tokens".  No offsets, no flags.  Definitions only. *)

From JP Require Export Bytes.

(* ---- grammar ---------------------------------------------------------------- *)

(* every '~' is immediately followed by '0' or '1' *)
Fixpoint escapes_ok (s : str) : bool :=
  match s with
  | [] => true
  | b :: r =>
      if b =? TILDE then
        match r with
        | c :: r' => ((c =? ZERO) || (c =? ONE)) && escapes_ok r'
        | [] => false
        end
      else escapes_ok r
  end.

Definition no_slash (s : str) : bool := forallb (fun b => negb (b =? SLASH)) s.

(* a valid encoded token: no raw '/', every '~' followed by '0'/'1' *)
Definition valid_tok (e : str) : bool := no_slash e && escapes_ok e.

(* a valid pointer text: empty, or starts with '/' and every '~' followed by '0'/'1' *)
Definition valid_ptr (p : str) : bool :=
  match p with
  | [] => true
  | b :: _ => (b =? SLASH) && escapes_ok p
  end.

(* ---- escaping --------------------------------------------------------------- *)

(* '~' -> "~0", '/' -> "~1" *)
Fixpoint encode (s : str) : str :=
  match s with
  | [] => []
  | b :: r =>
      if b =? TILDE then TILDE :: ZERO :: encode r
      else if b =? SLASH then TILDE :: ONE :: encode r
      else b :: encode r
  end.

(* left-to-right inverse on valid tokens: "~0" -> '~', "~1" -> '/'.
   (On an invalid escape the '~' is dropped; no theorem depends on that.) *)
Fixpoint unescape (e : str) : str :=
  match e with
  | [] => []
  | b :: r =>
      if b =? TILDE then
        match r with
        | c :: r' =>
            if c =? ZERO then TILDE :: unescape r'
            else if c =? ONE then SLASH :: unescape r'
            else unescape r
        | [] => []
        end
      else b :: unescape r
  end.

(* ---- pointers as token lists -------------------------------------------------- *)

(* encoded tokens of a pointer text: split on '/', drop the (empty) first piece *)
Definition tokens (p : str) : list str := tl (split_on SLASH p).

(* decoded tokens *)
Definition dtokens (p : str) : list str := map unescape (tokens p).

(* pointer text of a list of already-encoded tokens *)
Definition from_tokens_enc (ts : list str) : str :=
  flat_map (fun t => SLASH :: t) ts.

(* pointer text of a list of arbitrary (decoded) strings *)
Definition from_tokens (L : list str) : str := from_tokens_enc (map encode L).

(* number of tokens *)
Definition count (p : str) : nat := length (tokens p).
