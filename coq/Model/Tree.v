(* Model/Tree.v -- transliteration of src/resolve.rs, src/assign.rs, src/delete.rs (the walks over
   serde_json::Value / toml::Value) and of the Diagnostic::labels impls of their errors.
   Definitions only.

   In-place mutation through `&mut Value` is modelled by returning the new document: a
   `&mut` re-borrow of a child denotes "the document with that child replaced by whatever the
   child becomes".  The `while let Some((tok, rest)) = ptr.split_front()` loops recurse on
   fuel; Proofs/ shows [OutOfFuel] is unreachable with fuel = S (length ptr). *)

From JP Require Export Value Model.Pointer Model.Index.

Inductive backend := Json | Toml.

(* ---- resolve ------------------------------------------------------------------------------ *)

Inductive resolve_error :=
| RFailedToParseIndex (position offset : N) (source : parse_index_error)
| ROutOfBounds (position offset : N) (length index : N)
| RNotFound (position offset : N)
| RUnreachable (position offset : N).

Definition re_position (e : resolve_error) : N :=
  match e with
  | RFailedToParseIndex p _ _ | ROutOfBounds p _ _ _ | RNotFound p _ | RUnreachable p _ => p
  end.
Definition re_offset (e : resolve_error) : N :=
  match e with
  | RFailedToParseIndex _ o _ | ROutOfBounds _ o _ _ | RNotFound _ o | RUnreachable _ o => o
  end.

(*  let mut offset = 0; let mut position = 0; let mut value = self;
    while let Some((token, rem)) = ptr.split_front() {
        let tok_len = token.encoded().len(); ptr = rem;
        value = match value {
            Array(v) => { let idx = token.to_index().map_err(FailedToParseIndex)?
                                         .for_len(v.len()).map_err(OutOfBounds)?;  Ok(&v[idx]) }
            Object(v) => v.get(token.decoded().as_ref()).ok_or(NotFound),
            _ => Err(Unreachable) }?;
        offset += 1 + tok_len; position += 1; }
    Ok(value)
   The result carries the selector path of the node reached (what the reference points at). *)
Fixpoint resolve_loop (fuel : nat) (ptr : str) (v : value) (offset position : N) (rpath : list sel)
  : outcome (result (list sel * value) resolve_error) :=
  match fuel with
  | O => OutOfFuel
  | S fuel' =>
      match split_front ptr with
      | None => Ret (Ok (rev rpath, v))
      | Some (token, rem) =>
          let tok_len := len token in
          match v with
          | Arr a =>
              match index_from_str token with
              | Err e => Ret (Err (RFailedToParseIndex position offset e))
              | Ok i =>
                  match for_len i (len a) with
                  | Err (l, ix) => Ret (Err (ROutOfBounds position offset l ix))
                  | Ok idx =>
                      match nth_error a (N.to_nat idx) with       (* &v[idx] panics out of range *)
                      | Some child =>
                          resolve_loop fuel' rem child (offset + (1 + tok_len)) (position + 1)
                                       (Idx (N.to_nat idx) :: rpath)
                      | None => Panic
                      end
                  end
              end
          | Obj m =>
              match obj_lookup (decoded token) m with
              | Some child =>
                  resolve_loop fuel' rem child (offset + (1 + tok_len)) (position + 1)
                               (Key (decoded token) :: rpath)
              | None => Ret (Err (RNotFound position offset))
              end
          | _ => Ret (Err (RUnreachable position offset))
          end
      end
  end.

Definition resolve (ptr : str) (d : value) : outcome (result (list sel * value) resolve_error) :=
  resolve_loop (S (length ptr)) ptr d 0 0 [].

(* resolve_mut is the same walk returning `&mut`; writing through it replaces the node *)
Definition resolve_mut := resolve.

Definition write_through (ptr : str) (d : value) (v : value) : outcome (result value resolve_error) :=
  match resolve_mut ptr d with
  | Ret (Ok (path, _)) => Ret (Ok (update_at path (fun _ => v) d))
  | Ret (Err e) => Ret (Err e)
  | Panic => Panic
  | OutOfFuel => OutOfFuel
  end.

(* ---- assign -------------------------------------------------------------------------------- *)

Inductive assign_error :=
| AFailedToParseIndex (position offset : N) (source : parse_index_error)
| AOutOfBounds (position offset : N) (length index : N).

Definition ae_position (e : assign_error) : N :=
  match e with AFailedToParseIndex p _ _ | AOutOfBounds p _ _ _ => p end.
Definition ae_offset (e : assign_error) : N :=
  match e with AFailedToParseIndex _ o _ | AOutOfBounds _ o _ _ => o end.

(*  fn expand(mut remaining: &Pointer, mut value: Value) -> Value {
        while let Some((ptr, tok)) = remaining.split_back() {
            remaining = ptr;
            match tok.encoded() { "0" | "-" => value = Array(vec![value]),
                                  _ => { obj.insert(tok.to_string(), value); value = Object(obj) } } }
        value }                               (tok.to_string() is Display = decoded) *)
Fixpoint expand_loop (fuel : nat) (remaining : str) (v : value) : outcome value :=
  match fuel with
  | O => OutOfFuel
  | S fuel' =>
      match split_back remaining with
      | None => Ret v
      | Some (ptr, tok) =>
          if str_eqb tok [ZERO] || str_eqb tok [DASH]
          then expand_loop fuel' ptr (Arr [v])
          else expand_loop fuel' ptr (Obj (obj_insert (decoded tok) v []))
      end
  end.

Definition expand (remaining : str) (v : value) : outcome value :=
  expand_loop (S (length remaining)) remaining v.

(* assign_value / assign_array / assign_object / assign_scalar.
   Result: the document afterwards, and Ok(replaced) / Err. *)
Fixpoint assign_loop (fuel : nat) (ptr : str) (dest src : value) (offset position : N)
  : outcome (value * result (option value) assign_error) :=
  match fuel with
  | O => OutOfFuel
  | S fuel' =>
      match split_front ptr with
      | None => Ret (src, Ok (Some dest))          (* root: mem::replace(dest, value) *)
      | Some (token, tail) =>
          let tok_len := len token in
          match dest with
          | Arr array =>
              match index_from_str token with
              | Err e => Ret (dest, Err (AFailedToParseIndex position offset e))
              | Ok i =>
                  match for_len_incl i (len array) with
                  | Err (l, ix) => Ret (dest, Err (AOutOfBounds position offset l ix))
                  | Ok idx =>
                      if idx <? len array then
                        match nth_error array (N.to_nat idx) with
                        | None => Panic
                        | Some child =>
                            if is_root tail then
                              Ret (Arr (set_nth (N.to_nat idx) src array), Ok (Some child))
                            else
                              match assign_loop fuel' tail child src (offset + (1 + tok_len)) (position + 1) with
                              | Ret (child', r) => Ret (Arr (set_nth (N.to_nat idx) child' array), r)
                              | Panic => Panic
                              | OutOfFuel => OutOfFuel
                              end
                        end
                      else
                        match expand tail src with
                        | Ret v => Ret (Arr (array ++ [v]), Ok None)
                        | Panic => Panic
                        | OutOfFuel => OutOfFuel
                        end
                  end
              end
          | Obj m =>
              let key := decoded token in
              match obj_lookup key m with
              | Some child =>
                  if is_root tail then Ret (Obj (obj_insert key src m), Ok (Some child))
                  else
                    match assign_loop fuel' tail child src (offset + (1 + tok_len)) (position + 1) with
                    | Ret (child', r) => Ret (Obj (obj_insert key child' m), r)
                    | Panic => Panic
                    | OutOfFuel => OutOfFuel
                    end
              | None =>
                  match expand tail src with
                  | Ret v => Ret (Obj (obj_insert key v m), Ok None)
                  | Panic => Panic
                  | OutOfFuel => OutOfFuel
                  end
              end
          | _ =>
              (* assign_scalar(ptr, dest, value): replace the scalar by expand(ptr, value) *)
              match expand ptr src with
              | Ret v => Ret (v, Ok (Some dest))
              | Panic => Panic
              | OutOfFuel => OutOfFuel
              end
          end
      end
  end.

Definition assign (ptr : str) (d src : value) : outcome (value * result (option value) assign_error) :=
  assign_loop (S (length ptr)) ptr d src 0 0.

(* ---- delete --------------------------------------------------------------------------------- *)

(*  let Some((parent_ptr, last)) = ptr.split_back() else { return Some(mem::replace(self, Null / Table::default())) };
    parent_ptr.resolve_mut(self).ok().and_then(|parent| match parent {
        Array(children) => { let idx = last.to_index().ok()?.for_len(children.len()).ok()?;
                             children.remove(idx).into() }          // Vec::obj_remove panics if idx >= len
        Object(children) => children.remove(last.decoded().as_ref()),
        _ => None })                                                                        *)
Definition delete (be : backend) (ptr : str) (d : value) : outcome (value * option value) :=
  match split_back ptr with
  | None => Ret (match be with Json => Null | Toml => Obj [] end, Some d)
  | Some (parent_ptr, last) =>
      match resolve_mut parent_ptr d with
      | Panic => Panic
      | OutOfFuel => OutOfFuel
      | Ret (Err _) => Ret (d, None)
      | Ret (Ok (path, parent)) =>
          match parent with
          | Arr children =>
              match index_from_str last with
              | Err _ => Ret (d, None)
              | Ok i =>
                  match for_len i (len children) with
                  | Err _ => Ret (d, None)
                  | Ok idx =>
                      match nth_error children (N.to_nat idx) with
                      | None => Panic
                      | Some c => Ret (update_at path (fun _ => Arr (remove_nth (N.to_nat idx) children)) d, Some c)
                      end
                  end
              end
          | Obj children =>
              match obj_lookup (decoded last) children with
              | Some c => Ret (update_at path (fun _ => Obj (obj_remove (decoded last) children)) d, Some c)
              | None => Ret (d, None)
              end
          | _ => Ret (d, None)
          end
      end
  end.

(* ---- Diagnostic::labels for resolve::Error / assign::Error ----------------------------------- *)

(*  let token = origin.get(position)?;
    let offset = if self.offset() + 1 < origin.as_str().len() { self.offset() + 1 } else { self.offset() };
    let len = token.encoded().len();   Label::new(text, offset, len)                          *)
Definition walk_label (position offset : N) (origin : str) : option (N * N) :=
  match get_tok origin position with
  | None => None
  | Some tok =>
      let o := if offset + 1 <? len origin then offset + 1 else offset in
      Some (o, len tok)
  end.

(* ---- every node has a pointer ------------------------------------------------------------------- *)

(* the pointer spelled from a selector path: indices in decimal, keys through Token::new *)
Definition sel_token (s : sel) : str :=
  match s with
  | Idx n => dec_of_N (N.of_nat n)
  | Key k => encode k
  end.

Definition ptr_of_path (path : list sel) : str := from_tokens_enc (map sel_token path).

(* all selector paths of a document, pre-order *)
Fixpoint all_paths (d : value) : list (list sel) :=
  [] ::
  match d with
  | Arr l =>
      (fix go (l : list value) (i : nat) : list (list sel) :=
         match l with
         | [] => []
         | c :: r => map (cons (Idx i)) (all_paths c) ++ go r (S i)
         end) l O
  | Obj m =>
      (fix go (m : list (str * value)) : list (list sel) :=
         match m with
         | [] => []
         | (k, c) :: r => map (cons (Key k)) (all_paths c) ++ go r
         end) m
  | _ => []
  end.

Definition sel_eqb (a b : sel) : bool :=
  match a, b with
  | Idx n, Idx m => Nat.eqb n m
  | Key k, Key j => str_eqb k j
  | _, _ => false
  end.

Fixpoint path_eqb (a b : list sel) : bool :=
  match a, b with
  | [], [] => true
  | x :: a', y :: b' => sel_eqb x y && path_eqb a' b'
  | _, _ => false
  end.

(* does the pointer spelled from [path] resolve to exactly that node? *)
Definition node_addressable (d : value) (path : list sel) : bool :=
  match resolve (ptr_of_path path) d with
  | Ret (Ok (path', _)) => path_eqb path path'
  | _ => false
  end.
