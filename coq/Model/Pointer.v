(* Model/Pointer.v -- transliteration of src/pointer.rs (validate, accessors, splitting,
   prefix/suffix operations, PointerBuf mutators) and src/component.rs.  Definitions only.

   A `Pointer(str)` / `PointerBuf(String)` is its text, a `str`.  Borrowed results are
   returned as sub-lists; Proofs/ shows they are the [view]s the Rust code re-slices. *)

From JP Require Export Spec Model.Token.

(* ---- src/pointer.rs  validate / validate_bytes ----------------------------------- *)

Inductive parse_error :=
| NoLeadingSlash
| InvalidEncoding (ptr_offset tok_offset : N).   (* offset, source.offset; source.source = Tilde *)

(*  let mut ptr_offset = offset; let mut tok_offset = 0; let mut i = offset;
    while i < bytes.len() { match bytes[i] {
        b'/' => { ptr_offset = i; tok_offset = 0; }
        b'~' => { if i + 1 >= len || (bytes[i+1] != b'0' && bytes[i+1] != b'1') { return Err(..) }
                  i += 1; tok_offset += 1; }
        _ => {} }
      i += 1; tok_offset += 1; }                                                         *)
Fixpoint validate_loop (s : str) (i ptr_offset tok_offset : N) : option parse_error :=
  match s with
  | [] => None
  | b :: r =>
      if b =? SLASH then validate_loop r (i + 1) i (0 + 1)
      else if b =? TILDE then
        match r with
        | c :: r' =>
            if negb (c =? ZERO) && negb (c =? ONE) then Some (InvalidEncoding ptr_offset tok_offset)
            else validate_loop r' (i + 1 + 1) ptr_offset (tok_offset + 1 + 1)
        | [] => Some (InvalidEncoding ptr_offset tok_offset)
        end
      else validate_loop r (i + 1) ptr_offset (tok_offset + 1)
  end.

(*  if value.is_empty() { return Ok }  if bytes[0] != b'/' && offset == 0 { NoLeadingSlash } *)
Definition validate (s : str) : option parse_error :=
  match s with
  | [] => None
  | b :: _ => if negb (b =? SLASH) then Some NoLeadingSlash else validate_loop s 0 0 0
  end.

(* ParseError accessors *)
Definition pe_pointer_offset (e : parse_error) : N :=
  match e with NoLeadingSlash => 0 | InvalidEncoding po _ => po end.
Definition pe_source_offset (e : parse_error) : N :=
  match e with NoLeadingSlash => 0 | InvalidEncoding _ so => so end.
Definition pe_complete_offset (e : parse_error) : N := pe_source_offset e + pe_pointer_offset e.

(* invalid_encoding_len:  if self.complete_offset() < subject.len() - 1 { 2 } else { 1 }
   (`subject.len() - 1` underflows for an empty subject: a panic in debug builds) *)
Definition pe_invalid_encoding_len (e : parse_error) (subject : str) : outcome N :=
  match e with
  | NoLeadingSlash => Ret 0
  | InvalidEncoding _ _ =>
      if len subject =? 0 then Panic
      else Ret (if pe_complete_offset e <? len subject - 1 then 2 else 1)
  end.

(* Diagnostic::labels for ParseError: Label::new(text, complete_offset, invalid_encoding_len) *)
Definition pe_label (e : parse_error) (subject : str) : outcome (N * N) :=
  match pe_invalid_encoding_len e subject with
  | Ret l => Ret (pe_complete_offset e, l)
  | Panic => Panic
  | OutOfFuel => OutOfFuel
  end.

(* ---- the eight parsing doors ---------------------------------------------------- *)

Inductive door := DParse | DBufParse | DFromStr | DTryFromStr | DTryFromString
                | DDeBorrowed | DDeOwned | DFromStatic.

Inductive door_result :=
| DoorOk (text : str)                       (* the pointer's text *)
| DoorErr (e : parse_error)                 (* a ParseError *)
| DoorReport (e : parse_error) (subject : str)  (* PointerBuf::parse: Report keeps the String *)
| DoorSerdeErr                              (* a serde error (message not modelled) *)
| DoorPanic.                                (* from_static *)

Definition door_run (d : door) (s : str) : door_result :=
  match d with
  | DParse => match validate s with None => DoorOk s | Some e => DoorErr e end
  | DBufParse => match validate s with None => DoorOk s | Some e => DoorReport e s end
  | DFromStr => match validate s with None => DoorOk s | Some e => DoorErr e end       (* -> try_from(&str) *)
  | DTryFromStr => match validate s with None => DoorOk s | Some e => DoorErr e end    (* Pointer::parse(..).map(to_buf) *)
  | DTryFromString => match validate s with None => DoorOk s | Some e => DoorErr e end (* validate(&value)?; Ok(Self(value)) *)
  | DDeBorrowed => match validate s with None => DoorOk s | Some _ => DoorSerdeErr end
  | DDeOwned => match validate s with None => DoorOk s | Some _ => DoorSerdeErr end
  | DFromStatic => match validate s with None => DoorOk s | Some _ => DoorPanic end
  end.

(* ---- accessors -------------------------------------------------------------------- *)

Definition is_root (p : str) : bool := match p with [] => true | _ => false end.

(* tokens(): `let mut s = self.0.split('/'); s.next(); Tokens::new(s)`  = Spec.tokens *)
Definition ptokens (p : str) : list str := tl (split_on SLASH p).
Definition pcount (p : str) : N := len (ptokens p).

(* back(): self.0.rsplit_once('/').map(|(_, back)| back) *)
Definition back (p : str) : option str := option_map snd (rsplit_once SLASH p).

(* front(): if root None else self.0[1..].split_once('/').map_or(self.0[1..], |(front,_)| front) *)
Definition front (p : str) : option str :=
  if is_root p then None
  else match split_once SLASH (skipn 1 p) with
       | Some (f, _) => Some f
       | None => Some (skipn 1 p)
       end.

(* split_front(): self.0[1..].find('/') -> (front, back) via split_at(idx), or (self.0[1..], root) *)
Definition split_front (p : str) : option (str * str) :=
  if is_root p then None
  else match find SLASH (skipn 1 p) with
       | Some idx => Some (firstn idx (skipn 1 p), skipn idx (skipn 1 p))
       | None => Some (skipn 1 p, [])
       end.

(* split_at(offset): byte at offset must be '/' *)
Definition split_at (p : str) (offset : N) : option (str * str) :=
  match get_byte p offset with
  | Some b => if b =? SLASH then Some (firstn (N.to_nat offset) p, skipn (N.to_nat offset) p) else None
  | None => None
  end.

Definition split_back (p : str) : option (str * str) := rsplit_once SLASH p.
Definition parent (p : str) : option str := option_map fst (rsplit_once SLASH p).

(* get(usize): tokens().nth(i) *)
Definition get_tok (p : str) (i : N) : option str := nth_N (ptokens p) i.

(* components(): Root, then the tokens *)
Inductive component := CRoot | CToken (t : str).
Definition components (p : str) : list component := CRoot :: map CToken (ptokens p).

(* ---- prefix / suffix ----------------------------------------------------------------- *)

(* strip_suffix: self.0.strip_suffix(&suffix.0) *)
Definition p_strip_suffix (p suffix : str) : option str := strip_suffix p suffix.

(* strip_prefix: self.0.strip_prefix(&prefix.0).filter(|s| s.is_empty() || s.starts_with('/')) *)
Definition p_strip_prefix (p prefix : str) : option str :=
  match strip_prefix p prefix with
  | Some s => if is_root s || starts_with s [SLASH] then Some s else None
  | None => None
  end.

(* ends_with: (self.is_root() && other.is_root()) || (!other.is_root() && self.0.ends_with(&other.0)) *)
Definition p_ends_with (p other : str) : bool :=
  (is_root p && is_root other) || (negb (is_root other) && ends_with p other).

(* starts_with: self.0.starts_with(&other.0)
                 && (other.len() == self.len() || self.0.as_bytes()[other.len()] == b'/')
   the indexing can panic in principle: modelled *)
Definition p_starts_with (p other : str) : outcome bool :=
  if starts_with p other then
    if Nat.eqb (length other) (length p) then Ret true
    else match get_byte p (len other) with
         | Some b => Ret (b =? SLASH)
         | None => Panic
         end
  else Ret false.

(* intersection:
     if self.is_root() || other.is_root() { return root }
     let mut idx = 0;
     for (a, b) in self.tokens().zip(other.tokens()) { if a != b { break } idx += a.encoded().len() + 1 }
     self.split_at(idx).map_or(self, |(head, _)| head) *)
Fixpoint inter_loop (ta tb : list str) (idx : N) : N :=
  match ta, tb with
  | a :: ta', b :: tb' => if str_eqb a b then inter_loop ta' tb' (idx + (len a + 1)) else idx
  | _, _ => idx
  end.

Definition intersection (p other : str) : str :=
  if is_root p || is_root other then []
  else match split_at p (inter_loop (ptokens p) (ptokens other) 0) with
       | Some (head, _) => head
       | None => p
       end.

(* ---- PointerBuf ------------------------------------------------------------------------- *)

(* from_tokens: for t in tokens { inner.push('/'); inner.push_str(t.encoded()) } *)
Definition buf_from_tokens (L : list str) : str :=
  fold_left (fun inner t => inner ++ SLASH :: ttext (token_new false t)) L [].

(* push_front: insert(0,'/'); insert_str(1, encoded)      (tok: the encoded text) *)
Definition push_front (p tok : str) : str := SLASH :: tok ++ p.

(* push_back: push('/'); push_str(encoded) *)
Definition push_back (p tok : str) : str := p ++ SLASH :: tok.

(* pop_back: if let Some(idx) = self.0.rfind('/') { back = split_off(idx + 1); self.0.pop(); Some(back) } *)
Definition pop_back (p : str) : str * option str :=
  match rfind SLASH p with
  | Some idx => (removelast (firstn (S idx) p), Some (skipn (S idx) p))
  | None => (p, None)
  end.

(* pop_front:
     (!self.is_root()).then(|| {
        let mut token = if let Some(idx) = self.0[1..].find('/') {
            let token = self.0.split_off(idx + 1); mem::replace(&mut self.0, token)
        } else { mem::take(&mut self.0) };
        token.remove(0);   // panics on an empty string
        token })                                                                        *)
Definition pop_front (p : str) : outcome (str * option str) :=
  if is_root p then Ret (p, None)
  else
    let '(token, rest) :=
      match find SLASH (skipn 1 p) with
      | Some idx => (firstn (S idx) p, skipn (S idx) p)
      | None => (p, [])
      end in
    match token with
    | [] => Panic
    | _ :: t => Ret (rest, Some t)
    end.

(* append: if self.is_root() { self.0 = other } else if !other.is_root() { push_str(other) } *)
Definition append (p other : str) : str :=
  if is_root p then other else if negb (is_root other) then p ++ other else p.

(* replace(index, token):
     if self.is_root() { Err { count: self.count(), index } }
     let mut tokens = collect(); if index >= tokens.len() { Err { count: tokens.len(), index } }
     old = tokens[index]; tokens[index] = token; rebuild
   result: (new text, Ok (Some old) | Err (index, count)) *)
Inductive replace_result := ReplOk (old : option str) | ReplErr (index count : N).

Definition replace_tok (p : str) (index : N) (tok : str) : str * replace_result :=
  if is_root p then (p, ReplErr index (pcount p))
  else
    let toks := ptokens p in
    if len toks <=? index then (p, ReplErr index (len toks))
    else
      let i := N.to_nat index in
      (from_tokens_enc (set_nth i tok toks), ReplOk (nth_error toks i)).

Definition clear (p : str) : str := [].

(* with_trailing_token / with_leading_token / concat: to_buf then push_back / push_front / append *)
Definition with_trailing_token (p tok : str) : str := push_back p tok.
Definition with_leading_token (p tok : str) : str := push_front p tok.
Definition concat_ptr (p other : str) : str := append p other.
