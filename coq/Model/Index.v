(* Model/Index.v -- transliteration of src/index.rs.  Definitions only. *)

From JP Require Export Bytes Dec.

Inductive index := Num (n : N) | Next.

Inductive int_error := IntEmpty | IntPosOverflow.      (* core::num::IntErrorKind reachable here *)

Inductive parse_index_error :=
| InvalidInteger (k : int_error)
| LeadingZeros
| InvalidCharacter (offset : N).                        (* source = the input string *)

(* `s.parse::<usize>()` on a string of ASCII digits (possibly empty) *)
Definition parse_usize (s : str) : result N int_error :=
  match s with
  | [] => Err IntEmpty
  | _ => match dec_acc 0 s with
         | Some n => if n <=? USIZE_MAX then Ok n else Err IntPosOverflow
         | None => Err IntEmpty   (* not reachable: caller checked all bytes are digits *)
         end
  end.

(* impl FromStr for Index:
     if s == "-" { Next } else if s.starts_with('0') && s != "0" { LeadingZeros }
     else match s.chars().position(|c| !c.is_ascii_digit()) {
            None => s.parse::<usize>() , Some(offset) => InvalidCharacter{source: s, offset} }
   chars before the first non-digit are ASCII, so the char offset is the byte offset. *)
Definition index_from_str (s : str) : result index parse_index_error :=
  if str_eqb s [DASH] then Ok Next
  else if starts_with s [ZERO] && negb (str_eqb s [ZERO]) then Err LeadingZeros
  else match position (fun c => negb (is_digit c)) s with
       | Some off => Err (InvalidCharacter (N.of_nat off))
       | None => match parse_usize s with
                 | Ok n => Ok (Num n)
                 | Err k => Err (InvalidInteger k)
                 end
       end.

(* InvalidCharacterError::char(): source.chars().nth(offset).expect(..)
   modelled on bytes: the first byte of that char *)
Definition invalid_char (source : str) (offset : N) : outcome N :=
  match nth_error source (N.to_nat offset) with
  | Some b => Ret b
  | None => Panic
  end.

(* OutOfBoundsError { length, index } *)
Definition for_len (i : index) (length : N) : result N (N * N) :=
  match i with
  | Num n => if n <? length then Ok n else Err (length, n)
  | Next => Err (length, length)
  end.

Definition for_len_incl (i : index) (length : N) : result N (N * N) :=
  match i with
  | Num n => if n <=? length then Ok n else Err (length, n)
  | Next => Ok length
  end.

Definition for_len_unchecked (i : index) (length : N) : N :=
  match i with Num n => n | Next => length end.

(* Display *)
Definition index_display (i : index) : str :=
  match i with Num n => dec_of_N n | Next => [DASH] end.
