(* Model/Cost.v -- which operations build an owned buffer (C19).  Definitions only.

   Allocation lives in the runtime; what is logic is (i) which `Cow` variant the code builds
   and (ii) that each documented zero-copy operation returns a view / scalar only.  The
   [alloc_*] flags below are read off the transliterations: an operation "allocates" iff its
   model builds a new text rather than returning a sub-slice of its input. *)
From JP Require Export Spec Model.Token Model.Pointer.

(* Token::new: `Cow::Owned(new buffer)` iff a '/' or '~' is found; otherwise the input Cow is kept *)
Definition alloc_token_new (s : str) : bool :=
  match position is_special s with Some _ => true | None => false end.

(* Token::decoded: `Cow::Owned(new buffer)` iff a '~' is found; otherwise Cow::Borrowed(&self.inner) *)
Definition alloc_decoded (t : str) : bool := fst (decoded_cow t).

(* Token::from_encoded: always `Cow::Borrowed(s)`;  Pointer::parse: reinterprets the &str *)
Definition alloc_from_encoded (s : str) : bool := false.
Definition alloc_parse (s : str) : bool := false.
