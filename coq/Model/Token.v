(* Model/Token.v -- transliteration of src/token.rs (Token::from_encoded, Token::new,
   Token::decoded, into_owned/to_owned).  Definitions only.

   A `Token<'a> { inner: Cow<'a, str> }` is modelled as the pair (owned, text). *)

From JP Require Export Spec.

Record token := mktoken { towned : bool; ttext : str }.

Inductive enc_kind := KTilde | KSlash.

(* src/token.rs  Token::from_encoded:
     let mut escaped = false;
     for (offset, b) in s.bytes().enumerate() { match b { ... } }
     if escaped { Err(offset: s.len(), Tilde) } else Ok
   Result: None = Ok(Token { inner: Borrowed(s) }), Some (offset, kind) = Err. *)
Fixpoint from_encoded_loop (s : str) (offset : N) (escaped : bool) : option (N * enc_kind) :=
  match s with
  | [] => if escaped then Some (offset, KTilde) else None
  | b :: r =>
      if b =? SLASH then Some (offset, KSlash)
      else if b =? TILDE then
        if escaped then Some (offset, KTilde)
        else from_encoded_loop r (offset + 1) true
      else if ((b =? ZERO) || (b =? ONE)) && escaped then
        from_encoded_loop r (offset + 1) false
      else if escaped then Some (offset, KTilde)
      else from_encoded_loop r (offset + 1) escaped
  end.

Definition from_encoded (s : str) : option (N * enc_kind) := from_encoded_loop s 0 false.

(* on success the token borrows the input verbatim *)
Definition from_encoded_tok (s : str) : token := mktoken false s.

(* src/token.rs  Token::new:
     if let Some(i) = s.bytes().position(|b| b == b'/' || b == b'~') {
         bytes.extend_from_slice(&input[..i]);
         for &b in &input[i..] { '/' -> "~1", '~' -> "~0", other -> other }
         Owned(bytes)
     } else { Self { inner: s } } *)
Definition is_special (b : N) : bool := (b =? SLASH) || (b =? TILDE).

Fixpoint new_loop (s : str) : str :=
  match s with
  | [] => []
  | b :: r =>
      if b =? SLASH then TILDE :: ONE :: new_loop r
      else if b =? TILDE then TILDE :: ZERO :: new_loop r
      else b :: new_loop r
  end.

Definition token_new (input_owned : bool) (s : str) : token :=
  match position is_special s with
  | Some i => mktoken true (firstn i s ++ new_loop (skipn i s))
  | None => mktoken input_owned s
  end.

(* src/token.rs  Token::decoded:
     if let Some(i) = inner.bytes().position(|b| b == '~') {
         bytes.extend_from_slice(&input[..i]);
         let mut escaped = true;
         for &b in &input[i + 1..] { match b {
             '~' => escaped = true,
             '0' if escaped => push '~', escaped = false,
             '1' if escaped => push '/', escaped = false,
             other => push other  (escaped is left as it is) } }
         Owned(bytes)
     } else { Borrowed(&self.inner) }
   Result: (allocated?, text) *)
Fixpoint dec_loop (s : str) (escaped : bool) : str :=
  match s with
  | [] => []
  | b :: r =>
      if b =? TILDE then dec_loop r true
      else if (b =? ZERO) && escaped then TILDE :: dec_loop r false
      else if (b =? ONE) && escaped then SLASH :: dec_loop r false
      else b :: dec_loop r escaped
  end.

Definition decoded_cow (t : str) : bool * str :=
  match position (N.eqb TILDE) t with
  | Some i => (true, firstn i t ++ dec_loop (skipn (S i) t) true)
  | None => (false, t)
  end.

Definition decoded (t : str) : str := snd (decoded_cow t).

(* into_owned / to_owned: same text, owned *)
Definition token_into_owned (t : token) : token := mktoken true (ttext t).
