(* Model/Conv.v -- comparisons, hashing and conversions of src/pointer.rs / src/token.rs.
   Every one of these Rust items is a one-line wrapper around the text (`.0`); the model
   definitions are correspondingly thin, and the tie (suites cmp / conv, which exercise each
   wrapper separately) carries the weight.  Definitions only. *)
From Coq Require Import ZArith.
From JP Require Export Bytes Dec Spec Model.Pointer.

(* the 17 hand-written PartialEq impls and the derived ones: `self.0 == other` on the texts *)
Definition ptr_eq (a b : str) : bool := str_eqb a b.
(* the 15 hand-written PartialOrd impls and the derived PartialOrd/Ord: str's comparison *)
Definition ptr_partial_cmp (a b : str) : option comparison := Some (str_cmp a b).
Definition ptr_cmp (a b : str) : comparison := str_cmp a b.
(* derived Hash on Pointer(str) / PointerBuf(String) = <str as Hash>::hash:
   state.write(bytes); state.write_u8(0xff) *)
Definition hash_stream (p : str) : str := p ++ [255].

(* Serialize: the text as one string.  Deserialize: validate, keep the text. *)
Definition serialize (p : str) : str := p.
Definition deserialize (s : str) : option str :=
  match validate s with None => Some s | Some _ => None end.

(* to_buf / to_owned / Cow / Box<Pointer> <-> into_buf / to_json_value / Display: the text *)
Definition to_buf (p : str) : str := p.
Definition box_roundtrip (p : str) : str := p.
Definition display (p : str) : str := p.

(* Token::from(integer): v.to_string() *)
Definition dec_of_Z (z : Z) : str :=
  match z with
  | Z0 => [48]
  | Zpos p => dec_of_N (Npos p)
  | Zneg p => DASH :: dec_of_N (Npos p)
  end.
Definition token_of_int (z : Z) : str := dec_of_Z z.
