(* Model/Slice.v -- transliteration of src/pointer/slice.rs (PointerIndex impls).
   Definitions only.  `usize` values are `N`; the caller-supplied bounds range over all of
   0..=USIZE_MAX, the loop counters are bounded by the text length (Proofs/SliceProofs.v). *)

From JP Require Export Model.Pointer.

(* `&pointer.0.as_bytes()[a..b]` : panics unless a <= b <= len.  Result: the byte range. *)
Definition slice_range (p : str) (a b : N) : outcome (N * N) :=
  if (a <=? b) && (b <=? len p) then Ret (a, b) else Panic.

Definition opt_slice (p : str) (so eo : option N) : outcome (option (N * N)) :=
  match so with
  | None => Ret None                       (* start_offset? *)
  | Some a =>
      match eo with
      | None => Ret None                   (* end_offset? *)
      | Some b => match slice_range p a b with
                  | Ret r => Ret (Some r)
                  | Panic => Panic
                  | OutOfFuel => OutOfFuel
                  end
      end
  end.

(* impl PointerIndex for Range<usize>:
     for token in pointer.tokens() {
         if idx == self.start { start_offset = Some(offset); }
         if idx == self.end { end_offset = Some(offset); break; }
         idx += 1; offset += token.encoded().len() + 1; }
     if idx == self.end { end_offset = Some(offset); }                                   *)
Fixpoint range_loop (ts : list str) (idx offset start end_ : N) (so : option N)
  : N * N * option N * option N :=
  match ts with
  | [] => (idx, offset, so, None)
  | t :: r =>
      let so' := if idx =? start then Some offset else so in
      if idx =? end_ then (idx, offset, so', Some offset)
      else range_loop r (idx + 1) (offset + (len t + 1)) start end_ so'
  end.

Definition get_range (p : str) (start end_ : N) : outcome (option (N * N)) :=
  if end_ <? start then Ret None
  else
    let '(idx, offset, so, eo) := range_loop (ptokens p) 0 0 start end_ None in
    let eo' := if idx =? end_ then Some offset else eo in
    opt_slice p so eo'.

(* impl for RangeFrom<usize>:
     for (idx, token) in tokens().enumerate() {
         if idx == self.start { start_offset = Some(offset); break; }
         offset += len + 1; }
     &bytes[start_offset?..]                                                              *)
Fixpoint from_loop (ts : list str) (idx offset start : N) : option N :=
  match ts with
  | [] => None
  | t :: r => if idx =? start then Some offset else from_loop r (idx + 1) (offset + (len t + 1)) start
  end.

Definition get_range_from (p : str) (start : N) : outcome (option (N * N)) :=
  opt_slice p (from_loop (ptokens p) 0 0 start) (Some (len p)).

(* impl for RangeTo<usize>:
     for token in tokens() { if idx == self.end { end_offset = Some(offset); break; } idx += 1; offset += len + 1; }
     if idx == self.end { end_offset = Some(offset); }
     &bytes[..end_offset?]                                                                *)
Fixpoint to_loop (ts : list str) (idx offset end_ : N) : N * N * option N :=
  match ts with
  | [] => (idx, offset, None)
  | t :: r => if idx =? end_ then (idx, offset, Some offset)
              else to_loop r (idx + 1) (offset + (len t + 1)) end_
  end.

Definition get_range_to (p : str) (end_ : N) : outcome (option (N * N)) :=
  let '(idx, offset, eo) := to_loop (ptokens p) 0 0 end_ in
  let eo' := if idx =? end_ then Some offset else eo in
  opt_slice p (Some 0) eo'.

(* impl for RangeFull *)
Definition get_range_full (p : str) : outcome (option (N * N)) := Ret (Some (0, len p)).

(* impl for RangeInclusive<usize>:
     if end < start { return None }
     for (idx, token) in tokens().enumerate() {
         if idx == start { start_offset = Some(offset); }
         offset += len + 1;
         if idx == end { end_offset = Some(offset); break; } }                            *)
Fixpoint incl_loop (ts : list str) (idx offset start end_ : N) (so : option N) : option N * option N :=
  match ts with
  | [] => (so, None)
  | t :: r =>
      let so' := if idx =? start then Some offset else so in
      let offset' := offset + (len t + 1) in
      if idx =? end_ then (so', Some offset')
      else incl_loop r (idx + 1) offset' start end_ so'
  end.

Definition get_range_incl (p : str) (start end_ : N) : outcome (option (N * N)) :=
  if end_ <? start then Ret None
  else let '(so, eo) := incl_loop (ptokens p) 0 0 start end_ None in opt_slice p so eo.

(* impl for RangeToInclusive<usize> *)
Fixpoint to_incl_loop (ts : list str) (idx offset end_ : N) : option N :=
  match ts with
  | [] => None
  | t :: r =>
      let offset' := offset + (len t + 1) in
      if idx =? end_ then Some offset' else to_incl_loop r (idx + 1) offset' end_
  end.

Definition get_range_to_incl (p : str) (end_ : N) : outcome (option (N * N)) :=
  opt_slice p (Some 0) (to_incl_loop (ptokens p) 0 0 end_).

(* impl for (Bound<usize>, Bound<usize>):  Excluded(start) -> start.checked_add(1)? *)
Inductive bound := Included (n : N) | Excluded (n : N) | Unbounded.

Definition checked_add1 (n : N) : option N := if n =? USIZE_MAX then None else Some (n + 1).

Definition get_bounds (p : str) (lo hi : bound) : outcome (option (N * N)) :=
  match lo, hi with
  | Included s, Included e => get_range_incl p s e
  | Included s, Excluded e => get_range p s e
  | Included s, Unbounded => get_range_from p s
  | Excluded s, Included e => match checked_add1 s with Some s' => get_range_incl p s' e | None => Ret None end
  | Excluded s, Excluded e => match checked_add1 s with Some s' => get_range p s' e | None => Ret None end
  | Excluded s, Unbounded => match checked_add1 s with Some s' => get_range_from p s' | None => Ret None end
  | Unbounded, Included e => get_range_to_incl p e
  | Unbounded, Excluded e => get_range_to p e
  | Unbounded, Unbounded => get_range_full p
  end.
