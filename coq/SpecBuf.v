(* SpecBuf.v -- C11: the PointerBuf mutators against a plain deque of decoded strings
   (and, at the end, [common_prefix] for C13).
   Definitions only.

   [impl_step] runs one mutator of Model/Pointer.v on a pointer TEXT; [deque_step] runs the
   same operation on a plain list of DECODED strings.  The implementation's return values
   carry ENCODED token texts; [ret_corr] compares them with the deque's through [unescape]. *)

From JP Require Export Spec Model.Token Model.Pointer.

Inductive buf_op :=
| PushFront (raw : str)
| PushBack (raw : str)
| PopFront
| PopBack
| Append (q : str)
| Replace (index : N) (raw : str)
| Clear.

(* `Append q` takes a `&Pointer`: its text is valid by the type's invariant *)
Definition op_ok (op : buf_op) : Prop :=
  match op with
  | Append q => valid_ptr q = true
  | _ => True
  end.

(* ---- the implementation ------------------------------------------------------------ *)

(* what a mutator returns: (), Option<Token>, Result<Option<Token>, ReplaceError> *)
Inductive ret :=
| RUnit
| RPop (t : option str)                 (* ENCODED text of the popped token *)
| RRepl (r : replace_result).           (* ReplOk (Some old) : ENCODED text of the previous token *)

Definition impl_step (p : str) (op : buf_op) : outcome (str * ret) :=
  match op with
  | PushFront raw => Ret (push_front p (ttext (token_new false raw)), RUnit)
  | PushBack raw => Ret (push_back p (ttext (token_new false raw)), RUnit)
  | PopFront =>
      match pop_front p with
      | Ret (p', t) => Ret (p', RPop t)
      | Panic => Panic
      | OutOfFuel => OutOfFuel
      end
  | PopBack => let '(p', t) := pop_back p in Ret (p', RPop t)
  | Append q => Ret (append p q, RUnit)
  | Replace index raw =>
      let '(p', r) := replace_tok p index (ttext (token_new false raw)) in Ret (p', RRepl r)
  | Clear => Ret (clear p, RUnit)
  end.

Fixpoint impl_run (p : str) (ops : list buf_op) : outcome (str * list ret) :=
  match ops with
  | [] => Ret (p, [])
  | op :: ops' =>
      match impl_step p op with
      | Ret (p', r) =>
          match impl_run p' ops' with
          | Ret (p'', rs) => Ret (p'', r :: rs)
          | Panic => Panic
          | OutOfFuel => OutOfFuel
          end
      | Panic => Panic
      | OutOfFuel => OutOfFuel
      end
  end.

(* ---- the deque of decoded strings ------------------------------------------------------ *)

Inductive dret :=
| DUnit
| DPop (x : option str)                 (* the removed element, None when empty *)
| DReplOk (old : str)                   (* the previous element *)
| DReplErr (index count : N).           (* out of bounds: the index and the number of elements *)

Definition deque_step (l : list str) (op : buf_op) : list str * dret :=
  match op with
  | PushFront raw => (raw :: l, DUnit)
  | PushBack raw => (l ++ [raw], DUnit)
  | PopFront =>
      match l with
      | [] => ([], DPop None)
      | x :: r => (r, DPop (Some x))
      end
  | PopBack =>
      match l with
      | [] => ([], DPop None)
      | _ :: _ => (removelast l, DPop (Some (last l [])))
      end
  | Append q => (l ++ dtokens q, DUnit)
  | Replace index raw =>
      if len l <=? index then (l, DReplErr index (len l))
      else (set_nth (N.to_nat index) raw l, DReplOk (nth (N.to_nat index) l []))
  | Clear => ([], DUnit)
  end.

Fixpoint deque_run (l : list str) (ops : list buf_op) : list str * list dret :=
  match ops with
  | [] => (l, [])
  | op :: ops' =>
      let '(l', d) := deque_step l op in
      let '(l'', ds) := deque_run l' ops' in
      (l'', d :: ds)
  end.

(* ---- correspondence of return values ------------------------------------------------------ *)

Definition ret_corr (r : ret) (d : dret) : Prop :=
  match r, d with
  | RUnit, DUnit => True
  | RPop None, DPop None => True
  | RPop (Some t), DPop (Some x) => valid_tok t = true /\ unescape t = x
  | RRepl (ReplOk (Some t)), DReplOk x => valid_tok t = true /\ unescape t = x
  | RRepl (ReplErr i c), DReplErr i' c' => i = i' /\ c = c'
  | _, _ => False
  end.

(* ---- C13: the longest common leading sub-list of two token lists ---------------------------- *)

Fixpoint common_prefix (a b : list str) : list str :=
  match a, b with
  | x :: a', y :: b' => if str_eqb x y then x :: common_prefix a' b' else []
  | _, _ => []
  end.
