(* GenTreePrelude.v -- primitives of the generated tree walks (Generated/ScanTree.v).  Hand-written, definitions only.

   serde_json::Value / toml::Value are the model's [value] (Value.v), their Map / Table its sorted association
   list ([obj_lookup] = `get` / `get_mut`, [obj_insert] = `insert`).  `Token::to_index` (= `Index::from_str` on the
   encoded text, an iterator chain over chars that the translator does not handle) is the hand-written
   [index_from_str] of Model/Index.v, re-expressed in the generated types. *)

From JP Require Export Value GenPrelude Model.Index Generated.ScanTypes.

(* `&v[idx]` / `&mut v[idx]` on a Vec<Value> *)
Definition list_get {A} (l : list A) (i : N) : outcome A :=
  match nth_N l i with Some x => Ret x | None => Panic end.

Definition gen_index_of (i : index) : Index :=
  match i with Num n => Index_Num n | Next => Index_Next end.

Definition gen_pie_of (source : str) (e : parse_index_error) : ParseIndexError :=
  match e with
  | InvalidInteger IntEmpty => ParseIndexError_InvalidInteger ParseIntError_Empty
  | InvalidInteger IntPosOverflow => ParseIndexError_InvalidInteger ParseIntError_PosOverflow
  | LeadingZeros => ParseIndexError_LeadingZeros
  | InvalidCharacter off => ParseIndexError_InvalidCharacter (mk_InvalidCharacterError source off)
  end.

(* Token::to_index *)
Definition prim_to_index (t : Token) : result Index ParseIndexError :=
  match index_from_str (cow_text (Token_inner t)) with
  | Ok i => Ok (gen_index_of i)
  | Err e => Err (gen_pie_of (cow_text (Token_inner t)) e)
  end.

(* `s.parse::<usize>()` = usize::from_str(s) = from_str_radix(s, 10), on ARBITRARY text (core::num): empty -> Empty; one
   optional leading '+' (a lone sign -> InvalidDigit; '-' is not a sign for unsigned types); then left to right, each char
   must be an ASCII digit (else InvalidDigit) and `acc * 10 + digit` must stay within usize (else PosOverflow) -- whichever
   fails first.  (On strings of digits this is the hand-written [parse_usize] of Model/Index.v: Proofs/GenEquivIndexStr.v.) *)
Fixpoint parse_digits (acc : N) (s : str) : result N ParseIntError :=
  match s with
  | [] => Ok acc
  | c :: r =>
      if is_digit c then
        let acc' := 10 * acc + (c - 48) in
        if USIZE_MAX <? acc' then Err ParseIntError_PosOverflow else parse_digits acc' r
      else Err ParseIntError_InvalidDigit
  end.

Definition prim_parse_usize (s : str) : result N ParseIntError :=
  match s with
  | [] => Err ParseIntError_Empty
  | c :: r =>
      let body := if c =? 43 then r else s in
      match body with
      | [] => Err ParseIntError_InvalidDigit
      | _ => parse_digits 0 body
      end
  end.

(* ---- lens mode (Generated/ScanTreeMut.v): a `&mut` reference INTO a document is the pair of the content it points at
   and the function writing a new content back into the whole document.  [lens_root] is `&mut doc` itself; the
   constructors below are the only ways the crate derives one reference from another. *)
Definition lens (T : Type) : Type := (T * (T -> value))%type.
Definition lens_root (d : value) : lens value := (d, fun x => x).
Definition lens_set {T} (l : lens T) (x : T) : lens T := (x, snd l).
(* `match r { Value::Array(a) => .. }` / `Value::Object(m)` with r : &mut Value *)
Definition lens_arr (l : lens value) (a : list value) : lens (list value) := (a, fun a' => snd l (Arr a')).
Definition lens_obj (l : lens value) (m : obj) : lens obj := (m, fun m' => snd l (Obj m')).
(* `&mut a[i]` : panics out of range *)
Definition lens_index (l : lens (list value)) (i : N) : outcome (lens value) :=
  match nth_N (fst l) i with
  | Some x => Ret (x, fun x' => snd l (set_nth (N.to_nat i) x' (fst l)))
  | None => Panic
  end.
(* `m.get_mut(key)` *)
Definition lens_get_mut (o : lens obj) (k : str) : option (lens value) :=
  match obj_lookup k (fst o) with
  | Some c => Some (c, fun x' => snd o (obj_insert k x' (fst o)))
  | None => None
  end.
(* `m.entry(key)` : Occupied holds the reference `into_mut()` gives, Vacant the map and the key `insert` will use *)
Inductive Entry := Entry_Occupied (e : lens value) | Entry_Vacant (e : lens obj * str).
Definition lens_entry (o : lens obj) (k : str) : Entry :=
  match lens_get_mut o k with Some l => Entry_Occupied l | None => Entry_Vacant (o, k) end.
