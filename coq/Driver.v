(* Driver.v -- run_line : case line -> model's observable result, for every suite. *)

From Coq Require Import String.
From JP Require Import Bytes Spec Proto Model.Token.

Open Scope string_scope.

Definition kind_name (k : enc_kind) : str :=
  match k with KTilde => s2b "tilde" | KSlash => s2b "slash" end.

(* tnew x<raw>           -> x<encoded> x<decoded>
   tenc x<pre-encoded>   -> ok x<encoded> x<decoded>  |  err <offset> tilde|slash *)
Definition run_token (op : str) (args : list str) : option str :=
  if str_eqb op (s2b "tnew") then
    match args with
    | [f] => match parse_x f with
             | Some s => let t := token_new false s in
                         Some (out [xfield (ttext t); xfield (decoded (ttext t))])
             | None => None
             end
    | _ => None
    end
  else if str_eqb op (s2b "tenc") then
    match args with
    | [f] => match parse_x f with
             | Some s =>
                 match from_encoded s with
                 | None => Some (out [s2b "ok"; xfield s; xfield (decoded s)])
                 | Some (o, k) => Some (out [s2b "err"; dec_of_N o; kind_name k])
                 end
             | None => None
             end
    | _ => None
    end
  else None.

Definition run_line (line : str) : str :=
  match fields line with
  | op :: args =>
      match run_token op args with
      | Some r => r
      | None => bad_case
      end
  | [] => bad_case
  end.
