(* Driver.v -- run_line : case line -> the model's observable result, for every suite.
   The formats are documented next to each runner; harness/src/suites/*.rs prints the same
   format from the real crate. *)

From Coq Require Import String.
From JP Require Import Bytes Dec Spec Proto Value ProtoValue
  Model.Token Model.Pointer Model.Slice Model.Index Model.Tree Model.Conv Model.Cost.

Definition is_op (op : str) (name : string) : bool := str_eqb op (s2b name).
Arguments is_op _ _%string.

Definition opt_bind {A B} (o : option A) (f : A -> option B) : option B :=
  match o with Some a => f a | None => None end.

Notation "'do' x <- e ; k" := (opt_bind e (fun x => k)) (at level 200, x pattern, e at level 100, k at level 200).

(* ================================================================== suite token ===== *)

Definition kind_name (k : enc_kind) : str :=
  match k with KTilde => s2b "tilde" | KSlash => s2b "slash" end.

(* tnew x<raw>           -> x<encoded> x<decoded>
   tenc x<pre-encoded>   -> ok x<encoded> x<decoded>  |  err <offset> tilde|slash *)
Definition run_token (op : str) (args : list str) : option str :=
  if is_op op "tnew" then
    match args with
    | [f] => do s <- parse_x f;
             let t := token_new false s in
             Some (out [xfield (ttext t); xfield (decoded (ttext t))])
    | _ => None
    end
  else if is_op op "tenc" then
    match args with
    | [f] => do s <- parse_x f;
             match from_encoded s with
             | None => Some (out [s2b "ok"; xfield s; xfield (decoded s)])
             | Some (o, k) => Some (out [s2b "err"; dec_of_N o; kind_name k])
             end
    | _ => None
    end
  else None.

(* ================================================================== suite parse ===== *)

Definition door_of (f : str) : option door :=
  if is_op f "parse" then Some DParse
  else if is_op f "bufparse" then Some DBufParse
  else if is_op f "fromstr" then Some DFromStr
  else if is_op f "tryfromstr" then Some DTryFromStr
  else if is_op f "tryfromstring" then Some DTryFromString
  else if is_op f "deborrowed" then Some DDeBorrowed
  else if is_op f "deowned" then Some DDeOwned
  else if is_op f "fromstatic" then Some DFromStatic
  else None.

Definition outcome_label (o : outcome (N * N)) : list str :=
  match o with
  | Ret (a, b) => [s2b "label"; dec_of_N a; dec_of_N b]
  | Panic => [s2b "label"; s2b "panic"]
  | OutOfFuel => [s2b "label"; s2b "fuel"]
  end.

(* the error as the accessors show it: kind pointer_offset source_offset complete_offset *)
Definition perr_fields (e : parse_error) : list str :=
  [match e with NoLeadingSlash => s2b "nls" | InvalidEncoding _ _ => s2b "enc" end;
   dec_of_N (pe_pointer_offset e); dec_of_N (pe_source_offset e); dec_of_N (pe_complete_offset e)].

(* door <door> x<text> ->
     ok x<as_str>
   | err <kind> <po> <so> <co> label <o> <l>            (label computed for the input as subject)
   | report <kind> <po> <so> <co> x<subject> label <o> <l>
   | serdeerr | panic *)
Definition run_parse (op : str) (args : list str) : option str :=
  if is_op op "door" then
    match args with
    | [d; f] =>
        do dr <- door_of d; do s <- parse_x f;
        Some (out match door_run dr s with
                  | DoorOk t => [s2b "ok"; xfield t]
                  | DoorErr e => s2b "err" :: perr_fields e ++ outcome_label (pe_label e s)
                  | DoorReport e subj => s2b "report" :: perr_fields e ++ [xfield subj] ++ outcome_label (pe_label e subj)
                  | DoorSerdeErr => [s2b "serdeerr"]
                  | DoorPanic => [s2b "panic"]
                  end)
    | _ => None
    end
  else None.

(* ================================================================== suite tokens ===== *)

Fixpoint parse_xs (fs : list str) : option (list str) :=
  match fs with
  | [] => Some []
  | f :: r => do s <- parse_x f; do t <- parse_xs r; Some (s :: t)
  end.

Definition opt_field {A} (pr : A -> str) (o : option A) : str :=
  match o with Some a => pr a | None => none_field end.

(* offset of token i inside p: sum of 1 + len over the preceding tokens, plus 1 *)
Fixpoint tok_start (ts : list str) (i : nat) (acc : nat) : nat :=
  match i, ts with
  | O, _ => S acc
  | S i', t :: r => tok_start r i' (acc + S (length t))
  | S _, [] => S acc
  end.

(* ftok x<t1> x<t2> ...   -> x<text of from_tokens>
   acc x<p>               -> n<count> r<is_root> f<front> b<back> sf<tok>,<rest> sb<front>,<tok> pa<parent>
                             t x<enc>:x<dec> ...      (each token, encoded and decoded)
                             (views relative to p; p must be a valid pointer)
   fus <n>                -> x<text of PointerBuf::from(n usize)>
   wtt x<p> x<raw>        -> x<with_trailing_token>      wlt x<p> x<raw> -> x<with_leading_token> *)
Definition run_tokens (op : str) (args : list str) : option str :=
  if is_op op "ftok" then
    do L <- parse_xs args; Some (xfield (buf_from_tokens L))
  else if is_op op "acc" then
    match args with
    | [f] =>
        do p <- parse_x f;
        let ts := ptokens p in
        Some (out (
          [110 :: dec_of_N (pcount p);
           114 :: bool_field (is_root p);
           102 :: opt_field (fun t => view_field 1 (length t)) (front p);
           98 :: opt_field (suffix_view p) (back p);
           s2b "sf" ++ opt_field (fun '(t, r) => view_field 1 (length t) ++ 44 :: suffix_view p r) (split_front p);
           s2b "sb" ++ opt_field (fun '(fr, t) => prefix_view p fr ++ 44 :: suffix_view p t) (split_back p);
           s2b "pa" ++ opt_field (prefix_view p) (parent p);
           s2b "t"] ++ map (fun t => xfield t ++ 58 :: xfield (decoded t)) ts))
    | _ => None
    end
  else if is_op op "fus" then
    match args with
    | [f] => do n <- parse_dec f; Some (xfield (SLASH :: dec_of_N n))       (* From<usize>: from_tokens([n]) *)
    | _ => None
    end
  else if is_op op "wtt" then
    match args with
    | [f; g] => do p <- parse_x f; do t <- parse_x g;
                Some (xfield (with_trailing_token p (ttext (token_new false t))))
    | _ => None
    end
  else if is_op op "wlt" then
    match args with
    | [f; g] => do p <- parse_x f; do t <- parse_x g;
                Some (xfield (with_leading_token p (ttext (token_new false t))))
    | _ => None
    end
  else None.

(* ================================================================== suite slice ===== *)

Definition range_field (o : outcome (option (N * N))) : str :=
  match o with
  | Ret None => none_field
  | Ret (Some (a, b)) => view_field (N.to_nat a) (N.to_nat (b - a))
  | Panic => s2b "panic"
  | OutOfFuel => s2b "fuel"
  end.

Definition parse_bound (f : str) : option bound :=
  match f with
  | 105 :: d => option_map Included (parse_dec d)
  | 101 :: d => option_map Excluded (parse_dec d)
  | [117] => Some Unbounded
  | _ => None
  end.

(* get <i> x<p>        -> -|@s+l|@e                  (token view)
   rr <a> <b> x<p>     a..b     rf <a> x<p>   a..     rt <b> x<p>  ..b
   ri <a> <b> x<p>     a..=b    rti <b> x<p>  ..=b    ru x<p>      ..
   rb <lo> <hi> x<p>   (Bound, Bound): i<n> | e<n> | u
   spat <k> x<p>       -> -|<head view>,<tail view> *)
Definition run_slice (op : str) (args : list str) : option str :=
  if is_op op "get" then
    match args with
    | [i; f] => do i <- parse_dec i; do p <- parse_x f;
                Some (opt_field (fun t => view_field (tok_start (ptokens p) (N.to_nat i) 0) (length t))
                                (get_tok p i))
    | _ => None
    end
  else if is_op op "rr" then
    match args with
    | [a; b; f] => do a <- parse_dec a; do b <- parse_dec b; do p <- parse_x f; Some (range_field (get_range p a b))
    | _ => None
    end
  else if is_op op "rf" then
    match args with
    | [a; f] => do a <- parse_dec a; do p <- parse_x f; Some (range_field (get_range_from p a))
    | _ => None
    end
  else if is_op op "rt" then
    match args with
    | [b; f] => do b <- parse_dec b; do p <- parse_x f; Some (range_field (get_range_to p b))
    | _ => None
    end
  else if is_op op "ri" then
    match args with
    | [a; b; f] => do a <- parse_dec a; do b <- parse_dec b; do p <- parse_x f; Some (range_field (get_range_incl p a b))
    | _ => None
    end
  else if is_op op "rti" then
    match args with
    | [b; f] => do b <- parse_dec b; do p <- parse_x f; Some (range_field (get_range_to_incl p b))
    | _ => None
    end
  else if is_op op "ru" then
    match args with
    | [f] => do p <- parse_x f; Some (range_field (get_range_full p))
    | _ => None
    end
  else if is_op op "rb" then
    match args with
    | [lo; hi; f] => do lo <- parse_bound lo; do hi <- parse_bound hi; do p <- parse_x f;
                     Some (range_field (get_bounds p lo hi))
    | _ => None
    end
  else if is_op op "spat" then
    match args with
    | [k; f] => do k <- parse_dec k; do p <- parse_x f;
                Some (opt_field (fun '(h, t) => prefix_view p h ++ 44 :: suffix_view p t) (split_at p k))
    | _ => None
    end
  else None.

(* ================================================================== suite prefix ===== *)

Definition outcome_bool (o : outcome bool) : str :=
  match o with Ret b => bool_field b | Panic => s2b "panic" | OutOfFuel => s2b "fuel" end.

(* pfx x<p> x<q> -> sw<0|1> sp<view|-> ew<0|1> ss<view|-> ix<view> cc x<concat> *)
Definition run_prefix (op : str) (args : list str) : option str :=
  if is_op op "pfx" then
    match args with
    | [f; g] =>
        do p <- parse_x f; do q <- parse_x g;
        Some (out [s2b "sw" ++ outcome_bool (p_starts_with p q);
                   s2b "sp" ++ opt_field (suffix_view p) (p_strip_prefix p q);
                   s2b "ew" ++ bool_field (p_ends_with p q);
                   s2b "ss" ++ opt_field (prefix_view p) (p_strip_suffix p q);
                   s2b "ix" ++ prefix_view p (intersection p q);
                   s2b "cc"; xfield (concat_ptr p q)])
    | _ => None
    end
  else None.

(* ================================================================== suite buf ===== *)

Definition COLON : N := 58.

Definition ret_tok (o : option str) : str :=
  match o with Some t => s2b "s:" ++ xfield t | None => s2b "n" end.

(* one mutator applied to the text; result (new text, printed return value) *)
Definition buf_step (p : str) (opf : str) : option (str * str) :=
  match split_on COLON opf with
  | [o; a] =>
      if is_op o "pf" then do t <- parse_x a; Some (push_front p (ttext (token_new false t)), s2b "u")
      else if is_op o "pb" then do t <- parse_x a; Some (push_back p (ttext (token_new false t)), s2b "u")
      else if is_op o "pfe" then do t <- parse_x a; Some (push_front p t, s2b "u")   (* a valid pre-encoded token *)
      else if is_op o "pbe" then do t <- parse_x a; Some (push_back p t, s2b "u")
      else if is_op o "ap" then do q <- parse_x a; Some (append p q, s2b "u")
      else None
  | [o] =>
      if is_op o "of" then
        match pop_front p with
        | Ret (p', r) => Some (p', ret_tok r)
        | Panic => Some (p, s2b "panic")
        | OutOfFuel => Some (p, s2b "fuel")
        end
      else if is_op o "ob" then let '(p', r) := pop_back p in Some (p', ret_tok r)
      else if is_op o "cl" then Some (clear p, s2b "u")
      else None
  | [o; i; a] =>
      if is_op o "rp" then
        do i <- parse_dec i; do t <- parse_x a;
        let '(p', r) := replace_tok p i (ttext (token_new false t)) in
        Some (p', match r with
                  | ReplOk old => s2b "ok:" ++ opt_field xfield old
                  | ReplErr ix c => s2b "err:" ++ dec_of_N ix ++ COLON :: dec_of_N c
                  end)
      else None
  | _ => None
  end.

Fixpoint buf_run (p : str) (ops : list str) : option (list str) :=
  match ops with
  | [] => Some []
  | o :: r => do (p', ret) <- buf_step p o; do rest <- buf_run p' r; Some ((xfield p' ++ 47 :: ret) :: rest)
  end.

(* buf x<start> <op> <op> ...  -> x<text>/<ret> per step
   ops: pf:x<raw> pb:x<raw> pfe:x<enc> pbe:x<enc> of ob ap:x<ptr> rp:<idx>:x<raw> cl *)
Definition run_buf (op : str) (args : list str) : option str :=
  if is_op op "buf" then
    match args with
    | f :: ops => do p <- parse_x f; do r <- buf_run p ops; Some (out r)
    | _ => None
    end
  else None.

(* ================================================================== suite index ===== *)

Definition print_oob (r : result N (N * N)) : str :=
  match r with
  | Ok n => s2b "ok:" ++ dec_of_N n
  | Err (l, i) => s2b "err:" ++ dec_of_N l ++ COLON :: dec_of_N i
  end.

Definition pie_fields (source : str) (e : parse_index_error) : list str :=
  match e with
  | LeadingZeros => [s2b "lz"]
  | InvalidCharacter off =>
      [s2b "ic"; dec_of_N off;
       match invalid_char source off with Ret b => dec_of_N b | Panic => s2b "panic" | OutOfFuel => s2b "fuel" end]
  | InvalidInteger IntEmpty => [s2b "ii"; s2b "empty"]
  | InvalidInteger IntPosOverflow => [s2b "ii"; s2b "overflow"]
  end.

Definition parse_index_field (f : str) : option index :=
  if is_op f "next" then Some Next
  else match f with
       | 110 :: d => option_map Num (parse_dec d)
       | _ => None
       end.

(* idx x<s>            -> ok next x2d | ok num <n> x<display> | err lz | err ic <off> <byte> | err ii empty|overflow
   flen n<k>|next <len> -> fl<ok:n|err:l:i> fi<..> fu<n> *)
Definition run_index (op : str) (args : list str) : option str :=
  if is_op op "idx" then
    match args with
    | [f] => do s <- parse_x f;
             Some (out match index_from_str s with
                       | Ok Next => [s2b "ok"; s2b "next"; xfield (index_display Next)]
                       | Ok (Num n) => [s2b "ok"; s2b "num"; dec_of_N n; xfield (index_display (Num n))]
                       | Err e => s2b "err" :: pie_fields s e
                       end)
    | _ => None
    end
  else if is_op op "flen" then
    match args with
    | [i; l] => do i <- parse_index_field i; do l <- parse_dec l;
                Some (out [s2b "fl" ++ print_oob (for_len i l); s2b "fi" ++ print_oob (for_len_incl i l);
                           s2b "fu" ++ dec_of_N (for_len_unchecked i l)])
    | _ => None
    end
  else None.

(* ================================================================== suite tree ===== *)

Definition parse_backend (f : str) : option backend :=
  if is_op f "json" then Some Json else if is_op f "toml" then Some Toml else None.

Definition label_fields (o : option (N * N)) : list str :=
  match o with
  | Some (a, b) => [s2b "label"; dec_of_N a; dec_of_N b]
  | None => [s2b "label"; s2b "none"]
  end.

Definition rerr_fields (ptr : str) (e : resolve_error) : list str :=
  (match e with
   | RFailedToParseIndex p o src => [s2b "err"; s2b "fpi"; dec_of_N p; dec_of_N o] ++ pie_fields [] src
   | ROutOfBounds p o l i => [s2b "err"; s2b "oob"; dec_of_N p; dec_of_N o; dec_of_N l; dec_of_N i]
   | RNotFound p o => [s2b "err"; s2b "nf"; dec_of_N p; dec_of_N o]
   | RUnreachable p o => [s2b "err"; s2b "unr"; dec_of_N p; dec_of_N o]
   end) ++ label_fields (walk_label (re_position e) (re_offset e) ptr).

Definition aerr_fields (ptr : str) (e : assign_error) : list str :=
  (match e with
   | AFailedToParseIndex p o src => [s2b "err"; s2b "fpi"; dec_of_N p; dec_of_N o] ++ pie_fields [] src
   | AOutOfBounds p o l i => [s2b "err"; s2b "oob"; dec_of_N p; dec_of_N o; dec_of_N l; dec_of_N i]
   end) ++ label_fields (walk_label (ae_position e) (ae_offset e) ptr).

Definition panic_fields : list str := [s2b "panic"].
Definition fuel_fields : list str := [s2b "fuel"].

(* the `ic` payload's offending byte is taken from the token text, which the error value carries
   as `source`; for the tree suites only kind and offset are printed (the byte needs the token) *)
Definition pie_fields_tok (e : parse_index_error) : list str :=
  match e with
  | LeadingZeros => [s2b "lz"]
  | InvalidCharacter off => [s2b "ic"; dec_of_N off]
  | InvalidInteger IntEmpty => [s2b "ii"; s2b "empty"]
  | InvalidInteger IntPosOverflow => [s2b "ii"; s2b "overflow"]
  end.

Definition rerr_fields' (ptr : str) (e : resolve_error) : list str :=
  (match e with
   | RFailedToParseIndex p o src => [s2b "err"; s2b "fpi"; dec_of_N p; dec_of_N o] ++ pie_fields_tok src
   | ROutOfBounds p o l i => [s2b "err"; s2b "oob"; dec_of_N p; dec_of_N o; dec_of_N l; dec_of_N i]
   | RNotFound p o => [s2b "err"; s2b "nf"; dec_of_N p; dec_of_N o]
   | RUnreachable p o => [s2b "err"; s2b "unr"; dec_of_N p; dec_of_N o]
   end) ++ label_fields (walk_label (re_position e) (re_offset e) ptr).

Definition aerr_fields' (ptr : str) (e : assign_error) : list str :=
  (match e with
   | AFailedToParseIndex p o src => [s2b "err"; s2b "fpi"; dec_of_N p; dec_of_N o] ++ pie_fields_tok src
   | AOutOfBounds p o l i => [s2b "err"; s2b "oob"; dec_of_N p; dec_of_N o; dec_of_N l; dec_of_N i]
   end) ++ label_fields (walk_label (ae_position e) (ae_offset e) ptr).

Definition resolve_fields (ptr : str) (r : outcome (result (list sel * value) resolve_error)) : list str :=
  match r with
  | Ret (Ok (path, v)) => [s2b "ok"; path_field path] ++ print_value v
  | Ret (Err e) => rerr_fields' ptr e
  | Panic => panic_fields
  | OutOfFuel => fuel_fields
  end.

Definition assign_fields (ptr : str) (r : outcome (value * result (option value) assign_error)) : list str :=
  match r with
  | Ret (d', Ok rep) =>
      [s2b "ok"] ++ match rep with Some o => s2b "some" :: print_value o | None => [s2b "none"] end
      ++ [s2b "doc"] ++ print_value d'
  | Ret (d', Err e) => aerr_fields' ptr e ++ [s2b "doc"] ++ print_value d'
  | Panic => panic_fields
  | OutOfFuel => fuel_fields
  end.

Definition delete_fields (r : outcome (value * option value)) : list str :=
  match r with
  | Ret (d', rep) =>
      match rep with Some o => s2b "some" :: print_value o | None => [s2b "none"] end
      ++ [s2b "doc"] ++ print_value d'
  | Panic => panic_fields
  | OutOfFuel => fuel_fields
  end.

Definition write_fields (ptr : str) (r : outcome (result value resolve_error)) : list str :=
  match r with
  | Ret (Ok d') => [s2b "ok"; s2b "doc"] ++ print_value d'
  | Ret (Err e) => rerr_fields' ptr e
  | Panic => panic_fields
  | OutOfFuel => fuel_fields
  end.

(* one tree operation; returns the printed result and the document afterwards *)
Definition tree_op (be : backend) (o : str) (fs : list str) (d : value) : option (list str * value * list str) :=
  if is_op o "R" || is_op o "M" then        (* resolve / resolve_mut *)
    match fs with
    | f :: rest => do p <- parse_x f; Some (resolve_fields p (resolve p d), d, rest)
    | _ => None
    end
  else if is_op o "A" then                 (* assign *)
    match fs with
    | f :: rest =>
        do p <- parse_x f; do (src, rest') <- parse_value_fields rest;
        let r := assign p d src in
        Some (assign_fields p r, match r with Ret (d', _) => d' | _ => d end, rest')
    | _ => None
    end
  else if is_op o "D" then                 (* delete *)
    match fs with
    | f :: rest =>
        do p <- parse_x f;
        let r := delete be p d in
        Some (delete_fields r, match r with Ret (d', _) => d' | _ => d end, rest)
    | _ => None
    end
  else if is_op o "N" then                 (* every node resolves from the pointer spelled from its path *)
    let ps := all_paths d in
    Some ([s2b "nodes"; dec_of_nat (length ps); s2b "ok"; dec_of_nat (length (filter (node_addressable d) ps))], d, fs)
  else if is_op o "W" then                 (* *resolve_mut(p) = v *)
    match fs with
    | f :: rest =>
        do p <- parse_x f; do (src, rest') <- parse_value_fields rest;
        let r := write_through p d src in
        Some (write_fields p r, match r with Ret (Ok d') => d' | _ => d end, rest')
    | _ => None
    end
  else None.

Fixpoint hist_run (fuel : nat) (be : backend) (d : value) (fs : list str) : option (list str) :=
  match fuel with
  | O => None
  | S fuel' =>
      match fs with
      | [] => Some []
      | o :: rest =>
          do (res, d', rest') <- tree_op be o rest d;
          match rest' with
          | [] => Some res
          | sep :: rest'' =>
              if is_op sep ";" then do more <- hist_run fuel' be d' rest''; Some (res ++ s2b ";" :: more)
              else None
          end
      end
  end.

(* tree <json|toml> <doc> <op> ...          one operation
   hist <json|toml> <doc> <op> ... ; <op> ... ; ...     a history, results joined by ";"
     ops:  R x<ptr> | M x<ptr> | A x<ptr> <value> | D x<ptr> | W x<ptr> <value>
   results: R/M: ok P<path> <value> | err <kind> <pos> <off> [payload] label <o> <l>
            A:   ok some <old>|none doc <doc>  | err ... doc <doc>
            D:   some <old>|none doc <doc>
            W:   ok doc <doc> | err ...          | panic *)
Definition run_tree (op : str) (args : list str) : option str :=
  if is_op op "tree" || is_op op "hist" then
    match args with
    | b :: rest =>
        do be <- parse_backend b; do (d, rest') <- parse_value_fields rest;
        do r <- hist_run (S (length rest')) be d rest'; Some (out r)
    | _ => None
    end
  else None.

(* ================================================================== suite cmp / conv ===== *)

Definition cmp_name (c : comparison) : str :=
  match c with Lt => s2b "lt" | Eq => s2b "eq" | Gt => s2b "gt" end.

(* cmp x<a> x<b>  -> <eq:0|1> <lt|eq|gt>          (what comparing the texts gives)
   conv x<s>      -> ok x<s> | rej               (every conversion / serde round trip keeps the text)
   tint <dec>     -> x<decimal spelling>          (Token::from(integer)) *)
Definition run_cmp (op : str) (args : list str) : option str :=
  if is_op op "cmp" then
    match args with
    | [f; g] => do a <- parse_x f; do b <- parse_x g; Some (out [bool_field (str_eqb a b); cmp_name (str_cmp a b)])
    | _ => None
    end
  else if is_op op "conv" then
    match args with
    | [f] => do s <- parse_x f;
             Some (match validate s with None => out [s2b "ok"; xfield s] | Some _ => s2b "rej" end)
    | _ => None
    end
  else if is_op op "tint" then
    match args with
    | [f] => do z <- parse_Z f; Some (xfield (dec_of_Z z))
    | _ => None
    end
  else None.

(* ================================================================== suite alloc ===== *)

(* alloc x<text> x<other>  -> zero0 tn<0|1> td<0|1> ed<0|1|->
     zero0: every documented zero-copy operation performed 0 allocations
     tn: Token::new(text) allocates;  td: decoded() of that token allocates;
     ed: decoded() of from_encoded(text) allocates ("-" if text is not a valid token) *)
Definition run_alloc (op : str) (args : list str) : option str :=
  if is_op op "alloc" then
    match args with
    | [f; g] =>
        do s <- parse_x f; do q <- parse_x g;
        let t := token_new false s in
        Some (out [s2b "zero0";
                   s2b "tn" ++ bool_field (alloc_token_new s);
                   s2b "td" ++ bool_field (alloc_decoded (ttext t));
                   s2b "ed" ++ match from_encoded s with
                               | None => bool_field (alloc_decoded s)
                               | Some _ => none_field
                               end])
    | _ => None
    end
  else None.

(* ================================================================== dispatch ===== *)

Fixpoint first_some {A} (l : list (option A)) : option A :=
  match l with
  | [] => None
  | Some a :: _ => Some a
  | None :: r => first_some r
  end.

Definition run_line (line : str) : str :=
  match fields line with
  | op :: args =>
      match first_some [run_token op args; run_parse op args; run_tokens op args; run_slice op args;
                        run_prefix op args; run_buf op args; run_index op args; run_tree op args;
                        run_cmp op args; run_alloc op args] with
      | Some r => r
      | None => bad_case
      end
  | [] => bad_case
  end.
