(* Dec.v -- decimal spelling of naturals (`usize::to_string`, digit strings).  Definitions only. *)
From JP Require Export Bytes.

(* ---- decimal -------------------------------------------------------------------- *)

Fixpoint uint_bytes (d : Decimal.uint) : str :=
  match d with
  | Decimal.Nil => []
  | Decimal.D0 r => 48 :: uint_bytes r
  | Decimal.D1 r => 49 :: uint_bytes r
  | Decimal.D2 r => 50 :: uint_bytes r
  | Decimal.D3 r => 51 :: uint_bytes r
  | Decimal.D4 r => 52 :: uint_bytes r
  | Decimal.D5 r => 53 :: uint_bytes r
  | Decimal.D6 r => 54 :: uint_bytes r
  | Decimal.D7 r => 55 :: uint_bytes r
  | Decimal.D8 r => 56 :: uint_bytes r
  | Decimal.D9 r => 57 :: uint_bytes r
  end.

(* `n.to_string()` for an unsigned integer *)
Definition dec_of_N (n : N) : str := uint_bytes (N.to_uint n).

Definition is_digit (b : N) : bool := (48 <=? b) && (b <=? 57).

(* value of a digit string, most significant first (no validation beyond digits) *)
Fixpoint dec_acc (acc : N) (s : str) : option N :=
  match s with
  | [] => Some acc
  | b :: r => if is_digit b then dec_acc (10 * acc + (b - 48)) r else None
  end.

Definition parse_dec (f : str) : option N :=
  match f with
  | [] => None
  | _ => dec_acc 0 f
  end.


