(* Utf8.v -- well-formed UTF-8 byte sequences (Unicode Standard, Table 3-7), which is exactly
   the validity invariant of Rust's `str` / `String`.

   The crate slices strings and rebuilds them with `from_utf8_unchecked` / `new_unchecked`,
   relying on "we only cut at / insert / replace ASCII bytes".  Proofs/Utf8Proofs.v makes that a
   theorem about the model functions.

   Definitions only (plus trivial computation lemmas); proofs live in Proofs/Utf8Proofs.v. *)

From JP Require Export Bytes.

(* lo <= b <= hi *)
Definition in_range (lo hi b : N) : bool := (lo <=? b) && (b <=? hi).

(* 00..7F *)
Definition is_ascii (b : N) : bool := b <? 128.

(* a continuation byte 80..BF *)
Definition is_cont (b : N) : bool := in_range 128 191 b.

(* number of bytes of the sequence a lead byte introduces; 0 = not a lead byte
   (80..BF continuation, C0 C1 overlong, F5..FF beyond U+10FFFF, or not a byte at all) *)
Definition lead_width (b : N) : nat :=
  if b <? 128 then 1                       (* 00..7F *)
  else if in_range 194 223 b then 2        (* C2..DF *)
  else if in_range 224 239 b then 3        (* E0..EF *)
  else if in_range 240 244 b then 4        (* F0..F4 *)
  else 0.

(* the permitted second byte after lead byte b0 (Table 3-7: the four restricted rows, else 80..BF) *)
Definition second_ok (b0 b1 : N) : bool :=
  if b0 =? 224 then in_range 160 191 b1        (* E0 A0..BF : no overlong 3-byte forms *)
  else if b0 =? 237 then in_range 128 159 b1   (* ED 80..9F : no surrogates D800..DFFF *)
  else if b0 =? 240 then in_range 144 191 b1   (* F0 90..BF : no overlong 4-byte forms *)
  else if b0 =? 244 then in_range 128 143 b1   (* F4 80..8F : nothing above U+10FFFF *)
  else in_range 128 191 b1.

(*   00..7F
   | C2..DF 80..BF
   | E0 A0..BF 80..BF | E1..EC 80..BF 80..BF | ED 80..9F 80..BF | EE..EF 80..BF 80..BF
   | F0 90..BF 80..BF 80..BF | F1..F3 80..BF 80..BF 80..BF | F4 80..8F 80..BF 80..BF        *)
Fixpoint utf8_valid (s : str) : bool :=
  match s with
  | [] => true
  | b0 :: r0 =>
      match lead_width b0 with
      | 1%nat => utf8_valid r0
      | 2%nat =>
          match r0 with
          | b1 :: r1 => second_ok b0 b1 && utf8_valid r1
          | _ => false
          end
      | 3%nat =>
          match r0 with
          | b1 :: b2 :: r2 => second_ok b0 b1 && is_cont b2 && utf8_valid r2
          | _ => false
          end
      | 4%nat =>
          match r0 with
          | b1 :: b2 :: b3 :: r3 => second_ok b0 b1 && is_cont b2 && is_cont b3 && utf8_valid r3
          | _ => false
          end
      | _ => false
      end
  end.

(* Table 3-7 once more, row by row, as an inductive predicate; Proofs/Utf8Proofs.v shows
   [utf8_valid s = true <-> utf8_table s], so either can be read as the definition *)
Inductive utf8_table : str -> Prop :=
| ut_nil : utf8_table []
| ut_ascii b r :                                                   (* 00..7F *)
    b <= 127 -> utf8_table r -> utf8_table (b :: r)
| ut_2 b0 b1 r :                                                   (* C2..DF 80..BF *)
    194 <= b0 <= 223 -> 128 <= b1 <= 191 -> utf8_table r -> utf8_table (b0 :: b1 :: r)
| ut_3_E0 b1 b2 r :                                                (* E0 A0..BF 80..BF *)
    160 <= b1 <= 191 -> 128 <= b2 <= 191 -> utf8_table r -> utf8_table (224 :: b1 :: b2 :: r)
| ut_3_E1_EC b0 b1 b2 r :                                          (* E1..EC 80..BF 80..BF *)
    225 <= b0 <= 236 -> 128 <= b1 <= 191 -> 128 <= b2 <= 191 -> utf8_table r ->
    utf8_table (b0 :: b1 :: b2 :: r)
| ut_3_ED b1 b2 r :                                                (* ED 80..9F 80..BF *)
    128 <= b1 <= 159 -> 128 <= b2 <= 191 -> utf8_table r -> utf8_table (237 :: b1 :: b2 :: r)
| ut_3_EE_EF b0 b1 b2 r :                                          (* EE..EF 80..BF 80..BF *)
    238 <= b0 <= 239 -> 128 <= b1 <= 191 -> 128 <= b2 <= 191 -> utf8_table r ->
    utf8_table (b0 :: b1 :: b2 :: r)
| ut_4_F0 b1 b2 b3 r :                                             (* F0 90..BF 80..BF 80..BF *)
    144 <= b1 <= 191 -> 128 <= b2 <= 191 -> 128 <= b3 <= 191 -> utf8_table r ->
    utf8_table (240 :: b1 :: b2 :: b3 :: r)
| ut_4_F1_F3 b0 b1 b2 b3 r :                                       (* F1..F3 80..BF 80..BF 80..BF *)
    241 <= b0 <= 243 -> 128 <= b1 <= 191 -> 128 <= b2 <= 191 -> 128 <= b3 <= 191 -> utf8_table r ->
    utf8_table (b0 :: b1 :: b2 :: b3 :: r)
| ut_4_F4 b1 b2 b3 r :                                             (* F4 80..8F 80..BF 80..BF *)
    128 <= b1 <= 143 -> 128 <= b2 <= 191 -> 128 <= b3 <= 191 -> utf8_table r ->
    utf8_table (244 :: b1 :: b2 :: b3 :: r).

(* byte offset k of s lies on a character boundary (`str::is_char_boundary`): both sides are strs *)
Definition char_boundary (s : str) (k : nat) : Prop :=
  utf8_valid (firstn k s) = true /\ utf8_valid (skipn k s) = true.

(* number of characters of a text (`s.chars().count()`): every byte except the continuation bytes
   starts one *)
Definition char_count (s : str) : nat := length (filter (fun b => negb (is_cont b)) s).

(* the text is empty or begins with an ASCII byte (every pointer text does: it begins with '/') *)
Definition ascii_head (s : str) : Prop :=
  match s with
  | [] => True
  | b :: _ => b < 128
  end.

(* ---- trivial computation lemmas ------------------------------------------------------------ *)

Lemma utf8_valid_nil : utf8_valid [] = true.
Proof. reflexivity. Qed.

Lemma is_ascii_SLASH : is_ascii SLASH = true. Proof. reflexivity. Qed.
Lemma is_ascii_TILDE : is_ascii TILDE = true. Proof. reflexivity. Qed.
Lemma is_ascii_ZERO : is_ascii ZERO = true. Proof. reflexivity. Qed.
Lemma is_ascii_ONE : is_ascii ONE = true. Proof. reflexivity. Qed.
Lemma is_ascii_DASH : is_ascii DASH = true. Proof. reflexivity. Qed.
