(* Proto.v -- the case protocol shared by both evaluation routes (extracted OCaml
   runner, and `Eval vm_compute` inside Coq).  One case per line:

     <op> <field> <field> ...            fields separated by one space

   field kinds:  x<hex>   a byte string (two lowercase hex digits per byte; "x" = empty)
                 <dec>    a natural number in decimal
   All parsing and printing is Gallina so the two routes share it. *)

From Coq Require Import Ascii String.
From JP Require Export Bytes Dec.

Definition SP : N := 32.

(* ASCII literal -> bytes *)
Fixpoint s2b (s : string) : str :=
  match s with
  | EmptyString => []
  | String a r => N_of_ascii a :: s2b r
  end.

Arguments s2b _%string.

(* ---- hex ---------------------------------------------------------------------- *)

Definition hex_digit (n : N) : N := if n <? 10 then 48 + n else 87 + n.  (* 0-9 a-f *)

Fixpoint hex_encode (s : str) : str :=
  match s with
  | [] => []
  | b :: r => hex_digit (b / 16) :: hex_digit (b mod 16) :: hex_encode r
  end.

Definition hex_val (c : N) : option N :=
  if (48 <=? c) && (c <=? 57) then Some (c - 48)
  else if (97 <=? c) && (c <=? 102) then Some (c - 87)
  else None.

Fixpoint hex_decode (s : str) : option str :=
  match s with
  | [] => Some []
  | h :: l :: r =>
      match hex_val h, hex_val l, hex_decode r with
      | Some a, Some b, Some t => Some (16 * a + b :: t)
      | _, _, _ => None
      end
  | _ => None
  end.

(* field "x<hex>" *)
Definition xfield (s : str) : str := 120 :: hex_encode s.

Definition parse_x (f : str) : option str :=
  match f with
  | 120 :: h => hex_decode h
  | _ => None
  end.

Definition dec_of_nat (n : nat) : str := dec_of_N (N.of_nat n).

(* ---- lines ---------------------------------------------------------------------- *)

Definition fields (line : str) : list str := split_on SP line.

Fixpoint join (sep : N) (l : list str) : str :=
  match l with
  | [] => []
  | [a] => a
  | a :: r => a ++ sep :: join sep r
  end.

Definition out (l : list str) : str := join SP l.

Definition bad_case : str := s2b "model-cannot-parse-case".
