(* C16 -- array-index tokens (src/index.rs).
   A string parses as an array index exactly when it is "-" (the next position), "0", or a
   non-empty run of ASCII digits without a leading zero that fits in usize; Display of the
   parsed index gives the string back.  A rejection is truthful: leading-zeros only for a
   multi-character string starting with '0', invalid-character with the offset of the first
   non-digit (and char() returns that character without panicking), invalid-integer only for
   empty or overflowing digit strings.  for_len(n) accepts exactly numeric i < n,
   for_len_incl(n) accepts i <= n and maps '-' to n, for_len_unchecked maps '-' to n and i to
   i, and an out-of-bounds error reports the n and i involved.

   Theorems only; proofs are in Proofs/IndexProofs.v.  [index_from_str], [invalid_char],
   [for_len], [for_len_incl], [for_len_unchecked], [index_display] are the transliterations of
   src/index.rs in Model/Index.v; [dec_of_N] is usize::to_string, [dec_acc 0] the value of a
   digit string (Dec.v).  Token::to_index, Token::is_next and all TryFrom impls are, in the
   Rust source, literally Index::from_str(token.encoded()); the model (Model/Tree.v) calls
   [index_from_str] on the encoded token text directly, so they have no separate definition.

   [canonical_dec s] := s <> [] /\ forallb is_digit s = true /\ ~ leading_zeros s
   [leading_zeros s] := exists r, s = ZERO :: r /\ r <> []        (see C16_canonical_meaning) *)
From JP Require Import Bytes Dec Model.Index Proofs.IndexProofs.

(* ---- decimal bridge ---------------------------------------------------------------- *)

(* parsing the spelling of n gives n back *)
Theorem C16_dec_parse_spelling : forall n : N, dec_acc 0 (dec_of_N n) = Some n.
Proof. exact dec_acc_dec_of_N. Qed.
Print Assumptions C16_dec_parse_spelling.

(* a spelling is non-empty, all digits, and starts with '0' only if it is "0" spelling 0 *)
Theorem C16_dec_spelling_shape : forall n : N,
  dec_of_N n <> [] /\ forallb is_digit (dec_of_N n) = true /\
  (forall r, dec_of_N n = ZERO :: r -> r = [] /\ n = 0).
Proof.
  intros n. split; [exact (dec_of_N_nonempty n)|].
  split; [exact (dec_of_N_digits n)|exact (dec_of_N_leading_zero n)].
Qed.
Print Assumptions C16_dec_spelling_shape.

Theorem C16_dec_zero : dec_of_N 0 = [ZERO].
Proof. exact dec_of_N_0. Qed.
Print Assumptions C16_dec_zero.

(* what "canonical digit string" means *)
Theorem C16_canonical_meaning : forall s : str,
  canonical_dec s <->
  s = [ZERO] \/ (exists b r, s = b :: r /\ b <> ZERO /\ forallb is_digit (b :: r) = true).
Proof. exact canonical_dec_alt. Qed.
Print Assumptions C16_canonical_meaning.

(* canonical spellings are unique: a canonical digit string of value n is the spelling of n *)
Theorem C16_dec_spelling_unique : forall (s : str) (n : N),
  canonical_dec s -> dec_acc 0 s = Some n -> dec_of_N n = s.
Proof. exact dec_of_N_unique. Qed.
Print Assumptions C16_dec_spelling_unique.

Theorem C16_dec_spelling_iff : forall (s : str) (n : N),
  dec_of_N n = s <-> canonical_dec s /\ dec_acc 0 s = Some n.
Proof. exact canonical_dec_iff. Qed.
Print Assumptions C16_dec_spelling_iff.

Example C16_ex_unique : canonical_dec [49;50;48] /\ dec_acc 0 [49;50;48] = Some 120 /\ dec_of_N 120 = [49;50;48].
Proof.
  split; [apply canonical_dec_alt; right; exists 49, [50;48]; repeat split; discriminate|].
  split; vm_compute; reflexivity.
Qed.
Example C16_ex_not_canonical : ~ canonical_dec [48;49] /\ dec_acc 0 [48;49] = Some 1 /\ dec_of_N 1 = [49].
Proof.
  split; [intros (_ & _ & H); apply H; exists [49]; split; [reflexivity|discriminate]|].
  split; vm_compute; reflexivity.
Qed.

(* ---- exact acceptance -------------------------------------------------------------- *)

Theorem C16_accept_exact : forall s : str,
  (index_from_str s = Ok Next <-> s = [DASH]) /\
  (forall n, index_from_str s = Ok (Num n) <-> n <= USIZE_MAX /\ s = dec_of_N n).
Proof. intros s. split; [exact (index_from_str_next s)|exact (index_from_str_num s)]. Qed.
Print Assumptions C16_accept_exact.

(* the same, syntactically: "-", or a canonical digit string whose value fits in usize *)
Theorem C16_accept_exact_syntactic : forall s : str,
  (exists i, index_from_str s = Ok i) <->
  s = [DASH] \/ (canonical_dec s /\ exists v, dec_acc 0 s = Some v /\ v <= USIZE_MAX).
Proof. exact index_from_str_ok_iff. Qed.
Print Assumptions C16_accept_exact_syntactic.

(* Display then parse is the identity on Index values (Num carries a usize) ... *)
Theorem C16_display_roundtrip :
  index_from_str (index_display Next) = Ok Next /\
  (forall n, n <= USIZE_MAX -> index_from_str (index_display (Num n)) = Ok (Num n)).
Proof.
  split; [exact (index_display_roundtrip Next I)|exact (fun n H => index_display_roundtrip (Num n) H)].
Qed.
Print Assumptions C16_display_roundtrip.

(* ... and parse then Display gives the string back (and the parsed number is a usize) *)
Theorem C16_parse_display_roundtrip : forall (s : str) (i : index),
  index_from_str s = Ok i ->
  index_display i = s /\ match i with Next => True | Num n => n <= USIZE_MAX end.
Proof.
  intros s i H. split; [exact (index_from_str_display s i H)|exact (index_from_str_in_range s i H)].
Qed.
Print Assumptions C16_parse_display_roundtrip.

Example C16_ex_max : index_from_str [49;56;52;52;54;55;52;52;48;55;51;55;48;57;53;53;49;54;49;53] = Ok (Num USIZE_MAX).
Proof. vm_compute. reflexivity. Qed.
Example C16_ex_max_display : index_display (Num USIZE_MAX) = [49;56;52;52;54;55;52;52;48;55;51;55;48;57;53;53;49;54;49;53].
Proof. vm_compute. reflexivity. Qed.
Example C16_ex_next : index_from_str [45] = Ok Next.
Proof. vm_compute. reflexivity. Qed.
Example C16_ex_zero : index_from_str [48] = Ok (Num 0).
Proof. vm_compute. reflexivity. Qed.
Example C16_ex_42 : index_from_str [52;50] = Ok (Num 42) /\ index_display (Num 42) = [52;50].
Proof. vm_compute. split; reflexivity. Qed.

(* ---- truthful rejections ----------------------------------------------------------- *)

Theorem C16_rejections_truthful : forall s : str,
  (index_from_str s = Err LeadingZeros <-> exists r, s = ZERO :: r /\ r <> []) /\
  (forall off, index_from_str s = Err (InvalidCharacter off) <->
     s <> [DASH] /\ ~ (exists r, s = ZERO :: r /\ r <> []) /\
     exists a b r, s = a ++ b :: r /\ forallb is_digit a = true /\ is_digit b = false /\ off = len a) /\
  (index_from_str s = Err (InvalidInteger IntEmpty) <-> s = []) /\
  (index_from_str s = Err (InvalidInteger IntPosOverflow) <->
     canonical_dec s /\ exists v, dec_acc 0 s = Some v /\ USIZE_MAX < v).
Proof.
  intros s. split; [exact (index_from_str_leading_zeros s)|]. split; [exact (index_from_str_invalid_char s)|].
  split; [exact (index_from_str_int_empty s)|exact (index_from_str_int_overflow s)].
Qed.
Print Assumptions C16_rejections_truthful.

(* one statement for every possible result ([index_spec] is the case table above, by match) *)
Theorem C16_result_spec : forall (s : str) (res : result index parse_index_error),
  index_from_str s = res <-> index_spec s res.
Proof. exact index_from_str_spec. Qed.
Print Assumptions C16_result_spec.

(* the cases are exhaustive and mutually exclusive *)
Theorem C16_cases_exhaustive : forall s : str, exists res, index_spec s res.
Proof. exact index_spec_total. Qed.
Print Assumptions C16_cases_exhaustive.

Theorem C16_cases_exclusive : forall (s : str) (r1 r2 : result index parse_index_error),
  index_spec s r1 -> index_spec s r2 -> r1 = r2.
Proof. exact index_spec_functional. Qed.
Print Assumptions C16_cases_exclusive.

(* the first non-digit decomposition is unique, so the reported offset is determined *)
Theorem C16_first_nondigit_unique : forall (a : str) (b : N) (r a' : str) (b' : N) (r' : str),
  a ++ b :: r = a' ++ b' :: r' ->
  forallb is_digit a = true -> is_digit b = false ->
  forallb is_digit a' = true -> is_digit b' = false ->
  a = a' /\ b = b' /\ r = r'.
Proof. exact first_nondigit_unique. Qed.
Print Assumptions C16_first_nondigit_unique.

(* InvalidCharacterError::char() returns the offending byte and never panics *)
Theorem C16_char_no_panic : forall (s : str) (off : N),
  index_from_str s = Err (InvalidCharacter off) ->
  exists a b r, s = a ++ b :: r /\ forallb is_digit a = true /\ is_digit b = false /\
                off = len a /\ invalid_char s off = Ret b.
Proof. exact invalid_char_truthful. Qed.
Print Assumptions C16_char_no_panic.

Example C16_ex_overflow : index_from_str [49;56;52;52;54;55;52;52;48;55;51;55;48;57;53;53;49;54;49;54] = Err (InvalidInteger IntPosOverflow).
Proof. vm_compute. reflexivity. Qed.
Example C16_ex_overflow_long : index_from_str [57;57;57;57;57;57;57;57;57;57;57;57;57;57;57;57;57;57;57;57;57;57;57] = Err (InvalidInteger IntPosOverflow).
Proof. vm_compute. reflexivity. Qed.
Example C16_ex_leading_zeros : index_from_str [48;49] = Err LeadingZeros /\ index_from_str [48;48] = Err LeadingZeros.
Proof. vm_compute. split; reflexivity. Qed.
(* leading zeros wins over invalid character: "0x" *)
Example C16_ex_leading_zeros_first : index_from_str [48;120] = Err LeadingZeros.
Proof. vm_compute. reflexivity. Qed.
Example C16_ex_plus : index_from_str [43;49] = Err (InvalidCharacter 0) /\ invalid_char [43;49] 0 = Ret 43.
Proof. vm_compute. split; reflexivity. Qed.
Example C16_ex_1a : index_from_str [49;97] = Err (InvalidCharacter 1) /\ invalid_char [49;97] 1 = Ret 97.
Proof. vm_compute. split; reflexivity. Qed.
Example C16_ex_minus1 : index_from_str [45;49] = Err (InvalidCharacter 0) /\ invalid_char [45;49] 0 = Ret 45.
Proof. vm_compute. split; reflexivity. Qed.
Example C16_ex_12x3 : index_from_str [49;50;120;51] = Err (InvalidCharacter 2) /\ invalid_char [49;50;120;51] 2 = Ret 120.
Proof. vm_compute. split; reflexivity. Qed.
Example C16_ex_empty : index_from_str [] = Err (InvalidInteger IntEmpty).
Proof. vm_compute. reflexivity. Qed.
(* char() on an offset that was not produced by the parser can panic: the hypothesis matters *)
Example C16_ex_char_panics_elsewhere : invalid_char [49;97] 2 = Panic.
Proof. vm_compute. reflexivity. Qed.

(* ---- bounds ------------------------------------------------------------------------ *)

Theorem C16_bounds : forall (i : index) (l : N),
  (forall k, for_len i l = Ok k <-> exists n, i = Num n /\ n < l /\ k = n) /\
  (forall a b, for_len i l = Err (a, b) -> a = l /\ b = for_len_unchecked i l) /\
  (forall k, for_len_incl i l = Ok k <->
     (i = Next /\ k = l) \/ (exists n, i = Num n /\ n <= l /\ k = n)) /\
  (forall a b, for_len_incl i l = Err (a, b) -> a = l /\ exists n, i = Num n /\ b = n /\ l < n) /\
  for_len_unchecked Next l = l /\
  (forall n, for_len_unchecked (Num n) l = n).
Proof.
  intros i l. split; [exact (for_len_ok i l)|]. split; [exact (for_len_err i l)|].
  split; [exact (for_len_incl_ok i l)|]. split; [exact (for_len_incl_err i l)|].
  split; [exact (for_len_unchecked_next l)|exact (fun n => for_len_unchecked_num n l)].
Qed.
Print Assumptions C16_bounds.

(* exact failure conditions as well *)
Theorem C16_bounds_err_exact : forall (i : index) (l a b : N),
  (for_len i l = Err (a, b) <->
     a = l /\ ((i = Next /\ b = l) \/ (exists n, i = Num n /\ l <= n /\ b = n))) /\
  (for_len_incl i l = Err (a, b) <-> a = l /\ exists n, i = Num n /\ b = n /\ l < n).
Proof. intros i l a b. split; [exact (for_len_err_iff i l a b)|exact (for_len_incl_err_iff i l a b)]. Qed.
Print Assumptions C16_bounds_err_exact.

Example C16_ex_for_len : for_len (Num 2) 3 = Ok 2 /\ for_len (Num 3) 3 = Err (3, 3) /\
  for_len (Num 7) 3 = Err (3, 7) /\ for_len Next 3 = Err (3, 3).
Proof. vm_compute. repeat split; reflexivity. Qed.
Example C16_ex_for_len_incl : for_len_incl (Num 3) 3 = Ok 3 /\ for_len_incl Next 3 = Ok 3 /\
  for_len_incl (Num 4) 3 = Err (3, 4).
Proof. vm_compute. repeat split; reflexivity. Qed.
Example C16_ex_for_len_unchecked : for_len_unchecked (Num 42) 30 = 42 /\ for_len_unchecked Next 30 = 30.
Proof. vm_compute. split; reflexivity. Qed.
