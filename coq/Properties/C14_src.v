(* C14, stated of the SOURCE AS IT IS NOW: the parser and the ParseError accessors
   (pointer_offset, source_offset, complete_offset, offset, invalid_encoding_len, the is_ predicates) are re-translated
   from src/pointer.rs by tools/rs2v.py on every run (Generated/ScanPointer.v). *)
From JP Require Import Bytes Spec GenPrelude Model.Pointer Generated.ScanTypes Generated.ScanPointer
  Proofs.ValidateProofs Proofs.GenEquivBase Proofs.GenEquivPointer.

(* whatever error the regenerated parser returns, read through the regenerated accessors, pinpoints the
   first offence: NoLeadingSlash iff the non-empty input does not start with '/'; otherwise
   complete_offset is the index of the first '~' not followed by '0'/'1', pointer_offset the nearest '/'
   at or before it, source_offset their difference; the label (complete_offset, invalid_encoding_len)
   lies inside the input; none of the accessors panics *)
Theorem C14_src_error_pinpoints : forall (s : str) (e : ParseError),
  gen_validate s = Ret (Err e) ->
  (e = ParseError_NoLeadingSlash /\ (exists b r, s = b :: r /\ b <> SLASH) /\
   gen_ParseError_complete_offset e = Ret 0 /\ gen_ParseError_invalid_encoding_len e s = Ret 0) \/
  (exists a rest co po so l,
     s = a ++ TILDE :: rest /\ escapes_ok a = true /\ bad_follow rest /\
     gen_ParseError_complete_offset e = Ret co /\ co = len a /\
     gen_ParseError_pointer_offset e = Ret po /\ gen_ParseError_offset e = Ret po /\
     nth_N s po = Some SLASH /\ po <= co /\
     gen_ParseError_source_offset e = Ret so /\ so = co - po /\
     no_slash (firstn (N.to_nat (so - 1)) (skipn (S (N.to_nat po)) s)) = true /\
     gen_ParseError_invalid_encoding_len e s = Ret l /\ co + l <= len s /\ (l = 1 \/ l = 2) /\
     gen_ParseError_is_invalid_encoding e = Ret true /\ gen_ParseError_is_no_leading_slash e = Ret false).
Proof. exact gen_parse_error_pinpoints. Qed.
Print Assumptions C14_src_error_pinpoints.

(* each accessor is the model's accessor *)
Theorem C14_src_accessors_are_model : forall (e : ParseError) (subject : str),
  gen_ParseError_pointer_offset e = Ret (pe_pointer_offset (model_pe e)) /\
  gen_ParseError_offset e = Ret (pe_pointer_offset (model_pe e)) /\
  gen_ParseError_source_offset e = Ret (pe_source_offset (model_pe e)) /\
  gen_ParseError_complete_offset e = Ret (pe_complete_offset (model_pe e)) /\
  gen_ParseError_invalid_encoding_len e subject = pe_invalid_encoding_len (model_pe e) subject.
Proof.
  intros e subject.
  exact (conj (gen_pe_pointer_offset_eq e) (conj (gen_pe_offset_eq e) (conj (gen_pe_source_offset_eq e)
        (conj (gen_pe_complete_offset_eq e) (gen_pe_invalid_encoding_len_eq e subject))))).
Qed.
Print Assumptions C14_src_accessors_are_model.

Example C14_src_examples :
  gen_validate [SLASH; 102; 111; 111; SLASH; 98; 97; 114; TILDE] =
    Ret (Err (ParseError_InvalidEncoding 4 (mk_EncodingError 4 InvalidEncoding_Tilde))) /\
  gen_ParseError_complete_offset (ParseError_InvalidEncoding 4 (mk_EncodingError 4 InvalidEncoding_Tilde)) = Ret 8 /\
  gen_ParseError_invalid_encoding_len (ParseError_InvalidEncoding 4 (mk_EncodingError 4 InvalidEncoding_Tilde))
    [SLASH; 102; 111; 111; SLASH; 98; 97; 114; TILDE] = Ret 1.
Proof. vm_compute. repeat split. Qed.

(* Diagnostic::labels for ParseError, re-translated: one label, inside the failed input, starting at the offending byte *)
Theorem C14_src_label_inside : forall (s : str) (e : ParseError),
  gen_validate s = Ret (Err e) ->
  exists o l, gen_ParseError_labels e s = Ret (Some (o, l)) /\ o + l <= len s /\
              gen_ParseError_complete_offset e = Ret o.
Proof. exact gen_parse_error_label_inside. Qed.
Print Assumptions C14_src_label_inside.

From JP Require Import Generated.ScanConv Proofs.GenEquivConv.

(* PointerBuf::parse, re-translated: it accepts exactly the valid texts, and on failure its report holds the parser's own error
   (the one the theorems above describe) together with the ORIGINAL string, unchanged *)
Theorem C14_src_bufparse_report_keeps_error_and_input : forall s : str,
  (valid_ptr s = true -> gen_PointerBuf_parse s = Ret (Ok s)) /\
  (valid_ptr s = false -> exists e, gen_validate s = Ret (Err e) /\ gen_PointerBuf_parse s = Ret (Err (mk_RichParseError e s))).
Proof. exact gen_bufparse_report. Qed.
Print Assumptions C14_src_bufparse_report_keeps_error_and_input.
