(* C05, stated of the SOURCE AS IT IS NOW: the FOUR resolve walks of src/resolve.rs (serde_json / toml x resolve /
   resolve_mut) and the helper `parse_index` are re-translated by tools/rs2v.py on every run (Generated/ScanTree.v).
   The generated walks return the node (`&Value`), the model's [resolve] additionally its selector path: [forget]
   drops the path; the generated error types carry the token text of an InvalidCharacterError, the model's do not:
   [model_res] maps the error through [model_rerr] (both in Proofs/GenEquivTree.v, lifted to outcomes by [omap]). *)
From JP Require Import Bytes Spec Value GenPrelude Model.Pointer Model.Index Model.Tree SpecTree SpecHist
  Generated.ScanTypes GenTreePrelude Generated.ScanTree Proofs.GenEquivBase Proofs.GenEquivPtrOps Proofs.GenEquivTree.

(* the four regenerated walks are the model's resolve, for EVERY document and EVERY pointer text *)
Theorem C05_src_json_resolve_is_model : forall (d : value) (p : str),
  omap model_res (gen_json_resolve d p) = forget (resolve p d).
Proof. exact gen_json_resolve_eq. Qed.
Print Assumptions C05_src_json_resolve_is_model.

Theorem C05_src_toml_resolve_is_model : forall (d : value) (p : str),
  omap model_res (gen_toml_resolve d p) = forget (resolve p d).
Proof. exact gen_toml_resolve_eq. Qed.
Print Assumptions C05_src_toml_resolve_is_model.

Theorem C05_src_toml_resolve_mut_is_model : forall (d : value) (p : str),
  omap model_res (gen_toml_resolve_mut d p) = forget (resolve p d).
Proof. exact gen_toml_resolve_mut_eq. Qed.
Print Assumptions C05_src_toml_resolve_mut_is_model.

(* the JSON resolve_mut copy goes through the shared helper: first against its own transliteration (SpecHist.v) ... *)
Theorem C05_src_json_resolve_mut_is_model_copy : forall (d : value) (p : str),
  omap model_res (gen_json_resolve_mut d p) = forget (json_resolve_mut p d).
Proof. exact gen_json_resolve_mut_eq. Qed.
Print Assumptions C05_src_json_resolve_mut_is_model_copy.

(* ... then against the single model walk *)
Theorem C05_src_json_resolve_mut_is_model : forall (d : value) (p : str),
  omap model_res (gen_json_resolve_mut d p) = forget (resolve p d).
Proof. exact gen_json_resolve_mut_eq_resolve. Qed.
Print Assumptions C05_src_json_resolve_mut_is_model.

(* the helper `parse_index` of the source is the model's *)
Theorem C05_src_parse_index_is_model : forall (t : Token) (n pos off : N),
  exists r, gen_parse_index t n pos off = Ret r /\
            model_res r = parse_index (cow_text (Token_inner t)) n pos off.
Proof. exact gen_parse_index_eq. Qed.
Print Assumptions C05_src_parse_index_is_model.

(* `Token::to_index` (the one primitive of the walks, GenTreePrelude.v) in the model's terms *)
Theorem C05_src_to_index_is_model : forall t : Token,
  match prim_to_index t with
  | Ok i => index_from_str (cow_text (Token_inner t)) = Ok (model_index i)
  | Err e => index_from_str (cow_text (Token_inner t)) = Err (model_pie e)
  end.
Proof. exact prim_to_index_model. Qed.
Print Assumptions C05_src_to_index_is_model.

(* totality: on a valid pointer no walk of the source panics (`&v[idx]` is in range) or exhausts its fuel *)
Theorem C05_src_walks_total : forall (d : value) (p : str), valid_ptr p = true ->
  (exists r, gen_json_resolve d p = Ret r) /\
  (exists r, gen_toml_resolve d p = Ret r) /\
  (exists r, gen_json_resolve_mut d p = Ret r) /\
  (exists r, gen_toml_resolve_mut d p = Ret r).
Proof. exact gen_walks_total. Qed.
Print Assumptions C05_src_walks_total.

Theorem C05_src_walks_no_panic : forall (d : value) (p : str), valid_ptr p = true ->
  (gen_json_resolve d p <> Panic /\ gen_json_resolve d p <> OutOfFuel) /\
  (gen_toml_resolve d p <> Panic /\ gen_toml_resolve d p <> OutOfFuel) /\
  (gen_json_resolve_mut d p <> Panic /\ gen_json_resolve_mut d p <> OutOfFuel) /\
  (gen_toml_resolve_mut d p <> Panic /\ gen_toml_resolve_mut d p <> OutOfFuel).
Proof. exact gen_walks_no_panic. Qed.
Print Assumptions C05_src_walks_no_panic.

(* on a valid pointer the walks of the source ARE the token-by-token specification walk of SpecTree.v *)
Theorem C05_src_walks_are_spec_walk : forall (d : value) (p : str), valid_ptr p = true ->
  omap model_res (gen_json_resolve d p) = Ret (forget_path (spec_resolve (tokens p) d 0 0)) /\
  omap model_res (gen_toml_resolve d p) = Ret (forget_path (spec_resolve (tokens p) d 0 0)) /\
  omap model_res (gen_json_resolve_mut d p) = Ret (forget_path (spec_resolve (tokens p) d 0 0)) /\
  omap model_res (gen_toml_resolve_mut d p) = Ret (forget_path (spec_resolve (tokens p) d 0 0)).
Proof. exact gen_walks_refine. Qed.
Print Assumptions C05_src_walks_are_spec_walk.

(* D = {"a": [1, 2]}: "/a/1" reaches 2 through all four walks, "/a/2" and "/a/-" are out of bounds, "/a/01" and
   "/a/1x" do not parse (the latter error carries the token text), "/b" is not found, "/a/0/x" is unreachable *)
Example C05_src_examples :
  let d := Obj [([97], Arr [VInt 1; VInt 2])] in
  gen_json_resolve d [47;97;47;49] = Ret (Ok (VInt 2)) /\
  gen_toml_resolve d [47;97;47;49] = Ret (Ok (VInt 2)) /\
  gen_json_resolve_mut d [47;97;47;49] = Ret (Ok (VInt 2)) /\
  gen_toml_resolve_mut d [47;97;47;49] = Ret (Ok (VInt 2)) /\
  gen_json_resolve d [47;97;47;50] = Ret (Err (ResolveError_OutOfBounds 1 2 (mk_OutOfBoundsError 2 2))) /\
  gen_toml_resolve d [47;97;47;50] = Ret (Err (ResolveError_OutOfBounds 1 2 (mk_OutOfBoundsError 2 2))) /\
  gen_json_resolve_mut d [47;97;47;50] = Ret (Err (ResolveError_OutOfBounds 1 2 (mk_OutOfBoundsError 2 2))) /\
  gen_toml_resolve_mut d [47;97;47;50] = Ret (Err (ResolveError_OutOfBounds 1 2 (mk_OutOfBoundsError 2 2))) /\
  gen_json_resolve d [47;97;47;45] = Ret (Err (ResolveError_OutOfBounds 1 2 (mk_OutOfBoundsError 2 2))) /\
  gen_json_resolve_mut d [47;97;47;48;49] =
    Ret (Err (ResolveError_FailedToParseIndex 1 2 ParseIndexError_LeadingZeros)) /\
  gen_toml_resolve d [47;97;47;49;120] =
    Ret (Err (ResolveError_FailedToParseIndex 1 2
               (ParseIndexError_InvalidCharacter (mk_InvalidCharacterError [49;120] 1)))) /\
  gen_toml_resolve_mut d [47;98] = Ret (Err (ResolveError_NotFound 0 0)) /\
  gen_json_resolve d [47;97;47;48;47;120] = Ret (Err (ResolveError_Unreachable 2 4)) /\
  gen_json_resolve d [] = Ret (Ok d) /\
  gen_parse_index (tokB [49]) 2 7 9 = Ret (Ok 1) /\
  gen_parse_index (tokB [45]) 2 7 9 = Ret (Err (ResolveError_OutOfBounds 7 9 (mk_OutOfBoundsError 2 2))).
Proof. vm_compute. repeat split. Qed.

(* ==== resolve_mut as a REFERENCE, re-translated in lens mode (DESIGN 13.8) =============================================== *)
From JP Require Import Model.Pointer SpecHist Proofs.HistoryProofs Generated.ScanTreeMut Proofs.GenEquivTreeMut Proofs.GenClosureMut.

(* `doc.resolve_mut(p)` of the current source returns, on both backends and for EVERY pointer text, a reference AT the path
   the model's resolve reports: it shows that node, writing through it replaces exactly that node ([update_at]), and the
   walk itself leaves the document alone; errors and panics are the model's *)
Theorem C05_src_resolve_mut_is_reference : forall (be : backend) (d : value) (p : str),
  lres_rel d d (gen_resolve_mut_lens be d (lens_root d) p) (resolve p d).
Proof. exact gen_resolve_mut_lens_ok. Qed.
Print Assumptions C05_src_resolve_mut_is_reference.
