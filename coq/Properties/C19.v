(* C19 -- Documented zero-copy operations never allocate.   PARTIAL BY NATURE.
   Heap allocation is a runtime fact; it is MEASURED by the tie (suite alloc: a counting
   #[global_allocator], count before/after each listed operation, on every small string and on
   multi-KiB pointers with thousands of tokens).  What is logic, and proved here: which `Cow`
   variant Token::new / Token::decoded build ([alloc_token_new], [alloc_decoded] are read off the
   transliterations in Model/Token.v: `Owned(new buffer)` exactly when the `position` search
   finds a byte to (un)escape), and that in the non-allocating case the very input text is
   handed back.  That parse / from_encoded / tokens / split_* / get(range) / strip_* /
   intersection return views (sub-slices) of their input is the content of C02, C12, C13.
   The model flags [alloc_parse] and [alloc_from_encoded] are constants (the Rust code
   reinterprets / borrows the &str); that the std primitives involved (split, find,
   strip_prefix ...) do not allocate is an assumption about std. *)
From JP Require Import Bytes Spec Model.Token Model.Pointer Model.Cost Proofs.CostProofs.

Theorem C19_token_new_borrows_iff_plain : forall s : str,
  alloc_token_new s = false <-> forallb (fun b => negb (is_special b)) s = true.
Proof. exact alloc_token_new_iff. Qed.
Print Assumptions C19_token_new_borrows_iff_plain.

Theorem C19_token_new_keeps_input : forall (input_owned : bool) (s : str),
  alloc_token_new s = false -> token_new input_owned s = mktoken input_owned s.
Proof. exact token_new_no_alloc_keeps. Qed.
Print Assumptions C19_token_new_keeps_input.

Theorem C19_decoded_borrows_iff_no_escape : forall t : str,
  alloc_decoded t = false <-> forallb (fun b => negb (TILDE =? b)) t = true.
Proof. exact alloc_decoded_iff. Qed.
Print Assumptions C19_decoded_borrows_iff_no_escape.

Theorem C19_decoded_keeps_text : forall t : str, alloc_decoded t = false -> decoded t = t.
Proof. exact decoded_no_alloc_same. Qed.
Print Assumptions C19_decoded_keeps_text.

Theorem C19_plain_text_zero_copy : forall (input_owned : bool) (s : str),
  forallb (fun b => negb (is_special b)) s = true ->
  alloc_token_new s = false /\ alloc_decoded (ttext (token_new input_owned s)) = false /\
  decoded (ttext (token_new input_owned s)) = s.
Proof. exact plain_text_zero_copy. Qed.
Print Assumptions C19_plain_text_zero_copy.

Theorem C19_parse_and_from_encoded_borrow : forall s : str,
  alloc_parse s = false /\ alloc_from_encoded s = false.
Proof. intros s. split; reflexivity. Qed.
Print Assumptions C19_parse_and_from_encoded_borrow.

Example C19_examples :
  alloc_token_new [97; 98; 99] = false /\ alloc_token_new [97; SLASH] = true /\
  alloc_decoded [97; 98] = false /\ alloc_decoded [TILDE; ZERO] = true.
Proof. vm_compute. repeat split. Qed.
