(* C19 (logical part), stated of the SOURCE AS IT IS NOW: which Cow variant Token::new, Token::decoded and
   Token::from_encoded build, read off the functions as re-translated from src/token.rs on every run. *)
From JP Require Import Bytes Spec GenPrelude Model.Token Generated.ScanTypes Generated.ScanToken
  Proofs.GenEquivBase Proofs.GenEquivToken.

(* Token::new on text without '~' or '/' hands back the very Cow it was given (borrowed stays borrowed) *)
Theorem C19_src_new_keeps_plain_input : forall c : Cow,
  forallb (fun b => negb (is_special b)) (cow_text c) = true -> gen_Token_new c = Ret (mk_Token c).
Proof. exact gen_new_keeps_plain_input. Qed.
Print Assumptions C19_src_new_keeps_plain_input.

Theorem C19_src_new_owned_when_special : forall c : Cow,
  forallb (fun b => negb (is_special b)) (cow_text c) = false ->
  exists t, gen_Token_new c = Ret t /\ cow_owned (Token_inner t) = true.
Proof. exact gen_new_owned_when_special. Qed.
Print Assumptions C19_src_new_owned_when_special.

(* decoded() returns Cow::Borrowed of the token's own text exactly when it has no '~' -- for owned and
   borrowed tokens alike (the repaired F7) *)
Theorem C19_src_decoded_borrows_iff_no_escape : forall t : Token,
  gen_Token_decoded t = Ret (Cow_Borrowed (cow_text (Token_inner t))) <->
  forallb (fun b => negb (TILDE =? b)) (cow_text (Token_inner t)) = true.
Proof. exact gen_decoded_borrows_iff_no_escape. Qed.
Print Assumptions C19_src_decoded_borrows_iff_no_escape.

Theorem C19_src_from_encoded_never_owns : forall e t,
  gen_Token_from_encoded e = Ret (Ok t) -> cow_owned (Token_inner t) = false.
Proof. exact gen_from_encoded_never_owns. Qed.
Print Assumptions C19_src_from_encoded_never_owns.

Example C19_src_examples :
  gen_Token_decoded (mk_Token (Cow_Owned [97; 98; 99])) = Ret (Cow_Borrowed [97; 98; 99]) /\
  gen_Token_new (Cow_Owned [97; 98]) = Ret (mk_Token (Cow_Owned [97; 98])) /\
  gen_Token_new (Cow_Borrowed [97; 98]) = Ret (mk_Token (Cow_Borrowed [97; 98])).
Proof. vm_compute. repeat split. Qed.

(* ==== no allocating construct is reachable (DESIGN 13.14) ================================================================
   Beside each translated function tools/rs2v.py emits [<f>_alloc_sites]: the number of places in its body - and, transitively,
   in the translated functions it calls - where a std operation that CAN allocate on the heap occurs (to_string / to_owned /
   into_owned / collect / clone of a String / String::from / with_capacity / Box::new / vec! / format! / push / push_str /
   insert / extend / split_off ...; every construct the translator accepts is in its table, so nothing else can occur).
   For the operations C19 lists as zero-copy the count is 0: whatever the input, no allocating operation is even
   syntactically reachable.  (Token::new and decoded() allocate only on the escaping path: the theorems above.) *)
From JP Require Import Generated.ScanPointer Generated.ScanPtrOps Generated.ScanSlice Generated.ScanConv.

Theorem C19_src_zero_copy_operations_have_no_allocation_site :
  forallb (N.eqb 0)
    [ gen_validate_bytes_alloc_sites; gen_validate_alloc_sites; gen_Pointer_parse_alloc_sites;            (* parsing a borrowed pointer *)
      gen_Token_from_encoded_alloc_sites; gen_Token_encoded_alloc_sites;
      gen_Pointer_tokens_alloc_sites; gen_Tokens_new_alloc_sites; gen_Tokens_next_alloc_sites;            (* iterating tokens ... *)
      gen_Components_from_alloc_sites; gen_Components_next_alloc_sites;                                    (* ... and components *)
      gen_Pointer_first_alloc_sites; gen_Pointer_front_alloc_sites; gen_Pointer_last_alloc_sites; gen_Pointer_back_alloc_sites;
      gen_get_usize_alloc_sites; gen_Pointer_count_alloc_sites; gen_Pointer_is_root_alloc_sites;
      gen_Pointer_split_front_alloc_sites; gen_Pointer_split_back_alloc_sites; gen_Pointer_split_at_alloc_sites;   (* every split *)
      gen_Pointer_parent_alloc_sites;
      gen_get_Range_alloc_sites; gen_get_RangeFrom_alloc_sites; gen_get_RangeTo_alloc_sites; gen_get_RangeFull_alloc_sites;
      gen_get_RangeInclusive_alloc_sites; gen_get_RangeToInclusive_alloc_sites; gen_get_Bounds_alloc_sites;  (* range slices *)
      gen_Pointer_strip_prefix_alloc_sites; gen_Pointer_strip_suffix_alloc_sites;
      gen_Pointer_starts_with_alloc_sites; gen_Pointer_ends_with_alloc_sites; gen_Pointer_intersection_alloc_sites;
      gen_PointerBuf_new_alloc_sites; gen_PointerBuf_root_alloc_sites;
      gen_Pointer_as_str_alloc_sites; gen_PointerBuf_deref_alloc_sites ] = true.
Proof. vm_compute. reflexivity. Qed.
Print Assumptions C19_src_zero_copy_operations_have_no_allocation_site.
