(* C19 (logical part), stated of the SOURCE AS IT IS NOW: which Cow variant Token::new, Token::decoded and
   Token::from_encoded build, read off the functions as re-translated from src/token.rs on every run. *)
From JP Require Import Bytes Spec GenPrelude Model.Token Generated.ScanTypes Generated.ScanToken
  Proofs.GenEquivBase Proofs.GenEquivToken.

(* Token::new on text without '~' or '/' hands back the very Cow it was given (borrowed stays borrowed) *)
Theorem C19_src_new_keeps_plain_input : forall c : Cow,
  forallb (fun b => negb (is_special b)) (cow_text c) = true -> gen_Token_new c = Ret (mk_Token c).
Proof. exact gen_new_keeps_plain_input. Qed.
Print Assumptions C19_src_new_keeps_plain_input.

Theorem C19_src_new_owned_when_special : forall c : Cow,
  forallb (fun b => negb (is_special b)) (cow_text c) = false ->
  exists t, gen_Token_new c = Ret t /\ cow_owned (Token_inner t) = true.
Proof. exact gen_new_owned_when_special. Qed.
Print Assumptions C19_src_new_owned_when_special.

(* decoded() returns Cow::Borrowed of the token's own text exactly when it has no '~' -- for owned and
   borrowed tokens alike (the repaired F7) *)
Theorem C19_src_decoded_borrows_iff_no_escape : forall t : Token,
  gen_Token_decoded t = Ret (Cow_Borrowed (cow_text (Token_inner t))) <->
  forallb (fun b => negb (TILDE =? b)) (cow_text (Token_inner t)) = true.
Proof. exact gen_decoded_borrows_iff_no_escape. Qed.
Print Assumptions C19_src_decoded_borrows_iff_no_escape.

Theorem C19_src_from_encoded_never_owns : forall e t,
  gen_Token_from_encoded e = Ret (Ok t) -> cow_owned (Token_inner t) = false.
Proof. exact gen_from_encoded_never_owns. Qed.
Print Assumptions C19_src_from_encoded_never_owns.

Example C19_src_examples :
  gen_Token_decoded (mk_Token (Cow_Owned [97; 98; 99])) = Ret (Cow_Borrowed [97; 98; 99]) /\
  gen_Token_new (Cow_Owned [97; 98]) = Ret (mk_Token (Cow_Owned [97; 98])) /\
  gen_Token_new (Cow_Borrowed [97; 98]) = Ret (mk_Token (Cow_Borrowed [97; 98])).
Proof. vm_compute. repeat split. Qed.
