(* C20 (a) -- Every feature combination builds: the cfg structure explains why.
   [implications] and [sites] are REGENERATED from /repo/Cargo.toml and /repo/src/**/*.rs on every
   run (Generated/Features.v, by tools/featgen.py): every reference to an optional crate (std,
   serde, serde_json, toml, miette) or to a cfg-gated in-crate item, with the conjunction of cfg
   gates around it.  The theorem: under every one of the 2^8 requested feature sets, closed under
   the declared implications, every such reference is either compiled out or refers to something
   that exists.  The domain is finite and enumerated completely, so `vm_compute` + forallb_forall
   is a proof, with the bound (256 subsets) in the statement.  The translator is approximate (no
   type checking): the judge of "compiles" is rustc on the same 256 subsets (the tie).
   (b) "same behaviour without std" is the correspondence of the core suites run against a
   harness linked with default-features = false; the core model does not mention features. *)
From JP Require Import FeaturesModel Generated.Features.

Theorem C20_all_256_feature_sets_consistent :
  forall S : list feat, In S all_subsets ->
    sites_ok sites (closure implications S) = true.
Proof.
  apply (proj1 (forallb_forall (fun S => sites_ok sites (closure implications S)) all_subsets)).
  vm_compute. reflexivity.
Qed.
Print Assumptions C20_all_256_feature_sets_consistent.

Theorem C20_subsets_are_all_256 : length all_subsets = 256 /\ NoDup all_feats /\ length all_feats = 8.
Proof.
  split; [vm_compute; reflexivity|]. split; [|reflexivity].
  repeat constructor; cbn; intuition discriminate.
Qed.
Print Assumptions C20_subsets_are_all_256.

(* non-vacuity: the gates matter -- with the implications ignored some configuration breaks *)
Example C20_gates_matter :
  forallb (fun S => sites_ok sites S) all_subsets = false.
Proof. vm_compute. reflexivity. Qed.
