(* C18, the part that can be stated of the SOURCE AS IT IS NOW: the conversions between Pointer / PointerBuf / Token and text
   (as_str, to_owned, AsRef<str> / AsRef<[u8]> / AsRef<Pointer>, Borrow<str> / Borrow<Pointer>, Deref, as_ptr, to_json_value,
   PointerBuf::new / root, Pointer::parse, TryFrom<String> / TryFrom<&str> / FromStr for PointerBuf, Token::from for &str / &String /
   String / &Token) are re-translated by tools/rs2v.py on every run (Generated/ScanConv.v).  The serde impls, Display and the
   Box casts are outside the translated subset (Properties/C18.v + the differential tie). *)
From JP Require Import Bytes Value GenPrelude Model.Token Model.Pointer Generated.ScanTypes Generated.ScanPointer Generated.ScanToken
  Generated.ScanConv Proofs.GenEquivBase Proofs.GenEquivConv.

(* the views, borrows and owned copies hand the text on unchanged; to_json_value is the JSON string of the text *)
Theorem C18_src_views_are_identity : forall p : str,
  gen_Pointer_as_str p = Ret p /\ gen_Pointer_to_owned p = Ret p /\ gen_Pointer_as_ref_str p = Ret p /\
  gen_Pointer_borrow_str p = Ret p /\ gen_Pointer_as_ref_bytes p = Ret p /\ gen_Pointer_as_ref_Pointer p = Ret p /\
  gen_PointerBuf_as_ref_Pointer p = Ret p /\ gen_PointerBuf_as_ptr p = Ret p /\ gen_PointerBuf_borrow_Pointer p = Ret p /\
  gen_PointerBuf_deref p = Ret p /\ gen_Pointer_to_json_value p = Ret (VStr p).
Proof. exact gen_conv_identities. Qed.
Print Assumptions C18_src_views_are_identity.

(* every fallible constructor accepts exactly the valid texts, and what it then holds is the input text *)
Theorem C18_src_constructors_accept_iff_valid : forall s : str,
  (gen_Pointer_parse s = Ret (Ok s) <-> valid_ptr s = true) /\
  (gen_PointerBuf_try_from_String s = Ret (Ok s) <-> valid_ptr s = true) /\
  (gen_PointerBuf_try_from_str s = Ret (Ok s) <-> valid_ptr s = true) /\
  (gen_PointerBuf_from_str s = Ret (Ok s) <-> valid_ptr s = true) /\
  (forall t, gen_Pointer_parse s = Ret (Ok t) \/ gen_PointerBuf_try_from_String s = Ret (Ok t) \/
             gen_PointerBuf_try_from_str s = Ret (Ok t) \/ gen_PointerBuf_from_str s = Ret (Ok t) -> t = s).
Proof. exact gen_parsers_accept_iff. Qed.
Print Assumptions C18_src_constructors_accept_iff_valid.

(* ... with the parser's own error otherwise: they ARE the parser *)
Theorem C18_src_constructors_are_the_parser : forall s : str,
  gen_Pointer_parse s = gen_validate s /\ gen_PointerBuf_try_from_String s = gen_validate s /\
  gen_PointerBuf_try_from_str s = gen_validate s /\ gen_PointerBuf_from_str s = gen_validate s.
Proof. exact gen_parsers_are_validate. Qed.
Print Assumptions C18_src_constructors_are_the_parser.

(* a Token made from text holds the ESCAPED text, whichever string type it came from *)
Theorem C18_src_token_from_text_encodes : forall s : str,
  exists a b c, gen_Token_from_str s = Ret a /\ gen_Token_from_ref_String s = Ret b /\ gen_Token_from_String s = Ret c /\
    cow_text (Token_inner a) = encode s /\ cow_text (Token_inner b) = encode s /\ cow_text (Token_inner c) = encode s.
Proof. exact gen_token_from_encodes. Qed.
Print Assumptions C18_src_token_from_text_encodes.

Example C18_src_examples :
  gen_PointerBuf_from_str [47;97;126;49] = Ret (Ok [47;97;126;49]) /\
  (exists e, gen_PointerBuf_try_from_String [97] = Ret (Err e)) /\
  gen_Pointer_to_json_value [47;97] = Ret (VStr [47;97]) /\
  (exists t, gen_Token_from_str [97;47;98] = Ret t /\ cow_text (Token_inner t) = [97;126;49;98]).
Proof. repeat split; try (eexists; vm_compute; split; reflexivity); try (eexists; vm_compute; reflexivity); vm_compute; reflexivity. Qed.

(* Display / to_string, re-translated (`fn fmt` read as the text it writes): a pointer prints exactly its text *)
Theorem C18_src_display_is_text : forall p : str, gen_Pointer_display p = Ret p /\ gen_PointerBuf_display p = Ret p.
Proof. exact gen_display_pointer. Qed.
Print Assumptions C18_src_display_is_text.

(* ... and a token prints its DECODED text (what the crate itself uses as the member name an assign creates) *)
Theorem C18_src_token_display_is_decoded : forall t : Token,
  gen_Token_display t = Ret (decoded (cow_text (Token_inner t))).
Proof. exact gen_display_token. Qed.
Print Assumptions C18_src_token_display_is_decoded.
