(* C17 -- Equality, ordering and hashing of pointers coincide with those of their text.
   In the Rust source all 32 hand-written PartialEq / PartialOrd impls and the derived
   Eq/Ord/Hash compare or hash `.0`, the text; the model (Model/Conv.v) is therefore the text's
   comparison [str_cmp] / [str_eqb] and the text's hash stream.  THE THEOREMS HERE ARE THIN BY
   NATURE: they establish that this comparison is a total order consistent with equality and
   with hashing (what HashMap/BTreeMap lookups through Borrow need).  That each of the 32+ Rust
   impls really is this function is established by the tie (suite cmp: every impl, both
   operands, all operators, recorded hash streams, map lookups). *)
From JP Require Import Bytes Model.Conv Proofs.ConvProofs.

Theorem C17_consistent : forall a b : str,
  (ptr_eq a b = true <-> a = b) /\
  (ptr_partial_cmp a b = Some Eq <-> a = b) /\
  (ptr_cmp a b = Eq <-> ptr_eq a b = true) /\
  (hash_stream a = hash_stream b <-> a = b).
Proof. exact cmp_consistent. Qed.
Print Assumptions C17_consistent.

Theorem C17_total_order :
  (forall a, ptr_cmp a a = Eq) /\
  (forall a b, ptr_cmp b a = CompOpp (ptr_cmp a b)) /\
  (forall a b c, ptr_cmp a b = Lt -> ptr_cmp b c = Lt -> ptr_cmp a c = Lt) /\
  (forall a b, ptr_cmp a b = Lt \/ a = b \/ ptr_cmp b a = Lt).
Proof.
  unfold ptr_cmp. split; [exact str_cmp_refl|]. split; [exact str_cmp_antisym|].
  split; [exact str_cmp_trans_lt|exact str_cmp_total].
Qed.
Print Assumptions C17_total_order.

(* pointers that differ only in length: the shorter (a prefix) sorts first *)
Theorem C17_prefix_first : forall (a : str) (x : N) (r : str), ptr_cmp a (a ++ x :: r) = Lt.
Proof. exact str_cmp_prefix. Qed.
Print Assumptions C17_prefix_first.

Example C17_examples :
  ptr_cmp [47; 97] [47; 98] = Lt /\ ptr_cmp [47; 97; 47; 98] [47; 97] = Gt /\
  ptr_eq [47; 126; 48] [47; 126; 48] = true /\ ptr_eq [47; 126; 48] [47; 126; 49] = false.
Proof. vm_compute. repeat split. Qed.
