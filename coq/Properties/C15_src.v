(* C15, stated of the SOURCE AS IT IS NOW: the accessors of resolve::Error and assign::Error (offset, position,
   is_xxx) and their Diagnostic::labels impls are re-translated from src/resolve.rs / src/assign.rs by tools/rs2v.py
   on every run (Generated/ScanTree.v).  [model_rerr] / [model_aerr] (Proofs/GenEquivTree.v) map the generated error
   types onto the model's (they forget the token text an InvalidCharacterError carries). *)
From JP Require Import Bytes Spec Value GenPrelude Model.Pointer Model.Index Model.Tree SpecTree
  Generated.ScanTypes GenTreePrelude Generated.ScanTree Proofs.GenEquivBase Proofs.GenEquivTree.

(* resolve::Error: the accessors are the model's projections, for every error value (so none of them panics) *)
Theorem C15_src_resolve_accessors_are_model :
  (forall e, gen_ResolveError_offset e = Ret (re_offset (model_rerr e))) /\
  (forall e, gen_ResolveError_position e = Ret (re_position (model_rerr e))) /\
  (forall e, gen_ResolveError_is_unreachable e =
     Ret (match model_rerr e with RUnreachable _ _ => true | _ => false end)) /\
  (forall e, gen_ResolveError_is_not_found e =
     Ret (match model_rerr e with RNotFound _ _ => true | _ => false end)) /\
  (forall e, gen_ResolveError_is_out_of_bounds e =
     Ret (match model_rerr e with ROutOfBounds _ _ _ _ => true | _ => false end)) /\
  (forall e, gen_ResolveError_is_failed_to_parse_index e =
     Ret (match model_rerr e with RFailedToParseIndex _ _ _ => true | _ => false end)).
Proof.
  exact (conj gen_ResolveError_offset_eq (conj gen_ResolveError_position_eq (conj gen_ResolveError_is_unreachable_eq
          (conj gen_ResolveError_is_not_found_eq (conj gen_ResolveError_is_out_of_bounds_eq
          gen_ResolveError_is_failed_to_parse_index_eq))))).
Qed.
Print Assumptions C15_src_resolve_accessors_are_model.

(* assign::Error likewise *)
Theorem C15_src_assign_accessors_are_model :
  (forall e, gen_AssignError_offset e = Ret (ae_offset (model_aerr e))) /\
  (forall e, gen_AssignError_position e = Ret (ae_position (model_aerr e))) /\
  (forall e, gen_AssignError_is_out_of_bounds e =
     Ret (match model_aerr e with AOutOfBounds _ _ _ _ => true | _ => false end)) /\
  (forall e, gen_AssignError_is_failed_to_parse_index e =
     Ret (match model_aerr e with AFailedToParseIndex _ _ _ => true | _ => false end)).
Proof.
  exact (conj gen_AssignError_offset_eq (conj gen_AssignError_position_eq (conj gen_AssignError_is_out_of_bounds_eq
          gen_AssignError_is_failed_to_parse_index_eq))).
Qed.
Print Assumptions C15_src_assign_accessors_are_model.

(* Diagnostic::labels of both error types is the model's [walk_label], for every error and every origin text *)
Theorem C15_src_resolve_labels_is_model : forall (e : ResolveError) (origin : str),
  gen_ResolveError_labels e origin =
  Ret (walk_label (re_position (model_rerr e)) (re_offset (model_rerr e)) origin).
Proof. exact gen_ResolveError_labels_eq. Qed.
Print Assumptions C15_src_resolve_labels_is_model.

Theorem C15_src_assign_labels_is_model : forall (e : AssignError) (origin : str),
  gen_AssignError_labels e origin =
  Ret (walk_label (ae_position (model_aerr e)) (ae_offset (model_aerr e)) origin).
Proof. exact gen_AssignError_labels_eq. Qed.
Print Assumptions C15_src_assign_labels_is_model.

(* end to end: an error of any of the four walks of the source on a valid pointer locates the culprit token, and
   the source's own labels() yields a label for it *)
Theorem C15_src_walk_error_locates : forall (d : value) (p : str) (e : ResolveError), valid_ptr p = true ->
  gen_json_resolve d p = Ret (Err e) \/ gen_toml_resolve d p = Ret (Err e) \/
  gen_json_resolve_mut d p = Ret (Err e) \/ gen_toml_resolve_mut d p = Ret (Err e) ->
  error_locates_culprit p (re_position (model_rerr e)) (re_offset (model_rerr e)) /\
  exists o l, gen_ResolveError_labels e p = Ret (Some (o, l)).
Proof. exact gen_walks_error_diag. Qed.
Print Assumptions C15_src_walk_error_locates.

(* p = "/a/2" against {"a": [1, 2]}: OutOfBounds at token 1, offset 2; the label covers "2" (offset 3, length 1).
   For the last token of "/a/" (empty) the label is the empty span at the end. *)
Example C15_src_examples :
  let e := ResolveError_OutOfBounds 1 2 (mk_OutOfBoundsError 2 2) in
  gen_json_resolve (Obj [([97], Arr [VInt 1; VInt 2])]) [47;97;47;50] = Ret (Err e) /\
  gen_ResolveError_position e = Ret 1 /\ gen_ResolveError_offset e = Ret 2 /\
  gen_ResolveError_is_out_of_bounds e = Ret true /\ gen_ResolveError_is_not_found e = Ret false /\
  gen_ResolveError_is_unreachable e = Ret false /\ gen_ResolveError_is_failed_to_parse_index e = Ret false /\
  gen_ResolveError_labels e [47;97;47;50] = Ret (Some (3, 1)) /\
  gen_ResolveError_labels (ResolveError_NotFound 1 2) [47;97;47] = Ret (Some (2, 0)) /\
  gen_ResolveError_labels (ResolveError_NotFound 5 2) [47;97;47] = Ret None /\
  let a := AssignError_FailedToParseIndex 1 2 ParseIndexError_LeadingZeros in
  gen_AssignError_position a = Ret 1 /\ gen_AssignError_offset a = Ret 2 /\
  gen_AssignError_is_failed_to_parse_index a = Ret true /\ gen_AssignError_is_out_of_bounds a = Ret false /\
  gen_AssignError_labels a [47;97;47;48;49] = Ret (Some (3, 2)).
Proof. vm_compute. repeat split. Qed.

(* ==== errors of the mutating walks, re-translated in lens mode (DESIGN 13.8) ============================================= *)
From JP Require Import Model.Pointer SpecHist Proofs.ModelLaws Proofs.HistoryProofs Generated.ScanTreeMut Proofs.GenEquivTreeMut Proofs.GenClosureMut.

(* an error returned by the source's assign, read with the source's own accessors position() / offset(), locates the culprit
   token of p (p.get(position) is it, p.split_at(offset) cuts before it) and carries the payload of the first failure *)
Theorem C15_src_assign_error_locates : forall (be : backend) (d : value) (p : str) (v d' : value) (e : AssignError),
  sorted_value d -> valid_ptr p = true -> gen_assign be d (lens_root d) p v = Ret (d', Err e) ->
  exists pos off, gen_AssignError_position e = Ret pos /\ gen_AssignError_offset e = Ret off /\
    SpecTree.error_locates_culprit p pos off /\ assign_first_failure (tokens p) d (model_aerr e).
Proof. exact gen_assign_error_diag. Qed.
Print Assumptions C15_src_assign_error_locates.

(* likewise for resolve_mut as translated with its reference result (both backends) *)
Theorem C15_src_resolve_mut_error_locates : forall (be : backend) (d : value) (p : str) (root : value) (e : ResolveError),
  valid_ptr p = true -> gen_resolve_mut_lens be d (lens_root d) p = Ret (root, Err e) ->
  exists pos off, gen_ResolveError_position e = Ret pos /\ gen_ResolveError_offset e = Ret off /\
    SpecTree.error_locates_culprit p pos off /\ first_failure (tokens p) d (model_rerr e).
Proof. exact gen_resolve_mut_error_diag. Qed.
Print Assumptions C15_src_resolve_mut_error_locates.
