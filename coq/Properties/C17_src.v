(* C17, stated of the SOURCE AS IT IS NOW: all 32 hand-written mixed comparisons of src/pointer.rs are discovered and re-translated
   by tools/rs2v.py on every run (Generated/ScanCmp.v); each IS the comparison of the two texts, with the operands in the order
   written.  Together with Properties/C17.v (that comparison is a total order consistent with equality and hashing) this is the
   property for the hand-written impls, for all operands.  For the derived impls see Proofs/GenEquivCmp.v. *)
From JP Require Import Bytes Value GenPrelude Model.Conv Generated.ScanTypes Generated.ScanCmp Proofs.GenEquivCmp.

Theorem C17_src_eq_impls_are_text_eq : forall f, In f gen_eq_impls -> forall a b : str, f a b = Ret (ptr_eq a b).
Proof. exact gen_eq_impls_are_text_eq. Qed.
Print Assumptions C17_src_eq_impls_are_text_eq.

Theorem C17_src_partial_cmp_impls_are_text_cmp : forall f, In f gen_partial_cmp_impls ->
  forall a b : str, f a b = Ret (ptr_partial_cmp a b).
Proof. exact gen_partial_cmp_impls_are_text_cmp. Qed.
Print Assumptions C17_src_partial_cmp_impls_are_text_cmp.

(* the two lists are ALL the hand-written comparison impls the source contains *)
Theorem C17_src_all_impls_covered : gen_cmp_impl_count = N.of_nat (length gen_eq_impls + length gen_partial_cmp_impls).
Proof. exact gen_cmp_impls_all_listed. Qed.
Print Assumptions C17_src_all_impls_covered.

(* the derived Eq / Ord / Hash: both types are one-field tuple structs over their text and derive the five traits *)
Theorem C17_src_declarations :
  gen_Pointer_is_newtype_over_str = true /\ gen_PointerBuf_is_newtype_over_String = true /\
  forallb (fun b => b) [gen_Pointer_derives_PartialEq; gen_Pointer_derives_Eq; gen_Pointer_derives_PartialOrd; gen_Pointer_derives_Ord;
                        gen_Pointer_derives_Hash; gen_PointerBuf_derives_PartialEq; gen_PointerBuf_derives_Eq;
                        gen_PointerBuf_derives_PartialOrd; gen_PointerBuf_derives_Ord; gen_PointerBuf_derives_Hash] = true.
Proof. exact gen_cmp_declarations. Qed.
Print Assumptions C17_src_declarations.

(* e.g. `"/a" < PointerBuf("/b")` and `&Pointer("/a/b") > "/a"` *)
Example C17_src_examples :
  gen_partial_cmp_str_PointerBuf [47;97] [47;98] = Ret (Some Lt) /\
  gen_partial_cmp_refPointer_refstr [47;97;47;98] [47;97] = Ret (Some Gt) /\
  gen_eq_String_Pointer [47;126;48] [47;126;48] = Ret true.
Proof. vm_compute. repeat split. Qed.
