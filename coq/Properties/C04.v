(* C04 -- A pointer is exactly its list of decoded tokens: build / iterate round-trips.
   [buf_from_tokens] is the transliterated PointerBuf::from_tokens (a fold of push('/') +
   push_str(Token::new(t).encoded())); [from_tokens L] is the spec: the concatenation of
   "/" ++ encode l;  [tokens] / [dtokens] are the encoded / decoded token lists (Spec.v);
   the accessors are the transliterations in Model/Pointer.v, which use split_once /
   rsplit_once / find, not [tokens]. *)
From JP Require Import Bytes Dec Spec Model.Token Model.Pointer
  Proofs.TokenProofs Proofs.SplitProofs Proofs.TokensProofs Proofs.IndexProofs.

(* from_tokens(L): text is the concatenation of "/" + escaped(l), tokens decoded are L again,
   count is L's length, and the result is a valid pointer *)
Theorem C04_build_then_iterate : forall L : list str,
  buf_from_tokens L = from_tokens L /\
  from_tokens L = flat_map (fun l => SLASH :: encode l) L /\
  dtokens (from_tokens L) = L /\
  count (from_tokens L) = length L /\
  valid_ptr (from_tokens L) = true.
Proof.
  intros L. split; [exact (buf_from_tokens_spec L)|]. split.
  { unfold from_tokens, from_tokens_enc. induction L as [|l L IH]; [reflexivity|]. cbn. rewrite IH. reflexivity. }
  split; [exact (dtokens_from_tokens L)|]. split; [exact (count_from_tokens L)|exact (from_tokens_valid L)].
Qed.
Print Assumptions C04_build_then_iterate.

(* conversely from_tokens(p.tokens()) = p for every valid pointer *)
Theorem C04_iterate_then_build : forall p : str,
  valid_ptr p = true -> from_tokens (dtokens p) = p /\ from_tokens_enc (tokens p) = p.
Proof.
  intros p H. split; [exact (from_tokens_dtokens p H)|].
  symmetry. exact (proj1 (valid_ptr_decompose p H)).
Qed.
Print Assumptions C04_iterate_then_build.

(* so text and token list determine each other uniquely *)
Theorem C04_bijection : forall L1 L2 : list str, from_tokens L1 = from_tokens L2 -> L1 = L2.
Proof. exact from_tokens_inj. Qed.
Print Assumptions C04_bijection.

(* first/front, last/back, get(i), components, is_root, count, split_front/back, parent agree with the list *)
Theorem C04_accessors_agree : forall p : str,
  valid_ptr p = true ->
  let ts := tokens p in
  pcount p = len ts /\
  (is_root p = true <-> ts = []) /\
  front p = hd_error ts /\
  back p = (match rev ts with [] => None | t :: _ => Some t end) /\
  (forall i, get_tok p i = nth_N ts i) /\
  components p = CRoot :: map CToken ts /\
  split_front p = (match ts with [] => None | t :: r => Some (t, from_tokens_enc r) end) /\
  split_back p = (match rev ts with [] => None | t :: r => Some (from_tokens_enc (rev r), t) end) /\
  parent p = (match rev ts with [] => None | _ :: r => Some (from_tokens_enc (rev r)) end).
Proof. exact accessors_agree. Qed.
Print Assumptions C04_accessors_agree.

(* with_trailing_token / with_leading_token / concat are snoc / cons / append on the token lists *)
Theorem C04_builders_agree : forall p t q : str,
  valid_ptr p = true -> valid_ptr q = true ->
  tokens (with_trailing_token p (encode t)) = tokens p ++ [encode t] /\
  tokens (with_leading_token p (encode t)) = encode t :: tokens p /\
  tokens (concat_ptr p q) = tokens p ++ tokens q /\
  valid_ptr (with_trailing_token p (encode t)) = true /\
  valid_ptr (with_leading_token p (encode t)) = true /\
  valid_ptr (concat_ptr p q) = true.
Proof. exact builders_agree. Qed.
Print Assumptions C04_builders_agree.

(* From<Token> / From<usize>: singleton lists; an integer's token is its decimal spelling, which
   needs no escaping and is a valid token *)
Theorem C04_singletons : forall (raw : str) (n : N),
  buf_from_tokens [raw] = SLASH :: encode raw /\
  dtokens (SLASH :: encode raw) = [raw] /\
  encode (dec_of_N n) = dec_of_N n /\
  valid_tok (dec_of_N n) = true.
Proof.
  intros raw n. split; [rewrite buf_from_tokens_spec; unfold from_tokens, from_tokens_enc; cbn; rewrite app_nil_r; reflexivity|].
  split.
  { pose proof (dtokens_from_tokens [raw]) as H. unfold from_tokens, from_tokens_enc in H. cbn in H.
    rewrite app_nil_r in H. exact H. }
  assert (Hplain : forallb (fun b => negb (is_special b)) (dec_of_N n) = true).
  { pose proof (dec_of_N_digits n) as Hd. rewrite forallb_forall in *. intros b Hb. specialize (Hd b Hb).
    unfold is_digit in Hd. unfold is_special.
    apply andb_true_iff in Hd as [H1 H2]. apply N.leb_le in H1, H2.
    destruct (N.eqb_spec b SLASH) as [->|_]; [vm_compute in H1; congruence|].
    destruct (N.eqb_spec b TILDE) as [->|_]; [vm_compute in H2; congruence|]. reflexivity. }
  split; [exact (encode_plain _ Hplain)|].
  rewrite <- (encode_plain _ Hplain). apply valid_tok_encode.
Qed.
Print Assumptions C04_singletons.

(* "" is the empty list, "/" is one empty token, "//" is two *)
Example C04_examples :
  tokens [] = [] /\ tokens [SLASH] = [[]] /\ tokens [SLASH; SLASH] = [[]; []] /\
  from_tokens [[]; []] = [SLASH; SLASH] /\
  from_tokens [[TILDE; ONE]; [SLASH]] = [SLASH; TILDE; ZERO; ONE; SLASH; TILDE; ONE] /\
  dtokens [SLASH; TILDE; ZERO; ONE; SLASH; TILDE; ONE] = [[TILDE; ONE]; [SLASH]].
Proof. vm_compute. repeat split. Qed.
