(* C01, UTF-8 layer (anchored in C01's mechanism: every internal `unsafe { new_unchecked / from_utf8_unchecked }`
   site relies on 'split at a token boundary' reasoning) -- Every string the crate builds with `from_utf8_unchecked` / `new_unchecked`, slices out of
   a `str`, or leaves behind in a `String` is well-formed UTF-8, provided its inputs are.

   A Rust `str` is a byte list (Bytes.v); [utf8_valid] (Utf8.v) is the Unicode Standard's Table 3-7,
   i.e. exactly Rust's `str` validity (Proofs.Utf8Proofs.utf8_valid_iff_table restates it row by row).
   The clause structure follows Properties/C01.v, with [utf8_valid] in place of [valid_ptr] /
   [valid_tok].  Pointer validity is assumed only where a function really needs it:

     * [ascii_head p] (Utf8.v): p is empty or begins with an ASCII byte.  Needed by front /
       split_front / pop_front, which cut at byte 1 (`self.0[1..]`, `token.remove(0)`).
     * [ptr_shaped p] (Proofs.SplitProofs): p is empty or begins with '/'.  Needed by the range slicer.

   Both follow from [valid_ptr p = true] (Utf8Proofs.ascii_head_valid_ptr, SplitProofs.valid_ptr_shaped).
   See DESIGN.md section 13 and the Examples of Proofs/Utf8Proofs.v for the counterexamples that make these hypotheses necessary. *)
From Coq Require Import ZArith.
From JP Require Import Bytes Dec Spec SpecBuf Utf8 Model.Token Model.Pointer Model.Slice Model.Index Model.Conv
  Proofs.SplitProofs Proofs.SliceProofs Proofs.ClosureProofs Proofs.Utf8Proofs.

(* (a1) constructors, parsing doors, conversions; and the escaping functions on ALL texts *)
Theorem C01_utf8_constructors_closed :
  utf8_valid [] = true /\                                                              (* root(), new(), default, clear() *)
  (forall d s t, utf8_valid s = true -> door_run d s = DoorOk t -> utf8_valid t = true) /\   (* the eight doors *)
  (forall o s, utf8_valid s = true -> utf8_valid (ttext (token_new o s)) = true) /\    (* Token::new, From<&str|String> *)
  (forall e, utf8_valid e = true -> utf8_valid (ttext (from_encoded_tok e)) = true) /\ (* Token::from_encoded *)
  (forall t, utf8_valid (ttext t) = true -> utf8_valid (ttext (token_into_owned t)) = true) /\
  (forall z, utf8_valid (token_of_int z) = true) /\                                    (* Token::from(integer) *)
  (forall s r, utf8_valid s = true -> deserialize s = Some r -> utf8_valid r = true) /\
  (forall L, Forall (fun t => utf8_valid t = true) L -> utf8_valid (buf_from_tokens L) = true) /\  (* from_tokens *)
  (forall raw, utf8_valid raw = true -> utf8_valid (buf_from_tokens [raw]) = true) /\  (* From<Token> *)
  (forall n, utf8_valid (SLASH :: dec_of_N n) = true) /\                               (* From<usize> *)
  (forall s, utf8_valid s = true -> utf8_valid (encode s) = true /\ utf8_valid (new_loop s) = true) /\
  (forall e, utf8_valid e = true ->                                                    (* Token::decoded: valid token or not *)
     utf8_valid (unescape e) = true /\ utf8_valid (decoded e) = true /\
     forall esc, utf8_valid (dec_loop e esc) = true) /\
  (forall ts, Forall (fun t => utf8_valid t = true) ts -> utf8_valid (from_tokens_enc ts) = true) /\
  (forall L, Forall (fun t => utf8_valid t = true) L -> utf8_valid (from_tokens L) = true) /\
  (forall n, utf8_valid (dec_of_N n) = true) /\                                        (* usize::to_string *)
  (forall i, utf8_valid (index_display i) = true).                                     (* Display for Index *)
Proof. exact utf8_constructors_closed. Qed.
Print Assumptions C01_utf8_constructors_closed.

(* (a2) accessors, iterators, splitters, slicers of one well-formed text *)
Theorem C01_utf8_accessors_closed : forall p : str, utf8_valid p = true ->
  forallb utf8_valid (ptokens p) = true /\                                             (* tokens(), IntoIterator *)
  (forall t, ascii_head p -> front p = Some t -> utf8_valid t = true) /\               (* front / first *)
  (forall t, back p = Some t -> utf8_valid t = true) /\                                (* back / last *)
  (forall i t, get_tok p i = Some t -> utf8_valid t = true) /\                         (* get(usize) *)
  (forall c, In c (components p) -> match c with CRoot => True | CToken t => utf8_valid t = true end) /\
  (forall t r, ascii_head p -> split_front p = Some (t, r) -> utf8_valid t = true /\ utf8_valid r = true) /\
  (forall f t, split_back p = Some (f, t) -> utf8_valid f = true /\ utf8_valid t = true) /\
  (forall f, parent p = Some f -> utf8_valid f = true) /\
  (forall k h t, split_at p k = Some (h, t) -> utf8_valid h = true /\ utf8_valid t = true) /\
  (forall lo hi x y, ptr_shaped p -> get_bounds p lo hi = Ret (Some (x, y)) ->         (* every range form *)
     x <= y /\ y <= len p /\ utf8_valid (bytes_at p x y) = true).
Proof. exact utf8_accessors_closed. Qed.
Print Assumptions C01_utf8_accessors_closed.

(* (a2') the same for a `Pointer`: exactly the clauses of C01_accessors_closed *)
Theorem C01_utf8_accessors_closed_valid_ptr : forall p : str, valid_ptr p = true -> utf8_valid p = true ->
  forallb utf8_valid (ptokens p) = true /\
  (forall t, front p = Some t -> utf8_valid t = true) /\
  (forall t, back p = Some t -> utf8_valid t = true) /\
  (forall i t, get_tok p i = Some t -> utf8_valid t = true) /\
  (forall c, In c (components p) -> match c with CRoot => True | CToken t => utf8_valid t = true end) /\
  (forall t r, split_front p = Some (t, r) -> utf8_valid t = true /\ utf8_valid r = true) /\
  (forall f t, split_back p = Some (f, t) -> utf8_valid f = true /\ utf8_valid t = true) /\
  (forall f, parent p = Some f -> utf8_valid f = true) /\
  (forall k h t, split_at p k = Some (h, t) -> utf8_valid h = true /\ utf8_valid t = true) /\
  (forall lo hi x y, get_bounds p lo hi = Ret (Some (x, y)) ->
     x <= y /\ y <= len p /\ utf8_valid (bytes_at p x y) = true).
Proof. exact utf8_accessors_closed_valid_ptr. Qed.
Print Assumptions C01_utf8_accessors_closed_valid_ptr.

(* (a3) operations on two texts, or a text and a token: no pointer validity needed at all *)
Theorem C01_utf8_binary_closed : forall p q raw : str,
  utf8_valid p = true -> utf8_valid q = true -> utf8_valid raw = true ->
  (forall v, p_strip_prefix p q = Some v -> utf8_valid v = true) /\
  (forall v, p_strip_suffix p q = Some v -> utf8_valid v = true) /\
  utf8_valid (intersection p q) = true /\
  utf8_valid (concat_ptr p q) = true /\
  utf8_valid (with_trailing_token p (ttext (token_new false raw))) = true /\
  utf8_valid (with_leading_token p (ttext (token_new false raw))) = true.
Proof. exact utf8_binary_closed. Qed.
Print Assumptions C01_utf8_binary_closed.

(* (b) every finite history of the seven mutators of a PointerBuf whose start text and whose token /
   pointer arguments are well-formed ([op_utf8]): the buffer holds valid RFC 6901 text AND well-formed
   UTF-8 afterwards (hence after every prefix of the history), and so is every returned token; no
   step panics.  Hypotheses of C01_history_closed plus well-formedness. *)
Theorem C01_utf8_history_closed : forall (p0 : str) (ops : list buf_op),
  valid_ptr p0 = true -> Forall op_ok ops ->
  utf8_valid p0 = true -> Forall op_utf8 ops ->
  exists p rs, impl_run p0 ops = Ret (p, rs) /\
    valid_ptr p = true /\ utf8_valid p = true /\ Forall ret_valid rs /\ Forall ret_utf8 rs.
Proof. exact utf8_history_closed. Qed.
Print Assumptions C01_utf8_history_closed.

(* (b') the same without pointer validity: it is enough that the start text and every `Append`
   argument ([op_head]) is empty or begins with an ASCII byte *)
Theorem C01_utf8_history_closed_partial : forall (p0 : str) (ops : list buf_op),
  utf8_valid p0 = true -> ascii_head p0 -> Forall op_utf8 ops -> Forall op_head ops ->
  exists p rs, impl_run p0 ops = Ret (p, rs) /\ utf8_valid p = true /\ ascii_head p /\ Forall ret_utf8 rs.
Proof. exact utf8_history_closed_partial. Qed.
Print Assumptions C01_utf8_history_closed_partial.

(* (c) the offsets carried by errors point at ASCII bytes / lie on character boundaries:
   - index.rs computes the InvalidCharacter offset with `s.chars().position(..)`, a CHAR index; every
     byte before it is an ASCII digit, so it equals the BYTE offset the model (and `char()`) uses;
   - pointer.rs reports the offsets of the '/' and of the '~' of the offending token. *)
Theorem C01_utf8_error_offsets_ascii :
  (forall s off, index_from_str s = Err (InvalidCharacter off) ->
     Forall (fun b => is_digit b = true) (firstn (N.to_nat off) s) /\ off < len s /\
     Forall (fun b => is_ascii b = true) (firstn (N.to_nat off) s) /\
     char_count (firstn (N.to_nat off) s) = N.to_nat off /\
     (utf8_valid s = true -> char_boundary s (N.to_nat off))) /\
  (forall s po so, validate s = Some (InvalidEncoding po so) ->
     nth_N s po = Some SLASH /\ nth_N s (po + so) = Some TILDE /\
     is_ascii SLASH = true /\ is_ascii TILDE = true /\
     (utf8_valid s = true -> char_boundary s (N.to_nat po) /\ char_boundary s (N.to_nat (po + so)))).
Proof. exact utf8_error_offsets_ascii. Qed.
Print Assumptions C01_utf8_error_offsets_ascii.

(* non-vacuity: "é", "€", "𝄞" are well-formed; a lone lead byte, a lone continuation byte, an encoded
   surrogate (ED A0 80) and an overlong '/' (C0 AF) are not; decoding "~0é~1" gives "~é/" *)
Example C01_utf8_examples :
  utf8_valid [195; 169] = true /\ utf8_valid [226; 130; 172] = true /\ utf8_valid [240; 157; 132; 158] = true /\
  utf8_valid [195] = false /\ utf8_valid [169] = false /\
  utf8_valid [237; 160; 128] = false /\ utf8_valid [192; 175] = false /\
  decoded [TILDE; ZERO; 195; 169; TILDE; ONE] = [TILDE; 195; 169; SLASH].
Proof. vm_compute. repeat split. Qed.
