(* C01, stated of the SOURCE AS IT IS NOW: every pointer / token that the regenerated functions (Generated/Scan*.v: the
   parser, the token constructors, the accessors / splitters / slicers, the two-pointer operations, the builders and all
   PointerBuf mutators, re-translated from src/ by tools/rs2v.py on every run) return or leave behind for valid inputs is
   valid RFC 6901 text.  [tok_text t] is the encoded text of a generated Token. *)
From JP Require Import Bytes Spec GenPrelude Model.Token Model.Pointer Model.Slice Generated.ScanTypes Generated.ScanPointer
  Generated.ScanToken Generated.ScanPtrOps Generated.ScanSlice Generated.ScanBuf Generated.ScanPtrBuild
  Proofs.GenEquivBase Proofs.GenEquivSlice Proofs.GenClosure.

Theorem C01_src_constructors_closed :
  (forall s t, gen_validate s = Ret (Ok t) -> valid_ptr t = true) /\
  (forall c t, gen_Token_new c = Ret t -> valid_tok (tok_text t) = true) /\
  (forall e t, gen_Token_from_encoded e = Ret (Ok t) -> valid_tok (tok_text t) = true) /\
  (forall ts p, Forall (fun t => valid_tok (tok_text t) = true) ts -> gen_PointerBuf_from_tokens ts = Ret p -> valid_ptr p = true).
Proof. exact gen_constructors_closed. Qed.
Print Assumptions C01_src_constructors_closed.

Theorem C01_src_accessors_closed : forall p : str, valid_ptr p = true ->
  (forall t, gen_Pointer_front p = Ret (Some t) -> valid_tok (tok_text t) = true) /\
  (forall t, gen_Pointer_first p = Ret (Some t) -> valid_tok (tok_text t) = true) /\
  (forall t, gen_Pointer_back p = Ret (Some t) -> valid_tok (tok_text t) = true) /\
  (forall t, gen_Pointer_last p = Ret (Some t) -> valid_tok (tok_text t) = true) /\
  (forall i t, gen_get_usize i p = Ret (Some t) -> valid_tok (tok_text t) = true) /\
  (forall t r, gen_Pointer_split_front p = Ret (Some (t, r)) -> valid_tok (tok_text t) = true /\ valid_ptr r = true) /\
  (forall f t, gen_Pointer_split_back p = Ret (Some (f, t)) -> valid_ptr f = true /\ valid_tok (tok_text t) = true) /\
  (forall f, gen_Pointer_parent p = Ret (Some f) -> valid_ptr f = true) /\
  (forall k h t, gen_Pointer_split_at p k = Ret (Some (h, t)) -> valid_ptr h = true /\ valid_ptr t = true) /\
  (forall lo hi v, gen_get_Bounds (gen_bound lo, gen_bound hi) p = Ret (Some v) -> valid_ptr v = true).
Proof. exact gen_accessors_closed. Qed.
Print Assumptions C01_src_accessors_closed.

Theorem C01_src_binary_and_mutators_closed : forall (p q : str) (c : Cow) (index : N), valid_ptr p = true -> valid_ptr q = true ->
  (forall v, gen_Pointer_strip_prefix p q = Ret (Some v) -> valid_ptr v = true) /\
  (forall v, gen_Pointer_strip_suffix p q = Ret (Some v) -> valid_ptr v = true) /\
  (exists r, gen_Pointer_intersection p q = Ret r /\ valid_ptr r = true) /\
  (exists r, gen_Pointer_concat p q = Ret r /\ valid_ptr r = true) /\
  (exists r, gen_PointerBuf_append p q = Ret (r, r) /\ valid_ptr r = true) /\
  (exists t pb pf, gen_Token_new c = Ret t /\
     gen_PointerBuf_push_back p t = Ret (pb, tt) /\ valid_ptr pb = true /\
     gen_PointerBuf_push_front p t = Ret (pf, tt) /\ valid_ptr pf = true) /\
  (exists t pr r, gen_Token_new c = Ret t /\ gen_PointerBuf_replace p index t = Ret (pr, r) /\ valid_ptr pr = true /\
     forall old, r = Ok (Some old) -> valid_tok (tok_text old) = true) /\
  (exists pb rb pf rf, gen_PointerBuf_pop_back p = Ret (pb, rb) /\ valid_ptr pb = true /\
     gen_PointerBuf_pop_front p = Ret (pf, rf) /\ valid_ptr pf = true /\
     (forall t, rb = Some t -> valid_tok (tok_text t) = true) /\ (forall t, rf = Some t -> valid_tok (tok_text t) = true)).
Proof. exact gen_binary_closed. Qed.
Print Assumptions C01_src_binary_and_mutators_closed.

Example C01_src_examples :
  gen_Pointer_strip_prefix [SLASH; 102; 111; 111; 98; 97; 114] [SLASH; 102; 111; 111] = Ret None /\
  gen_Token_from_encoded [TILDE; TILDE; ZERO] = Ret (Err (mk_EncodingError 1 InvalidEncoding_Tilde)) /\
  gen_Pointer_split_front [SLASH; 97; SLASH; 98] = Ret (Some (mk_Token (Cow_Borrowed [97]), [SLASH; 98])).
Proof. vm_compute. repeat split. Qed.
