(* C01, char-boundary layer -- the char-boundary panics of `&s[a..b]`, `String::insert`, `String::remove` and
   `String::split_off`, which the bounds-only primitives of GenPrelude.v leave out, cannot fire where the crate cuts.
   On well-formed UTF-8 (every Rust `str`; closed under every operation by Properties/C01_utf8.v) core's byte-level
   `is_char_boundary` test is exactly "both sides are well-formed UTF-8", it holds at and one past every ASCII byte
   (the positions the source computes: `find('/')`, `rfind('/')`, `find('~')`, those `+ 1`, 0 and `len`), and the
   faithful primitives (bounds AND boundary panic) coincide with the bounds-only ones there.  Inside a character
   they panic, so the hypothesis is needed.  See DESIGN.md 13.20. *)
From Coq Require Import ZArith.
From JP Require Import Bytes Dec Utf8 GenPrelude Proofs.Utf8Proofs Proofs.BoundaryProofs.

Theorem C01_boundary_byte_test_exact :
  forall s i, utf8_valid s = true -> i <= len s ->
    (is_char_boundary s i = true <-> char_boundary s (N.to_nat i)).
Proof. exact is_char_boundary_iff. Qed.
Print Assumptions C01_boundary_byte_test_exact.

Theorem C01_boundary_at_ascii :
  forall s k c, utf8_valid s = true -> nth_N s k = Some c -> c < 128 ->
    is_char_boundary s k = true /\ is_char_boundary s (k + 1) = true.
Proof. exact boundary_at_ascii. Qed.
Print Assumptions C01_boundary_at_ascii.

Theorem C01_boundary_prims_faithful :
  forall s, utf8_valid s = true ->
    (forall i, cut_ok s i -> slice_from_cb s i = slice_from s i) /\
    (forall i, cut_ok s i -> slice_to_cb s i = slice_to s i) /\
    (forall a b, cut_ok s a -> cut_ok s b -> slice_range_cb s a b = slice_range s a b) /\
    (forall i, cut_ok s i -> str_split_off_cb s i = str_split_off s i) /\
    (forall i x, cut_ok s i -> str_insert_cb s i x = str_insert s i x) /\
    (forall i, cut_ok s i -> str_remove_cb s i = str_remove s i).
Proof. exact slicing_prims_faithful. Qed.
Print Assumptions C01_boundary_prims_faithful.

Theorem C01_boundary_found_positions :
  forall s c i, utf8_valid s = true -> c < 128 -> (findN c s = Some i \/ rfindN c s = Some i) ->
    (cut_ok s i /\ cut_ok s (i + 1)) /\
    slice_from_cb s i = slice_from s i /\ slice_from_cb s (i + 1) = slice_from s (i + 1) /\
    slice_to_cb s i = slice_to s i /\ slice_to_cb s (i + 1) = slice_to s (i + 1) /\
    str_split_off_cb s i = str_split_off s i /\ str_split_off_cb s (i + 1) = str_split_off s (i + 1) /\
    (forall x, str_insert_cb s i x = str_insert s i x) /\ (forall x, str_insert_cb s (i + 1) x = str_insert s (i + 1) x) /\
    str_remove_cb s i = str_remove s i.
Proof.
  intros s c i Hs Hc H. split; [|exact (slice_at_found_faithful s c i Hs Hc H)].
  destruct H; [eapply find_cut_ok|eapply rfind_cut_ok]; eassumption.
Qed.
Print Assumptions C01_boundary_found_positions.

Theorem C01_boundary_panic_inside_char :
  forall s i, is_char_boundary s i = false ->
    slice_from_cb s i = Panic /\ slice_to_cb s i = Panic /\ str_split_off_cb s i = Panic /\
    (forall x, str_insert_cb s i x = Panic) /\ str_remove_cb s i = Panic /\ str_split_at s i = Panic.
Proof. exact slicing_prims_panic_inside_char. Qed.
Print Assumptions C01_boundary_panic_inside_char.

Example C01_boundary_examples :
  is_char_boundary [195; 169] 1 = false /\ slice_from_cb [195; 169] 1 = Panic /\
  slice_from [195; 169] 1 = Ret [169] /\
  is_char_boundary [47; 195; 169] 1 = true /\ slice_from_cb [47; 195; 169] 1 = Ret [195; 169] /\
  cut_ok [47; 195; 169] 1.
Proof. exact boundary_examples. Qed.
