(* C11 -- PointerBuf mutators behave like a deque of decoded tokens.

   "After any finite sequence of push_front, push_back, pop_front, pop_back, append, replace
    and clear, a PointerBuf equals from_tokens of the list obtained by applying the same
    operations to a plain deque of decoded strings, and each call returned what the deque
    operation returns: pops give the removed token or None when empty, replace gives the
    previous token or an out-of-bounds error carrying the index and the token count and leaves
    the pointer unchanged, append is list concatenation with root as the neutral element on
    either side."

   Theorems only; proofs are in Proofs/BufProofs.v.  The mutators [push_front push_back
   pop_front pop_back append replace_tok clear buf_from_tokens] are the transliterations of
   src/pointer.rs in Model/Pointer.v; [impl_step impl_run deque_step deque_run ret_corr op_ok]
   are in SpecBuf.v; [dtokens], [from_tokens], [valid_ptr] are the specification in Spec.v.
   A pushed / replacing token is `Token::new(raw)`: its encoded text is
   [ttext (token_new false raw)]. *)
From JP Require Import Bytes Spec Model.Token Model.Pointer SpecBuf Proofs.BufProofs.

(* ---- the abstraction: a valid pointer IS from_tokens of its decoded tokens ----------------- *)

Theorem C11_abstraction :
  (forall p, valid_ptr p = true -> from_tokens (dtokens p) = p) /\
  (forall L, valid_ptr (from_tokens L) = true /\ dtokens (from_tokens L) = L).
Proof.
  split; [exact from_tokens_dtokens|].
  intros L. split; [exact (valid_ptr_from_tokens L)|exact (dtokens_from_tokens L)].
Qed.
Print Assumptions C11_abstraction.

(* ---- one step, each mutator ------------------------------------------------------------------- *)

Theorem C11_push_front : forall (p raw : str),
  valid_ptr p = true ->
  push_front p (ttext (token_new false raw)) = from_tokens (raw :: dtokens p)
  /\ valid_ptr (push_front p (ttext (token_new false raw))) = true
  /\ dtokens (push_front p (ttext (token_new false raw))) = raw :: dtokens p.
Proof. exact push_front_refines. Qed.
Print Assumptions C11_push_front.

Theorem C11_push_back : forall (p raw : str),
  valid_ptr p = true ->
  push_back p (ttext (token_new false raw)) = from_tokens (dtokens p ++ [raw])
  /\ valid_ptr (push_back p (ttext (token_new false raw))) = true
  /\ dtokens (push_back p (ttext (token_new false raw))) = dtokens p ++ [raw].
Proof. exact push_back_refines. Qed.
Print Assumptions C11_push_back.

(* pop_front never panics; it returns the first token (encoded text t, decoding to the deque's
   head) and leaves the tail, or returns None on root *)
Theorem C11_pop_front : forall p : str,
  valid_ptr p = true ->
  exists p' r,
    pop_front p = Ret (p', r)
    /\ valid_ptr p' = true
    /\ match dtokens p with
       | [] => r = None /\ p' = p /\ p = []
       | x :: l => exists t, r = Some t /\ valid_tok t = true /\ unescape t = x
                             /\ p' = from_tokens l /\ dtokens p' = l
       end.
Proof. exact pop_front_refines. Qed.
Print Assumptions C11_pop_front.

Theorem C11_pop_back : forall p : str,
  valid_ptr p = true ->
  valid_ptr (fst (pop_back p)) = true
  /\ match dtokens p with
     | [] => snd (pop_back p) = None /\ fst (pop_back p) = p /\ p = []
     | _ :: _ => exists t, snd (pop_back p) = Some t /\ valid_tok t = true
                           /\ unescape t = last (dtokens p) []
                           /\ fst (pop_back p) = from_tokens (removelast (dtokens p))
                           /\ dtokens (fst (pop_back p)) = removelast (dtokens p)
     end.
Proof. exact pop_back_refines. Qed.
Print Assumptions C11_pop_back.

(* replace: Err{index,count} exactly when index >= count (count = number of tokens) and then
   the text is unchanged; otherwise Ok(Some(previous token)) and position [index] is updated *)
Theorem C11_replace : forall (p : str) (index : N) (raw : str),
  valid_ptr p = true ->
  let p' := fst (replace_tok p index (ttext (token_new false raw))) in
  let r := snd (replace_tok p index (ttext (token_new false raw))) in
  valid_ptr p' = true
  /\ (len (tokens p) <= index -> r = ReplErr index (len (tokens p)) /\ p' = p)
  /\ (index < len (tokens p) ->
        exists old, r = ReplOk (Some old) /\ valid_tok old = true
          /\ unescape old = nth (N.to_nat index) (dtokens p) []
          /\ p' = from_tokens (set_nth (N.to_nat index) raw (dtokens p))
          /\ dtokens p' = set_nth (N.to_nat index) raw (dtokens p)).
Proof. exact replace_refines. Qed.
Print Assumptions C11_replace.

Theorem C11_replace_err_iff : forall (p : str) (index : N) (raw : str),
  valid_ptr p = true ->
  (exists i c, snd (replace_tok p index (ttext (token_new false raw))) = ReplErr i c)
  <-> len (tokens p) <= index.
Proof. exact replace_err_iff. Qed.
Print Assumptions C11_replace_err_iff.

Theorem C11_clear : forall p : str,
  clear p = from_tokens [] /\ valid_ptr (clear p) = true /\ dtokens (clear p) = [].
Proof. exact clear_refines. Qed.
Print Assumptions C11_clear.

(* ---- append: list concatenation, root neutral, associative --------------------------------------- *)

Theorem C11_append : forall p q : str,
  valid_ptr p = true -> valid_ptr q = true ->
  append p q = from_tokens (dtokens p ++ dtokens q)
  /\ valid_ptr (append p q) = true
  /\ dtokens (append p q) = dtokens p ++ dtokens q.
Proof. exact append_refines. Qed.
Print Assumptions C11_append.

Theorem C11_append_tokens : forall p q : str,
  valid_ptr p = true -> valid_ptr q = true ->
  tokens (append p q) = tokens p ++ tokens q.
Proof. exact append_tokens. Qed.
Print Assumptions C11_append_tokens.

Theorem C11_append_root_neutral : forall p : str, append [] p = p /\ append p [] = p.
Proof. intros p. split; [exact (append_root_l p)|exact (append_root_r p)]. Qed.
Print Assumptions C11_append_root_neutral.

Theorem C11_append_assoc : forall p q r : str,
  append (append p q) r = append p (append q r).
Proof. exact append_assoc. Qed.
Print Assumptions C11_append_assoc.

(* ---- one step, uniformly ---------------------------------------------------------------------------- *)

Theorem C11_step_refines : forall (p : str) (op : buf_op),
  valid_ptr p = true -> op_ok op ->
  exists p' r, impl_step p op = Ret (p', r)
    /\ p' = from_tokens (fst (deque_step (dtokens p) op))
    /\ valid_ptr p' = true
    /\ dtokens p' = fst (deque_step (dtokens p) op)
    /\ ret_corr r (snd (deque_step (dtokens p) op)).
Proof. exact step_refines_valid. Qed.
Print Assumptions C11_step_refines.

(* [ret_corr] on tokens, said differently: the returned text is the encoding of the deque's element *)
Theorem C11_tok_corr_iff : forall t x : str,
  (valid_tok t = true /\ unescape t = x) <-> t = encode x.
Proof. exact tok_corr_iff. Qed.
Print Assumptions C11_tok_corr_iff.

(* ---- any finite history ------------------------------------------------------------------------------- *)

Theorem C11_refines_deque : forall (p0 : str) (ops : list buf_op),
  valid_ptr p0 = true -> Forall op_ok ops ->
  exists p rs,
    impl_run p0 ops = Ret (p, rs)
    /\ p = from_tokens (fst (deque_run (dtokens p0) ops))
    /\ valid_ptr p = true
    /\ dtokens p = fst (deque_run (dtokens p0) ops)
    /\ Forall2 ret_corr rs (snd (deque_run (dtokens p0) ops)).
Proof. exact refines_deque. Qed.
Print Assumptions C11_refines_deque.

(* ---- PointerBuf::from_tokens ---------------------------------------------------------------------------- *)

Theorem C11_buf_from_tokens : forall L : list str, buf_from_tokens L = from_tokens L.
Proof. exact buf_from_tokens_spec. Qed.
Print Assumptions C11_buf_from_tokens.

Theorem C11_buf_from_tokens_roundtrip : forall L : list str,
  valid_ptr (buf_from_tokens L) = true /\ dtokens (buf_from_tokens L) = L.
Proof. exact buf_from_tokens_dtokens. Qed.
Print Assumptions C11_buf_from_tokens_roundtrip.

(* ---- non-vacuity ------------------------------------------------------------------------------------------ *)

Definition ex_a : N := 97. Definition ex_b : N := 98. Definition ex_c : N := 99.

(* a history exercising every operation, both pop-on-empty cases, replace in and out of bounds,
   tokens needing escapes ("a/b", "~") and an empty token *)
Definition ex_ops : list buf_op :=
  [PushBack [ex_a; SLASH; ex_b]; PushFront [TILDE]; PushBack [ex_c]; PopFront;
   Replace 1 [ex_b; ex_b]; Replace 5 [ex_a]; Append [SLASH; ex_a; SLASH]; PopBack; PopBack;
   Append []; PopFront; PopFront; PopFront; PopBack; Replace 0 [ex_a]; PushBack []; Clear].

Example C11_ex_ops_ok : Forall op_ok ex_ops.
Proof. repeat constructor. Qed.

Example C11_ex_impl :
  impl_run [] ex_ops =
  Ret ([], [RUnit; RUnit; RUnit; RPop (Some [TILDE; ZERO]); RRepl (ReplOk (Some [ex_c]));
            RRepl (ReplErr 5 2); RUnit; RPop (Some []); RPop (Some [ex_a]); RUnit;
            RPop (Some [ex_a; TILDE; ONE; ex_b]); RPop (Some [ex_b; ex_b]); RPop None; RPop None;
            RRepl (ReplErr 0 0); RUnit; RUnit]).
Proof. vm_compute. reflexivity. Qed.

Example C11_ex_deque :
  deque_run [] ex_ops =
  ([], [DUnit; DUnit; DUnit; DPop (Some [TILDE]); DReplOk [ex_c]; DReplErr 5 2; DUnit;
        DPop (Some []); DPop (Some [ex_a]); DUnit; DPop (Some [ex_a; SLASH; ex_b]);
        DPop (Some [ex_b; ex_b]); DPop None; DPop None; DReplErr 0 0; DUnit; DUnit]).
Proof. vm_compute. reflexivity. Qed.

(* the state in the middle of that history: "/a~1b/bb/a/" = from_tokens ["a/b"; "bb"; "a"; ""] *)
Example C11_ex_middle :
  option_map fst (match impl_run [] (firstn 7 ex_ops) with Ret x => Some x | _ => None end)
  = Some (from_tokens [[ex_a; SLASH; ex_b]; [ex_b; ex_b]; [ex_a]; []]).
Proof. vm_compute. reflexivity. Qed.

Example C11_ex_from_tokens :
  buf_from_tokens [[ex_a; SLASH; ex_b]; [TILDE]; []] =
  [SLASH; ex_a; TILDE; ONE; ex_b; SLASH; TILDE; ZERO; SLASH].
Proof. vm_compute. reflexivity. Qed.
