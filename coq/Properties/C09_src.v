(* C09, stated of the SOURCE AS IT IS NOW: in src/resolve.rs the walk is written four times (serde_json / toml x
   resolve / resolve_mut; the JSON resolve_mut copy goes through the shared helper `parse_index`).  All four are
   re-translated by tools/rs2v.py on every run (Generated/ScanTree.v); here: they return the same thing on every
   document and every pointer text.  [model_res] (Proofs/GenEquivTree.v) forgets only the token text that an
   InvalidCharacterError carries. *)
From JP Require Import Bytes Spec Value GenPrelude Model.Pointer Model.Tree SpecHist
  Generated.ScanTypes GenTreePrelude Generated.ScanTree Proofs.GenEquivBase Proofs.GenEquivTree.

(* json vs toml, resolve vs resolve_mut, as regenerated from the source *)
Theorem C09_src_walks_agree : forall (d : value) (p : str),
  omap model_res (gen_json_resolve d p) = omap model_res (gen_toml_resolve d p) /\
  omap model_res (gen_json_resolve d p) = omap model_res (gen_json_resolve_mut d p) /\
  omap model_res (gen_json_resolve d p) = omap model_res (gen_toml_resolve_mut d p).
Proof. exact gen_walks_agree. Qed.
Print Assumptions C09_src_walks_agree.

(* successes agree on the nose: all four reach the same node or none does *)
Theorem C09_src_walks_agree_ok : forall (d : value) (p : str) (v : value),
  (gen_json_resolve d p = Ret (Ok v) <-> gen_toml_resolve d p = Ret (Ok v)) /\
  (gen_json_resolve d p = Ret (Ok v) <-> gen_json_resolve_mut d p = Ret (Ok v)) /\
  (gen_json_resolve d p = Ret (Ok v) <-> gen_toml_resolve_mut d p = Ret (Ok v)).
Proof. exact gen_walks_agree_ok. Qed.
Print Assumptions C09_src_walks_agree_ok.

(* the helper-based copy of the source is the helper-based copy of the model (SpecHist.v), and the model's single walk *)
Theorem C09_src_json_resolve_mut_same_walk : forall (d : value) (p : str),
  omap model_res (gen_json_resolve_mut d p) = forget (json_resolve_mut p d) /\
  omap model_res (gen_json_resolve_mut d p) = forget (resolve p d).
Proof. exact (fun d p => conj (gen_json_resolve_mut_eq d p) (gen_json_resolve_mut_eq_resolve d p)). Qed.
Print Assumptions C09_src_json_resolve_mut_same_walk.

(* D = {"a": [1, 2]} under "/a/1", "/a/2", "/a/x" and the non-pointer text "a" (no leading slash: split_front
   still cuts after the first byte), through all four copies *)
Example C09_src_examples :
  let d := Obj [([97], Arr [VInt 1; VInt 2])] in
  let same p := gen_json_resolve d p = gen_toml_resolve d p /\ gen_json_resolve d p = gen_json_resolve_mut d p /\
                gen_json_resolve d p = gen_toml_resolve_mut d p in
  same [47;97;47;49] /\ same [47;97;47;50] /\ same [47;97;47;120] /\ same [97] /\ same [] /\
  gen_json_resolve_mut d [47;97;47;49] = Ret (Ok (VInt 2)) /\
  gen_toml_resolve_mut d [47;97;47;50] = Ret (Err (ResolveError_OutOfBounds 1 2 (mk_OutOfBoundsError 2 2))).
Proof. vm_compute. repeat split. Qed.
