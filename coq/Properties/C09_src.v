(* C09, stated of the SOURCE AS IT IS NOW: in src/resolve.rs the walk is written four times (serde_json / toml x
   resolve / resolve_mut; the JSON resolve_mut copy goes through the shared helper `parse_index`).  All four are
   re-translated by tools/rs2v.py on every run (Generated/ScanTree.v); here: they return the same thing on every
   document and every pointer text.  [model_res] (Proofs/GenEquivTree.v) forgets only the token text that an
   InvalidCharacterError carries. *)
From JP Require Import Bytes Spec Value GenPrelude Model.Pointer Model.Tree SpecHist
  Generated.ScanTypes GenTreePrelude Generated.ScanTree Proofs.GenEquivBase Proofs.GenEquivTree.

(* json vs toml, resolve vs resolve_mut, as regenerated from the source *)
Theorem C09_src_walks_agree : forall (d : value) (p : str),
  omap model_res (gen_json_resolve d p) = omap model_res (gen_toml_resolve d p) /\
  omap model_res (gen_json_resolve d p) = omap model_res (gen_json_resolve_mut d p) /\
  omap model_res (gen_json_resolve d p) = omap model_res (gen_toml_resolve_mut d p).
Proof. exact gen_walks_agree. Qed.
Print Assumptions C09_src_walks_agree.

(* successes agree on the nose: all four reach the same node or none does *)
Theorem C09_src_walks_agree_ok : forall (d : value) (p : str) (v : value),
  (gen_json_resolve d p = Ret (Ok v) <-> gen_toml_resolve d p = Ret (Ok v)) /\
  (gen_json_resolve d p = Ret (Ok v) <-> gen_json_resolve_mut d p = Ret (Ok v)) /\
  (gen_json_resolve d p = Ret (Ok v) <-> gen_toml_resolve_mut d p = Ret (Ok v)).
Proof. exact gen_walks_agree_ok. Qed.
Print Assumptions C09_src_walks_agree_ok.

(* the helper-based copy of the source is the helper-based copy of the model (SpecHist.v), and the model's single walk *)
Theorem C09_src_json_resolve_mut_same_walk : forall (d : value) (p : str),
  omap model_res (gen_json_resolve_mut d p) = forget (json_resolve_mut p d) /\
  omap model_res (gen_json_resolve_mut d p) = forget (resolve p d).
Proof. exact (fun d p => conj (gen_json_resolve_mut_eq d p) (gen_json_resolve_mut_eq_resolve d p)). Qed.
Print Assumptions C09_src_json_resolve_mut_same_walk.

(* D = {"a": [1, 2]} under "/a/1", "/a/2", "/a/x" and the non-pointer text "a" (no leading slash: split_front
   still cuts after the first byte), through all four copies *)
Example C09_src_examples :
  let d := Obj [([97], Arr [VInt 1; VInt 2])] in
  let same p := gen_json_resolve d p = gen_toml_resolve d p /\ gen_json_resolve d p = gen_json_resolve_mut d p /\
                gen_json_resolve d p = gen_toml_resolve_mut d p in
  same [47;97;47;49] /\ same [47;97;47;50] /\ same [47;97;47;120] /\ same [97] /\ same [] /\
  gen_json_resolve_mut d [47;97;47;49] = Ret (Ok (VInt 2)) /\
  gen_toml_resolve_mut d [47;97;47;50] = Ret (Err (ResolveError_OutOfBounds 1 2 (mk_OutOfBoundsError 2 2))).
Proof. vm_compute. repeat split. Qed.

(* ==== assign / delete of the two backends, and writing through resolve_mut: re-translated in lens mode (DESIGN 13.8) ===== *)
From JP Require Import Model.Pointer SpecHist Proofs.HistoryProofs Generated.ScanTreeMut Proofs.GenEquivTreeMut Proofs.GenClosureMut.

(* the json and the toml copy of the assign walk (five functions each) of the CURRENT source return the same document and
   the same result, for every real document and EVERY pointer text *)
Theorem C09_src_assign_copies_agree : forall (d : value) (p : str) (v : value), sorted_value d ->
  omap model_aout (gen_json_assign d (lens_root d) p v) = omap model_aout (gen_toml_assign d (lens_root d) p v).
Proof. exact gen_assign_backends_agree. Qed.
Print Assumptions C09_src_assign_copies_agree.

(* the two copies of delete agree everywhere except at the root pointer ... *)
Theorem C09_src_delete_copies_agree : forall (d : value) (p : str), sorted_value d -> valid_ptr p = true -> p <> [] ->
  gen_json_delete d (lens_root d) p = gen_toml_delete d (lens_root d) p.
Proof. exact gen_delete_backends_agree. Qed.
Print Assumptions C09_src_delete_copies_agree.

(* ... where they leave Null and the empty table: the single documented difference *)
Theorem C09_src_delete_root_differs : forall d : value,
  gen_json_delete d (lens_root d) [] = Ret (Null, Some d) /\ gen_toml_delete d (lens_root d) [] = Ret (Obj [], Some d).
Proof. exact gen_delete_root. Qed.
Print Assumptions C09_src_delete_root_differs.

(* resolve_mut reaches the node resolve reaches; a value written through the returned reference is what resolve then reads at
   that pointer, and every location neither on the path nor below it resolves as before *)
Theorem C09_src_write_through : forall (be : backend) (d : value) (p : str) (v root : value) (l : lens value),
  valid_ptr p = true -> gen_resolve_mut_lens be d (lens_root d) p = Ret (root, Ok l) ->
  root = d /\
  exists path, resolve p d = Ret (Ok (path, fst l)) /\
    snd l v = update_at path (fun _ => v) d /\
    resolve p (snd l v) = Ret (Ok (path, v)) /\
    (forall q qpath w, valid_ptr q = true -> resolve q d = Ret (Ok (qpath, w)) ->
       ~ is_prefix (tokens q) (tokens p) -> ~ is_prefix (tokens p) (tokens q) ->
       resolve q (snd l v) = Ret (Ok (qpath, w))).
Proof. exact gen_write_through_laws. Qed.
Print Assumptions C09_src_write_through.
