(* C08 -- delete removes exactly the addressed member / element and returns it; if the pointer does
   not resolve the document is untouched and None is returned; the root pointer takes the whole
   document and leaves Null (JSON) / an empty table (TOML).

   Theorems only.  [delete] transliterates src/delete.rs (Model/Tree.v); [spec_delete] (SpecTree.v)
   is "if the walk of resolve finds (path, v): remove the member / element at path, return v".
   Proofs: Proofs/TreeRefine.v, Proofs/DeleteLaws.v, Proofs/ModelLaws.v. *)
From JP Require Import Bytes Spec Value SpecTree Model.Pointer Model.Index Model.Tree
  Proofs.TreeRefine Proofs.TreeLaws Proofs.AssignLaws Proofs.DeleteLaws Proofs.WfLaws Proofs.ModelLaws.

Theorem C08_delete_refines : forall (be : backend) (p : str) (d : value),
  valid_ptr p = true -> delete be p d = Ret (spec_delete be (tokens p) d).
Proof. exact delete_refines. Qed.
Print Assumptions C08_delete_refines.

(* Vec::remove is never called out of range *)
Theorem C08_delete_no_panic : forall (be : backend) (p : str) (d : value),
  valid_ptr p = true -> delete be p d <> Panic /\ delete be p d <> OutOfFuel.
Proof. exact delete_no_panic. Qed.
Print Assumptions C08_delete_no_panic.

(* root *)
Theorem C08_root : forall (be : backend) (d : value),
  delete be [] d = Ret (match be with Json => Null | Toml => Obj [] end, Some d).
Proof. exact delete_root. Qed.
Print Assumptions C08_root.

(* deletes iff resolves, and returns the resolved value *)
Theorem C08_delete_iff_resolves : forall (be : backend) (ts : list str) (d v : value),
  ts <> [] ->
  (snd (spec_delete be ts d) = Some v <-> exists path, spec_resolve ts d 0 0 = Ok (path, v)).
Proof. exact spec_delete_iff. Qed.
Print Assumptions C08_delete_iff_resolves.

Theorem C08_delete_iff_resolves_model : forall (be : backend) (p : str) (d v : value),
  valid_ptr p = true -> p <> [] ->
  ((exists d', delete be p d = Ret (d', Some v)) <-> (exists path, resolve p d = Ret (Ok (path, v)))).
Proof. exact delete_iff_resolves. Qed.
Print Assumptions C08_delete_iff_resolves_model.

Theorem C08_none_unchanged : forall (be : backend) (ts : list str) (d : value),
  snd (spec_delete be ts d) = None -> fst (spec_delete be ts d) = d.
Proof. exact spec_delete_none. Qed.
Print Assumptions C08_none_unchanged.

Theorem C08_none_unchanged_model : forall (be : backend) (p : str) (d d' : value),
  valid_ptr p = true -> delete be p d = Ret (d', None) -> d' = d.
Proof. exact delete_none_unchanged. Qed.
Print Assumptions C08_none_unchanged_model.

(* a successful delete of init ++ [t]: the parent (reached by init) is an object holding the
   decoded t, or an array and t is an index below its length *)
Theorem C08_success_cases : forall (init : list str) (t : str) (d : value) (path : list sel) (v : value),
  spec_resolve (init ++ [t]) d 0 0 = Ok (path, v) ->
  (exists pp m, spec_resolve init d 0 0 = Ok (pp, Obj m) /\ obj_lookup (unescape t) m = Some v /\
      path = pp ++ [Key (unescape t)])
  \/ (exists pp a i, spec_resolve init d 0 0 = Ok (pp, Arr a) /\ index_from_str t = Ok (Num i) /\
      i < len a /\ nth_error a (N.to_nat i) = Some v /\ path = pp ++ [Idx (N.to_nat i)]).
Proof. exact spec_resolve_snoc_inv. Qed.
Print Assumptions C08_success_cases.

(* parent is an object: exactly that member is gone *)
Theorem C08_removes_exactly_member : forall (be : backend) (init : list str) (t : str) (d : value)
    (pp : list sel) (m : obj) (v : value),
  wf_value d -> forallb valid_tok (init ++ [t]) = true ->
  spec_resolve init d 0 0 = Ok (pp, Obj m) -> obj_lookup (unescape t) m = Some v ->
  let k := unescape t in
  let d' := fst (spec_delete be (init ++ [t]) d) in
  snd (spec_delete be (init ++ [t]) d) = Some v /\
  spec_resolve init d' 0 0 = Ok (pp, Obj (obj_remove k m)) /\
  obj_lookup k (obj_remove k m) = None /\
  (forall k', k' <> k -> obj_lookup k' (obj_remove k m) = obj_lookup k' m) /\
  spec_resolve (init ++ [t]) d' 0 0 = Err (RNotFound (len init) (len (from_tokens_enc init))) /\
  (forall qs path w, forallb valid_tok qs = true ->
     spec_resolve qs d 0 0 = Ok (path, w) ->
     ~ is_prefix (init ++ [t]) qs -> ~ is_prefix qs (init ++ [t]) ->
     spec_resolve qs d' 0 0 = Ok (path, w)).
Proof. exact spec_delete_removes_member. Qed.
Print Assumptions C08_removes_exactly_member.

(* parent is an array: element i is taken out, the later ones move down by one *)
Theorem C08_removes_exactly_element : forall (be : backend) (init : list str) (t : str) (d : value)
    (pp : list sel) (a : list value) (i : N) (v : value),
  forallb valid_tok (init ++ [t]) = true ->
  spec_resolve init d 0 0 = Ok (pp, Arr a) -> index_from_str t = Ok (Num i) -> i < len a ->
  nth_error a (N.to_nat i) = Some v ->
  let d' := fst (spec_delete be (init ++ [t]) d) in
  let a' := remove_nth (N.to_nat i) a in
  snd (spec_delete be (init ++ [t]) d) = Some v /\
  spec_resolve init d' 0 0 = Ok (pp, Arr a') /\
  len a' = len a - 1 /\
  (forall j, nth_error a' j = if (j <? N.to_nat i)%nat then nth_error a j else nth_error a (S j)) /\
  (forall qs path w, forallb valid_tok qs = true ->
     spec_resolve qs d 0 0 = Ok (path, w) ->
     ~ is_prefix init qs -> ~ is_prefix qs init ->
     spec_resolve qs d' 0 0 = Ok (path, w)).
Proof. exact spec_delete_removes_element. Qed.
Print Assumptions C08_removes_exactly_element.

(* delete keeps documents well-formed (sorted keys, array lengths) *)
Theorem C08_delete_keeps_wf : forall (be : backend) (ts : list str) (d : value),
  wf_value d -> wf_value (fst (spec_delete be ts d)).
Proof. exact spec_delete_wf. Qed.
Print Assumptions C08_delete_keeps_wf.

Theorem C08_delete_keeps_sorted : forall (be : backend) (ts : list str) (d : value),
  sorted_value d -> sorted_value (fst (spec_delete be ts d)).
Proof. exact spec_delete_sorted. Qed.
Print Assumptions C08_delete_keeps_sorted.

(* ---- non-vacuity --------------------------------------------------------------------------------- *)

(* D = {"a": [1, {"b": null}, 3], "c": 7} *)
Definition exD : value := Obj [([97], Arr [VInt 1; Obj [([98], Null)]; VInt 3]); ([99], VInt 7)].

Example C08_exD_wf : wf_value exD.
Proof. wf_tac. Qed.

Example C08_ex :
  (* member "/a/1/b" *)
  delete Json [47;97;47;49;47;98] exD
    = Ret (Obj [([97], Arr [VInt 1; Obj []; VInt 3]); ([99], VInt 7)], Some Null) /\
  (* element "/a/0": the later elements move down *)
  delete Json [47;97;47;48] exD
    = Ret (Obj [([97], Arr [Obj [([98], Null)]; VInt 3]); ([99], VInt 7)], Some (VInt 1)) /\
  (* does not resolve: "/a/-", "/x", "/c/0" *)
  delete Json [47;97;47;45] exD = Ret (exD, None) /\
  delete Json [47;120] exD = Ret (exD, None) /\
  delete Toml [47;99;47;48] exD = Ret (exD, None) /\
  (* root *)
  delete Json [] exD = Ret (Null, Some exD) /\ delete Toml [] exD = Ret (Obj [], Some exD).
Proof. vm_compute. repeat split. Qed.
