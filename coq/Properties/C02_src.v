(* C02, stated of the SOURCE AS IT IS NOW: [gen_validate] is re-translated from src/pointer.rs
   (`validate` + `validate_bytes`) by tools/rs2v.py on every run (Generated/ScanPointer.v). *)
From JP Require Import Bytes Spec GenPrelude Model.Pointer Generated.ScanTypes Generated.ScanPointer
  Proofs.GenEquivBase Proofs.GenEquivPointer.

(* the regenerated parser is the model's parser, for every input; it never panics or diverges *)
Theorem C02_src_parser_is_model : forall s : str,
  gen_validate s = Ret (match validate s with None => Ok s | Some e => Err (gen_pe e) end).
Proof. exact gen_validate_eq. Qed.
Print Assumptions C02_src_parser_is_model.

(* it accepts exactly the grammar ... *)
Theorem C02_src_accept_iff : forall s : str, gen_validate s = Ret (Ok s) <-> valid_ptr s = true.
Proof. exact gen_validate_accepts_iff. Qed.
Print Assumptions C02_src_accept_iff.

(* ... and on success hands back its input, nothing else *)
Theorem C02_src_identity : forall s t : str, gen_validate s = Ret (Ok t) -> t = s /\ valid_ptr s = true.
Proof. exact gen_validate_ok_is_input. Qed.
Print Assumptions C02_src_identity.

Example C02_src_examples :
  gen_validate [] = Ret (Ok []) /\ gen_validate [SLASH; TILDE; ONE] = Ret (Ok [SLASH; TILDE; ONE]) /\
  gen_validate [97] = Ret (Err ParseError_NoLeadingSlash) /\
  gen_validate [SLASH; 195; 169; TILDE; SLASH] = Ret (Err (ParseError_InvalidEncoding 0 (mk_EncodingError 3 InvalidEncoding_Tilde))).
Proof. vm_compute. repeat split. Qed.
