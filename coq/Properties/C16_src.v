(* C16, stated of the SOURCE AS IT IS NOW: `impl FromStr for Index`, `From<ParseIntError> for ParseIndexError`,
   Index::for_len, for_len_incl, for_len_unchecked are re-translated from src/index.rs by tools/rs2v.py on every run
   (Generated/ScanIndex.v).  from_str locates the first non-digit with `s.chars().position(..)`, a CHAR index: the
   generated definition goes through the code points ([str_chars]) and the theorems assume the text is well-formed
   UTF-8 ([utf8_valid], which every Rust `str` is).  `str::parse::<usize>` is the hand-written [parse_usize]. *)
From JP Require Import Bytes Dec GenPrelude GenTreePrelude Model.Index Utf8 Generated.ScanTypes Generated.ScanIndex
  Proofs.GenEquivBase Proofs.GenEquivIndex Proofs.GenEquivIndexStr.

(* the regenerated parser is the model's parser on every Rust str; it never panics *)
Theorem C16_src_from_str_is_model : forall s : str, utf8_valid s = true ->
  gen_Index_from_str s =
  Ret (match index_from_str s with Ok i => Ok (gen_index_of i) | Err e => Err (gen_pie_of s e) end).
Proof. exact gen_index_from_str_eq. Qed.
Print Assumptions C16_src_from_str_is_model.

(* it accepts exactly "-" and the canonical decimal spellings of the values that fit in usize *)
Theorem C16_src_accept_exact : forall s : str, utf8_valid s = true ->
  (gen_Index_from_str s = Ret (Ok Index_Next) <-> s = [DASH]) /\
  (forall n, gen_Index_from_str s = Ret (Ok (Index_Num n)) <-> n <= USIZE_MAX /\ s = dec_of_N n).
Proof. exact gen_from_str_accept_exact. Qed.
Print Assumptions C16_src_accept_exact.

(* every rejection is the model's rejection (kind, offset, source text), to which C16_rejections_truthful applies *)
Theorem C16_src_rejections : forall (s : str) (e : ParseIndexError), utf8_valid s = true ->
  gen_Index_from_str s = Ret (Err e) ->
  exists me, index_from_str s = Err me /\ e = gen_pie_of s me.
Proof. exact gen_from_str_rejections. Qed.
Print Assumptions C16_src_rejections.

(* the char index the source computes is the byte index the model (and `char()`) uses *)
Theorem C16_src_char_offset_is_byte_offset : forall s : str, utf8_valid s = true ->
  chars_positionN (fun c => negb (is_digit c)) s = positionN (fun c => negb (is_digit c)) s.
Proof. exact chars_position_nondigit. Qed.
Print Assumptions C16_src_char_offset_is_byte_offset.


Theorem C16_src_bound_checks_exact : forall (i : Index) (n : N),
  gen_Index_for_len i n =
    Ret (match i with
         | Index_Num m => if m <? n then Ok m else Err (mk_OutOfBoundsError n m)
         | Index_Next => Err (mk_OutOfBoundsError n n) end) /\
  gen_Index_for_len_incl i n =
    Ret (match i with
         | Index_Num m => if m <=? n then Ok m else Err (mk_OutOfBoundsError n m)
         | Index_Next => Ok n end) /\
  gen_Index_for_len_unchecked i n = Ret (match i with Index_Num m => m | Index_Next => n end).
Proof. exact gen_bound_checks_exact. Qed.
Print Assumptions C16_src_bound_checks_exact.

Theorem C16_src_bound_checks_are_model : forall (i : index) (n : N),
  gen_Index_for_len (gen_index i) n = Ret (gen_oob (for_len i n)) /\
  gen_Index_for_len_incl (gen_index i) n = Ret (gen_oob (for_len_incl i n)) /\
  gen_Index_for_len_unchecked (gen_index i) n = Ret (for_len_unchecked i n).
Proof. intros i n. exact (conj (gen_for_len_eq i n) (conj (gen_for_len_incl_eq i n) (gen_for_len_unchecked_eq i n))). Qed.
Print Assumptions C16_src_bound_checks_are_model.

Example C16_src_from_str_examples :
  gen_Index_from_str [DASH] = Ret (Ok Index_Next) /\
  gen_Index_from_str [49; 50] = Ret (Ok (Index_Num 12)) /\
  gen_Index_from_str [ZERO; 49] = Ret (Err ParseIndexError_LeadingZeros) /\
  gen_Index_from_str [49; 195; 169] = Ret (Err (ParseIndexError_InvalidCharacter (mk_InvalidCharacterError [49; 195; 169] 1))) /\
  gen_Index_from_str [] = Ret (Err (ParseIndexError_InvalidInteger ParseIntError_Empty)) /\
  gen_Index_from_str [49;56;52;52;54;55;52;52;48;55;51;55;48;57;53;53;49;54;49;54] = Ret (Err (ParseIndexError_InvalidInteger ParseIntError_PosOverflow)).
Proof. vm_compute. repeat split. Qed.

Example C16_src_examples :
  gen_Index_for_len (Index_Num 1) 1 = Ret (Err (mk_OutOfBoundsError 1 1)) /\
  gen_Index_for_len_incl (Index_Num 1) 1 = Ret (Ok 1) /\
  gen_Index_for_len_incl Index_Next 7 = Ret (Ok 7) /\
  gen_Index_for_len Index_Next 7 = Ret (Err (mk_OutOfBoundsError 7 7)).
Proof. vm_compute. repeat split. Qed.

(* Token::to_index (= try_into = TryFrom<&Token> for Index = Index::from_str on the ENCODED text), re-translated: it is the
   primitive the regenerated tree walks use for `token.to_index()` *)
Theorem C16_src_to_index_is_from_str_of_encoded : forall t : Token, utf8_valid (cow_text (Token_inner t)) = true ->
  gen_Token_to_index t = Ret (prim_to_index t) /\ gen_Index_try_from_ref_Token t = Ret (prim_to_index t).
Proof. exact gen_Token_to_index_is_prim. Qed.
Print Assumptions C16_src_to_index_is_from_str_of_encoded.

(* Display of an Index, re-translated: the decimal spelling of the number (no sign, no leading zeros), or "-" *)
Theorem C16_src_display : forall i : Index,
  gen_Index_display i = Ret (match i with Index_Num n => Dec.dec_of_N n | Index_Next => [45] end).
Proof. exact gen_display_index. Qed.
Print Assumptions C16_src_display.

(* the error of a rejected character, read with the source's own accessors: it keeps the input, its offset is the CHARACTER
   index of the first non-digit character, and char() returns that very character without panicking *)
Theorem C16_src_invalid_character_error : forall (s : str) (e : InvalidCharacterError),
  gen_Index_from_str s = Ret (Err (ParseIndexError_InvalidCharacter e)) ->
  gen_InvalidCharacterError_source e = Ret s /\
  chars_positionN (fun c => negb (is_digit c)) s = Some (InvalidCharacterError_offset e) /\
  gen_InvalidCharacterError_offset e = Ret (InvalidCharacterError_offset e) /\
  exists c, gen_InvalidCharacterError_char e = Ret c /\
            nth_N (str_chars s) (InvalidCharacterError_offset e) = Some c /\ is_digit c = false.
Proof. exact gen_invalid_character_error_accessors. Qed.
Print Assumptions C16_src_invalid_character_error.
