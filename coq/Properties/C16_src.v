(* C16 (bound checks), stated of the SOURCE AS IT IS NOW: Index::for_len, for_len_incl, for_len_unchecked
   are re-translated from src/index.rs by tools/rs2v.py on every run (Generated/ScanIndex.v).
   (Index::from_str is an iterator chain over chars; it is modelled by hand only -- Model/Index.v.) *)
From JP Require Import Bytes GenPrelude Model.Index Generated.ScanTypes Generated.ScanIndex
  Proofs.GenEquivBase Proofs.GenEquivIndex.

Theorem C16_src_bound_checks_exact : forall (i : Index) (n : N),
  gen_Index_for_len i n =
    Ret (match i with
         | Index_Num m => if m <? n then Ok m else Err (mk_OutOfBoundsError n m)
         | Index_Next => Err (mk_OutOfBoundsError n n) end) /\
  gen_Index_for_len_incl i n =
    Ret (match i with
         | Index_Num m => if m <=? n then Ok m else Err (mk_OutOfBoundsError n m)
         | Index_Next => Ok n end) /\
  gen_Index_for_len_unchecked i n = Ret (match i with Index_Num m => m | Index_Next => n end).
Proof. exact gen_bound_checks_exact. Qed.
Print Assumptions C16_src_bound_checks_exact.

Theorem C16_src_bound_checks_are_model : forall (i : index) (n : N),
  gen_Index_for_len (gen_index i) n = Ret (gen_oob (for_len i n)) /\
  gen_Index_for_len_incl (gen_index i) n = Ret (gen_oob (for_len_incl i n)) /\
  gen_Index_for_len_unchecked (gen_index i) n = Ret (for_len_unchecked i n).
Proof. intros i n. exact (conj (gen_for_len_eq i n) (conj (gen_for_len_incl_eq i n) (gen_for_len_unchecked_eq i n))). Qed.
Print Assumptions C16_src_bound_checks_are_model.

Example C16_src_examples :
  gen_Index_for_len (Index_Num 1) 1 = Ret (Err (mk_OutOfBoundsError 1 1)) /\
  gen_Index_for_len_incl (Index_Num 1) 1 = Ret (Ok 1) /\
  gen_Index_for_len_incl Index_Next 7 = Ret (Ok 7) /\
  gen_Index_for_len Index_Next 7 = Ret (Err (mk_OutOfBoundsError 7 7)).
Proof. vm_compute. repeat split. Qed.
