(* C05 -- Resolving pointer p against document D succeeds exactly when walking D token by token
   - object members by the *decoded* token, array elements by a canonical decimal index smaller
   than the length - reaches a node, and it returns a reference to that very node inside D, not a
   copy; in particular, for every node of every document the pointer built from its path resolves
   to that node.  Otherwise the error names the first step that fails.

   Theorems only.  [resolve] is the transliteration of src/resolve.rs (Model/Tree.v);
   [spec_resolve] is the token-by-token walk of SpecTree.v; the result carries the selector path
   of the node reached ("that very node": [get_at path D]).  Proofs: Proofs/TreeRefine.v,
   Proofs/TreeLaws.v, Proofs/NodeLaws.v, Proofs/ModelLaws.v. *)
From JP Require Import Bytes Spec Value SpecTree Model.Pointer Model.Index Model.Tree
  Proofs.TreeRefine Proofs.TreeLaws Proofs.NodeLaws Proofs.ModelLaws.

(* resolve IS the walk; in particular it never panics (the `&v[idx]` indexing is in range) and the
   loop terminates *)
Theorem C05_resolve_is_walk : forall (p : str) (d : value),
  valid_ptr p = true -> resolve p d = Ret (spec_resolve (tokens p) d 0 0).
Proof. exact resolve_refines. Qed.
Print Assumptions C05_resolve_is_walk.

Theorem C05_resolve_no_panic : forall (p : str) (d : value),
  valid_ptr p = true -> resolve p d <> Panic /\ resolve p d <> OutOfFuel.
Proof. exact resolve_no_panic. Qed.
Print Assumptions C05_resolve_no_panic.

(* a success returns the selector path of a node of D and that node: a reference, not a copy *)
Theorem C05_by_reference : forall (ts : list str) (d : value) (pos off : N) (path : list sel) (v : value),
  spec_resolve ts d pos off = Ok (path, v) -> get_at path d = Some v /\ length path = length ts.
Proof. exact spec_resolve_by_reference. Qed.
Print Assumptions C05_by_reference.

Theorem C05_by_reference_model : forall (p : str) (d : value) (path : list sel) (v : value),
  valid_ptr p = true -> resolve p d = Ret (Ok (path, v)) ->
  get_at path d = Some v /\ length path = count p.
Proof. exact resolve_by_reference. Qed.
Print Assumptions C05_by_reference_model.

(* resolve_mut is the same walk; writing through the returned `&mut` replaces exactly that node *)
Theorem C05_resolve_mut_write_through : forall (p : str) (d v : value),
  valid_ptr p = true ->
  write_through p d v =
  Ret (match spec_resolve (tokens p) d 0 0 with
       | Ok (path, _) => Ok (update_at path (fun _ => v) d)
       | Err e => Err e
       end).
Proof. exact write_through_refines. Qed.
Print Assumptions C05_resolve_mut_write_through.

(* every node has a (valid) pointer, and it resolves to that very node *)
Theorem C05_ptr_of_path_valid : forall path : list sel, valid_ptr (ptr_of_path path) = true.
Proof. exact ptr_of_path_valid. Qed.
Print Assumptions C05_ptr_of_path_valid.

Theorem C05_every_node : forall (path : list sel) (d v : value),
  wf_value d -> get_at path d = Some v -> resolve (ptr_of_path path) d = Ret (Ok (path, v)).
Proof. exact resolve_every_node. Qed.
Print Assumptions C05_every_node.

(* the same, quantifying over the enumeration of all nodes of D *)
Theorem C05_every_node_enumerated : forall (d : value) (path : list sel),
  wf_value d -> In path (all_paths d) ->
  exists v, get_at path d = Some v /\ resolve (ptr_of_path path) d = Ret (Ok (path, v)) /\
            node_addressable d path = true.
Proof. exact every_node_addressable. Qed.
Print Assumptions C05_every_node_enumerated.

(* the error names the first step that fails: the walk succeeds along [pre], reaching node [c],
   and token [t] cannot be followed from [c]:
     Unreachable         iff c is a scalar
     NotFound            iff c is an object without member (decoded t)
     FailedToParseIndex  iff c is an array and t is not an index (with the parser's reason)
     OutOfBounds l i     iff c is an array of length l and t is '-' (i = l) or an index i >= l
   (see [first_failure] in SpecTree.v) *)
Theorem C05_error_first_failure : forall (ts : list str) (d : value) (e : resolve_error),
  spec_resolve ts d 0 0 = Err e <-> first_failure ts d e.
Proof. exact spec_resolve_error_first_failure. Qed.
Print Assumptions C05_error_first_failure.

Theorem C05_error_first_failure_model : forall (p : str) (d : value) (e : resolve_error),
  valid_ptr p = true -> (resolve p d = Ret (Err e) <-> first_failure (tokens p) d e).
Proof. exact resolve_error_first_failure. Qed.
Print Assumptions C05_error_first_failure_model.

(* ---- non-vacuity --------------------------------------------------------------------------------- *)

(* D = {"a": [1, {"b": null}, 3], "m~n": 7} *)
Definition exD : value :=
  Obj [([97], Arr [VInt 1; Obj [([98], Null)]; VInt 3]); ([109; 126; 110], VInt 7)].

Example C05_exD_wf : wf_value exD.
Proof. wf_tac. Qed.

(* "/a/1/b" resolves to the node at path [Key "a"; Idx 1; Key "b"]; "/m~0n" finds the key "m~n" *)
Example C05_ex_resolves :
  resolve [47;97;47;49;47;98] exD = Ret (Ok ([Key [97]; Idx 1; Key [98]], Null)) /\
  resolve [47;109;126;48;110] exD = Ret (Ok ([Key [109;126;110]], VInt 7)) /\
  ptr_of_path [Key [109;126;110]] = [47;109;126;48;110] /\
  In [Key [97]; Idx 1; Key [98]] (all_paths exD).
Proof. vm_compute. repeat split; auto 10. Qed.

(* the four errors: "/a/1/b/x" Unreachable at token 3, "/a/1/c" NotFound at token 2,
   "/a/01" FailedToParseIndex(LeadingZeros) at token 1, "/a/-" and "/a/3" OutOfBounds *)
Example C05_ex_errors :
  resolve [47;97;47;49;47;98;47;120] exD = Ret (Err (RUnreachable 3 6)) /\
  resolve [47;97;47;49;47;99] exD = Ret (Err (RNotFound 2 4)) /\
  resolve [47;97;47;48;49] exD = Ret (Err (RFailedToParseIndex 1 2 LeadingZeros)) /\
  resolve [47;97;47;45] exD = Ret (Err (ROutOfBounds 1 2 3 3)) /\
  resolve [47;97;47;51] exD = Ret (Err (ROutOfBounds 1 2 3 3)).
Proof. vm_compute. repeat split. Qed.
