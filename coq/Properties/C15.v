(* C15 -- Whenever resolve, resolve_mut or assign fails on pointer p, the error's position is the
   zero-based index of the token at which the walk failed and its offset is the byte offset in p's
   text of the '/' introducing that token (the sum of 1 + encoded length over the preceding tokens),
   so p.get(position) is the culprit and p.split_at(offset) cuts directly before it.  An
   out-of-bounds error carries the index that was requested ('-' counting as the length) and the
   actual array length, an index-parse error carries the reason for the token's own text, and the
   diagnostic label for p covers exactly that token's bytes inside p (an empty span at that place
   for an empty token).

   Theorems only.  [error_locates_culprit], [locates], [label_covers], [first_failure],
   [assign_first_failure] are defined in SpecTree.v; [walk_label] is the transliteration of the
   Diagnostic::labels impls (Model/Tree.v).  Proofs: Proofs/TreeDiag.v, Proofs/ModelLaws.v. *)
From JP Require Import Bytes Spec Value SpecTree Model.Pointer Model.Index Model.Tree
  Proofs.TreeRefine Proofs.TreeLaws Proofs.TreeDiag Proofs.AssignLaws Proofs.ModelLaws.

(* position / offset of a resolve error: token number k, offset = length of the text of the first
   k tokens; get / split_at / the '/' byte / the label all agree on that token *)
Theorem C15_resolve_error_locates : forall (p : str) (d : value) (e : resolve_error),
  valid_ptr p = true -> resolve p d = Ret (Err e) ->
  error_locates_culprit p (re_position e) (re_offset e).
Proof. exact resolve_error_diag. Qed.
Print Assumptions C15_resolve_error_locates.

(* resolve_mut (observed through a write) *)
Theorem C15_resolve_mut_error_locates : forall (p : str) (d v : value) (e : resolve_error),
  valid_ptr p = true -> write_through p d v = Ret (Err e) ->
  error_locates_culprit p (re_position e) (re_offset e).
Proof. exact write_through_error_diag. Qed.
Print Assumptions C15_resolve_mut_error_locates.

Theorem C15_assign_error_locates : forall (p : str) (d v d' : value) (e : assign_error),
  valid_ptr p = true -> assign p d v = Ret (d', Err e) ->
  error_locates_culprit p (ae_position e) (ae_offset e).
Proof. exact assign_error_diag. Qed.
Print Assumptions C15_assign_error_locates.

(* the same facts on token lists *)
Theorem C15_spec_resolve_locates : forall (ts : list str) (d : value) (e : resolve_error),
  spec_resolve ts d 0 0 = Err e -> exists k, locates ts k (re_position e) (re_offset e).
Proof. exact resolve_error_locates. Qed.
Print Assumptions C15_spec_resolve_locates.

Theorem C15_spec_assign_locates : forall (ts : list str) (d v d' : value) (e : assign_error),
  spec_assign ts d v 0 0 = (d', Err e) -> exists k, locates ts k (ae_position e) (ae_offset e).
Proof. exact assign_error_locates. Qed.
Print Assumptions C15_spec_assign_locates.

Theorem C15_culprit_in_text : forall (ts : list str) (k : nat) (position offset : N),
  Forall (fun t => no_slash t = true) ts -> locates ts k position offset ->
  let p := from_tokens_enc ts in
  exists culprit,
    nth_error ts k = Some culprit /\
    get_tok p position = Some culprit /\
    split_at p offset = Some (from_tokens_enc (firstn k ts), from_tokens_enc (skipn k ts)) /\
    get_byte p offset = Some SLASH /\
    exists o l, walk_label position offset p = Some (o, l) /\ label_covers p culprit offset o l.
Proof. exact culprit_in_text. Qed.
Print Assumptions C15_culprit_in_text.

(* the offset is the sum of 1 + encoded length over the preceding tokens *)
Theorem C15_offset_is_sum : forall ts : list str,
  len (from_tokens_enc ts) = fold_right (fun t acc => 1 + len t + acc) 0 ts.
Proof. exact len_from_tokens_enc_sum. Qed.
Print Assumptions C15_offset_is_sum.

(* payloads: OutOfBounds carries (actual length, requested index with '-' = length),
   FailedToParseIndex carries index_from_str's reason for the culprit's own text *)
Theorem C15_resolve_payload : forall (p : str) (d : value) (e : resolve_error),
  valid_ptr p = true -> (resolve p d = Ret (Err e) <-> first_failure (tokens p) d e).
Proof. exact resolve_error_first_failure. Qed.
Print Assumptions C15_resolve_payload.

Theorem C15_assign_payload : forall (p : str) (d v : value) (e : assign_error),
  valid_ptr p = true ->
  ((exists d', assign p d v = Ret (d', Err e)) <-> assign_first_failure (tokens p) d e).
Proof. exact assign_error_first_failure. Qed.
Print Assumptions C15_assign_payload.

(* ---- non-vacuity --------------------------------------------------------------------------------- *)

(* D = {"a": [1, {"b": null}, 3]} *)
Definition exD : value := Obj [([97], Arr [VInt 1; Obj [([98], Null)]; VInt 3])].

(* "/a/15/x": OutOfBounds at token 1 ("15"), offset 2; label = bytes [3, 5) = "15" *)
Example C15_ex_oob :
  let p := [47;97;47;49;53;47;120] in
  valid_ptr p = true /\
  resolve p exD = Ret (Err (ROutOfBounds 1 2 3 15)) /\
  get_tok p 1 = Some [49;53] /\
  split_at p 2 = Some ([47;97], [47;49;53;47;120]) /\
  walk_label 1 2 p = Some (3, 2) /\
  assign p exD Null = Ret (exD, Err (AOutOfBounds 1 2 3 15)).
Proof. vm_compute. repeat split. Qed.

(* "/a/": the empty token on an array: FailedToParseIndex, empty label at the end of the text *)
Example C15_ex_empty_token :
  let p := [47;97;47] in
  resolve p exD = Ret (Err (RFailedToParseIndex 1 2 (InvalidInteger IntEmpty))) /\
  get_tok p 1 = Some [] /\
  walk_label 1 2 p = Some (2, 0).
Proof. vm_compute. repeat split. Qed.
