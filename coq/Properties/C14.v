(* C14 -- A parse error pinpoints the first offence and keeps the offending input.
   [validate] transliterates validate_bytes with its two counters; [pe_*] are the ParseError
   accessors and [pe_label] the (offset, len) of the diagnostic label (Model/Pointer.v). *)
From JP Require Import Bytes Spec Model.Pointer Proofs.ValidateProofs.

(* NoLeadingSlash exactly when the non-empty input does not start with '/' *)
Theorem C14_no_leading_slash : forall s : str,
  validate s = Some NoLeadingSlash <-> exists b r, s = b :: r /\ b <> SLASH.
Proof. exact validate_nls_iff. Qed.
Print Assumptions C14_no_leading_slash.

(* InvalidEncoding: complete_offset is the index of the first '~' not followed by '0'/'1'
   (everything before it is well escaped), pointer_offset is the nearest '/' at or before it
   (no '/' strictly between), source_offset is their difference *)
Theorem C14_invalid_encoding : forall (s : str) (po so : N),
  validate s = Some (InvalidEncoding po so) ->
  let e := InvalidEncoding po so in
  exists a rest,
    s = a ++ TILDE :: rest /\ escapes_ok a = true /\ bad_follow rest /\
    pe_complete_offset e = len a /\
    nth_N s (pe_pointer_offset e) = Some SLASH /\
    pe_pointer_offset e <= pe_complete_offset e /\
    no_slash (firstn (N.to_nat (so - 1)) (skipn (S (N.to_nat po)) s)) = true /\
    pe_source_offset e = pe_complete_offset e - pe_pointer_offset e.
Proof. exact validate_enc_offsets. Qed.
Print Assumptions C14_invalid_encoding.

(* the report keeps the error and the original string (door_run DBufParse = DoorReport e s, C02_doors);
   the label computed for that string lies entirely inside it and begins at the offending '~';
   computing it does not panic *)
Theorem C14_label_inside : forall (s : str) (e : parse_error),
  validate s = Some e ->
  exists o l, pe_label e s = Ret (o, l) /\ o + l <= len s /\ o = pe_complete_offset e /\
    match e with
    | NoLeadingSlash => o = 0 /\ l = 0
    | InvalidEncoding _ _ => nth_N s o = Some TILDE /\ (l = 1 \/ l = 2)
    end.
Proof. exact label_inside. Qed.
Print Assumptions C14_label_inside.

Theorem C14_report_keeps_input : forall (s : str) (e : parse_error),
  validate s = Some e -> door_run DBufParse s = DoorReport e s.
Proof. intros s e H. pose proof (doors_agree DBufParse s) as D. rewrite H in D. exact D. Qed.
Print Assumptions C14_report_keeps_input.

Example C14_examples :
  pe_label (InvalidEncoding 0 1) [SLASH; TILDE] = Ret (1, 1) /\
  validate [SLASH; 102; 111; 111; SLASH; 98; 97; 114; TILDE] = Some (InvalidEncoding 4 4) /\
  pe_label (InvalidEncoding 4 4) [SLASH; 102; 111; 111; SLASH; 98; 97; 114; TILDE] = Ret (8, 1) /\
  pe_label (InvalidEncoding 0 1) [SLASH; TILDE; 97] = Ret (1, 2).
Proof. vm_compute. repeat split. Qed.
