(* C09 -- JSON and TOML backends, and resolve vs resolve_mut, behave identically.
   In the Rust source the walk is written six times (resolve / resolve_mut / assign x two
   backends) plus two deletes.  The model has ONE transliteration of each walk over the common
   value type (Value.v), plus the JSON resolve_mut copy that goes through the shared
   `parse_index` helper (SpecHist.v), and a backend parameter where the copies really differ
   (what deleting the root leaves behind).  Consequently "the backends agree" is, for the
   model, true by construction and THIS PROPERTY IS MOSTLY TIE: each of the eight Rust functions
   is compared, per case, against the model on suites tree / hist for BOTH backends, and the
   harness additionally runs every common-domain case through both value types and compares the
   outcomes directly.  Proved here: the helper-based resolve_mut copy is the same walk; the
   backends' deletes differ only at the root; writing through resolve_mut is read back by
   resolve at the very same node and changes no other location. *)
From JP Require Import Bytes Spec Value Model.Pointer Model.Tree SpecTree SpecHist Proofs.HistoryProofs.

Theorem C09_resolve_mut_same_walk : forall (p : str) (d : value),
  json_resolve_mut p d = resolve p d /\ resolve_mut p d = resolve p d.
Proof. intros p d. split; [exact (json_resolve_mut_same p d)|reflexivity]. Qed.
Print Assumptions C09_resolve_mut_same_walk.

Theorem C09_delete_backends_agree : forall (p : str) (d : value),
  valid_ptr p = true -> p <> [] -> delete Json p d = delete Toml p d.
Proof. exact delete_backends_agree. Qed.
Print Assumptions C09_delete_backends_agree.

(* the single documented difference *)
Theorem C09_delete_root_differs : forall (be : backend) (d : value),
  delete be [] d = Ret (match be with Json => Null | Toml => Obj [] end, Some d).
Proof. exact delete_root. Qed.
Print Assumptions C09_delete_root_differs.

Theorem C09_write_through : forall (p : str) (d v d' : value),
  valid_ptr p = true -> write_through p d v = Ret (Ok d') ->
  exists path old, resolve p d = Ret (Ok (path, old)) /\ resolve_mut p d = Ret (Ok (path, old)) /\
    d' = update_at path (fun _ => v) d /\
    resolve p d' = Ret (Ok (path, v)) /\
    (forall q qpath w, valid_ptr q = true -> resolve q d = Ret (Ok (qpath, w)) ->
       ~ is_prefix (tokens q) (tokens p) -> ~ is_prefix (tokens p) (tokens q) ->
       resolve q d' = Ret (Ok (qpath, w))).
Proof. exact write_through_laws. Qed.
Print Assumptions C09_write_through.

(* D = {"a": [1, 2]};  *resolve_mut("/a/1") = "w" *)
Example C09_example :
  write_through [47; 97; 47; 49] (Obj [([97], Arr [VInt 1; VInt 2])]) (VStr [119]) =
    Ret (Ok (Obj [([97], Arr [VInt 1; VStr [119]])])) /\
  delete Json [] (VInt 1) = Ret (Null, Some (VInt 1)) /\ delete Toml [] (VInt 1) = Ret (Obj [], Some (VInt 1)).
Proof. vm_compute. repeat split. Qed.
