(* C13 -- prefix / suffix / intersection / concat work on whole tokens.

   "p.starts_with(q) holds exactly when q's token list is a leading sub-list of p's, and
    p.strip_prefix(q) is Some(r) exactly in that case, with r the remaining tokens so that
    q.concat(r) == p; ends_with / strip_suffix are the mirror image for trailing sub-lists, with
    the documented exception that ends_with treats root as a suffix of root only.  intersection
    is the longest common leading token list of its arguments - a prefix of both, symmetric,
    idempotent, root if either is root - and concat is list concatenation.  None of these ever
    splits a token: "/foo" is not a prefix of "/foobar"."

   Theorems only; proofs are in Proofs/PrefixProofs.v.  [p_starts_with p_strip_prefix
   p_ends_with p_strip_suffix intersection concat_ptr] are the transliterations of
   src/pointer.rs in Model/Pointer.v; [tokens], [from_tokens_enc], [valid_ptr] are the
   specification in Spec.v; [common_prefix] (SpecBuf.v) is the longest common leading sub-list. *)
From JP Require Import Bytes Spec Model.Token Model.Pointer SpecBuf Proofs.PrefixProofs.

(* ---- starts_with / strip_prefix ------------------------------------------------------------------ *)

(* never panics (the `as_bytes()[other.len()]` index is in bounds), and decides "leading sub-list" *)
Theorem C13_starts_with : forall p q : str,
  valid_ptr p = true -> valid_ptr q = true ->
  exists b, p_starts_with p q = Ret b /\ (b = true <-> exists rs, tokens p = tokens q ++ rs).
Proof. exact p_starts_with_spec. Qed.
Print Assumptions C13_starts_with.

Theorem C13_strip_prefix : forall p q v : str,
  valid_ptr p = true -> valid_ptr q = true ->
  (p_strip_prefix p q = Some v <-> exists rs, tokens p = tokens q ++ rs /\ v = from_tokens_enc rs).
Proof. exact p_strip_prefix_iff. Qed.
Print Assumptions C13_strip_prefix.

(* the stripped result is a valid pointer, a suffix view of p, and q.concat(v) == p *)
Theorem C13_strip_prefix_some : forall p q v : str,
  valid_ptr p = true -> valid_ptr q = true -> p_strip_prefix p q = Some v ->
  valid_ptr v = true /\ concat_ptr q v = p /\ p = q ++ v /\ tokens p = tokens q ++ tokens v.
Proof. exact p_strip_prefix_some. Qed.
Print Assumptions C13_strip_prefix_some.

Theorem C13_strip_prefix_none : forall p q : str,
  valid_ptr p = true -> valid_ptr q = true ->
  (p_strip_prefix p q = None <-> ~ exists rs, tokens p = tokens q ++ rs).
Proof. exact p_strip_prefix_none_iff. Qed.
Print Assumptions C13_strip_prefix_none.

Theorem C13_strip_prefix_starts_with : forall p q : str,
  valid_ptr p = true -> valid_ptr q = true ->
  (p_strip_prefix p q <> None <-> p_starts_with p q = Ret true).
Proof. exact p_strip_prefix_starts_with. Qed.
Print Assumptions C13_strip_prefix_starts_with.

(* ---- ends_with / strip_suffix ------------------------------------------------------------------------ *)

(* root q included: then rs = tokens p and v = p *)
Theorem C13_strip_suffix : forall p q v : str,
  valid_ptr p = true -> valid_ptr q = true ->
  (p_strip_suffix p q = Some v <-> exists rs, tokens p = rs ++ tokens q /\ v = from_tokens_enc rs).
Proof. exact p_strip_suffix_iff. Qed.
Print Assumptions C13_strip_suffix.

Theorem C13_strip_suffix_some : forall p q v : str,
  valid_ptr p = true -> valid_ptr q = true -> p_strip_suffix p q = Some v ->
  valid_ptr v = true /\ concat_ptr v q = p /\ p = v ++ q /\ tokens p = tokens v ++ tokens q.
Proof. exact p_strip_suffix_some. Qed.
Print Assumptions C13_strip_suffix_some.

Theorem C13_strip_suffix_none : forall p q : str,
  valid_ptr p = true -> valid_ptr q = true ->
  (p_strip_suffix p q = None <-> ~ exists rs, tokens p = rs ++ tokens q).
Proof. exact p_strip_suffix_none_iff. Qed.
Print Assumptions C13_strip_suffix_none.

(* ends_with: trailing sub-list, except that root is a suffix of root only *)
Theorem C13_ends_with : forall p q : str,
  valid_ptr p = true -> valid_ptr q = true ->
  (p_ends_with p q = true <->
   (q = [] /\ p = []) \/ (q <> [] /\ exists rs, tokens p = rs ++ tokens q)).
Proof. exact p_ends_with_iff. Qed.
Print Assumptions C13_ends_with.

Theorem C13_ends_with_strip_suffix : forall p q : str,
  valid_ptr p = true -> valid_ptr q = true -> q <> [] ->
  (p_ends_with p q = true <-> p_strip_suffix p q <> None).
Proof. exact p_ends_with_strip_suffix. Qed.
Print Assumptions C13_ends_with_strip_suffix.

(* ---- intersection ---------------------------------------------------------------------------------------- *)

Theorem C13_intersection : forall p q : str,
  valid_ptr p = true -> valid_ptr q = true ->
  intersection p q = from_tokens_enc (common_prefix (tokens p) (tokens q)).
Proof. exact intersection_spec. Qed.
Print Assumptions C13_intersection.

Theorem C13_intersection_tokens : forall p q : str,
  valid_ptr p = true -> valid_ptr q = true ->
  tokens (intersection p q) = common_prefix (tokens p) (tokens q).
Proof. exact intersection_tokens. Qed.
Print Assumptions C13_intersection_tokens.

Theorem C13_intersection_valid : forall p q : str,
  valid_ptr p = true -> valid_ptr q = true -> valid_ptr (intersection p q) = true.
Proof. exact intersection_valid. Qed.
Print Assumptions C13_intersection_valid.

(* a token-prefix of both, a text prefix of p, and the view `&p[..len]` the Rust code returns *)
Theorem C13_intersection_prefix : forall p q : str,
  valid_ptr p = true -> valid_ptr q = true ->
  (exists ra, tokens p = tokens (intersection p q) ++ ra)
  /\ (exists rb, tokens q = tokens (intersection p q) ++ rb)
  /\ (exists s, p = intersection p q ++ s)
  /\ intersection p q = firstn (length (intersection p q)) p.
Proof. exact intersection_prefix. Qed.
Print Assumptions C13_intersection_prefix.

Theorem C13_intersection_starts_with : forall p q : str,
  valid_ptr p = true -> valid_ptr q = true ->
  p_starts_with p (intersection p q) = Ret true /\ p_starts_with q (intersection p q) = Ret true.
Proof. exact intersection_starts_with. Qed.
Print Assumptions C13_intersection_starts_with.

(* longest: every common token-prefix r is a token-prefix of the intersection ... *)
Theorem C13_intersection_greatest : forall p q r : str,
  valid_ptr p = true -> valid_ptr q = true ->
  (exists ra, tokens p = tokens r ++ ra) -> (exists rb, tokens q = tokens r ++ rb) ->
  exists rc, tokens (intersection p q) = tokens r ++ rc.
Proof. exact intersection_greatest. Qed.
Print Assumptions C13_intersection_greatest.

(* ... and right after it the two pointers continue with different tokens, or one of them ends *)
Theorem C13_intersection_maximal : forall p q : str,
  valid_ptr p = true -> valid_ptr q = true ->
  exists ra rb, tokens p = tokens (intersection p q) ++ ra /\ tokens q = tokens (intersection p q) ++ rb
    /\ match ra, rb with x :: _, y :: _ => x <> y | _, _ => True end.
Proof. exact intersection_maximal. Qed.
Print Assumptions C13_intersection_maximal.

Theorem C13_intersection_comm : forall p q : str,
  valid_ptr p = true -> valid_ptr q = true -> intersection p q = intersection q p.
Proof. exact intersection_comm. Qed.
Print Assumptions C13_intersection_comm.

Theorem C13_intersection_idem : forall p : str, valid_ptr p = true -> intersection p p = p.
Proof. exact intersection_idem. Qed.
Print Assumptions C13_intersection_idem.

Theorem C13_intersection_root : forall p : str, intersection [] p = [] /\ intersection p [] = [].
Proof. intros p. split; [exact (intersection_root_l p)|exact (intersection_root_r p)]. Qed.
Print Assumptions C13_intersection_root.

(* ---- concat --------------------------------------------------------------------------------------------------- *)

Theorem C13_concat_tokens : forall p q : str,
  valid_ptr p = true -> valid_ptr q = true ->
  tokens (concat_ptr p q) = tokens p ++ tokens q
  /\ dtokens (concat_ptr p q) = dtokens p ++ dtokens q
  /\ valid_ptr (concat_ptr p q) = true.
Proof.
  intros p q Hp Hq. split; [exact (concat_tokens p q Hp Hq)|].
  split; [exact (concat_dtokens p q Hp Hq)|exact (concat_valid p q Hp Hq)].
Qed.
Print Assumptions C13_concat_tokens.

Theorem C13_concat_assoc : forall p q r : str,
  concat_ptr (concat_ptr p q) r = concat_ptr p (concat_ptr q r).
Proof. exact concat_assoc. Qed.
Print Assumptions C13_concat_assoc.

Theorem C13_concat_root_neutral : forall p : str, concat_ptr [] p = p /\ concat_ptr p [] = p.
Proof. intros p. split; [exact (concat_root_l p)|exact (concat_root_r p)]. Qed.
Print Assumptions C13_concat_root_neutral.

(* ---- the boundary lemma behind all of the above ------------------------------------------------------------------ *)

(* a text split of a pointer whose right part is empty or starts with '/' is a split of its
   token list (slash-free tokens) *)
Theorem C13_boundary : forall (a b : list str) (s : str),
  Forall (fun u => no_slash u = true) a -> Forall (fun u => no_slash u = true) b ->
  from_tokens_enc a = from_tokens_enc b ++ s -> s = [] \/ (exists r, s = SLASH :: r) ->
  a = b ++ skipn (length b) a /\ s = from_tokens_enc (skipn (length b) a).
Proof. exact boundary. Qed.
Print Assumptions C13_boundary.

(* ---- non-vacuity: no token is ever split --------------------------------------------------------------------------- *)

Definition cf : N := 102. Definition co : N := 111. Definition cb : N := 98.
Definition ca : N := 97.  Definition cr : N := 114.

Definition s_foo    : str := [SLASH; cf; co; co].
Definition s_foobar : str := [SLASH; cf; co; co; cb; ca; cr].
Definition s_foo_bar : str := [SLASH; cf; co; co; SLASH; cb; ca; cr].
Definition s_bar    : str := [SLASH; cb; ca; cr].

Example never_splits_token :
  valid_ptr s_foo = true /\ valid_ptr s_foobar = true /\ valid_ptr s_foo_bar = true
  /\ p_starts_with s_foobar s_foo = Ret false
  /\ p_strip_prefix s_foobar s_foo = None
  /\ p_starts_with s_foo_bar s_foo = Ret true
  /\ p_strip_prefix s_foo_bar s_foo = Some s_bar.
Proof. vm_compute. repeat split; reflexivity. Qed.

(* the string-level `ends_with` is enough for suffixes: "/bar" is a suffix of "/foo/bar" but not
   of "/foobar"; root is a suffix of root only, while strip_suffix(root) returns the pointer *)
Example suffix_examples :
  p_ends_with s_foo_bar s_bar = true /\ p_strip_suffix s_foo_bar s_bar = Some s_foo
  /\ p_ends_with s_foobar s_bar = false /\ p_strip_suffix s_foobar s_bar = None
  /\ p_ends_with [] [] = true /\ p_ends_with s_foo [] = false
  /\ p_strip_suffix s_foo [] = Some s_foo.
Proof. vm_compute. repeat split; reflexivity. Qed.

Example intersection_examples :
  intersection s_foo_bar s_foobar = []
  /\ intersection s_foo_bar s_foo = s_foo
  /\ intersection s_foo s_foo_bar = s_foo
  /\ intersection (s_foo ++ s_bar ++ s_foo) (s_foo ++ s_bar ++ s_bar) = s_foo ++ s_bar
  /\ tokens (s_foo ++ s_bar ++ s_foo) = [[cf; co; co]; [cb; ca; cr]; [cf; co; co]]
  /\ common_prefix (tokens (s_foo ++ s_bar ++ s_foo)) (tokens (s_foo ++ s_bar ++ s_bar))
     = [[cf; co; co]; [cb; ca; cr]].
Proof. vm_compute. repeat split; reflexivity. Qed.

Example concat_examples :
  concat_ptr s_foo s_bar = s_foo_bar /\ tokens (concat_ptr s_foo s_bar) = tokens s_foo ++ tokens s_bar.
Proof. vm_compute. split; reflexivity. Qed.
