(* C12, stated of the SOURCE AS IT IS NOW: Pointer::split_front, split_at, split_back, parent (src/pointer.rs,
   Generated/ScanPtrOps.v) and the eight PointerIndex impls of src/pointer/slice.rs (Generated/ScanSlice.v)
   are re-translated by tools/rs2v.py on every run.  The model's range getters return the byte range (x, y)
   of the result, the source's its content `&pointer.0[x..y]`: [content] (Proofs/GenEquivSlice.v) maps a
   range to [bytes_at p x y] and leaves None / Panic alone. *)
From JP Require Import Bytes Spec GenPrelude Model.Pointer Model.Slice Generated.ScanTypes Generated.ScanPtrOps
  Generated.ScanSlice Proofs.SliceProofs Proofs.GenEquivBase Proofs.GenEquivPtrOps Proofs.GenEquivSlice.

(* the regenerated functions are the model's, for every text and ALL bounds in N (the explicit Bound pair:
   all usize bounds) *)
Theorem C12_src_functions_are_model :
  (forall p : str, gen_Pointer_split_front p =
     Ret (option_map (fun '(t, r) => (tokB t, r)) (split_front p))) /\
  (forall (p : str) (k : N), gen_Pointer_split_at p k = Ret (split_at p k)) /\
  (forall p : str, gen_Pointer_split_back p =
     Ret (option_map (fun '(f, t) => (f, tokB t)) (split_back p))) /\
  (forall p : str, gen_Pointer_parent p = Ret (parent p)) /\
  (forall (i : N) (p : str), gen_get_usize i p = Ret (option_map tokB (get_tok p i))) /\
  (forall (s e : N) (p : str), gen_get_Range (mk_Range s e) p = content p (get_range p s e)) /\
  (forall (s : N) (p : str), gen_get_RangeFrom (mk_RangeFrom s) p = content p (get_range_from p s)) /\
  (forall (e : N) (p : str), gen_get_RangeTo (mk_RangeTo e) p = content p (get_range_to p e)) /\
  (forall p : str, gen_get_RangeFull mk_RangeFull p = content p (get_range_full p)) /\
  (forall (s e : N) (p : str),
     gen_get_RangeInclusive (mk_RangeInclusive s e) p = content p (get_range_incl p s e)) /\
  (forall (e : N) (p : str),
     gen_get_RangeToInclusive (mk_RangeToInclusive e) p = content p (get_range_to_incl p e)) /\
  (forall (lo hi : bound) (p : str), bound_ok lo -> bound_ok hi ->
     gen_get_Bounds (gen_bound lo, gen_bound hi) p = content p (get_bounds p lo hi)).
Proof.
  exact (conj gen_split_front_eq (conj gen_split_at_eq (conj gen_split_back_eq (conj gen_parent_eq
          (conj gen_get_usize_eq (conj gen_get_Range_eq (conj gen_get_RangeFrom_eq (conj gen_get_RangeTo_eq
          (conj gen_get_RangeFull_eq (conj gen_get_RangeInclusive_eq (conj gen_get_RangeToInclusive_eq
          gen_get_Bounds_eq))))))))))).
Qed.
Print Assumptions C12_src_functions_are_model.

(* the explicit Bound pair for bounds beyond usize::MAX as well: the source's `checked_add` on the model side *)
Theorem C12_src_bounds_any : forall (lo hi : bound) (p : str),
  gen_get_Bounds (gen_bound lo, gen_bound hi) p = content p (get_bounds_usize p lo hi).
Proof. exact gen_get_Bounds_eq_any. Qed.
Print Assumptions C12_src_bounds_any.

(* the splitting functions never panic, on any text *)
Theorem C12_src_split_total : forall (p : str) (k : N),
  (exists r, gen_Pointer_split_front p = Ret r) /\ (exists r, gen_Pointer_split_at p k = Ret r) /\
  (exists r, gen_Pointer_split_back p = Ret r) /\ (exists r, gen_Pointer_parent p = Ret r).
Proof. exact gen_split_total. Qed.
Print Assumptions C12_src_split_total.

(* on a valid pointer no getter of the source slices out of range, for ALL bounds in N *)
Theorem C12_src_total : forall (p : str), valid_ptr p = true ->
  forall (i s e : N) (lo hi : bound),
  (exists r, gen_get_usize i p = Ret r) /\
  (exists r, gen_get_Range (mk_Range s e) p = Ret r) /\
  (exists r, gen_get_RangeFrom (mk_RangeFrom s) p = Ret r) /\
  (exists r, gen_get_RangeTo (mk_RangeTo e) p = Ret r) /\
  (exists r, gen_get_RangeFull mk_RangeFull p = Ret r) /\
  (exists r, gen_get_RangeInclusive (mk_RangeInclusive s e) p = Ret r) /\
  (exists r, gen_get_RangeToInclusive (mk_RangeToInclusive e) p = Ret r) /\
  (exists r, gen_get_Bounds (gen_bound lo, gen_bound hi) p = Ret r).
Proof. exact gen_slice_total. Qed.
Print Assumptions C12_src_total.

(* the running example of C12: p = "/ab~0/a", tokens "ab~0" and "a" *)
Example C12_src_examples :
  let p := [47;97;98;126;48;47;97] in
  gen_get_RangeFrom (mk_RangeFrom 1) p = Ret (Some [47;97]) /\
  gen_get_RangeFrom (mk_RangeFrom 2) p = Ret None /\
  gen_get_Range (mk_Range 0 1) p = Ret (Some [47;97;98;126;48]) /\
  gen_get_Range (mk_Range 1 0) p = Ret None /\
  gen_get_RangeTo (mk_RangeTo 2) p = Ret (Some p) /\
  gen_get_RangeFull mk_RangeFull p = Ret (Some p) /\
  gen_get_RangeInclusive (mk_RangeInclusive 0 1) p = Ret (Some p) /\
  gen_get_RangeToInclusive (mk_RangeToInclusive 0) p = Ret (Some [47;97;98;126;48]) /\
  gen_get_RangeToInclusive (mk_RangeToInclusive 2) p = Ret None /\
  gen_get_usize 1 p = Ret (Some (tokB [97])) /\ gen_get_usize 2 p = Ret None /\
  gen_get_Bounds (Bound_Excluded 18446744073709551615, Bound_Unbounded) p = Ret None /\
  gen_get_Bounds (Bound_Excluded 0, Bound_Included 1) p = Ret (Some [47;97]) /\
  gen_get_Bounds (Bound_Unbounded, Bound_Excluded 1) p = Ret (Some [47;97;98;126;48]) /\
  gen_Pointer_split_front p = Ret (Some (tokB [97;98;126;48], [47;97])) /\
  gen_Pointer_split_back p = Ret (Some ([47;97;98;126;48], tokB [97])) /\
  gen_Pointer_parent p = Ret (Some [47;97;98;126;48]) /\
  gen_Pointer_split_at p 5 = Ret (Some ([47;97;98;126;48], [47;97])) /\
  gen_Pointer_split_at p 4 = Ret None /\ gen_Pointer_split_at p 7 = Ret None.
Proof. vm_compute. repeat split. Qed.
