(* C03, stated of the SOURCE AS IT IS NOW: Token::from_encoded, Token::new, Token::decoded (and encoded,
   into_owned, to_owned) are re-translated from src/token.rs by tools/rs2v.py on every run
   (Generated/ScanToken.v). *)
From JP Require Import Bytes Spec GenPrelude Model.Token Generated.ScanTypes Generated.ScanToken
  Proofs.TokenProofs Proofs.GenEquivBase Proofs.GenEquivToken.

(* the regenerated functions are the model's, for every input (so none of them panics) *)
Theorem C03_src_functions_are_model :
  (forall s, gen_Token_from_encoded s =
     Ret (match from_encoded s with
          | None => Ok (gen_token (from_encoded_tok s))
          | Some (o, k) => Err (mk_EncodingError o (gen_kind k)) end)) /\
  (forall c, gen_Token_new c =
     Ret (mk_Token (match position is_special (cow_text c) with
                    | Some _ => Cow_Owned (ttext (token_new (cow_owned c) (cow_text c)))
                    | None => c end))) /\
  (forall t, gen_Token_decoded t =
     Ret (let '(alloc, text) := decoded_cow (cow_text (Token_inner t)) in gen_cow alloc text)) /\
  (forall t, gen_Token_encoded t = Ret (cow_text (Token_inner t))).
Proof. exact (conj gen_from_encoded_eq (conj gen_token_new_eq (conj gen_decoded_eq gen_encoded_eq))). Qed.
Print Assumptions C03_src_functions_are_model.

(* Token::new escapes; decoded(new(s)) = s *)
Theorem C03_src_new_encodes : forall c : Cow,
  exists t, gen_Token_new c = Ret t /\ cow_text (Token_inner t) = encode (cow_text c).
Proof. exact gen_new_encodes. Qed.
Print Assumptions C03_src_new_encodes.

Theorem C03_src_decode_new : forall c : Cow,
  exists t d, gen_Token_new c = Ret t /\ gen_Token_decoded t = Ret d /\ cow_text d = cow_text c.
Proof. exact gen_decode_new. Qed.
Print Assumptions C03_src_decode_new.

(* from_encoded succeeds exactly on valid tokens, keeps the text verbatim (borrowed) *)
Theorem C03_src_from_encoded_exact : forall e : str,
  (exists t, gen_Token_from_encoded e = Ret (Ok t)) <-> valid_tok e = true.
Proof. exact gen_from_encoded_exact. Qed.
Print Assumptions C03_src_from_encoded_exact.

Theorem C03_src_from_encoded_verbatim : forall (e : str) (t : Token),
  gen_Token_from_encoded e = Ret (Ok t) -> Token_inner t = Cow_Borrowed e.
Proof. exact gen_from_encoded_borrows. Qed.
Print Assumptions C03_src_from_encoded_verbatim.

(* on valid tokens decoded is the inverse mapping and re-encoding gives the text back *)
Theorem C03_src_decoded_inverse : forall t : Token,
  valid_tok (cow_text (Token_inner t)) = true ->
  exists d, gen_Token_decoded t = Ret d /\ cow_text d = unescape (cow_text (Token_inner t)) /\
            encode (cow_text d) = cow_text (Token_inner t).
Proof. exact gen_decoded_inverse. Qed.
Print Assumptions C03_src_decoded_inverse.

(* a rejection is truthful *)
Theorem C03_src_error_truthful : forall (e : str) (err : EncodingError),
  gen_Token_from_encoded e = Ret (Err err) ->
  exists a rest, e = a ++ rest /\ EncodingError_offset err = len a /\ prefix_extends a /\
    match EncodingError_source err with
    | InvalidEncoding_Slash => exists r, rest = SLASH :: r
    | InvalidEncoding_Tilde => (exists a', a = a' ++ [TILDE] /\ valid_tok a' = true) /\
                match rest with [] => True | c :: _ => c <> ZERO /\ c <> ONE end
    end.
Proof. exact gen_from_encoded_err_truthful. Qed.
Print Assumptions C03_src_error_truthful.

Example C03_src_examples :
  gen_Token_new (Cow_Borrowed [TILDE; ONE]) = Ret (mk_Token (Cow_Owned [TILDE; ZERO; ONE])) /\
  gen_Token_decoded (mk_Token (Cow_Borrowed [TILDE; ZERO; ONE])) = Ret (Cow_Owned [TILDE; ONE]) /\
  gen_Token_from_encoded [TILDE; TILDE; ZERO] = Ret (Err (mk_EncodingError 1 InvalidEncoding_Tilde)) /\
  gen_Token_from_encoded [97; TILDE] = Ret (Err (mk_EncodingError 2 InvalidEncoding_Tilde)) /\
  gen_Token_from_encoded [TILDE; SLASH] = Ret (Err (mk_EncodingError 1 InvalidEncoding_Slash)).
Proof. vm_compute. repeat split. Qed.
