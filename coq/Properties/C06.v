(* C06 -- assign follows the documented rules: walk the tokens; an existing array element / object
   member is descended into (and replaced at the last token); index == length or '-' appends;
   a missing object member is inserted; a scalar on the way is replaced; whatever does not exist
   yet is materialised from the remaining tokens ("0" and "-" create arrays, every other token an
   object keyed by the decoded token); the root pointer replaces the whole document.  The only
   errors: a non-index token, or an index > length, on an EXISTING array.

   Theorems only.  [assign] / [expand] transliterate src/assign.rs (Model/Tree.v);
   [spec_assign] / [materialise] are the specification (SpecTree.v).
   Proofs: Proofs/TreeRefine.v, Proofs/AssignLaws.v, Proofs/TreeLaws.v. *)
From JP Require Import Bytes Spec Value SpecTree Model.Pointer Model.Index Model.Tree
  Proofs.TreeRefine Proofs.TreeLaws Proofs.AssignLaws Proofs.ModelLaws.

Theorem C06_assign_follows_rules : forall (p : str) (d v : value),
  valid_ptr p = true ->
  assign p d v = Ret (spec_assign (tokens p) d v 0 0) /\
  expand p v = Ret (materialise (tokens p) v).
Proof. intros p d v H. split; [exact (assign_refines p d v H)|exact (expand_refines p v H)]. Qed.
Print Assumptions C06_assign_follows_rules.

Theorem C06_assign_no_panic : forall (p : str) (d v : value),
  valid_ptr p = true -> assign p d v <> Panic /\ assign p d v <> OutOfFuel.
Proof. exact assign_no_panic. Qed.
Print Assumptions C06_assign_no_panic.

(* ---- the clauses ------------------------------------------------------------------------------------ *)

(* root: the document is replaced and returned *)
Theorem C06_root : forall (d v : value) (pos off : N), spec_assign [] d v pos off = (v, Ok (Some d)).
Proof. exact spec_assign_root. Qed.
Print Assumptions C06_root.

(* existing array element: descend (at the last token this replaces it and returns the old one) *)
Theorem C06_array_existing : forall (t : str) (r : list str) (a : list value) (n : N) (c v : value) (pos off : N),
  index_from_str t = Ok (Num n) -> n < len a -> nth_error a (N.to_nat n) = Some c ->
  spec_assign (t :: r) (Arr a) v pos off =
  (Arr (set_nth (N.to_nat n) (fst (spec_assign r c v (pos + 1) (off + (1 + len t)))) a),
   snd (spec_assign r c v (pos + 1) (off + (1 + len t)))).
Proof. exact spec_assign_arr_existing. Qed.
Print Assumptions C06_array_existing.

(* '-' or index == length: append what the remaining tokens materialise to; nothing replaced *)
Theorem C06_array_append : forall (t : str) (r : list str) (a : list value) (v : value) (pos off : N),
  index_from_str t = Ok Next \/ index_from_str t = Ok (Num (len a)) ->
  spec_assign (t :: r) (Arr a) v pos off = (Arr (a ++ [materialise r v]), Ok None).
Proof. exact spec_assign_arr_append. Qed.
Print Assumptions C06_array_append.

Theorem C06_array_out_of_bounds : forall (t : str) (r : list str) (a : list value) (n : N) (v : value) (pos off : N),
  index_from_str t = Ok (Num n) -> len a < n ->
  spec_assign (t :: r) (Arr a) v pos off = (Arr a, Err (AOutOfBounds pos off (len a) n)).
Proof. exact spec_assign_arr_out_of_bounds. Qed.
Print Assumptions C06_array_out_of_bounds.

Theorem C06_array_bad_index : forall (t : str) (r : list str) (a : list value) (pe : parse_index_error) (v : value) (pos off : N),
  index_from_str t = Err pe ->
  spec_assign (t :: r) (Arr a) v pos off = (Arr a, Err (AFailedToParseIndex pos off pe)).
Proof. exact spec_assign_arr_bad_index. Qed.
Print Assumptions C06_array_bad_index.

(* objects are keyed by the DECODED token *)
Theorem C06_object_existing : forall (t : str) (r : list str) (m : obj) (c v : value) (pos off : N),
  obj_lookup (unescape t) m = Some c ->
  spec_assign (t :: r) (Obj m) v pos off =
  (Obj (obj_insert (unescape t) (fst (spec_assign r c v (pos + 1) (off + (1 + len t)))) m),
   snd (spec_assign r c v (pos + 1) (off + (1 + len t)))).
Proof. exact spec_assign_obj_existing. Qed.
Print Assumptions C06_object_existing.

Theorem C06_object_new : forall (t : str) (r : list str) (m : obj) (v : value) (pos off : N),
  obj_lookup (unescape t) m = None ->
  spec_assign (t :: r) (Obj m) v pos off =
  (Obj (obj_insert (unescape t) (materialise r v) m), Ok None).
Proof. exact spec_assign_obj_new. Qed.
Print Assumptions C06_object_new.

(* a scalar on the way is replaced by what the remaining tokens (this one included) materialise to *)
Theorem C06_scalar_replaced : forall (t : str) (r : list str) (d v : value) (pos off : N),
  is_scalar d -> spec_assign (t :: r) d v pos off = (materialise (t :: r) v, Ok (Some d)).
Proof. exact spec_assign_scalar. Qed.
Print Assumptions C06_scalar_replaced.

(* materialise: exactly "0" and "-" create arrays; every other token an object keyed by the
   decoded token *)
Theorem C06_materialise_array : forall (t : str) (r : list str) (v : value),
  t = [ZERO] \/ t = [DASH] -> materialise (t :: r) v = Arr [materialise r v].
Proof. exact materialise_array. Qed.
Print Assumptions C06_materialise_array.

Theorem C06_materialise_object : forall (t : str) (r : list str) (v : value),
  t <> [ZERO] -> t <> [DASH] -> materialise (t :: r) v = Obj [(unescape t, materialise r v)].
Proof. exact materialise_object. Qed.
Print Assumptions C06_materialise_object.

(* assign walks the existing part of the path exactly like resolve and acts at the node reached *)
Theorem C06_assign_along : forall (pre rest : list str) (d v : value) (pos off : N) (path : list sel) (c : value),
  spec_resolve pre d pos off = Ok (path, c) ->
  spec_assign (pre ++ rest) d v pos off =
  (update_at path (fun _ => fst (spec_assign rest c v (pos + len pre) (off + len (from_tokens_enc pre)))) d,
   snd (spec_assign rest c v (pos + len pre) (off + len (from_tokens_enc pre)))).
Proof. exact spec_assign_along. Qed.
Print Assumptions C06_assign_along.

(* the only errors (see [assign_first_failure] in SpecTree.v) *)
Theorem C06_errors_only : forall (ts : list str) (d v : value) (e : assign_error),
  snd (spec_assign ts d v 0 0) = Err e <-> assign_first_failure ts d e.
Proof. exact spec_assign_error_iff. Qed.
Print Assumptions C06_errors_only.

(* ---- non-vacuity --------------------------------------------------------------------------------- *)

(* assigning 42 at "/a/-/0/m~0n" in {"a": [1]} gives {"a": [1, [{"m~n": 42}]]} *)
Example C06_ex :
  assign [47;97;47;45;47;48;47;109;126;48;110] (Obj [([97], Arr [VInt 1])]) (VInt 42)
  = Ret (Obj [([97], Arr [VInt 1; Arr [Obj [([109;126;110], VInt 42)]]])], Ok None).
Proof. vm_compute. reflexivity. Qed.

(* a scalar on the way is replaced: "/a/b" in {"a": 5} *)
Example C06_ex_scalar :
  assign [47;97;47;98] (Obj [([97], VInt 5)]) Null
  = Ret (Obj [([97], Obj [([98], Null)])], Ok (Some (VInt 5))).
Proof. vm_compute. reflexivity. Qed.
