(* C07 -- What assign does to the document.
   - atomic on error: a failed assign leaves the document exactly as it was;
   - read-your-write: after a success, resolving the same pointer (each '-' that addressed an array
     read as that array's new last index) finds the assigned value;
   - frame: every location that is neither on the assigned path nor below it resolves as before;
   - replaced: if p resolved to w before, assign returns Some w; if it returns None, nothing that
     existed was overwritten;
   - idempotent: assigning the same value again at a '-'-free pointer changes nothing.

   Theorems only, on [spec_assign] (SpecTree.v) and transported to the model [assign]
   (Model/Tree.v) through C06_assign_follows_rules.  [wf_value d]: object keys strictly sorted (the
   BTreeMap invariant), needed where the model rebuilds an object around an unchanged child.
   Proofs: Proofs/TreeLaws.v, Proofs/AssignLaws.v, Proofs/ModelLaws.v. *)
From JP Require Import Bytes Spec Value SpecTree Model.Pointer Model.Index Model.Tree
  Proofs.TreeRefine Proofs.TreeLaws Proofs.AssignLaws Proofs.DeleteLaws Proofs.WfLaws Proofs.ModelLaws.

(* ---- atomic on error ----------------------------------------------------------------------------------- *)

Theorem C07_atomic_on_error : forall (ts : list str) (d v : value) (pos off : N) (d' : value) (e : assign_error),
  wf_value d -> spec_assign ts d v pos off = (d', Err e) -> d' = d.
Proof. exact spec_assign_atomic. Qed.
Print Assumptions C07_atomic_on_error.

Theorem C07_atomic_on_error_model : forall (p : str) (d v d' : value) (e : assign_error),
  valid_ptr p = true -> wf_value d -> assign p d v = Ret (d', Err e) -> d' = d.
Proof. exact assign_atomic. Qed.
Print Assumptions C07_atomic_on_error_model.

(* ---- read your write ------------------------------------------------------------------------------------- *)

(* [spec_resolve_last]: the walk of resolve, except that '-' on an array reads its last element *)
Theorem C07_read_your_write : forall (ts : list str) (d v : value) (pos off : N) (d' : value) (res : option value),
  spec_assign ts d v pos off = (d', Ok res) ->
  exists path, spec_resolve_last ts d' = Some (path, v).
Proof. exact spec_assign_read_your_write. Qed.
Print Assumptions C07_read_your_write.

Theorem C07_read_your_write_dash_free : forall (ts : list str) (d v d' : value) (res : option value),
  dash_free ts -> spec_assign ts d v 0 0 = (d', Ok res) ->
  exists path, spec_resolve ts d' 0 0 = Ok (path, v).
Proof. exact spec_assign_read_your_write_dash_free. Qed.
Print Assumptions C07_read_your_write_dash_free.

Theorem C07_read_your_write_model : forall (p : str) (d v d' : value) (res : option value),
  valid_ptr p = true -> dash_free (tokens p) -> assign p d v = Ret (d', Ok res) ->
  exists path, resolve p d' = Ret (Ok (path, v)).
Proof. exact assign_read_your_write. Qed.
Print Assumptions C07_read_your_write_model.

(* on '-'-free token lists the two walks coincide *)
Theorem C07_resolve_last_dash_free : forall (ts : list str) (d : value) (pos off : N),
  dash_free ts ->
  spec_resolve_last ts d = match spec_resolve ts d pos off with Ok x => Some x | Err _ => None end.
Proof. exact spec_resolve_last_dash_free. Qed.
Print Assumptions C07_resolve_last_dash_free.

(* ---- frame --------------------------------------------------------------------------------------------------- *)

Theorem C07_frame : forall (ts qs : list str) (d v : value) (pos off : N) (d' : value) (res : option value)
    (pos' off' : N) (path : list sel) (w : value),
  forallb valid_tok ts = true -> forallb valid_tok qs = true ->
  spec_assign ts d v pos off = (d', Ok res) ->
  spec_resolve qs d pos' off' = Ok (path, w) ->
  ~ is_prefix qs ts -> ~ is_prefix ts qs ->
  spec_resolve qs d' pos' off' = Ok (path, w).
Proof. exact spec_assign_frame. Qed.
Print Assumptions C07_frame.

Theorem C07_frame_model : forall (p q : str) (d v d' : value) (res : option value) (path : list sel) (w : value),
  valid_ptr p = true -> valid_ptr q = true ->
  assign p d v = Ret (d', Ok res) -> resolve q d = Ret (Ok (path, w)) ->
  ~ is_prefix (tokens q) (tokens p) -> ~ is_prefix (tokens p) (tokens q) ->
  resolve q d' = Ret (Ok (path, w)).
Proof. exact assign_frame. Qed.
Print Assumptions C07_frame_model.

(* ---- replaced ------------------------------------------------------------------------------------------------ *)

Theorem C07_replaced : forall (ts : list str) (d v : value) (pos off pos' off' : N) (path : list sel) (w : value),
  spec_resolve ts d pos' off' = Ok (path, w) -> snd (spec_assign ts d v pos off) = Ok (Some w).
Proof. exact spec_assign_replaced. Qed.
Print Assumptions C07_replaced.

Theorem C07_replaced_model : forall (p : str) (d v : value) (path : list sel) (w : value),
  valid_ptr p = true -> resolve p d = Ret (Ok (path, w)) ->
  exists d', assign p d v = Ret (d', Ok (Some w)).
Proof. exact assign_replaced. Qed.
Print Assumptions C07_replaced_model.

(* Ok None: every location that resolved still resolves, to the same node address, and a scalar
   there is unchanged (containers on the path have grown) *)
Theorem C07_none_overwrites_nothing : forall (ts qs : list str) (d v : value) (pos off : N) (d' : value)
    (pos' off' : N) (path : list sel) (w : value),
  spec_assign ts d v pos off = (d', Ok None) ->
  spec_resolve qs d pos' off' = Ok (path, w) ->
  exists w', spec_resolve qs d' pos' off' = Ok (path, w') /\ (is_scalar w -> w' = w).
Proof. exact spec_assign_none_preserves. Qed.
Print Assumptions C07_none_overwrites_nothing.

Theorem C07_none_overwrites_nothing_model : forall (p q : str) (d v d' : value) (path : list sel) (w : value),
  valid_ptr p = true -> valid_ptr q = true ->
  assign p d v = Ret (d', Ok None) -> resolve q d = Ret (Ok (path, w)) ->
  exists w', resolve q d' = Ret (Ok (path, w')) /\ (is_scalar w -> w' = w).
Proof. exact assign_none_preserves. Qed.
Print Assumptions C07_none_overwrites_nothing_model.

(* ---- idempotent ------------------------------------------------------------------------------------------------ *)

Theorem C07_idempotent : forall (ts : list str) (d v : value) (pos off : N) (d' : value) (res : option value),
  dash_free ts -> spec_assign ts d v pos off = (d', Ok res) ->
  spec_assign ts d' v pos off = (d', Ok (Some v)).
Proof. exact spec_assign_idempotent. Qed.
Print Assumptions C07_idempotent.

Theorem C07_idempotent_model : forall (p : str) (d v d' : value) (res : option value),
  valid_ptr p = true -> dash_free (tokens p) -> assign p d v = Ret (d', Ok res) ->
  assign p d' v = Ret (d', Ok (Some v)).
Proof. exact assign_idempotent. Qed.
Print Assumptions C07_idempotent_model.

(* sortedness of objects is preserved by the insertions assign performs *)
Theorem C07_insert_keeps_sorted : forall (k : str) (v : value) (m : obj),
  keys_sorted m = true -> keys_sorted (obj_insert k v m) = true.
Proof. exact Proofs.ValueFacts.keys_sorted_insert. Qed.
Print Assumptions C07_insert_keeps_sorted.

(* ---- the invariants atomicity relies on are kept by every write ------------------------------------------- *)

(* atomicity needs only sortedness ([wf_value d -> sorted_value d]) *)
Theorem C07_atomic_on_error_sorted : forall (ts : list str) (d v : value) (pos off : N) (d' : value) (e : assign_error),
  sorted_value d -> spec_assign ts d v pos off = (d', Err e) -> d' = d.
Proof. exact spec_assign_atomic_sorted. Qed.
Print Assumptions C07_atomic_on_error_sorted.

Theorem C07_wf_is_sorted : forall d : value, wf_value d -> sorted_value d.
Proof. exact wf_sorted. Qed.
Print Assumptions C07_wf_is_sorted.

Theorem C07_assign_keeps_sorted : forall (ts : list str) (d v : value) (pos off : N),
  sorted_value d -> sorted_value v -> sorted_value (fst (spec_assign ts d v pos off)).
Proof. exact spec_assign_sorted. Qed.
Print Assumptions C07_assign_keeps_sorted.

(* array lengths stay within usize unless something was appended (the only clause reporting None
   that lengthens an array; a Vec of usize::MAX elements cannot exist anyway) *)
Theorem C07_assign_keeps_wf : forall (ts : list str) (d v : value) (pos off : N),
  wf_value d -> wf_value v -> snd (spec_assign ts d v pos off) <> Ok None ->
  wf_value (fst (spec_assign ts d v pos off)).
Proof. exact spec_assign_wf. Qed.
Print Assumptions C07_assign_keeps_wf.

Theorem C07_write_through_keeps_wf : forall (ts : list str) (d v d' : value),
  wf_value d -> wf_value v -> spec_write_through ts d v = Ok d' -> wf_value d'.
Proof. exact spec_write_through_wf. Qed.
Print Assumptions C07_write_through_keeps_wf.

(* ---- non-vacuity --------------------------------------------------------------------------------- *)

(* D = {"a": [1, {"b": null}], "c": 7} *)
Definition exD : value := Obj [([97], Arr [VInt 1; Obj [([98], Null)]]); ([99], VInt 7)].

Example C07_exD_wf : wf_value exD.
Proof. wf_tac. Qed.

(* a failing assign ("/a/5/x": index 5 > length 2) returns the document unchanged *)
Example C07_ex_atomic :
  assign [47;97;47;53;47;120] exD Null = Ret (exD, Err (AOutOfBounds 1 2 2 5)).
Proof. vm_compute. reflexivity. Qed.

(* "/a/-/x" := 42 succeeds with None; reading back: '-' as the new last index 2; "/c" and "/a/1/b"
   (not prefix-related) are untouched; with '-' the second assign appends again (not idempotent) *)
Example C07_ex_success :
  let p := [47;97;47;45;47;120] in
  let d' := Obj [([97], Arr [VInt 1; Obj [([98], Null)]; Obj [([120], VInt 42)]]); ([99], VInt 7)] in
  assign p exD (VInt 42) = Ret (d', Ok None) /\
  spec_resolve_last (tokens p) d' = Some ([Key [97]; Idx 2; Key [120]], VInt 42) /\
  resolve [47;99] d' = Ret (Ok ([Key [99]], VInt 7)) /\
  resolve [47;97;47;49;47;98] d' = Ret (Ok ([Key [97]; Idx 1; Key [98]], Null)) /\
  assign p d' (VInt 42) <> Ret (d', Ok (Some (VInt 42))).
Proof. vm_compute. repeat split. discriminate. Qed.

(* idempotence on a '-'-free pointer: "/a/2/x" := 42 twice *)
Example C07_ex_idempotent :
  let p := [47;97;47;50;47;120] in
  let d' := Obj [([97], Arr [VInt 1; Obj [([98], Null)]; Obj [([120], VInt 42)]]); ([99], VInt 7)] in
  assign p exD (VInt 42) = Ret (d', Ok None) /\ assign p d' (VInt 42) = Ret (d', Ok (Some (VInt 42))).
Proof. vm_compute. repeat split. Qed.
