(* C06, stated of the SOURCE AS IT IS NOW: the two `expand` copies of src/assign.rs (serde_json and toml) are
   re-translated by tools/rs2v.py on every run (Generated/ScanTree.v), and so are the assign walks themselves
   (assign_value / assign_array / assign_object / assign_scalar / Assign::assign, in lens mode: Generated/ScanTreeMut.v; second part of this file).  Both sides are `outcome value`: the
   equalities are on the nose, for every text and every value. *)
From JP Require Import Bytes Spec Value GenPrelude Model.Pointer Model.Tree SpecTree
  Generated.ScanTypes GenTreePrelude Generated.ScanTree Proofs.GenEquivBase Proofs.GenEquivTree.

Theorem C06_src_json_expand_is_model : forall (r : str) (v : value), gen_json_expand r v = expand r v.
Proof. exact gen_json_expand_eq. Qed.
Print Assumptions C06_src_json_expand_is_model.

Theorem C06_src_toml_expand_is_model : forall (r : str) (v : value), gen_toml_expand r v = expand r v.
Proof. exact gen_toml_expand_eq. Qed.
Print Assumptions C06_src_toml_expand_is_model.

(* on a valid pointer both materialise the remaining tokens ("0" / "-" an array, anything else an object keyed by
   the decoded token) and never panic *)
Theorem C06_src_expand_materialises : forall (r : str) (v : value), valid_ptr r = true ->
  gen_json_expand r v = Ret (materialise (tokens r) v) /\
  gen_toml_expand r v = Ret (materialise (tokens r) v).
Proof. exact gen_expand_total. Qed.
Print Assumptions C06_src_expand_materialises.

(* "/a/0" around 7 is {"a": [7]}; "/-/m~1n" is [{"m/n": 7}]; the root pointer leaves the value alone *)
Example C06_src_examples :
  gen_json_expand [47;97;47;48] (VInt 7) = Ret (Obj [([97], Arr [VInt 7])]) /\
  gen_toml_expand [47;97;47;48] (VInt 7) = Ret (Obj [([97], Arr [VInt 7])]) /\
  gen_json_expand [47;45;47;109;126;49;110] (VInt 7) = Ret (Arr [Obj [([109;47;110], VInt 7)]]) /\
  gen_toml_expand [47;45;47;109;126;49;110] (VInt 7) = Ret (Arr [Obj [([109;47;110], VInt 7)]]) /\
  gen_json_expand [] (VInt 7) = Ret (VInt 7) /\ gen_toml_expand [] (VInt 7) = Ret (VInt 7).
Proof. vm_compute. repeat split. Qed.

(* ==== the assign walk itself, re-translated in lens mode (DESIGN 13.8) =================================================== *)
From JP Require Import Model.Pointer SpecHist Proofs.HistoryProofs Generated.ScanTreeMut Proofs.GenEquivTreeMut Proofs.GenClosureMut.

(* `doc.assign(p, v)` of the CURRENT source, applied to `&mut doc`, IS the model's assign: same document afterwards, same
   result, same panics -- every real document (BTreeMap keys sorted), EVERY pointer text, both backends *)
Theorem C06_src_assign_is_model : forall (be : backend) (d : value) (p : str) (v : value), sorted_value d ->
  omap model_aout (gen_assign be d (lens_root d) p v) = assign p d v.
Proof. exact gen_assign_eq. Qed.
Print Assumptions C06_src_assign_is_model.

(* ... and so follows the rule table of the specification on every valid pointer, without panicking *)
Theorem C06_src_assign_follows_rules : forall (be : backend) (d : value) (p : str) (v : value),
  sorted_value d -> valid_ptr p = true ->
  omap model_aout (gen_assign be d (lens_root d) p v) = Ret (spec_assign (tokens p) d v 0 0).
Proof. exact gen_assign_refines. Qed.
Print Assumptions C06_src_assign_follows_rules.

(* {"a":[1]} : assign /a/- := 2 appends; assign /a/0/x := 3 replaces the scalar 1 by {"x":3}; assign /a/5 is out of bounds *)
Example C06_src_assign_examples :
  let d := Obj [([97], Arr [VInt 1])] in
  omap model_aout (gen_json_assign d (lens_root d) [47;97;47;45] (VInt 2)) = Ret (Obj [([97], Arr [VInt 1; VInt 2])], Ok None) /\
  omap model_aout (gen_toml_assign d (lens_root d) [47;97;47;48;47;120] (VInt 3)) =
    Ret (Obj [([97], Arr [Obj [([120], VInt 3)]])], Ok (Some (VInt 1))) /\
  omap model_aout (gen_json_assign d (lens_root d) [47;97;47;53] (VInt 2)) = Ret (d, Err (AOutOfBounds 1 2 1 5)).
Proof. vm_compute. repeat split. Qed.
