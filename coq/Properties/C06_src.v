(* C06, stated of the SOURCE AS IT IS NOW: the two `expand` copies of src/assign.rs (serde_json and toml) are
   re-translated by tools/rs2v.py on every run (Generated/ScanTree.v).  Both sides are `outcome value`: the
   equalities are on the nose, for every text and every value. *)
From JP Require Import Bytes Spec Value GenPrelude Model.Pointer Model.Tree SpecTree
  Generated.ScanTypes GenTreePrelude Generated.ScanTree Proofs.GenEquivBase Proofs.GenEquivTree.

Theorem C06_src_json_expand_is_model : forall (r : str) (v : value), gen_json_expand r v = expand r v.
Proof. exact gen_json_expand_eq. Qed.
Print Assumptions C06_src_json_expand_is_model.

Theorem C06_src_toml_expand_is_model : forall (r : str) (v : value), gen_toml_expand r v = expand r v.
Proof. exact gen_toml_expand_eq. Qed.
Print Assumptions C06_src_toml_expand_is_model.

(* on a valid pointer both materialise the remaining tokens ("0" / "-" an array, anything else an object keyed by
   the decoded token) and never panic *)
Theorem C06_src_expand_materialises : forall (r : str) (v : value), valid_ptr r = true ->
  gen_json_expand r v = Ret (materialise (tokens r) v) /\
  gen_toml_expand r v = Ret (materialise (tokens r) v).
Proof. exact gen_expand_total. Qed.
Print Assumptions C06_src_expand_materialises.

(* "/a/0" around 7 is {"a": [7]}; "/-/m~1n" is [{"m/n": 7}]; the root pointer leaves the value alone *)
Example C06_src_examples :
  gen_json_expand [47;97;47;48] (VInt 7) = Ret (Obj [([97], Arr [VInt 7])]) /\
  gen_toml_expand [47;97;47;48] (VInt 7) = Ret (Obj [([97], Arr [VInt 7])]) /\
  gen_json_expand [47;45;47;109;126;49;110] (VInt 7) = Ret (Arr [Obj [([109;47;110], VInt 7)]]) /\
  gen_toml_expand [47;45;47;109;126;49;110] (VInt 7) = Ret (Arr [Obj [([109;47;110], VInt 7)]]) /\
  gen_json_expand [] (VInt 7) = Ret (VInt 7) /\ gen_toml_expand [] (VInt 7) = Ret (VInt 7).
Proof. vm_compute. repeat split. Qed.
