(* C10, the part that can be stated of the SOURCE AS IT IS NOW: the steps of a history that READ the document (resolve,
   and the parent walk of delete / the write-through of resolve_mut) go through the four walks re-translated from
   src/resolve.rs on every run (Generated/ScanTree.v); `expand`, which materialises what an assign creates, is
   re-translated from src/assign.rs.  (assign_value / assign_array / assign_object / assign_scalar and delete mutate
   through `&mut Value`: hand-written model + per-run differential tie, Properties/C10.v.) *)
From JP Require Import Bytes Spec Value GenPrelude GenTreePrelude Model.Tree SpecTree Generated.ScanTypes Generated.ScanTree
  Proofs.GenEquivBase Proofs.GenEquivTree.

(* no walk of the source panics or runs out of fuel on a valid pointer, whatever the document: no step of a history can panic there *)
Theorem C10_src_walks_total : forall (d : value) (p : str), valid_ptr p = true ->
  (exists r, gen_json_resolve d p = Ret r) /\
  (exists r, gen_toml_resolve d p = Ret r) /\
  (exists r, gen_json_resolve_mut d p = Ret r) /\
  (exists r, gen_toml_resolve_mut d p = Ret r).
Proof. exact gen_walks_total. Qed.
Print Assumptions C10_src_walks_total.

(* every walk is the reference tree's lookup: RFC 6901 evaluation on the token list *)
Theorem C10_src_walks_are_reference : forall (d : value) (p : str), valid_ptr p = true ->
  omap model_res (gen_json_resolve d p) = Ret (forget_path (spec_resolve (tokens p) d 0 0)) /\
  omap model_res (gen_toml_resolve d p) = Ret (forget_path (spec_resolve (tokens p) d 0 0)) /\
  omap model_res (gen_json_resolve_mut d p) = Ret (forget_path (spec_resolve (tokens p) d 0 0)) /\
  omap model_res (gen_toml_resolve_mut d p) = Ret (forget_path (spec_resolve (tokens p) d 0 0)).
Proof. exact gen_walks_refine. Qed.
Print Assumptions C10_src_walks_are_reference.

(* every error value a walk produces stays well formed: it locates a token of the pointer, and the source's own
   Diagnostic::labels returns a label for it *)
Theorem C10_src_errors_well_formed : forall (d : value) (p : str) (e : ResolveError), valid_ptr p = true ->
  gen_json_resolve d p = Ret (Err e) \/ gen_toml_resolve d p = Ret (Err e) \/
  gen_json_resolve_mut d p = Ret (Err e) \/ gen_toml_resolve_mut d p = Ret (Err e) ->
  error_locates_culprit p (re_position (model_rerr e)) (re_offset (model_rerr e)) /\
  exists o l, gen_ResolveError_labels e p = Ret (Some (o, l)).
Proof. exact gen_walks_error_diag. Qed.
Print Assumptions C10_src_errors_well_formed.

(* what an assign creates below the first missing position is the reference materialisation *)
Theorem C10_src_expand_is_reference : forall (r : str) (v : value), valid_ptr r = true ->
  gen_json_expand r v = Ret (materialise (tokens r) v) /\ gen_toml_expand r v = Ret (materialise (tokens r) v).
Proof. exact gen_expand_total. Qed.
Print Assumptions C10_src_expand_is_reference.

Example C10_src_examples :
  gen_json_resolve_mut (Obj [([97], Arr [VInt 1; VInt 2])]) [47; 97; 47; 49] = Ret (Ok (VInt 2)) /\
  gen_json_expand [47; 97; 47; 45] (VInt 7) = Ret (Obj [([97], Arr [VInt 7])]).
Proof. vm_compute. repeat split. Qed.
