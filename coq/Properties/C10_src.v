(* C10, the part that can be stated of the SOURCE AS IT IS NOW: the steps of a history that READ the document (resolve,
   and the parent walk of delete / the write-through of resolve_mut) go through the four walks re-translated from
   src/resolve.rs on every run (Generated/ScanTree.v); `expand`, which materialises what an assign creates, is
   re-translated from src/assign.rs.  The steps that WRITE (assign_value / assign_array / assign_object / assign_scalar,
   delete, and writing through resolve_mut) are re-translated in lens mode (Generated/ScanTreeMut.v): the second part of this
   file is the history theorem of the regenerated source itself. *)
From JP Require Import Bytes Spec Value GenPrelude GenTreePrelude Model.Tree SpecTree Generated.ScanTypes Generated.ScanTree
  Proofs.GenEquivBase Proofs.GenEquivTree.

(* no walk of the source panics or runs out of fuel on a valid pointer, whatever the document: no step of a history can panic there *)
Theorem C10_src_walks_total : forall (d : value) (p : str), valid_ptr p = true ->
  (exists r, gen_json_resolve d p = Ret r) /\
  (exists r, gen_toml_resolve d p = Ret r) /\
  (exists r, gen_json_resolve_mut d p = Ret r) /\
  (exists r, gen_toml_resolve_mut d p = Ret r).
Proof. exact gen_walks_total. Qed.
Print Assumptions C10_src_walks_total.

(* every walk is the reference tree's lookup: RFC 6901 evaluation on the token list *)
Theorem C10_src_walks_are_reference : forall (d : value) (p : str), valid_ptr p = true ->
  omap model_res (gen_json_resolve d p) = Ret (forget_path (spec_resolve (tokens p) d 0 0)) /\
  omap model_res (gen_toml_resolve d p) = Ret (forget_path (spec_resolve (tokens p) d 0 0)) /\
  omap model_res (gen_json_resolve_mut d p) = Ret (forget_path (spec_resolve (tokens p) d 0 0)) /\
  omap model_res (gen_toml_resolve_mut d p) = Ret (forget_path (spec_resolve (tokens p) d 0 0)).
Proof. exact gen_walks_refine. Qed.
Print Assumptions C10_src_walks_are_reference.

(* every error value a walk produces stays well formed: it locates a token of the pointer, and the source's own
   Diagnostic::labels returns a label for it *)
Theorem C10_src_errors_well_formed : forall (d : value) (p : str) (e : ResolveError), valid_ptr p = true ->
  gen_json_resolve d p = Ret (Err e) \/ gen_toml_resolve d p = Ret (Err e) \/
  gen_json_resolve_mut d p = Ret (Err e) \/ gen_toml_resolve_mut d p = Ret (Err e) ->
  error_locates_culprit p (re_position (model_rerr e)) (re_offset (model_rerr e)) /\
  exists o l, gen_ResolveError_labels e p = Ret (Some (o, l)).
Proof. exact gen_walks_error_diag. Qed.
Print Assumptions C10_src_errors_well_formed.

(* what an assign creates below the first missing position is the reference materialisation *)
Theorem C10_src_expand_is_reference : forall (r : str) (v : value), valid_ptr r = true ->
  gen_json_expand r v = Ret (materialise (tokens r) v) /\ gen_toml_expand r v = Ret (materialise (tokens r) v).
Proof. exact gen_expand_total. Qed.
Print Assumptions C10_src_expand_is_reference.

Example C10_src_examples :
  gen_json_resolve_mut (Obj [([97], Arr [VInt 1; VInt 2])]) [47; 97; 47; 49] = Ret (Ok (VInt 2)) /\
  gen_json_expand [47; 97; 47; 45] (VInt 7) = Ret (Obj [([97], Arr [VInt 7])]).
Proof. vm_compute. repeat split. Qed.

(* ==== histories of the regenerated source (DESIGN 13.8) ================================================================== *)
From JP Require Import Model.Pointer SpecHist Proofs.HistoryProofs Generated.ScanTreeMut Proofs.GenEquivTreeMut Proofs.GenClosureMut.

(* [gen_tree_run] folds the functions re-translated from the CURRENT source (assign, delete, resolve, write through
   resolve_mut; each applied to `&mut doc`) over a history.  From every real document, after any finite sequence of
   operations with valid pointers, the document is the reference tree's and every call returned what the reference returns *)
Theorem C10_src_history_refines : forall (be : backend) (ops : list tree_op) (d : value),
  sorted_value d -> Forall op_values_sorted ops -> Forall op_valid ops ->
  gen_tree_run be d ops = Ret (fst (spec_tree_run be d ops), map forget_out (snd (spec_tree_run be d ops))).
Proof. exact gen_history_refines. Qed.
Print Assumptions C10_src_history_refines.

Theorem C10_src_history_no_panic : forall (be : backend) (ops : list tree_op) (d : value),
  sorted_value d -> Forall op_values_sorted ops -> Forall op_valid ops ->
  gen_tree_run be d ops <> Panic /\ gen_tree_run be d ops <> OutOfFuel.
Proof. exact gen_history_no_panic. Qed.
Print Assumptions C10_src_history_no_panic.

(* one step of the regenerated source is one step of the hand-written model, whatever the pointer text *)
Theorem C10_src_step_is_model : forall (be : backend) (d : value) (o : tree_op), sorted_value d ->
  gen_tree_step be d o = omap (fun x => (fst x, forget_out (snd x))) (impl_tree_step be d o).
Proof. exact gen_step_is_model. Qed.
Print Assumptions C10_src_step_is_model.

(* the history of Properties/C10.v, run on the regenerated source *)
Example C10_src_history_example :
  let a := [47; 97] in
  gen_tree_run Json (Obj [])
    [OAssign (a ++ [47; 45]) (VInt 1); OAssign (a ++ [47; 45]) (VInt 2); ODelete (a ++ [47; 48]);
     OResolve (a ++ [47; 48]); ODelete (a ++ [47; 53]); OAssign (a ++ [47; 55]) (VInt 0); OWrite (a ++ [47; 48]) (VInt 9)] =
  Ret (Obj [([97], Arr [VInt 9])],
       [GAssign (Ok None); GAssign (Ok None); GDelete (Some (VInt 1));
        GResolve (Ok (VInt 2)); GDelete None; GAssign (Err (AOutOfBounds 1 2 1 7)); GWrite (Ok tt)]).
Proof. vm_compute. reflexivity. Qed.
