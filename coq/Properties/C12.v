(* C12 -- splitting and range-slicing.
   "split_front, split_back, parent, split_at and get with every range form (a..b, a.., ..b,
    a..=b, ..=b, .., and explicit Bound pairs) return exactly the sub-sequence of tokens the range
    denotes under the crate's range rule - inverted ranges, any bound beyond the token count, and
    a start that does not name an existing token give None - and split_at(k) succeeds exactly
    when byte k is a separator.  Every non-empty result is a view into the original pointer's
    bytes at the corresponding offset (no copy), pieces re-concatenate to the original, and no
    usize value, including usize::MAX in an excluded start bound, causes a panic or a
    wrapped-around result."

   Theorems only; proofs are in Proofs/SliceProofs.v.  The functions are the transliterations
   of src/pointer/slice.rs (Model/Slice.v) and of split_front / split_at / split_back / parent /
   get(usize) in src/pointer.rs (Model/Pointer.v).

   Vocabulary (Proofs/SliceProofs.v):
     toks_ok ts          every token of ts is free of '/'.  A pointer text is
                         p = from_tokens_enc ts for such a ts; every valid pointer has this form
                         with ts = tokens p (SplitProofs.valid_ptr_decompose), see the last section.
     off ts k  (k : nat) = len (from_tokens_enc (firstn k ts)): the byte offset where token k
                         starts (the position of its '/'); off ts (length ts) = len p.
     offN ts k (k : N)   = off ts (N.to_nat k).
     bytes_at p x y      the bytes of p in [x, y):  firstn (y - x) (skipn x p).
     sub_tokens ts i j   tokens number i .. j-1:     firstn (j - i) (skipn i ts).
   A range result `Ret (Some (x, y))` is the borrowed byte range [x, y) of the pointer text,
   `Ret None` is None, `Panic` an out-of-range slice index.  Bounds a, b, s, e range over all of N
   (beyond usize::MAX included). *)
From JP Require Import Bytes Spec Model.Token Model.Pointer Model.Slice
  Proofs.SplitProofs Proofs.SliceProofs.

(* the running example: "/ab~0/a", tokens "ab~0" and "a" *)
Definition ex_ts : list str := [[97; 98; 126; 48]; [97]].
Definition ex_p : str := [47; 97; 98; 126; 48; 47; 97].

Example C12_ex_shape :
  from_tokens_enc ex_ts = ex_p /\ forallb valid_tok ex_ts = true /\ valid_ptr ex_p = true /\
  tokens ex_p = ex_ts /\ off ex_ts 0 = 0 /\ off ex_ts 1 = 5 /\ off ex_ts 2 = 7 /\ len ex_p = 7.
Proof. vm_compute. repeat split; reflexivity. Qed.

Example C12_ex_toks_ok : toks_ok ex_ts.
Proof. repeat constructor. Qed.

(* ---- 1-6: every range form in closed form; never Panic ------------------------------------------ *)

(* a..b : Some iff a <= b <= n and a < n  (n..n, and 0..0 on the root, are None) *)
Theorem C12_range : forall (ts : list str) (a b : N), toks_ok ts ->
  get_range (from_tokens_enc ts) a b =
    Ret (if (a <=? b) && (b <=? len ts) && (a <? len ts) then Some (offN ts a, offN ts b) else None).
Proof. exact get_range_spec. Qed.
Print Assumptions C12_range.

Example C12_range_ex :
  get_range ex_p 0 1 = Ret (Some (0, 5)) /\ get_range ex_p 1 2 = Ret (Some (5, 7)) /\
  get_range ex_p 1 1 = Ret (Some (5, 5)) /\ get_range ex_p 0 2 = Ret (Some (0, 7)) /\
  get_range ex_p 2 2 = Ret None /\ get_range ex_p 1 0 = Ret None /\ get_range ex_p 0 3 = Ret None /\
  get_range ex_p USIZE_MAX (USIZE_MAX + 5) = Ret None /\
  get_range [] 0 0 = Ret None.
Proof. vm_compute. repeat split; reflexivity. Qed.

(* a.. : Some iff a < n *)
Theorem C12_range_from : forall (ts : list str) (a : N), toks_ok ts ->
  get_range_from (from_tokens_enc ts) a =
    Ret (if a <? len ts then Some (offN ts a, len (from_tokens_enc ts)) else None).
Proof. exact get_range_from_spec. Qed.
Print Assumptions C12_range_from.

Example C12_range_from_ex :
  get_range_from ex_p 1 = Ret (Some (5, 7)) /\ get_range_from ex_p 0 = Ret (Some (0, 7)) /\
  get_range_from ex_p 2 = Ret None /\ get_range_from [] 0 = Ret None /\
  get_range_from ex_p USIZE_MAX = Ret None.
Proof. vm_compute. repeat split; reflexivity. Qed.

(* ..b : Some iff b <= n *)
Theorem C12_range_to : forall (ts : list str) (b : N), toks_ok ts ->
  get_range_to (from_tokens_enc ts) b =
    Ret (if b <=? len ts then Some (0, offN ts b) else None).
Proof. exact get_range_to_spec. Qed.
Print Assumptions C12_range_to.

Example C12_range_to_ex :
  get_range_to ex_p 0 = Ret (Some (0, 0)) /\ get_range_to ex_p 1 = Ret (Some (0, 5)) /\
  get_range_to ex_p 2 = Ret (Some (0, 7)) /\ get_range_to ex_p 3 = Ret None /\
  get_range_to [] 0 = Ret (Some (0, 0)).
Proof. vm_compute. repeat split; reflexivity. Qed.

(* a..=b : Some iff a <= b < n *)
Theorem C12_range_incl : forall (ts : list str) (a b : N), toks_ok ts ->
  get_range_incl (from_tokens_enc ts) a b =
    Ret (if (a <=? b) && (b <? len ts) then Some (offN ts a, offN ts (b + 1)) else None).
Proof. exact get_range_incl_spec. Qed.
Print Assumptions C12_range_incl.

Example C12_range_incl_ex :
  get_range_incl ex_p 0 0 = Ret (Some (0, 5)) /\ get_range_incl ex_p 0 1 = Ret (Some (0, 7)) /\
  get_range_incl ex_p 1 1 = Ret (Some (5, 7)) /\ get_range_incl ex_p 1 0 = Ret None /\
  get_range_incl ex_p 1 2 = Ret None /\ get_range_incl [] 0 0 = Ret None /\
  get_range_incl ex_p 0 USIZE_MAX = Ret None.
Proof. vm_compute. repeat split; reflexivity. Qed.

(* ..=b : Some iff b < n *)
Theorem C12_range_to_incl : forall (ts : list str) (b : N), toks_ok ts ->
  get_range_to_incl (from_tokens_enc ts) b =
    Ret (if b <? len ts then Some (0, offN ts (b + 1)) else None).
Proof. exact get_range_to_incl_spec. Qed.
Print Assumptions C12_range_to_incl.

Example C12_range_to_incl_ex :
  get_range_to_incl ex_p 0 = Ret (Some (0, 5)) /\ get_range_to_incl ex_p 1 = Ret (Some (0, 7)) /\
  get_range_to_incl ex_p 2 = Ret None /\ get_range_to_incl [] 0 = Ret None /\
  get_range_to_incl ex_p USIZE_MAX = Ret None.
Proof. vm_compute. repeat split; reflexivity. Qed.

(* .. *)
Theorem C12_range_full : forall p : str, get_range_full p = Ret (Some (0, len p)).
Proof. exact get_range_full_spec. Qed.
Print Assumptions C12_range_full.

(* ---- 7: explicit Bound pairs ------------------------------------------------------------------- *)

(* all nine pairings reduce to the closed forms above ([range_spec] ... [full_spec] are the
   right-hand sides of the six theorems above, by definition); Excluded s as a START means s + 1,
   and None when s = usize::MAX *)
Theorem C12_bounds : forall (ts : list str) (lo hi : bound), toks_ok ts ->
  get_bounds (from_tokens_enc ts) lo hi = Ret
    match lo, hi with
    | Included s, Included e => incl_spec ts s e
    | Included s, Excluded e => range_spec ts s e
    | Included s, Unbounded => from_spec ts s
    | Excluded s, Included e => if s =? USIZE_MAX then None else incl_spec ts (s + 1) e
    | Excluded s, Excluded e => if s =? USIZE_MAX then None else range_spec ts (s + 1) e
    | Excluded s, Unbounded => if s =? USIZE_MAX then None else from_spec ts (s + 1)
    | Unbounded, Included e => to_incl_spec ts e
    | Unbounded, Excluded e => to_spec ts e
    | Unbounded, Unbounded => full_spec ts
    end.
Proof. exact get_bounds_spec. Qed.
Print Assumptions C12_bounds.

Theorem C12_spec_names : forall (ts : list str) (a b : N),
  range_spec ts a b = (if (a <=? b) && (b <=? len ts) && (a <? len ts) then Some (offN ts a, offN ts b) else None) /\
  from_spec ts a = (if a <? len ts then Some (offN ts a, len (from_tokens_enc ts)) else None) /\
  to_spec ts b = (if b <=? len ts then Some (0, offN ts b) else None) /\
  incl_spec ts a b = (if (a <=? b) && (b <? len ts) then Some (offN ts a, offN ts (b + 1)) else None) /\
  to_incl_spec ts b = (if b <? len ts then Some (0, offN ts (b + 1)) else None) /\
  full_spec ts = Some (0, len (from_tokens_enc ts)).
Proof. intros. repeat split; reflexivity. Qed.
Print Assumptions C12_spec_names.

Theorem C12_bounds_no_panic : forall (ts : list str) (lo hi : bound), toks_ok ts ->
  get_bounds (from_tokens_enc ts) lo hi <> Panic /\ get_bounds (from_tokens_enc ts) lo hi <> OutOfFuel.
Proof. exact get_bounds_no_panic. Qed.
Print Assumptions C12_bounds_no_panic.

(* usize::MAX in an excluded start: None -- for every text whatsoever and every end bound *)
Theorem C12_excluded_max : forall (p : str) (hi : bound),
  get_bounds p (Excluded USIZE_MAX) hi = Ret None.
Proof. exact get_bounds_excluded_max. Qed.
Print Assumptions C12_excluded_max.

Example C12_bounds_ex :
  get_bounds ex_p (Excluded USIZE_MAX) Unbounded = Ret None /\
  get_bounds ex_p (Excluded USIZE_MAX) (Included 0) = Ret None /\
  get_bounds ex_p (Excluded (USIZE_MAX - 1)) (Excluded USIZE_MAX) = Ret None /\
  get_bounds ex_p (Excluded 0) Unbounded = Ret (Some (5, 7)) /\
  get_bounds ex_p (Excluded 0) (Included 1) = Ret (Some (5, 7)) /\
  get_bounds ex_p (Excluded 0) (Excluded 1) = Ret (Some (5, 5)) /\
  get_bounds ex_p (Included 0) (Excluded 1) = Ret (Some (0, 5)) /\
  get_bounds ex_p Unbounded (Included 0) = Ret (Some (0, 5)) /\
  get_bounds ex_p Unbounded Unbounded = Ret (Some (0, 7)).
Proof. vm_compute. repeat split; reflexivity. Qed.

(* ---- the range rule as a pair of token indices, and the view theorem ----------------------------- *)

(* [denote n lo hi] (SliceProofs) is the half-open token-index range [i, j) the bound pair denotes
   on a pointer of n tokens, None if it denotes nothing.  get returns exactly its offsets. *)
Theorem C12_bounds_denote : forall (ts : list str) (lo hi : bound), toks_ok ts ->
  get_bounds (from_tokens_enc ts) lo hi =
    Ret (option_map (fun ij => (offN ts (fst ij), offN ts (snd ij))) (denote (len ts) lo hi)).
Proof. exact get_bounds_denote. Qed.
Print Assumptions C12_bounds_denote.

Theorem C12_denote_rule : forall (n s e : N),
  denote n (Included s) (Excluded e) = (if (s <=? e) && (e <=? n) && (s <? n) then Some (s, e) else None) /\
  denote n (Included s) Unbounded = (if s <? n then Some (s, n) else None) /\
  denote n Unbounded (Excluded e) = (if e <=? n then Some (0, e) else None) /\
  denote n (Included s) (Included e) = (if (s <=? e) && (e <? n) then Some (s, e + 1) else None) /\
  denote n Unbounded (Included e) = (if e <? n then Some (0, e + 1) else None) /\
  denote n Unbounded Unbounded = Some (0, n) /\
  (forall hi, denote n (Excluded s) hi = if s =? USIZE_MAX then None else denote n (Included (s + 1)) hi).
Proof. intros. repeat split; reflexivity. Qed.
Print Assumptions C12_denote_rule.

Theorem C12_denote_wf : forall (n : N) (lo hi : bound) (i j : N),
  denote n lo hi = Some (i, j) -> i <= j /\ j <= n.
Proof. exact denote_wf. Qed.
Print Assumptions C12_denote_wf.

(* every Some result is a view [x, y) inside p; its content is the pointer text of exactly the
   denoted token sub-list, so its tokens are those tokens *)
Theorem C12_view : forall (ts : list str) (lo hi : bound) (x y : N), toks_ok ts ->
  get_bounds (from_tokens_enc ts) lo hi = Ret (Some (x, y)) ->
  exists i j,
    denote (len ts) lo hi = Some (i, j) /\ i <= j /\ j <= len ts /\
    x = offN ts i /\ y = offN ts j /\ x <= y /\ y <= len (from_tokens_enc ts) /\
    bytes_at (from_tokens_enc ts) x y = from_tokens_enc (sub_tokens ts (N.to_nat i) (N.to_nat j)) /\
    ptokens (bytes_at (from_tokens_enc ts) x y) = sub_tokens ts (N.to_nat i) (N.to_nat j).
Proof. exact get_bounds_view. Qed.
Print Assumptions C12_view.

Theorem C12_none_iff : forall (ts : list str) (lo hi : bound), toks_ok ts ->
  (get_bounds (from_tokens_enc ts) lo hi = Ret None <-> denote (len ts) lo hi = None).
Proof. exact get_bounds_none_iff. Qed.
Print Assumptions C12_none_iff.

(* the view of a pointer made of valid tokens is again a valid pointer *)
Theorem C12_view_valid : forall (ts : list str) (lo hi : bound) (x y : N),
  forallb valid_tok ts = true ->
  get_bounds (from_tokens_enc ts) lo hi = Ret (Some (x, y)) ->
  valid_ptr (bytes_at (from_tokens_enc ts) x y) = true.
Proof. exact get_bounds_valid. Qed.
Print Assumptions C12_view_valid.

Example C12_view_ex :
  get_bounds ex_p (Included 1) Unbounded = Ret (Some (5, 7)) /\
  denote (len ex_ts) (Included 1) Unbounded = Some (1, 2) /\
  bytes_at ex_p 5 7 = [47; 97] /\ sub_tokens ex_ts 1 2 = [[97]] /\ ptokens [47; 97] = [[97]].
Proof. vm_compute. repeat split; reflexivity. Qed.

(* ---- 8: offsets and view content ------------------------------------------------------------------ *)

Theorem C12_view_content : forall (ts : list str) (i j : nat), (i <= j)%nat ->
  bytes_at (from_tokens_enc ts) (off ts i) (off ts j) = from_tokens_enc (sub_tokens ts i j).
Proof. exact view_content. Qed.
Print Assumptions C12_view_content.

(* the same on nat offsets, without any N/nat conversion *)
Theorem C12_view_content_nat : forall (ts : list str) (i j : nat), (i <= j)%nat ->
  firstn (offn ts j - offn ts i) (skipn (offn ts i) (from_tokens_enc ts))
  = from_tokens_enc (firstn (j - i) (skipn i ts)).
Proof. exact view_content_nat. Qed.
Print Assumptions C12_view_content_nat.

Theorem C12_off_facts : forall (ts : list str),
  off ts 0 = 0 /\ off ts (length ts) = len (from_tokens_enc ts) /\
  (forall k, off ts k <= len (from_tokens_enc ts)) /\
  (forall i j, (i <= j)%nat -> off ts i <= off ts j) /\
  (forall i j, (i < j <= length ts)%nat -> off ts i < off ts j) /\
  (forall t r k, off (t :: r) (S k) = (len t + 1) + off r k).
Proof.
  intros ts. split; [apply off_0|]. split; [apply off_length|]. split; [apply off_le_len|].
  split; [apply off_mono|]. split; [apply off_strict|apply off_cons_S].
Qed.
Print Assumptions C12_off_facts.

(* adjacent views re-concatenate; the full view is the pointer *)
Theorem C12_views_concat : forall (ts : list str) (i j k : nat), (i <= j <= k)%nat ->
  bytes_at (from_tokens_enc ts) (off ts i) (off ts j) ++ bytes_at (from_tokens_enc ts) (off ts j) (off ts k)
  = bytes_at (from_tokens_enc ts) (off ts i) (off ts k).
Proof. exact views_concat. Qed.
Print Assumptions C12_views_concat.

Theorem C12_bytes_at_whole : forall p : str, bytes_at p 0 (len p) = p.
Proof. exact bytes_at_whole. Qed.
Print Assumptions C12_bytes_at_whole.

Theorem C12_to_from_concat : forall (ts : list str) (b x1 y1 x2 y2 : N), toks_ok ts ->
  get_range_to (from_tokens_enc ts) b = Ret (Some (x1, y1)) ->
  get_range_from (from_tokens_enc ts) b = Ret (Some (x2, y2)) ->
  y1 = x2 /\
  bytes_at (from_tokens_enc ts) x1 y1 ++ bytes_at (from_tokens_enc ts) x2 y2 = from_tokens_enc ts.
Proof. exact range_to_from_concat. Qed.
Print Assumptions C12_to_from_concat.

Example C12_concat_ex :
  bytes_at ex_p 0 5 ++ bytes_at ex_p 5 7 = ex_p /\ bytes_at ex_p 0 5 = [47; 97; 98; 126; 48].
Proof. vm_compute. split; reflexivity. Qed.

(* ---- 9: get(usize) ----------------------------------------------------------------------------------- *)

Theorem C12_get_tok : forall (ts : list str) (i : N), toks_ok ts ->
  get_tok (from_tokens_enc ts) i = nth_N ts i.
Proof. exact get_tok_spec. Qed.
Print Assumptions C12_get_tok.

(* token i is the bytes right after the separator at off i; off (i+1) is where it ends *)
Theorem C12_get_tok_bytes : forall (ts : list str) (i : N) (t : str), toks_ok ts ->
  get_tok (from_tokens_enc ts) i = Some t ->
  nth_N (from_tokens_enc ts) (offN ts i) = Some SLASH /\
  bytes_at (from_tokens_enc ts) (offN ts i + 1) (offN ts i + 1 + len t) = t /\
  offN ts (i + 1) = offN ts i + 1 + len t.
Proof. exact get_tok_bytes. Qed.
Print Assumptions C12_get_tok_bytes.

Example C12_get_tok_ex :
  get_tok ex_p 0 = Some [97; 98; 126; 48] /\ get_tok ex_p 1 = Some [97] /\ get_tok ex_p 2 = None /\
  get_tok ex_p USIZE_MAX = None /\ bytes_at ex_p (5 + 1) (5 + 1 + 1) = [97].
Proof. vm_compute. repeat split; reflexivity. Qed.

(* ---- 10: split_at -------------------------------------------------------------------------------------- *)

(* for every text: succeeds exactly when byte k is '/', and then cuts there *)
Theorem C12_split_at_iff : forall (p : str) (k : N) (h t : str),
  split_at p k = Some (h, t) <->
  nth_N p k = Some SLASH /\ h = firstn (N.to_nat k) p /\ t = skipn (N.to_nat k) p.
Proof. exact split_at_iff. Qed.
Print Assumptions C12_split_at_iff.

Theorem C12_split_at_none_iff : forall (p : str) (k : N),
  split_at p k = None <-> nth_N p k <> Some SLASH.
Proof. exact split_at_none_iff. Qed.
Print Assumptions C12_split_at_none_iff.

Theorem C12_split_at_beyond : forall (p : str) (k : N), len p <= k -> split_at p k = None.
Proof. exact split_at_beyond. Qed.
Print Assumptions C12_split_at_beyond.

Theorem C12_split_at_concat : forall (p : str) (k : N) (h t : str),
  split_at p k = Some (h, t) -> h ++ t = p.
Proof. exact split_at_concat. Qed.
Print Assumptions C12_split_at_concat.

(* the separators of a pointer are exactly the token offsets ... *)
Theorem C12_slash_positions : forall (ts : list str) (k : N), toks_ok ts ->
  (nth_N (from_tokens_enc ts) k = Some SLASH <-> exists j, (j < length ts)%nat /\ k = off ts j).
Proof. exact slash_positions. Qed.
Print Assumptions C12_slash_positions.

(* ... so split_at cuts the token list: head = first j tokens, tail = the rest *)
Theorem C12_split_at_tokens : forall (ts : list str) (k : N) (h t : str), toks_ok ts ->
  split_at (from_tokens_enc ts) k = Some (h, t) ->
  exists j, (j < length ts)%nat /\ k = off ts j /\
    h = from_tokens_enc (firstn j ts) /\ t = from_tokens_enc (skipn j ts).
Proof. exact split_at_tokens. Qed.
Print Assumptions C12_split_at_tokens.

Theorem C12_split_at_off : forall (ts : list str) (j : nat), (j < length ts)%nat ->
  split_at (from_tokens_enc ts) (off ts j)
  = Some (from_tokens_enc (firstn j ts), from_tokens_enc (skipn j ts)).
Proof. exact split_at_off. Qed.
Print Assumptions C12_split_at_off.

Theorem C12_split_at_some_iff : forall (ts : list str) (k : N), toks_ok ts ->
  (split_at (from_tokens_enc ts) k <> None <-> exists j, (j < length ts)%nat /\ k = off ts j).
Proof. exact split_at_some_iff. Qed.
Print Assumptions C12_split_at_some_iff.

Theorem C12_split_at_valid : forall (ts : list str) (k : N) (h t : str),
  forallb valid_tok ts = true ->
  split_at (from_tokens_enc ts) k = Some (h, t) -> valid_ptr h = true /\ valid_ptr t = true.
Proof. exact split_at_valid. Qed.
Print Assumptions C12_split_at_valid.

Example C12_split_at_ex :
  split_at ex_p 5 = Some ([47; 97; 98; 126; 48], [47; 97]) /\ split_at ex_p 0 = Some ([], ex_p) /\
  split_at ex_p 3 = None /\ split_at ex_p 7 = None /\ split_at ex_p USIZE_MAX = None /\
  split_at [] 0 = None.
Proof. vm_compute. repeat split; reflexivity. Qed.

(* ---- 11: split_front / split_back / parent ---------------------------------------------------------------- *)

Theorem C12_split_front : forall ts : list str, toks_ok ts ->
  split_front (from_tokens_enc ts) =
    match ts with [] => None | t :: r => Some (t, from_tokens_enc r) end.
Proof. exact split_front_spec. Qed.
Print Assumptions C12_split_front.

Theorem C12_split_front_none : forall ts : list str, split_front (from_tokens_enc ts) = None <-> ts = [].
Proof. exact split_front_none_tokens. Qed.
Print Assumptions C12_split_front_none.

Theorem C12_split_front_concat : forall (ts : list str) (t rest : str),
  split_front (from_tokens_enc ts) = Some (t, rest) -> SLASH :: t ++ rest = from_tokens_enc ts.
Proof. exact split_front_concat. Qed.
Print Assumptions C12_split_front_concat.

(* for every text at all *)
Theorem C12_split_front_gen : forall (p t rest : str), split_front p = Some (t, rest) ->
  firstn 1 p ++ t ++ rest = p /\ no_slash t = true /\ ptr_shaped rest.
Proof. exact split_front_concat_gen. Qed.
Print Assumptions C12_split_front_gen.

Theorem C12_split_back : forall (ts : list str) (t : str), no_slash t = true ->
  split_back (from_tokens_enc (ts ++ [t])) = Some (from_tokens_enc ts, t).
Proof. exact split_back_snoc. Qed.
Print Assumptions C12_split_back.

Theorem C12_split_back_tokens : forall (ts : list str) (f t : str), toks_ok ts ->
  split_back (from_tokens_enc ts) = Some (f, t) ->
  exists ts', ts = ts' ++ [t] /\ f = from_tokens_enc ts'.
Proof. exact split_back_tokens. Qed.
Print Assumptions C12_split_back_tokens.

Theorem C12_split_back_none : forall ts : list str, toks_ok ts ->
  (split_back (from_tokens_enc ts) = None <-> ts = []).
Proof. exact split_back_none_tokens. Qed.
Print Assumptions C12_split_back_none.

(* for every text at all: the pieces re-concatenate around the last '/' *)
Theorem C12_split_back_concat : forall (p f t : str), split_back p = Some (f, t) ->
  f ++ SLASH :: t = p /\ no_slash t = true.
Proof. exact split_back_concat. Qed.
Print Assumptions C12_split_back_concat.

Theorem C12_parent : forall (ts : list str) (t : str), no_slash t = true ->
  parent (from_tokens_enc (ts ++ [t])) = Some (from_tokens_enc ts).
Proof. exact parent_snoc. Qed.
Print Assumptions C12_parent.

Theorem C12_parent_split_back : forall p : str, parent p = option_map fst (split_back p).
Proof. exact parent_split_back. Qed.
Print Assumptions C12_parent_split_back.

Theorem C12_parent_none : forall ts : list str, toks_ok ts ->
  (parent (from_tokens_enc ts) = None <-> ts = []).
Proof. exact parent_none_tokens. Qed.
Print Assumptions C12_parent_none.

(* parent is the view get(..n-1) *)
Theorem C12_parent_is_range_to : forall (ts : list str) (t : str), toks_ok (ts ++ [t]) ->
  get_range_to (from_tokens_enc (ts ++ [t])) (len ts) = Ret (Some (0, len (from_tokens_enc ts))) /\
  parent (from_tokens_enc (ts ++ [t])) = Some (bytes_at (from_tokens_enc (ts ++ [t])) 0 (len (from_tokens_enc ts))).
Proof. exact parent_is_range_to. Qed.
Print Assumptions C12_parent_is_range_to.

Example C12_split_ex :
  split_front ex_p = Some ([97; 98; 126; 48], [47; 97]) /\
  split_back ex_p = Some ([47; 97; 98; 126; 48], [97]) /\
  parent ex_p = Some [47; 97; 98; 126; 48] /\
  split_front [47; 97] = Some ([97], []) /\ split_back [47; 97] = Some ([], [97]) /\
  split_front [] = None /\ split_back [] = None /\ parent [] = None.
Proof. vm_compute. repeat split; reflexivity. Qed.

(* ---- no counter overflows: `usize` modelled by N ------------------------------------------------------------ *)

(* [*_loop_chk Mi Mo] (SliceProofs) are the five loops with every `idx + 1` checked against Mi
   and every `len + 1`, `offset + ..` checked against Mo (None = exceeded).  With Mi = the token
   count and Mo = the text length no check fails, for all caller-supplied bounds: the counters
   never exceed them ... *)
Theorem C12_loops_counters_tight : forall p : str,
  let Mi := len (ptokens p) in let Mo := len p in
  (forall s e so, range_loop_chk Mi Mo (ptokens p) 0 0 s e so = Some (range_loop (ptokens p) 0 0 s e so)) /\
  (forall s, from_loop_chk Mi Mo (ptokens p) 0 0 s = Some (from_loop (ptokens p) 0 0 s)) /\
  (forall e, to_loop_chk Mi Mo (ptokens p) 0 0 e = Some (to_loop (ptokens p) 0 0 e)) /\
  (forall s e so, incl_loop_chk Mi Mo (ptokens p) 0 0 s e so = Some (incl_loop (ptokens p) 0 0 s e so)) /\
  (forall e, to_incl_loop_chk Mi Mo (ptokens p) 0 0 e = Some (to_incl_loop (ptokens p) 0 0 e)).
Proof. exact loops_counters_tight. Qed.
Print Assumptions C12_loops_counters_tight.

(* ... so on any text (pointer or not) of at most usize::MAX bytes nothing overflows *)
Theorem C12_loops_no_overflow : forall p : str, len p <= USIZE_MAX ->
  let M := USIZE_MAX in
  (forall s e so, range_loop_chk M M (ptokens p) 0 0 s e so = Some (range_loop (ptokens p) 0 0 s e so)) /\
  (forall s, from_loop_chk M M (ptokens p) 0 0 s = Some (from_loop (ptokens p) 0 0 s)) /\
  (forall e, to_loop_chk M M (ptokens p) 0 0 e = Some (to_loop (ptokens p) 0 0 e)) /\
  (forall s e so, incl_loop_chk M M (ptokens p) 0 0 s e so = Some (incl_loop (ptokens p) 0 0 s e so)) /\
  (forall e, to_incl_loop_chk M M (ptokens p) 0 0 e = Some (to_incl_loop (ptokens p) 0 0 e)).
Proof. exact loops_no_overflow. Qed.
Print Assumptions C12_loops_no_overflow.

Theorem C12_tokens_fit : forall p : str,
  len (ptokens p) <= len p /\ len (from_tokens_enc (ptokens p)) <= len p.
Proof. exact tokens_fit. Qed.
Print Assumptions C12_tokens_fit.

(* the checks are real: with a smaller maximum they do fail *)
Example C12_chk_ex :
  range_loop_chk 2 6 (ptokens ex_p) 0 0 0 2 None = None /\
  range_loop_chk 1 7 (ptokens ex_p) 0 0 0 2 None = None /\
  range_loop_chk 2 7 (ptokens ex_p) 0 0 0 2 None = Some (range_loop (ptokens ex_p) 0 0 0 2 None) /\
  to_incl_loop_chk 2 6 (ptokens ex_p) 0 0 1 = None /\
  to_incl_loop_chk 2 7 (ptokens ex_p) 0 0 1 = Some (Some 7).
Proof. vm_compute. repeat split; reflexivity. Qed.

(* ---- stated on pointers: every pointer-shaped text, in particular every valid pointer -------------------------- *)

Theorem C12_bounds_ptr_shaped : forall (p : str) (lo hi : bound), ptr_shaped p ->
  get_bounds p lo hi =
    Ret (option_map (fun ij => (offN (tokens p) (fst ij), offN (tokens p) (snd ij)))
                    (denote (len (tokens p)) lo hi)).
Proof. exact get_bounds_ptr. Qed.
Print Assumptions C12_bounds_ptr_shaped.

Theorem C12_bounds_valid_ptr : forall (p : str) (lo hi : bound), valid_ptr p = true ->
  get_bounds p lo hi =
    Ret (option_map (fun ij => (offN (tokens p) (fst ij), offN (tokens p) (snd ij)))
                    (denote (len (tokens p)) lo hi)).
Proof. exact get_bounds_valid_ptr. Qed.
Print Assumptions C12_bounds_valid_ptr.

Theorem C12_view_valid_ptr : forall (p : str) (lo hi : bound) (x y : N), valid_ptr p = true ->
  get_bounds p lo hi = Ret (Some (x, y)) ->
  x <= y /\ y <= len p /\ valid_ptr (bytes_at p x y) = true /\
  exists i j, denote (len (tokens p)) lo hi = Some (i, j) /\
    tokens (bytes_at p x y) = sub_tokens (tokens p) (N.to_nat i) (N.to_nat j).
Proof. exact get_bounds_valid_ptr_view. Qed.
Print Assumptions C12_view_valid_ptr.

Example C12_valid_ptr_ex :
  valid_ptr ex_p = true /\ get_bounds ex_p (Included 0) (Included 0) = Ret (Some (0, 5)) /\
  tokens (bytes_at ex_p 0 5) = sub_tokens (tokens ex_p) 0 1.
Proof. vm_compute. repeat split; reflexivity. Qed.
