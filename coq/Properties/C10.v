(* C10 -- A document under any sequence of assigns and deletes behaves like a tree store.
   [impl_tree_run] folds the transliterated walks of Model/Tree.v (on pointer TEXT, with fuel,
   panics modelled) over a history; [spec_tree_run] folds the reference tree of SpecTree.v
   (structural recursion on token lists over maps / vectors / scalars).  See SpecHist.v. *)
From JP Require Import Bytes Spec Value Model.Pointer Model.Tree SpecTree SpecHist Proofs.HistoryProofs.

(* after any finite history the document equals the reference tree's and every call returned what
   the reference returns -- from EVERY initial document (no well-formedness needed) *)
Theorem C10_refines : forall (be : backend) (ops : list tree_op) (d : value),
  Forall op_valid ops -> impl_tree_run be d ops = Ret (spec_tree_run be d ops).
Proof. exact history_refines. Qed.
Print Assumptions C10_refines.

Theorem C10_no_panic : forall (be : backend) (ops : list tree_op) (d : value),
  Forall op_valid ops -> impl_tree_run be d ops <> Panic /\ impl_tree_run be d ops <> OutOfFuel.
Proof. exact history_no_panic. Qed.
Print Assumptions C10_no_panic.

(* in every reached document each node is resolved, by reference, by the pointer spelled from its
   path.  The BTreeMap invariant is preserved unconditionally; array lengths must still be usize
   values ([arrays_fit], which a real Vec always satisfies; an append can only break it in the
   unbounded model) *)
Theorem C10_addressable : forall (be : backend) (ops : list tree_op) (d : value),
  sorted_value d -> Forall op_values_sorted ops -> Forall op_valid ops ->
  exists d' outs, impl_tree_run be d ops = Ret (d', outs) /\ sorted_value d' /\
    (arrays_fit d' ->
     forall path, In path (all_paths d') ->
       exists v, get_at path d' = Some v /\ resolve (ptr_of_path path) d' = Ret (Ok (path, v))).
Proof. exact history_addressable. Qed.
Print Assumptions C10_addressable.

(* all error values produced along the way are well formed: position is a token index of the
   pointer, offset the byte offset of the '/' introducing it, the label covers it (C15) *)
Theorem C10_errors_wf : forall (be : backend) (ops : list tree_op) (d d' : value) (outs : list tree_out),
  Forall op_valid ops -> impl_tree_run be d ops = Ret (d', outs) -> outs_wf ops outs.
Proof. exact history_errors_wf. Qed.
Print Assumptions C10_errors_wf.

(* {} ; assign /a/- := 1 ; assign /a/- := 2 ; delete /a/0 ; resolve /a/0 ; delete /a/5 ; assign /a/7 := 0 (error) *)
Example C10_example :
  let a := [47; 97] in
  impl_tree_run Json (Obj [])
    [OAssign (a ++ [47; 45]) (VInt 1); OAssign (a ++ [47; 45]) (VInt 2); ODelete (a ++ [47; 48]);
     OResolve (a ++ [47; 48]); ODelete (a ++ [47; 53]); OAssign (a ++ [47; 55]) (VInt 0)] =
  Ret (Obj [([97], Arr [VInt 2])],
       [TAssign (Ok None); TAssign (Ok None); TDelete (Some (VInt 1));
        TResolve (Ok ([Key [97]; Idx 0], VInt 2)); TDelete None; TAssign (Err (AOutOfBounds 1 2 1 7))]).
Proof. vm_compute. reflexivity. Qed.
