(* C08, stated of the SOURCE AS IT IS NOW.  First part: every decision `delete` takes is made by
   functions that ARE re-translated from the source on every run: split_back (last token / parent pointer), the parent
   walk resolve_mut, Token::to_index = Index::from_str, the EXCLUSIVE bound check for_len (the repaired F4), and
   Token::decoded for the member name. *)
From JP Require Import Bytes Spec Value GenPrelude GenTreePrelude Model.Token Model.Pointer Model.Index Model.Tree SpecTree Utf8
  Generated.ScanTypes Generated.ScanToken Generated.ScanPtrOps Generated.ScanIndex Generated.ScanTree
  Proofs.GenEquivBase Proofs.GenEquivToken Proofs.GenEquivPtrOps Proofs.GenEquivIndex Proofs.GenEquivIndexStr Proofs.GenEquivTree.

(* the split into parent pointer and last token *)
Theorem C08_src_split_back : forall p : str,
  gen_Pointer_split_back p = Ret (option_map (fun '(f, t) => (f, tokB t)) (split_back p)).
Proof. exact gen_split_back_eq. Qed.
Print Assumptions C08_src_split_back.

(* the parent is found by RFC 6901 evaluation, on both backends, without panicking *)
Theorem C08_src_parent_walk_is_reference : forall (d : value) (p : str), valid_ptr p = true ->
  omap model_res (gen_json_resolve_mut d p) = Ret (forget_path (spec_resolve (tokens p) d 0 0)) /\
  omap model_res (gen_toml_resolve_mut d p) = Ret (forget_path (spec_resolve (tokens p) d 0 0)).
Proof. intros d p H. destruct (gen_walks_refine d p H) as (_ & _ & A & B). exact (conj A B). Qed.
Print Assumptions C08_src_parent_walk_is_reference.

(* an array element is removed only for a numeric index strictly below the length: '-' and index = length are refused
   (so Vec::remove cannot be reached out of range) *)
Theorem C08_src_index_strictly_in_bounds : forall (i : Index) (n : N),
  gen_Index_for_len i n =
    Ret (match i with
         | Index_Num m => if m <? n then Ok m else Err (mk_OutOfBoundsError n m)
         | Index_Next => Err (mk_OutOfBoundsError n n) end).
Proof. intros i n. exact (proj1 (gen_bound_checks_exact i n)). Qed.
Print Assumptions C08_src_index_strictly_in_bounds.

(* which tokens are indices at all *)
Theorem C08_src_index_tokens : forall s : str, utf8_valid s = true ->
  (gen_Index_from_str s = Ret (Ok Index_Next) <-> s = [DASH]) /\
  (forall n, gen_Index_from_str s = Ret (Ok (Index_Num n)) <-> n <= USIZE_MAX /\ s = Dec.dec_of_N n).
Proof. exact gen_from_str_accept_exact. Qed.
Print Assumptions C08_src_index_tokens.

(* an object member is removed by the DECODED last token *)
Theorem C08_src_member_name_is_decoded : forall t : Token, valid_tok (cow_text (Token_inner t)) = true ->
  exists d, gen_Token_decoded t = Ret d /\ cow_text d = unescape (cow_text (Token_inner t)).
Proof. intros t H. destruct (gen_decoded_inverse t H) as (d & Hd & Hu & _). eauto. Qed.
Print Assumptions C08_src_member_name_is_decoded.

Example C08_src_examples :
  gen_Index_for_len (Index_Num 1) 1 = Ret (Err (mk_OutOfBoundsError 1 1)) /\
  gen_Index_for_len Index_Next 0 = Ret (Err (mk_OutOfBoundsError 0 0)) /\
  gen_Pointer_split_back [47; 97; 47; 48] = Ret (Some ([47; 97], tokB [48])).
Proof. vm_compute. repeat split. Qed.

(* ==== delete itself, re-translated in lens mode (DESIGN 13.8) ============================================================ *)
From JP Require Import Model.Pointer SpecHist Proofs.HistoryProofs Generated.ScanTreeMut Proofs.GenEquivTreeMut Proofs.GenClosureMut.

(* `doc.delete(p)` of the CURRENT source IS the model's delete (same document afterwards, same removed value, same panics),
   for every real document and EVERY pointer text, both backends *)
Theorem C08_src_delete_is_model : forall (be : backend) (d : value) (p : str), sorted_value d ->
  gen_delete be d (lens_root d) p = delete be p d.
Proof. exact gen_delete_eq. Qed.
Print Assumptions C08_src_delete_is_model.

(* ... hence the specification's on every valid pointer: remove exactly the node resolve finds, or change nothing *)
Theorem C08_src_delete_refines : forall (be : backend) (d : value) (p : str), sorted_value d -> valid_ptr p = true ->
  gen_delete be d (lens_root d) p = Ret (spec_delete be (tokens p) d).
Proof. exact gen_delete_refines. Qed.
Print Assumptions C08_src_delete_refines.

(* the parent is reached BY REFERENCE: resolve_mut returns a reference at the path resolve reports, showing that node, and
   writing through it replaces exactly that node *)
Theorem C08_src_parent_reference : forall (be : backend) (d : value) (p : str),
  lres_rel d d (gen_resolve_mut_lens be d (lens_root d) p) (resolve p d).
Proof. exact gen_resolve_mut_lens_ok. Qed.
Print Assumptions C08_src_parent_reference.

(* {"a":[1,2]} : delete /a/0 removes 1; delete /a/- and /a/2 remove nothing; delete "" empties the document *)
Example C08_src_delete_examples :
  let d := Obj [([97], Arr [VInt 1; VInt 2])] in
  gen_json_delete d (lens_root d) [47;97;47;48] = Ret (Obj [([97], Arr [VInt 2])], Some (VInt 1)) /\
  gen_toml_delete d (lens_root d) [47;97;47;45] = Ret (d, None) /\
  gen_json_delete d (lens_root d) [47;97;47;50] = Ret (d, None) /\
  gen_json_delete d (lens_root d) [] = Ret (Null, Some d) /\ gen_toml_delete d (lens_root d) [] = Ret (Obj [], Some d).
Proof. vm_compute. repeat split. Qed.
