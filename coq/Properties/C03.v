(* C03 -- Token escaping is a bijection: decode(encode(s)) = s and validation is exact.
   Theorems only; proofs are in Proofs/TokenProofs.v.  [token_new], [decoded], [from_encoded]
   are the transliterations of src/token.rs in Model/Token.v; [encode], [unescape], [valid_tok]
   are the specification in Spec.v. *)
From JP Require Import Bytes Spec Model.Token Proofs.TokenProofs.

(* Token::new(s).encoded() is s with '~' -> "~0" and '/' -> "~1" (whatever the Cow variant) *)
Theorem C03_new_encodes : forall (input_owned : bool) (s : str),
  ttext (token_new input_owned s) = encode s.
Proof. exact token_new_text. Qed.
Print Assumptions C03_new_encodes.

(* decoded(new(s)) = s for every string *)
Theorem C03_decode_new : forall (input_owned : bool) (s : str),
  decoded (ttext (token_new input_owned s)) = s.
Proof. exact decoded_new. Qed.
Print Assumptions C03_decode_new.

(* from_encoded succeeds exactly on valid tokens (and then keeps e verbatim: the model's
   success value is the input itself, [from_encoded_tok]) *)
Theorem C03_from_encoded_exact : forall e : str,
  from_encoded e = None <-> valid_tok e = true.
Proof. exact from_encoded_ok_iff. Qed.
Print Assumptions C03_from_encoded_exact.

(* on valid tokens decoded is the inverse mapping, and re-encoding gives e back *)
Theorem C03_decoded_is_unescape : forall e : str,
  valid_tok e = true -> decoded e = unescape e /\ encode (decoded e) = e.
Proof.
  intros e H. split; [exact (decoded_unescape e H)|].
  rewrite (decoded_unescape e H). exact (encode_unescape e H).
Qed.
Print Assumptions C03_decoded_is_unescape.

(* the two maps are mutually inverse bijections between all strings and valid tokens *)
Theorem C03_bijection :
  (forall s, valid_tok (encode s) = true /\ unescape (encode s) = s) /\
  (forall e, valid_tok e = true -> encode (unescape e) = e).
Proof.
  split; [intros s; split; [exact (valid_tok_encode s)|exact (unescape_encode s)]|exact encode_unescape].
Qed.
Print Assumptions C03_bijection.

(* a rejection is truthful *)
Theorem C03_error_truthful : forall (e : str) (o : N) (k : enc_kind),
  from_encoded e = Some (o, k) ->
  exists a rest, e = a ++ rest /\ o = len a /\ prefix_extends a /\
    match k with
    | KSlash => exists r, rest = SLASH :: r
    | KTilde => (exists a', a = a' ++ [TILDE] /\ valid_tok a' = true) /\
                match rest with [] => True | c :: _ => c <> ZERO /\ c <> ONE end
    end.
Proof. exact from_encoded_err_truthful. Qed.
Print Assumptions C03_error_truthful.

(* non-vacuity / the example of the statement: "~1" encodes to "~01" and decodes back to "~1" *)
Example C03_tilde_one :
  ttext (token_new false [TILDE; ONE]) = [TILDE; ZERO; ONE] /\
  decoded [TILDE; ZERO; ONE] = [TILDE; ONE] /\
  from_encoded [TILDE; ZERO; ONE] = None /\
  from_encoded [TILDE; TILDE; ZERO] = Some (1, KTilde) /\
  from_encoded [97; TILDE] = Some (2, KTilde) /\
  from_encoded [TILDE; SLASH] = Some (1, KSlash).
Proof. vm_compute. repeat split. Qed.
