(* C04, stated of the SOURCE AS IT IS NOW: count, is_root, front / first, back / last, get(usize), len, is_empty,
   with_trailing_token, with_leading_token, concat, to_buf and PointerBuf::from_tokens are re-translated from
   src/pointer.rs and src/pointer/slice.rs by tools/rs2v.py on every run (Generated/ScanPtrOps.v, ScanSlice.v,
   ScanBuf.v, ScanPtrBuild.v).  Callers of `p.tokens()` use the primitive [str_tokens]; the iterator
   behind it (Pointer::tokens, Tokens::new / next) and Components (From<&Pointer>, next) are re-translated as well and shown to
   produce exactly that list (last part of this file); std's str::split(char) and Iterator::next on it stay primitive. *)
From JP Require Import Bytes Spec GenPrelude Model.Token Model.Pointer Generated.ScanTypes Generated.ScanToken
  Generated.ScanPtrOps Generated.ScanSlice Generated.ScanBuf Generated.ScanPtrBuild
  Proofs.GenEquivBase Proofs.GenEquivPtrOps Proofs.GenEquivBuf Proofs.GenEquivPtrBuild.

Theorem C04_src_accessors_agree : forall p : str,
  valid_ptr p = true ->
  let ts := tokens p in
  gen_Pointer_count p = Ret (len ts) /\
  gen_Pointer_is_root p = Ret (match ts with [] => true | _ => false end) /\
  gen_Pointer_front p = Ret (option_map tokB (hd_error ts)) /\
  gen_Pointer_first p = Ret (option_map tokB (hd_error ts)) /\
  gen_Pointer_back p = Ret (option_map tokB (match rev ts with [] => None | t :: _ => Some t end)) /\
  gen_Pointer_last p = Ret (option_map tokB (match rev ts with [] => None | t :: _ => Some t end)) /\
  (forall i, gen_get_usize i p = Ret (option_map tokB (nth_N ts i))) /\
  gen_Pointer_len p = Ret (len p) /\
  gen_Pointer_is_empty p = Ret (match ts with [] => true | _ => false end).
Proof. exact gen_accessors_agree. Qed.
Print Assumptions C04_src_accessors_agree.

Theorem C04_src_builders_agree : forall (p q : str) (c : Cow),
  valid_ptr p = true -> valid_ptr q = true ->
  exists t pt pl pc,
    gen_Token_new c = Ret t /\
    gen_Pointer_with_trailing_token p t = Ret pt /\ valid_ptr pt = true /\ tokens pt = tokens p ++ [encode (cow_text c)] /\
    gen_Pointer_with_leading_token p t = Ret pl /\ valid_ptr pl = true /\ tokens pl = encode (cow_text c) :: tokens p /\
    gen_Pointer_concat p q = Ret pc /\ valid_ptr pc = true /\ tokens pc = tokens p ++ tokens q.
Proof. exact gen_builders_agree. Qed.
Print Assumptions C04_src_builders_agree.

(* from_tokens pushes '/' and the encoded text of every token *)
Theorem C04_src_from_tokens : forall ts : list Token,
  gen_PointerBuf_from_tokens ts = Ret (from_tokens_enc (map (fun t => cow_text (Token_inner t)) ts)).
Proof. exact gen_from_tokens_eq. Qed.
Print Assumptions C04_src_from_tokens.

Example C04_src_examples :
  gen_Pointer_count [SLASH; SLASH] = Ret 2 /\
  gen_Pointer_front [SLASH; 97; SLASH; 98] = Ret (Some (tokB [97])) /\
  gen_Pointer_back [SLASH] = Ret (Some (tokB [])) /\
  gen_Pointer_concat [SLASH; 97] [SLASH; 98] = Ret [SLASH; 97; SLASH; 98] /\
  gen_Pointer_with_leading_token [SLASH; 97] (mk_Token (Cow_Borrowed [98])) = Ret [SLASH; 98; SLASH; 97].
Proof. vm_compute. repeat split. Qed.

(* ==== the iterator itself =================================================================================================
   Everywhere else `p.tokens()` is the primitive [str_tokens]; here its SOURCE is tied down: Pointer::tokens and
   Tokens::next / Tokens::new are re-translated on every run, and iterating until None yields exactly the tokens of the
   text, each borrowed, in order; the exhausted iterator stays exhausted. *)
Theorem C04_src_tokens_iterator_is_token_list : forall p : str,
  exists t, gen_Pointer_tokens p = Ret t /\
            drain_tokens (S (length (str_tokens p))) t = Ret (map tokB (str_tokens p)) /\
            gen_Tokens_next (mk_Tokens []) = Ret (mk_Tokens [], None).
Proof. exact gen_tokens_iterates. Qed.
Print Assumptions C04_src_tokens_iterator_is_token_list.

(* "/a//b~1" iterates as a, "", b~1; the root pointer has no token *)
Example C04_src_tokens_example :
  (exists t, gen_Pointer_tokens [47;97;47;47;98;126;49] = Ret t /\
             drain_tokens 9 t = Ret [tokB [97]; tokB []; tokB [98;126;49]]) /\
  (exists t, gen_Pointer_tokens [] = Ret t /\ drain_tokens 1 t = Ret []).
Proof. split; eexists; split; vm_compute; reflexivity. Qed.

(* components(): Root first, then exactly the tokens, in order (src/component.rs, re-translated) *)
Theorem C04_src_components_iterator : forall p : str,
  exists c, gen_Components_from p = Ret c /\
    drain_components (S (S (length (str_tokens p)))) c =
    Ret (Component_Root :: map (fun t => Component_Token (tokB t)) (str_tokens p)).
Proof. exact gen_components_iterates. Qed.
Print Assumptions C04_src_components_iterator.
