(* C04, stated of the SOURCE AS IT IS NOW: count, is_root, front / first, back / last, get(usize), len, is_empty,
   with_trailing_token, with_leading_token, concat, to_buf and PointerBuf::from_tokens are re-translated from
   src/pointer.rs and src/pointer/slice.rs by tools/rs2v.py on every run (Generated/ScanPtrOps.v, ScanSlice.v,
   ScanBuf.v, ScanPtrBuild.v).  (components() / IntoIterator wrap the Tokens iterator, which is a primitive of the
   translation: hand model + differential tie only.) *)
From JP Require Import Bytes Spec GenPrelude Model.Token Model.Pointer Generated.ScanTypes Generated.ScanToken
  Generated.ScanPtrOps Generated.ScanSlice Generated.ScanBuf Generated.ScanPtrBuild
  Proofs.GenEquivBase Proofs.GenEquivPtrOps Proofs.GenEquivBuf Proofs.GenEquivPtrBuild.

Theorem C04_src_accessors_agree : forall p : str,
  valid_ptr p = true ->
  let ts := tokens p in
  gen_Pointer_count p = Ret (len ts) /\
  gen_Pointer_is_root p = Ret (match ts with [] => true | _ => false end) /\
  gen_Pointer_front p = Ret (option_map tokB (hd_error ts)) /\
  gen_Pointer_first p = Ret (option_map tokB (hd_error ts)) /\
  gen_Pointer_back p = Ret (option_map tokB (match rev ts with [] => None | t :: _ => Some t end)) /\
  gen_Pointer_last p = Ret (option_map tokB (match rev ts with [] => None | t :: _ => Some t end)) /\
  (forall i, gen_get_usize i p = Ret (option_map tokB (nth_N ts i))) /\
  gen_Pointer_len p = Ret (len p) /\
  gen_Pointer_is_empty p = Ret (match ts with [] => true | _ => false end).
Proof. exact gen_accessors_agree. Qed.
Print Assumptions C04_src_accessors_agree.

Theorem C04_src_builders_agree : forall (p q : str) (c : Cow),
  valid_ptr p = true -> valid_ptr q = true ->
  exists t pt pl pc,
    gen_Token_new c = Ret t /\
    gen_Pointer_with_trailing_token p t = Ret pt /\ valid_ptr pt = true /\ tokens pt = tokens p ++ [encode (cow_text c)] /\
    gen_Pointer_with_leading_token p t = Ret pl /\ valid_ptr pl = true /\ tokens pl = encode (cow_text c) :: tokens p /\
    gen_Pointer_concat p q = Ret pc /\ valid_ptr pc = true /\ tokens pc = tokens p ++ tokens q.
Proof. exact gen_builders_agree. Qed.
Print Assumptions C04_src_builders_agree.

(* from_tokens pushes '/' and the encoded text of every token *)
Theorem C04_src_from_tokens : forall ts : list Token,
  gen_PointerBuf_from_tokens ts = Ret (from_tokens_enc (map (fun t => cow_text (Token_inner t)) ts)).
Proof. exact gen_from_tokens_eq. Qed.
Print Assumptions C04_src_from_tokens.

Example C04_src_examples :
  gen_Pointer_count [SLASH; SLASH] = Ret 2 /\
  gen_Pointer_front [SLASH; 97; SLASH; 98] = Ret (Some (tokB [97])) /\
  gen_Pointer_back [SLASH] = Ret (Some (tokB [])) /\
  gen_Pointer_concat [SLASH; 97] [SLASH; 98] = Ret [SLASH; 97; SLASH; 98] /\
  gen_Pointer_with_leading_token [SLASH; 97] (mk_Token (Cow_Borrowed [98])) = Ret [SLASH; 98; SLASH; 97].
Proof. vm_compute. repeat split. Qed.
