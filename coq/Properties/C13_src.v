(* C13, stated of the SOURCE AS IT IS NOW: Pointer::strip_suffix, strip_prefix, ends_with, starts_with and
   intersection are re-translated from src/pointer.rs by tools/rs2v.py on every run
   (Generated/ScanPtrOps.v). *)
From JP Require Import Bytes Spec GenPrelude Model.Pointer Generated.ScanTypes Generated.ScanPtrOps
  Proofs.GenEquivBase Proofs.GenEquivPtrOps.

(* the regenerated functions are the model's, for every pair of texts (so none of them panics, except
   starts_with exactly when the model's does) *)
Theorem C13_src_functions_are_model :
  (forall p q : str, gen_Pointer_strip_suffix p q = Ret (p_strip_suffix p q)) /\
  (forall p q : str, gen_Pointer_strip_prefix p q = Ret (p_strip_prefix p q)) /\
  (forall p q : str, gen_Pointer_ends_with p q = Ret (p_ends_with p q)) /\
  (forall p q : str, gen_Pointer_starts_with p q = p_starts_with p q) /\
  (forall p q : str, gen_Pointer_intersection p q = Ret (intersection p q)).
Proof.
  exact (conj gen_strip_suffix_eq (conj gen_strip_prefix_eq (conj gen_ends_with_eq
          (conj gen_starts_with_eq gen_intersection_eq)))).
Qed.
Print Assumptions C13_src_functions_are_model.

(* starts_with never panics on valid pointers, and decides "leading sub-list of tokens" *)
Theorem C13_src_starts_with : forall p q : str,
  valid_ptr p = true -> valid_ptr q = true ->
  exists b, gen_Pointer_starts_with p q = Ret b /\ (b = true <-> exists rs, tokens p = tokens q ++ rs).
Proof. exact gen_starts_with_total. Qed.
Print Assumptions C13_src_starts_with.

(* in fact its index `self.0.as_bytes()[other.len()]` is in bounds for every pair of texts *)
Theorem C13_src_starts_with_any : forall p q : str, exists b, gen_Pointer_starts_with p q = Ret b.
Proof. exact gen_starts_with_total_any. Qed.
Print Assumptions C13_src_starts_with_any.

Example C13_src_examples :
  (* "/foo" is not a prefix of "/foobar" ... *)
  gen_Pointer_strip_prefix [47;102;111;111;98;97;114] [47;102;111;111] = Ret None /\
  gen_Pointer_starts_with [47;102;111;111;98;97;114] [47;102;111;111] = Ret false /\
  (* ... but of "/foo/bar" *)
  gen_Pointer_strip_prefix [47;102;111;111;47;98;97;114] [47;102;111;111] = Ret (Some [47;98;97;114]) /\
  gen_Pointer_starts_with [47;102;111;111;47;98;97;114] [47;102;111;111] = Ret true /\
  gen_Pointer_strip_suffix [47;102;111;111;47;98;97;114] [47;98;97;114] = Ret (Some [47;102;111;111]) /\
  gen_Pointer_ends_with [47;102;111;111;47;98;97;114] [47;98;97;114] = Ret true /\
  gen_Pointer_ends_with [] [] = Ret true /\ gen_Pointer_ends_with [47;102;111;111] [] = Ret false /\
  gen_Pointer_intersection [47;102;111;111;47;98;97;114] [47;102;111;111;98;97;114] = Ret [] /\
  gen_Pointer_intersection [47;102;111;111;47;98;97;114] [47;102;111;111;47;98] = Ret [47;102;111;111].
Proof. vm_compute. repeat split. Qed.
