(* C01 -- Every pointer or token the safe API yields is valid RFC 6901 text.
   One clause per safe public function family that returns, yields or leaves behind a
   Pointer / PointerBuf / Token.  The functions are the transliterations of Model/*.v;
   [valid_ptr] / [valid_tok] are the grammar of Spec.v.  Range slices are covered through
   [get_bounds] (the (Bound, Bound) impl, to which every range form reduces: a..b is
   (Included a, Excluded b), a.. is (Included a, Unbounded), ..=b is (Unbounded, Included b) ...). *)
From Coq Require Import ZArith.
From JP Require Import Bytes Dec Spec SpecBuf Model.Token Model.Pointer Model.Slice Model.Index Model.Conv
  Proofs.SliceProofs Proofs.ClosureProofs.

(* (a1) constructors, parsing doors, conversions *)
Theorem C01_constructors_closed :
  valid_ptr [] = true /\                                                            (* root(), new(), default, clear() *)
  (forall d s t, door_run d s = DoorOk t -> t = s /\ valid_ptr t = true) /\        (* the eight doors *)
  (forall o s, valid_tok (ttext (token_new o s)) = true) /\                         (* Token::new, From<&str|String> *)
  (forall e, from_encoded e = None -> valid_tok (ttext (from_encoded_tok e)) = true) /\  (* Token::from_encoded *)
  (forall t, valid_tok (ttext t) = true -> valid_tok (ttext (token_into_owned t)) = true) /\  (* into_owned / to_owned *)
  (forall z, valid_tok (token_of_int z) = true) /\                                  (* Token::from(integer) *)
  (forall s r, deserialize s = Some r -> valid_ptr r = true) /\                     (* both Deserialize impls *)
  (forall L, valid_ptr (buf_from_tokens L) = true) /\                               (* from_tokens *)
  (forall raw, valid_ptr (buf_from_tokens [raw]) = true) /\                         (* From<Token> *)
  (forall n, valid_ptr (SLASH :: dec_of_N n) = true).                               (* From<usize> *)
Proof. exact constructors_closed. Qed.
Print Assumptions C01_constructors_closed.

(* (a2) accessors, iterators, splitters, slicers of one valid pointer *)
Theorem C01_accessors_closed : forall p : str, valid_ptr p = true ->
  forallb valid_tok (ptokens p) = true /\                                           (* tokens(), IntoIterator *)
  (forall t, front p = Some t -> valid_tok t = true) /\                             (* front / first *)
  (forall t, back p = Some t -> valid_tok t = true) /\                              (* back / last *)
  (forall i t, get_tok p i = Some t -> valid_tok t = true) /\                       (* get(usize) *)
  (forall c, In c (components p) -> match c with CRoot => True | CToken t => valid_tok t = true end) /\
  (forall t r, split_front p = Some (t, r) -> valid_tok t = true /\ valid_ptr r = true) /\
  (forall f t, split_back p = Some (f, t) -> valid_ptr f = true /\ valid_tok t = true) /\
  (forall f, parent p = Some f -> valid_ptr f = true) /\
  (forall k h t, split_at p k = Some (h, t) -> valid_ptr h = true /\ valid_ptr t = true) /\
  (forall lo hi x y, get_bounds p lo hi = Ret (Some (x, y)) ->                      (* every range form *)
     x <= y /\ y <= len p /\ valid_ptr (bytes_at p x y) = true).
Proof. exact accessors_are_closed. Qed.
Print Assumptions C01_accessors_closed.

(* (a3) operations on two pointers, or a pointer and a token *)
Theorem C01_binary_closed : forall p q raw : str,
  valid_ptr p = true -> valid_ptr q = true ->
  (forall v, p_strip_prefix p q = Some v -> valid_ptr v = true) /\
  (forall v, p_strip_suffix p q = Some v -> valid_ptr v = true) /\
  valid_ptr (intersection p q) = true /\
  valid_ptr (concat_ptr p q) = true /\
  valid_ptr (with_trailing_token p (ttext (token_new false raw))) = true /\
  valid_ptr (with_leading_token p (ttext (token_new false raw))) = true.
Proof. exact binary_closed. Qed.
Print Assumptions C01_binary_closed.

(* (b) every finite history of the seven mutators, with arbitrary arguments, from any valid start:
   the buffer holds valid text afterwards (hence after every prefix of the history too) and every
   returned token is valid; no step panics *)
Theorem C01_history_closed : forall (p0 : str) (ops : list buf_op),
  valid_ptr p0 = true -> Forall op_ok ops ->
  exists p rs, impl_run p0 ops = Ret (p, rs) /\ valid_ptr p = true /\ Forall ret_valid rs.
Proof. exact history_closed. Qed.
Print Assumptions C01_history_closed.

(* (c) re-parsing the text of any such value succeeds and gives back an equal value *)
Theorem C01_reparse :
  (forall p, valid_ptr p = true -> door_run DParse p = DoorOk p) /\
  (forall e, valid_tok e = true -> from_encoded e = None /\ ttext (from_encoded_tok e) = e).
Proof. exact reparse. Qed.
Print Assumptions C01_reparse.

(* the two defects of the pinned tree, as they would read in the model: "~~0" is not a valid token,
   "bar" is not a valid pointer -- and the repaired functions reject / do not produce them *)
Example C01_examples :
  valid_tok [TILDE; TILDE; ZERO] = false /\ from_encoded [TILDE; TILDE; ZERO] <> None /\
  valid_ptr [98; 97; 114] = false /\
  p_strip_prefix [SLASH; 102; 111; 111; 98; 97; 114] [SLASH; 102; 111; 111] = None /\
  p_strip_prefix [SLASH; 97] [SLASH] = None.
Proof. vm_compute. repeat split; discriminate. Qed.
