(* C18 -- Serialisation and owned/borrowed/boxed conversions preserve the pointer exactly.
   Serialize emits the text; Deserialize validates and keeps it; to_buf / to_owned / Cow /
   Box<Pointer> <-> into_buf / to_json_value / Display are the identity on the text in the model
   (Model/Conv.v) - THIN BY NATURE, the assurance for those wrappers (incl. the raw-pointer
   casts of the Box round trip, which are exercised, not verified) is the tie (suite conv).
   The content proved here: deserialize o serialize is the identity on valid pointers and
   refuses exactly the invalid texts; a Token made from an integer is that integer's decimal
   spelling, is a valid token as it stands, and distinct integers give distinct tokens. *)
From Coq Require Import ZArith.
From JP Require Import Bytes Dec Spec Model.Token Model.Pointer Model.Index Model.Conv Proofs.ConvProofs.

Theorem C18_serde_roundtrip : forall p : str,
  valid_ptr p = true -> deserialize (serialize p) = Some p.
Proof. exact serde_roundtrip. Qed.
Print Assumptions C18_serde_roundtrip.

Theorem C18_deserialize_exact : forall s r : str,
  deserialize s = Some r <-> valid_ptr s = true /\ r = s.
Proof. exact deserialize_exact. Qed.
Print Assumptions C18_deserialize_exact.

Theorem C18_invalid_refused : forall s : str, valid_ptr s = false -> deserialize s = None.
Proof. exact deserialize_refuses. Qed.
Print Assumptions C18_invalid_refused.

Theorem C18_conversions_identity : forall p : str,
  to_buf p = p /\ box_roundtrip p = p /\ display p = p /\ serialize p = p /\
  ttext (token_into_owned (mktoken false p)) = p.
Proof. intros p. repeat split. Qed.
Print Assumptions C18_conversions_identity.

Theorem C18_integer_token : forall z : Z,
  valid_tok (token_of_int z) = true /\
  decoded (token_of_int z) = dec_of_Z z /\
  encode (dec_of_Z z) = token_of_int z /\
  (forall n, z = Z.of_N n -> n <= USIZE_MAX -> index_from_str (token_of_int z) = Ok (Num n)).
Proof. exact token_of_int_spec. Qed.
Print Assumptions C18_integer_token.

Theorem C18_integer_token_injective : forall z1 z2 : Z, dec_of_Z z1 = dec_of_Z z2 -> z1 = z2.
Proof. exact dec_of_Z_inj. Qed.
Print Assumptions C18_integer_token_injective.

Example C18_examples :
  token_of_int 0 = [48] /\ token_of_int (-128) = [45; 49; 50; 56] /\
  token_of_int 340282366920938463463374607431768211455 =
    [51;52;48;50;56;50;51;54;54;57;50;48;57;51;56;52;54;51;52;54;51;51;55;52;54;48;55;52;51;49;55;54;56;50;49;49;52;53;53] /\
  deserialize [47; 126] = None /\ deserialize [47; 126; 49] = Some [47; 126; 49].
Proof. vm_compute. repeat split. Qed.
