(* C11, stated of the SOURCE AS IT IS NOW: all seven mutators of PointerBuf (push_front, push_back, pop_back,
   pop_front, append, replace, clear) and from_tokens are re-translated from src/pointer.rs by tools/rs2v.py on every
   run (Generated/ScanBuf.v; a `&mut self` method becomes a function returning (self afterwards, result); the items of
   `tokens()` are modelled by their encoded text). *)
From JP Require Import Bytes Spec SpecBuf GenPrelude Model.Token Model.Pointer Generated.ScanTypes Generated.ScanToken
  Generated.ScanBuf Proofs.GenEquivBase Proofs.GenEquivBuf.

(* the regenerated mutators are the model's byte-splicing functions, for every input *)
Theorem C11_src_functions_are_model : forall (p q : str) (t : Token),
  gen_PointerBuf_push_front p t = Ret (push_front p (cow_text (Token_inner t)), tt) /\
  gen_PointerBuf_push_back p t = Ret (push_back p (cow_text (Token_inner t)), tt) /\
  gen_PointerBuf_pop_back p = Ret (let '(p', r) := pop_back p in (p', option_map tokO r)) /\
  gen_PointerBuf_pop_front p =
    match pop_front p with Ret (p', r) => Ret (p', option_map tokO r) | Panic => Panic | OutOfFuel => OutOfFuel end /\
  gen_PointerBuf_append p q = Ret (append p q, append p q) /\
  gen_PointerBuf_clear p = Ret (clear p, tt).
Proof.
  intros p q t.
  exact (conj (gen_push_front_eq p t) (conj (gen_push_back_eq p t) (conj (gen_pop_back_eq p)
        (conj (gen_pop_front_eq p) (conj (gen_append_eq p q) (gen_clear_eq p)))))).
Qed.
Print Assumptions C11_src_functions_are_model.

Theorem C11_src_replace_is_model : forall (p : str) (index : N) (t : Token),
  gen_PointerBuf_replace p index t =
  Ret (let '(p', r) := replace_tok p index (cow_text (Token_inner t)) in (p', gen_repl r)).
Proof. exact gen_replace_eq. Qed.
Print Assumptions C11_src_replace_is_model.

Theorem C11_src_from_tokens_is_model : forall ts : list Token,
  gen_PointerBuf_from_tokens ts = Ret (from_tokens_enc (map (fun t => cow_text (Token_inner t)) ts)).
Proof. exact gen_from_tokens_eq. Qed.
Print Assumptions C11_src_from_tokens_is_model.

(* replace: an out-of-bounds error carrying the index and the token count and leaving the buffer unchanged, or the
   previous token with the deque updated at that position *)
Theorem C11_src_replace_refines_deque : forall (p : str) (index : N) (c : Cow),
  valid_ptr p = true ->
  exists t p' r,
    gen_Token_new c = Ret t /\ gen_PointerBuf_replace p index t = Ret (p', r) /\ valid_ptr p' = true /\
    (len (tokens p) <= index -> r = Err (mk_ReplaceError index (len (tokens p))) /\ p' = p) /\
    (index < len (tokens p) ->
       exists old, r = Ok (Some (tokO old)) /\ valid_tok old = true /\
         unescape old = nth (N.to_nat index) (dtokens p) [] /\
         dtokens p' = set_nth (N.to_nat index) (cow_text c) (dtokens p)).
Proof. exact gen_replace_refines_deque. Qed.
Print Assumptions C11_src_replace_refines_deque.

(* none of them panics, for any text *)
Theorem C11_src_total : forall (p q : str) (t : Token),
  (exists r, gen_PointerBuf_push_front p t = Ret r) /\ (exists r, gen_PointerBuf_push_back p t = Ret r) /\
  (exists r, gen_PointerBuf_pop_back p = Ret r) /\ (exists r, gen_PointerBuf_pop_front p = Ret r) /\
  (exists r, gen_PointerBuf_append p q = Ret r) /\ (exists r, gen_PointerBuf_clear p = Ret r).
Proof. exact gen_buf_total. Qed.
Print Assumptions C11_src_total.

(* deque behaviour, end to end through the source's own Token::new *)
Theorem C11_src_push_refines_deque : forall (p : str) (c : Cow),
  valid_ptr p = true ->
  exists t pb pf,
    gen_Token_new c = Ret t /\
    gen_PointerBuf_push_back p t = Ret (pb, tt) /\ valid_ptr pb = true /\ dtokens pb = dtokens p ++ [cow_text c] /\
    gen_PointerBuf_push_front p t = Ret (pf, tt) /\ valid_ptr pf = true /\ dtokens pf = cow_text c :: dtokens p.
Proof. exact gen_push_refines_deque. Qed.
Print Assumptions C11_src_push_refines_deque.

Theorem C11_src_pop_refines_deque : forall p : str,
  valid_ptr p = true ->
  (exists pb rb, gen_PointerBuf_pop_back p = Ret (pb, rb) /\ valid_ptr pb = true /\
     match dtokens p with
     | [] => rb = None /\ pb = p
     | _ :: _ => exists t, rb = Some (tokO t) /\ valid_tok t = true /\ unescape t = last (dtokens p) [] /\
                           dtokens pb = removelast (dtokens p)
     end) /\
  (exists pf rf, gen_PointerBuf_pop_front p = Ret (pf, rf) /\ valid_ptr pf = true /\
     match dtokens p with
     | [] => rf = None /\ pf = p
     | x :: l => exists t, rf = Some (tokO t) /\ valid_tok t = true /\ unescape t = x /\ dtokens pf = l
     end).
Proof. exact gen_pop_refines_deque. Qed.
Print Assumptions C11_src_pop_refines_deque.

Theorem C11_src_append_refines_deque : forall p q : str,
  valid_ptr p = true -> valid_ptr q = true ->
  exists r, gen_PointerBuf_append p q = Ret (r, r) /\ valid_ptr r = true /\ dtokens r = dtokens p ++ dtokens q.
Proof. exact gen_append_refines_deque. Qed.
Print Assumptions C11_src_append_refines_deque.

Example C11_src_examples :
  gen_PointerBuf_push_back [SLASH; 97] (mk_Token (Cow_Borrowed [TILDE; ONE])) = Ret ([SLASH; 97; SLASH; TILDE; ONE], tt) /\
  gen_PointerBuf_pop_front [SLASH; SLASH; 97] = Ret ([SLASH; 97], Some (tokO [])) /\
  gen_PointerBuf_pop_back [SLASH] = Ret ([], Some (tokO [])) /\
  gen_PointerBuf_pop_back [] = Ret ([], None) /\
  gen_PointerBuf_append [] [SLASH; 97] = Ret ([SLASH; 97], [SLASH; 97]) /\
  gen_PointerBuf_replace [SLASH; 97; SLASH; 98] 1 (mk_Token (Cow_Borrowed [99])) = Ret ([SLASH; 97; SLASH; 99], Ok (Some (tokO [98]))) /\
  gen_PointerBuf_replace [SLASH; 97] 18446744073709551615 (mk_Token (Cow_Borrowed [99])) = Ret ([SLASH; 97], Err (mk_ReplaceError 18446744073709551615 1)) /\
  gen_PointerBuf_from_tokens [mk_Token (Cow_Borrowed [97]); mk_Token (Cow_Owned [TILDE; ONE])] = Ret [SLASH; 97; SLASH; TILDE; ONE].
Proof. vm_compute. repeat split. Qed.
