(* C07, the part that can be stated of the SOURCE AS IT IS NOW.  The five laws are Properties/C07.v (on the specification and the
   hand-written model); the assign walk of the current source is re-translated in lens mode and proved equal to that model
   (second part of this file), which carries the laws over to the source.  What the laws are read with, and what assign decides
   with, is re-translated from the source on every run: resolve (read-your-write and the frame are statements about what
   resolve finds afterwards), the INCLUSIVE bound check for_len_incl (index = length and '-' append, anything larger is the
   only OutOfBounds), and expand (what is created below the first missing position). *)
From JP Require Import Bytes Spec Value GenPrelude GenTreePrelude Model.Index Model.Tree SpecTree
  Generated.ScanTypes Generated.ScanIndex Generated.ScanTree Proofs.GenEquivBase Proofs.GenEquivIndex Proofs.GenEquivTree.

Theorem C07_src_resolve_is_reference : forall (d : value) (p : str), valid_ptr p = true ->
  omap model_res (gen_json_resolve d p) = Ret (forget_path (spec_resolve (tokens p) d 0 0)) /\
  omap model_res (gen_toml_resolve d p) = Ret (forget_path (spec_resolve (tokens p) d 0 0)).
Proof. intros d p H. destruct (gen_walks_refine d p H) as (A & B & _). exact (conj A B). Qed.
Print Assumptions C07_src_resolve_is_reference.

Theorem C07_src_append_bound_inclusive : forall (i : Index) (n : N),
  gen_Index_for_len_incl i n =
    Ret (match i with
         | Index_Num m => if m <=? n then Ok m else Err (mk_OutOfBoundsError n m)
         | Index_Next => Ok n end).
Proof. intros i n. exact (proj1 (proj2 (gen_bound_checks_exact i n))). Qed.
Print Assumptions C07_src_append_bound_inclusive.

Theorem C07_src_expand_is_materialise : forall (r : str) (v : value), valid_ptr r = true ->
  gen_json_expand r v = Ret (materialise (tokens r) v) /\ gen_toml_expand r v = Ret (materialise (tokens r) v).
Proof. exact gen_expand_total. Qed.
Print Assumptions C07_src_expand_is_materialise.

Example C07_src_examples :
  gen_Index_for_len_incl (Index_Num 2) 2 = Ret (Ok 2) /\ gen_Index_for_len_incl (Index_Num 3) 2 = Ret (Err (mk_OutOfBoundsError 2 3)) /\
  gen_json_expand [47; 48; 47; 107] (VInt 1) = Ret (Arr [Obj [([107], VInt 1)]]).
Proof. vm_compute. repeat split. Qed.

(* ==== the assign walk itself, re-translated in lens mode (DESIGN 13.8) =================================================== *)
From JP Require Import Model.Pointer SpecHist Proofs.HistoryProofs Generated.ScanTreeMut Proofs.GenEquivTreeMut Proofs.GenClosureMut.

(* atomic on error, OF THE SOURCE: a failed assign hands back the very document it was given, for every pointer text *)
Theorem C07_src_atomic_on_error : forall (be : backend) (d : value) (p : str) (v d' : value) (e : AssignError),
  sorted_value d -> gen_assign be d (lens_root d) p v = Ret (d', Err e) -> d' = d.
Proof. exact gen_assign_atomic. Qed.
Print Assumptions C07_src_atomic_on_error.

(* the source's assign is the specification's, so every law of Properties/C07.v about [spec_assign] is a law of the source *)
Theorem C07_src_assign_is_spec : forall (be : backend) (d : value) (p : str) (v : value),
  sorted_value d -> valid_ptr p = true ->
  omap model_aout (gen_assign be d (lens_root d) p v) = Ret (spec_assign (tokens p) d v 0 0).
Proof. exact gen_assign_refines. Qed.
Print Assumptions C07_src_assign_is_spec.
