(* C02 -- Parsing accepts exactly the RFC 6901 grammar, identically through every door.
   [validate] / [door_run] transliterate src/pointer.rs (Model/Pointer.v); [valid_ptr] is the grammar
   of Spec.v ("empty, or begins with '/' and every '~' is followed by '0' or '1'"). *)
From JP Require Import Bytes Spec Model.Pointer Proofs.SplitProofs Proofs.ValidateProofs.

(* the scanner accepts exactly the grammar *)
Theorem C02_accept_iff : forall s : str, validate s = None <-> valid_ptr s = true.
Proof. exact validate_ok_iff. Qed.
Print Assumptions C02_accept_iff.

(* ... which is the ABNF reading: the text is "/"-joined valid reference tokens *)
Theorem C02_grammar_is_token_lists : forall p : str,
  valid_ptr p = true <-> (p = [] \/ exists r, p = SLASH :: r) /\ forallb valid_tok (tokens p) = true.
Proof. exact valid_ptr_iff_tokens. Qed.
Print Assumptions C02_grammar_is_token_lists.

(* all eight doors take that decision, keep the text unchanged on success, and hand back the
   same ParseError where they return one (Report for PointerBuf::parse, panic for from_static,
   a serde error for the two Deserialize impls) *)
Theorem C02_doors : forall (d : door) (s : str),
  match validate s with
  | None => door_run d s = DoorOk s
  | Some e =>
      match d with
      | DParse | DFromStr | DTryFromStr | DTryFromString => door_run d s = DoorErr e
      | DBufParse => door_run d s = DoorReport e s
      | DDeBorrowed | DDeOwned => door_run d s = DoorSerdeErr
      | DFromStatic => door_run d s = DoorPanic
      end
  end.
Proof. exact doors_agree. Qed.
Print Assumptions C02_doors.

Example C02_examples :
  validate [] = None /\ validate [SLASH] = None /\ validate [SLASH; SLASH; TILDE; ONE] = None /\
  validate [97] = Some NoLeadingSlash /\
  validate [SLASH; TILDE] = Some (InvalidEncoding 0 1) /\
  validate [SLASH; 195; 169; TILDE; SLASH] = Some (InvalidEncoding 0 3) /\
  validate [SLASH; TILDE; ZERO; TILDE; TILDE] = Some (InvalidEncoding 0 3).
Proof. vm_compute. repeat split. Qed.
