(* Value.v -- documents: one inductive for serde_json::Value and toml::Value.

   JSON  = values without [VOther];  TOML = values without [Null] ([VOther] stands for
   float / datetime, opaque scalars).  Objects / tables are association lists kept strictly
   sorted by `str_cmp` (the order of BTreeMap<String, _>, which both crates use here since
   `preserve_order` is not enabled).  Definitions only. *)

From Coq Require Export ZArith.
From JP Require Export Bytes.

Inductive value :=
| Null
| VBool (b : bool)
| VInt (z : Z)
| VStr (s : str)
| VOther (tag : N)
| Arr (l : list value)
| Obj (m : list (str * value)).

Definition is_container (v : value) : bool :=
  match v with Arr _ | Obj _ => true | _ => false end.

(* ---- Map<String, Value> as a sorted association list ---------------------------------- *)

Definition obj := list (str * value).

Fixpoint obj_lookup (k : str) (m : obj) : option value :=
  match m with
  | [] => None
  | (k', v) :: r => if str_eqb k k' then Some v else obj_lookup k r
  end.

(* insert or overwrite, keeping the list sorted *)
Fixpoint obj_insert (k : str) (v : value) (m : obj) : obj :=
  match m with
  | [] => [(k, v)]
  | (k', v') :: r =>
      match str_cmp k k' with
      | Lt => (k, v) :: m
      | Eq => (k, v) :: r
      | Gt => (k', v') :: obj_insert k v r
      end
  end.

Fixpoint obj_remove (k : str) (m : obj) : obj :=
  match m with
  | [] => []
  | (k', v') :: r => if str_eqb k k' then r else (k', v') :: obj_remove k r
  end.

Fixpoint keys_sorted (m : obj) : bool :=
  match m with
  | [] => true
  | (k, _) :: r =>
      match r with
      | [] => true
      | (k', _) :: _ => str_ltb k k' && keys_sorted r
      end
  end.

(* ---- selector paths: "that very node" ---------------------------------------------------- *)

Inductive sel := Idx (n : nat) | Key (k : str).

Fixpoint get_at (path : list sel) (d : value) : option value :=
  match path with
  | [] => Some d
  | Idx n :: r => match d with Arr l => match nth_error l n with Some c => get_at r c | None => None end | _ => None end
  | Key k :: r => match d with Obj m => match obj_lookup k m with Some c => get_at r c | None => None end | _ => None end
  end.

(* replace the node at [path] (which must exist) by [f node] *)
Fixpoint update_at (path : list sel) (f : value -> value) (d : value) : value :=
  match path with
  | [] => f d
  | Idx n :: r =>
      match d with
      | Arr l => match nth_error l n with
                 | Some c => Arr (set_nth n (update_at r f c) l)
                 | None => d
                 end
      | _ => d
      end
  | Key k :: r =>
      match d with
      | Obj m => match obj_lookup k m with
                 | Some c => Obj (obj_insert k (update_at r f c) m)
                 | None => d
                 end
      | _ => d
      end
  end.
