(* Proofs/IndexProofs.v -- proofs about Model/Index.v (src/index.rs) for property C16:
   the decimal bridge (dec_of_N / dec_acc), exact acceptance of index_from_str, truthful
   rejections, invalid_char never panics, and the bounds functions. *)
From Coq Require Import DecimalFacts DecimalPos DecimalN.
From JP Require Import Bytes Dec Model.Index Proofs.BytesFacts.

Arguments N.add : simpl never.
Arguments N.mul : simpl never.
Arguments N.sub : simpl never.
Arguments N.eqb : simpl never.
Arguments N.leb : simpl never.
Arguments N.ltb : simpl never.

(* ================================================================================ *)
(* (a) decimal bridge                                                               *)
(* ================================================================================ *)

(* value of a Decimal.uint read most-significant-digit first, with an accumulator *)
Fixpoint uval (acc : N) (d : Decimal.uint) : N :=
  match d with
  | Decimal.Nil => acc
  | Decimal.D0 r => uval (10 * acc + 0) r
  | Decimal.D1 r => uval (10 * acc + 1) r
  | Decimal.D2 r => uval (10 * acc + 2) r
  | Decimal.D3 r => uval (10 * acc + 3) r
  | Decimal.D4 r => uval (10 * acc + 4) r
  | Decimal.D5 r => uval (10 * acc + 5) r
  | Decimal.D6 r => uval (10 * acc + 6) r
  | Decimal.D7 r => uval (10 * acc + 7) r
  | Decimal.D8 r => uval (10 * acc + 8) r
  | Decimal.D9 r => uval (10 * acc + 9) r
  end.

Lemma dec_acc_uint_bytes d : forall acc, dec_acc acc (uint_bytes d) = Some (uval acc d).
Proof.
  induction d as [|r IH|r IH|r IH|r IH|r IH|r IH|r IH|r IH|r IH|r IH]; intros acc;
    cbn [uint_bytes dec_acc uval]; [reflexivity|..];
    (replace (is_digit _) with true by reflexivity); rewrite IH; reflexivity.
Qed.

Lemma uval_pos d : forall acc : positive, uval (Npos acc) d = Npos (Pos.of_uint_acc d acc).
Proof.
  induction d as [|r IH|r IH|r IH|r IH|r IH|r IH|r IH|r IH|r IH|r IH]; intros acc;
    cbn [uval Pos.of_uint_acc]; [reflexivity|..];
    rewrite <- IH; f_equal; lia.
Qed.

Lemma uval_of_uint d : uval 0 d = N.of_uint d.
Proof.
  unfold N.of_uint.
  induction d as [|r IH|r IH|r IH|r IH|r IH|r IH|r IH|r IH|r IH|r IH];
    cbn [uval Pos.of_uint]; [reflexivity|exact IH|..];
    rewrite <- uval_pos; reflexivity.
Qed.

Lemma dec_acc_uint_bytes_0 d : dec_acc 0 (uint_bytes d) = Some (N.of_uint d).
Proof. rewrite dec_acc_uint_bytes, uval_of_uint. reflexivity. Qed.

(* parsing the canonical spelling of n gives n back *)
Theorem dec_acc_dec_of_N n : dec_acc 0 (dec_of_N n) = Some n.
Proof. unfold dec_of_N. rewrite dec_acc_uint_bytes_0, DecimalN.Unsigned.of_to. reflexivity. Qed.

Lemma uint_bytes_digits d : forallb is_digit (uint_bytes d) = true.
Proof.
  induction d as [|r IH|r IH|r IH|r IH|r IH|r IH|r IH|r IH|r IH|r IH];
    cbn [uint_bytes forallb]; [reflexivity|..]; rewrite IH; reflexivity.
Qed.

Theorem dec_of_N_digits n : forallb is_digit (dec_of_N n) = true.
Proof. apply uint_bytes_digits. Qed.

Lemma uint_bytes_nil d : uint_bytes d = [] -> d = Decimal.Nil.
Proof. destruct d; cbn [uint_bytes]; intros H; try discriminate H; reflexivity. Qed.

Lemma to_uint_nonnil n : N.to_uint n <> Decimal.Nil.
Proof.
  destruct n as [|p]; cbn [N.to_uint]; [discriminate|].
  apply DecimalPos.Unsigned.to_uint_nonnil.
Qed.

Theorem dec_of_N_nonempty n : dec_of_N n <> [].
Proof. unfold dec_of_N. intros H. apply uint_bytes_nil in H. exact (to_uint_nonnil n H). Qed.

Theorem dec_of_N_0 : dec_of_N 0 = [ZERO].
Proof. reflexivity. Qed.

Lemma to_uint_unorm n : Decimal.unorm (N.to_uint n) = N.to_uint n.
Proof.
  rewrite <- DecimalN.Unsigned.to_of, DecimalN.Unsigned.of_to. reflexivity.
Qed.

Lemma uint_bytes_zero_head d r : uint_bytes d = ZERO :: r -> exists d', d = Decimal.D0 d'.
Proof.
  destruct d as [|d'|d'|d'|d'|d'|d'|d'|d'|d'|d']; cbn [uint_bytes]; intros H;
    try discriminate H; [exists d'; reflexivity|..];
    exfalso; injection H as H _; vm_compute in H; discriminate H.
Qed.

(* a normalised uint that starts with the digit 0 is the single digit 0 *)
Lemma unorm_D0 d : Decimal.unorm (Decimal.D0 d) = Decimal.D0 d -> d = Decimal.Nil.
Proof.
  unfold Decimal.unorm. intros H.
  destruct (Decimal.nzhead (Decimal.D0 d)) eqn:Hn.
  - injection H as H. symmetry. exact H.
  - exfalso. apply (nzhead_nonzero (Decimal.D0 d) d). rewrite Hn. exact H.
  - discriminate H.
  - discriminate H.
  - discriminate H.
  - discriminate H.
  - discriminate H.
  - discriminate H.
  - discriminate H.
  - discriminate H.
  - discriminate H.
Qed.

(* no leading zero unless n = 0 *)
Theorem dec_of_N_leading_zero n r : dec_of_N n = ZERO :: r -> r = [] /\ n = 0.
Proof.
  unfold dec_of_N. intros H.
  destruct (uint_bytes_zero_head _ _ H) as [d' Hd].
  pose proof (to_uint_unorm n) as Hu. rewrite Hd in Hu. apply unorm_D0 in Hu. subst d'.
  rewrite Hd in H. cbn [uint_bytes] in H. injection H as H. split; [symmetry; exact H|].
  apply DecimalN.Unsigned.to_uint_inj. rewrite Hd. reflexivity.
Qed.

(* ---- canonical spellings are unique --------------------------------------------- *)

(* "leading zeros": a multi-character string that starts with '0' *)
Definition leading_zeros (s : str) : Prop := exists r, s = ZERO :: r /\ r <> [].

(* canonical decimal spelling: non-empty, ASCII digits only, no leading zero (so "0" is
   the only one starting with '0') *)
Definition canonical_dec (s : str) : Prop :=
  s <> [] /\ forallb is_digit s = true /\ ~ leading_zeros s.

Lemma canonical_dec_alt s :
  canonical_dec s <->
  s = [ZERO] \/ (exists b r, s = b :: r /\ b <> ZERO /\ forallb is_digit (b :: r) = true).
Proof.
  unfold canonical_dec, leading_zeros. split.
  - intros (Hne & Hd & Hlz). destruct s as [|b r]; [congruence|].
    destruct (N.eqb_spec b ZERO) as [->|Hb].
    + left. destruct r as [|c r]; [reflexivity|].
      exfalso. apply Hlz. exists (c :: r). split; [reflexivity|discriminate].
    + right. exists b, r. auto.
  - intros [->|(b & r & -> & Hb & Hd)].
    + split; [discriminate|]. split; [reflexivity|].
      intros (r & Hr & Hne). injection Hr as Hr. congruence.
    + split; [discriminate|]. split; [exact Hd|].
      intros (r' & Hr & _). injection Hr as Hr _. congruence.
Qed.

Lemma is_digit_cases b : is_digit b = true ->
  b = 48 \/ b = 49 \/ b = 50 \/ b = 51 \/ b = 52 \/ b = 53 \/ b = 54 \/ b = 55 \/ b = 56 \/ b = 57.
Proof.
  unfold is_digit. intros H. apply andb_true_iff in H as [H1 H2].
  apply N.leb_le in H1. apply N.leb_le in H2. lia.
Qed.

Definition digit_cons (b : N) (d : Decimal.uint) : Decimal.uint :=
  if b =? 48 then Decimal.D0 d else if b =? 49 then Decimal.D1 d
  else if b =? 50 then Decimal.D2 d else if b =? 51 then Decimal.D3 d
  else if b =? 52 then Decimal.D4 d else if b =? 53 then Decimal.D5 d
  else if b =? 54 then Decimal.D6 d else if b =? 55 then Decimal.D7 d
  else if b =? 56 then Decimal.D8 d else Decimal.D9 d.

Fixpoint bytes_uint (s : str) : Decimal.uint :=
  match s with
  | [] => Decimal.Nil
  | b :: r => digit_cons b (bytes_uint r)
  end.

Lemma uint_bytes_digit_cons b d :
  is_digit b = true -> uint_bytes (digit_cons b d) = b :: uint_bytes d.
Proof.
  intros H. apply is_digit_cases in H.
  destruct H as [->|[->|[->|[->|[->|[->|[->|[->|[->| ->]]]]]]]]]; reflexivity.
Qed.

Lemma uint_bytes_bytes_uint s : forallb is_digit s = true -> uint_bytes (bytes_uint s) = s.
Proof.
  induction s as [|b r IH]; cbn [forallb bytes_uint]; intros H; [reflexivity|].
  apply andb_true_iff in H as [Hb Hr].
  rewrite uint_bytes_digit_cons by exact Hb. rewrite IH by exact Hr. reflexivity.
Qed.

Lemma uint_bytes_canonical d : canonical_dec (uint_bytes d) -> Decimal.unorm d = d.
Proof.
  intros (Hne & _ & Hlz).
  destruct d as [|d'|d'|d'|d'|d'|d'|d'|d'|d'|d']; try reflexivity.
  - exfalso. apply Hne. reflexivity.
  - destruct d' as [|e|e|e|e|e|e|e|e|e|e]; [reflexivity|..];
      exfalso; apply Hlz; cbn [uint_bytes]; eexists; (split; [reflexivity|discriminate]).
Qed.

(* if a canonical digit string has value n then it is the spelling of n *)
Theorem dec_of_N_unique s n : canonical_dec s -> dec_acc 0 s = Some n -> dec_of_N n = s.
Proof.
  intros Hc Hv. pose proof Hc as (_ & Hd & _).
  rewrite <- (uint_bytes_bytes_uint s Hd) in Hc, Hv |- *.
  rewrite dec_acc_uint_bytes_0 in Hv. injection Hv as Hv. subst n.
  unfold dec_of_N. rewrite DecimalN.Unsigned.to_of.
  rewrite (uint_bytes_canonical _ Hc). reflexivity.
Qed.

Theorem dec_of_N_canonical n : canonical_dec (dec_of_N n).
Proof.
  split; [apply dec_of_N_nonempty|]. split; [apply dec_of_N_digits|].
  intros (r & Hr & Hne). apply dec_of_N_leading_zero in Hr as [Hr _]. exact (Hne Hr).
Qed.

(* the canonical digit strings are exactly the spellings, and the value is the number spelt *)
Theorem canonical_dec_iff s n : dec_of_N n = s <-> canonical_dec s /\ dec_acc 0 s = Some n.
Proof.
  split.
  - intros <-. split; [apply dec_of_N_canonical|apply dec_acc_dec_of_N].
  - intros [Hc Hv]. exact (dec_of_N_unique s n Hc Hv).
Qed.

Lemma dec_acc_digits s : forall acc, forallb is_digit s = true -> exists v, dec_acc acc s = Some v.
Proof.
  induction s as [|b r IH]; intros acc; cbn [forallb dec_acc]; intros H.
  - exists acc. reflexivity.
  - apply andb_true_iff in H as [Hb Hr]. rewrite Hb. apply IH. exact Hr.
Qed.

Lemma dec_acc_some_digits s : forall acc v, dec_acc acc s = Some v -> forallb is_digit s = true.
Proof.
  induction s as [|b r IH]; intros acc v; cbn [forallb dec_acc]; intros H; [reflexivity|].
  destruct (is_digit b) eqn:Hb; [|discriminate H]. cbn [andb]. exact (IH _ _ H).
Qed.

(* ================================================================================ *)
(* (b),(c) index_from_str: exact acceptance, truthful rejections                     *)
(* ================================================================================ *)

Lemma leading_zeros_bool s :
  starts_with s [ZERO] && negb (str_eqb s [ZERO]) = true <-> leading_zeros s.
Proof.
  unfold leading_zeros. split.
  - intros H. apply andb_true_iff in H as [H1 H2]. apply negb_true_iff in H2.
    destruct s as [|b r]; cbn [starts_with] in H1; [discriminate H1|].
    apply andb_true_iff in H1 as [Hb _]. apply N.eqb_eq in Hb. subst b.
    exists r. split; [reflexivity|]. intros ->. rewrite str_eqb_refl in H2. discriminate H2.
  - intros (r & -> & Hne). destruct r as [|c r]; [congruence|].
    cbn [starts_with str_eqb]. rewrite N.eqb_refl. rewrite andb_false_r. reflexivity.
Qed.

Lemma leading_zeros_bool_false s :
  starts_with s [ZERO] && negb (str_eqb s [ZERO]) = false <-> ~ leading_zeros s.
Proof.
  rewrite <- leading_zeros_bool.
  destruct (starts_with s [ZERO] && negb (str_eqb s [ZERO])); split; intros H;
    try reflexivity; try discriminate; congruence.
Qed.

Lemma dash_bool_false s : str_eqb s [DASH] = false <-> s <> [DASH].
Proof.
  split.
  - intros H ->. rewrite str_eqb_refl in H. discriminate H.
  - intros H. destruct (str_eqb s [DASH]) eqn:He; [|reflexivity].
    apply str_eqb_eq in He. contradiction.
Qed.

Lemma forallb_negb_negb s :
  forallb (fun b => negb (negb (is_digit b))) s = forallb is_digit s.
Proof.
  induction s as [|b r IH]; cbn [forallb]; [reflexivity|].
  rewrite negb_involutive, IH. reflexivity.
Qed.

Lemma position_nd_none s :
  position (fun c => negb (is_digit c)) s = None <-> forallb is_digit s = true.
Proof. rewrite position_none, forallb_negb_negb. reflexivity. Qed.

(* the position found is that of the first non-digit byte *)
Lemma position_nd_some s off :
  position (fun c => negb (is_digit c)) s = Some off <->
  exists a b r, s = a ++ b :: r /\ forallb is_digit a = true /\ is_digit b = false /\ off = length a.
Proof.
  split.
  - intros H. apply position_some in H as (a & b & r & -> & Hl & Hb & Ha).
    rewrite forallb_negb_negb in Ha. apply negb_true_iff in Hb.
    exists a, b, r. auto.
  - intros (a & b & r & -> & Ha & Hb & ->).
    apply position_app_first.
    + rewrite forallb_negb_negb. exact Ha.
    + apply negb_true_iff. exact Hb.
Qed.

(* the decomposition at the first non-digit byte is unique *)
Lemma first_nondigit_unique a b r a' b' r' :
  a ++ b :: r = a' ++ b' :: r' ->
  forallb is_digit a = true -> is_digit b = false ->
  forallb is_digit a' = true -> is_digit b' = false ->
  a = a' /\ b = b' /\ r = r'.
Proof.
  revert a'. induction a as [|x a IH]; intros [|x' a']; cbn [app forallb]; intros E Ha Hb Ha' Hb'.
  - injection E as E1 E2. auto.
  - injection E as E1 E2. subst x'. apply andb_true_iff in Ha' as [Hx _]. congruence.
  - injection E as E1 E2. subst x. apply andb_true_iff in Ha as [Hx _]. congruence.
  - injection E as E1 E2. subst x'.
    apply andb_true_iff in Ha as [_ Ha]. apply andb_true_iff in Ha' as [_ Ha'].
    destruct (IH a' E2 Ha Hb Ha' Hb') as (-> & -> & ->). auto.
Qed.

(* ---- the value of index_from_str in each of its branches ------------------------- *)

Lemma ifs_dash : index_from_str [DASH] = Ok Next.
Proof. reflexivity. Qed.

Lemma ifs_leading_zeros s : leading_zeros s -> index_from_str s = Err LeadingZeros.
Proof.
  intros H. unfold index_from_str.
  assert (Hd : str_eqb s [DASH] = false).
  { apply dash_bool_false. intros ->. destruct H as (r & Hr & _). discriminate Hr. }
  rewrite Hd. apply leading_zeros_bool in H. rewrite H. reflexivity.
Qed.

Lemma ifs_invalid_char a b r :
  a ++ b :: r <> [DASH] -> ~ leading_zeros (a ++ b :: r) ->
  forallb is_digit a = true -> is_digit b = false ->
  index_from_str (a ++ b :: r) = Err (InvalidCharacter (len a)).
Proof.
  intros Hd Hlz Ha Hb. unfold index_from_str.
  apply dash_bool_false in Hd. rewrite Hd.
  apply leading_zeros_bool_false in Hlz. rewrite Hlz.
  assert (Hp : position (fun c => negb (is_digit c)) (a ++ b :: r) = Some (length a)).
  { apply position_nd_some. exists a, b, r. auto. }
  rewrite Hp. reflexivity.
Qed.

Lemma ifs_empty : index_from_str [] = Err (InvalidInteger IntEmpty).
Proof. reflexivity. Qed.

Lemma digits_not_dash s : forallb is_digit s = true -> s <> [DASH].
Proof. intros H ->. discriminate H. Qed.

Lemma ifs_digits s v :
  canonical_dec s -> dec_acc 0 s = Some v ->
  index_from_str s =
    if v <=? USIZE_MAX then Ok (Num v) else Err (InvalidInteger IntPosOverflow).
Proof.
  intros (Hne & Hdig & Hlz) Hv. unfold index_from_str.
  pose proof (digits_not_dash s Hdig) as Hd. apply dash_bool_false in Hd. rewrite Hd.
  apply leading_zeros_bool_false in Hlz. rewrite Hlz.
  apply position_nd_none in Hdig. rewrite Hdig.
  unfold parse_usize. destruct s as [|b r]; [congruence|].
  rewrite Hv. destruct (v <=? USIZE_MAX); reflexivity.
Qed.

(* ---- complete case analysis ------------------------------------------------------ *)

Inductive index_class (s : str) : Prop :=
| IC_dash : s = [DASH] -> index_class s
| IC_lz : leading_zeros s -> index_class s
| IC_char a b r : s <> [DASH] -> ~ leading_zeros s -> s = a ++ b :: r ->
    forallb is_digit a = true -> is_digit b = false -> index_class s
| IC_empty : s = [] -> index_class s
| IC_digits v : canonical_dec s -> dec_acc 0 s = Some v -> index_class s.

Lemma index_classify s : index_class s.
Proof.
  destruct (str_eqb s [DASH]) eqn:Hd.
  { apply IC_dash. apply str_eqb_eq. exact Hd. }
  apply dash_bool_false in Hd.
  destruct (starts_with s [ZERO] && negb (str_eqb s [ZERO])) eqn:Hlz.
  { apply IC_lz. apply leading_zeros_bool. exact Hlz. }
  apply leading_zeros_bool_false in Hlz.
  destruct (position (fun c => negb (is_digit c)) s) as [off|] eqn:Hp.
  { apply position_nd_some in Hp as (a & b & r & Hs & Ha & Hb & _).
    exact (IC_char s a b r Hd Hlz Hs Ha Hb). }
  apply position_nd_none in Hp.
  destruct s as [|b r] eqn:Hs.
  { apply IC_empty. reflexivity. }
  rewrite <- Hs in *.
  destruct (dec_acc_digits s 0 Hp) as [v Hv].
  apply (IC_digits s v); [|exact Hv].
  split; [rewrite Hs; discriminate|]. split; assumption.
Qed.

(* ---- the specification of every possible result ---------------------------------- *)

Definition first_nondigit_at (s : str) (off : N) (b : N) : Prop :=
  exists a r, s = a ++ b :: r /\ forallb is_digit a = true /\ is_digit b = false /\ off = len a.

Definition index_spec (s : str) (res : result index parse_index_error) : Prop :=
  match res with
  | Ok Next => s = [DASH]
  | Ok (Num n) => n <= USIZE_MAX /\ s = dec_of_N n
  | Err LeadingZeros => leading_zeros s
  | Err (InvalidCharacter off) =>
      s <> [DASH] /\ ~ leading_zeros s /\
      exists a b r, s = a ++ b :: r /\ forallb is_digit a = true /\ is_digit b = false /\ off = len a
  | Err (InvalidInteger IntEmpty) => s = []
  | Err (InvalidInteger IntPosOverflow) =>
      canonical_dec s /\ exists v, dec_acc 0 s = Some v /\ USIZE_MAX < v
  end.

Lemma index_from_str_sound s : index_spec s (index_from_str s).
Proof.
  destruct (index_classify s) as [Hd|Hlz|a b r Hd Hlz Hs Ha Hb|He|v Hc Hv].
  - subst s. reflexivity.
  - rewrite (ifs_leading_zeros s Hlz). exact Hlz.
  - subst s. rewrite (ifs_invalid_char a b r Hd Hlz Ha Hb). cbn [index_spec].
    split; [exact Hd|]. split; [exact Hlz|]. exists a, b, r. auto.
  - subst s. reflexivity.
  - rewrite (ifs_digits s v Hc Hv). destruct (v <=? USIZE_MAX) eqn:Hle; cbn [index_spec].
    + apply N.leb_le in Hle. split; [exact Hle|]. symmetry. exact (dec_of_N_unique s v Hc Hv).
    + apply N.leb_gt in Hle. split; [exact Hc|]. exists v. auto.
Qed.

Lemma index_from_str_complete s res : index_spec s res -> index_from_str s = res.
Proof.
  destruct res as [[n|]|[[|]| |off]]; cbn [index_spec].
  - intros (Hle & ->).
    rewrite (ifs_digits _ n (dec_of_N_canonical n) (dec_acc_dec_of_N n)).
    apply N.leb_le in Hle. rewrite Hle. reflexivity.
  - intros ->. reflexivity.
  - intros ->. reflexivity.
  - intros (Hc & v & Hv & Hlt). rewrite (ifs_digits s v Hc Hv).
    apply N.leb_gt in Hlt. rewrite Hlt. reflexivity.
  - apply ifs_leading_zeros.
  - intros (Hd & Hlz & a & b & r & Hs & Ha & Hb & ->). subst s.
    apply ifs_invalid_char; assumption.
Qed.

(* index_from_str returns res exactly when res is the specified result for s *)
Theorem index_from_str_spec s res : index_from_str s = res <-> index_spec s res.
Proof.
  split; [intros <-; apply index_from_str_sound|apply index_from_str_complete].
Qed.

(* the cases of the specification are exhaustive and mutually exclusive *)
Corollary index_spec_total s : exists res, index_spec s res.
Proof. exists (index_from_str s). apply index_from_str_sound. Qed.

Corollary index_spec_functional s r1 r2 : index_spec s r1 -> index_spec s r2 -> r1 = r2.
Proof.
  intros H1 H2. apply index_from_str_complete in H1, H2. congruence.
Qed.

(* ---- (b) exact acceptance --------------------------------------------------------- *)

Theorem index_from_str_next s : index_from_str s = Ok Next <-> s = [DASH].
Proof. exact (index_from_str_spec s (Ok Next)). Qed.

Theorem index_from_str_num s n :
  index_from_str s = Ok (Num n) <-> n <= USIZE_MAX /\ s = dec_of_N n.
Proof. exact (index_from_str_spec s (Ok (Num n))). Qed.

(* a string parses exactly when it is "-" or a canonical digit string that fits in usize *)
Theorem index_from_str_ok_iff s :
  (exists i, index_from_str s = Ok i) <->
  s = [DASH] \/ (canonical_dec s /\ exists v, dec_acc 0 s = Some v /\ v <= USIZE_MAX).
Proof.
  split.
  - intros ([n|] & H).
    + apply index_from_str_num in H as [Hle ->]. right.
      split; [apply dec_of_N_canonical|]. exists n. split; [apply dec_acc_dec_of_N|exact Hle].
    + left. apply index_from_str_next. exact H.
  - intros [->|(Hc & v & Hv & Hle)].
    + exists Next. reflexivity.
    + exists (Num v). apply index_from_str_num. split; [exact Hle|].
      symmetry. exact (dec_of_N_unique s v Hc Hv).
Qed.

Definition index_in_range (i : index) : Prop :=
  match i with Next => True | Num n => n <= USIZE_MAX end.

Theorem index_display_roundtrip i :
  index_in_range i -> index_from_str (index_display i) = Ok i.
Proof.
  destruct i as [n|]; cbn [index_in_range index_display]; intros H.
  - apply index_from_str_num. auto.
  - reflexivity.
Qed.

Theorem index_from_str_display s i : index_from_str s = Ok i -> index_display i = s.
Proof.
  destruct i as [n|]; cbn [index_display]; intros H.
  - apply index_from_str_num in H as [_ ->]. reflexivity.
  - apply index_from_str_next in H. symmetry. exact H.
Qed.

Theorem index_from_str_in_range s i : index_from_str s = Ok i -> index_in_range i.
Proof.
  destruct i as [n|]; cbn [index_in_range]; intros H; [|exact I].
  apply index_from_str_num in H as [H _]. exact H.
Qed.

(* ---- (c) truthful rejections ------------------------------------------------------ *)

Theorem index_from_str_leading_zeros s :
  index_from_str s = Err LeadingZeros <-> exists r, s = ZERO :: r /\ r <> [].
Proof. exact (index_from_str_spec s (Err LeadingZeros)). Qed.

Theorem index_from_str_invalid_char s off :
  index_from_str s = Err (InvalidCharacter off) <->
  s <> [DASH] /\ ~ (exists r, s = ZERO :: r /\ r <> []) /\
  exists a b r, s = a ++ b :: r /\ forallb is_digit a = true /\ is_digit b = false /\ off = len a.
Proof. exact (index_from_str_spec s (Err (InvalidCharacter off))). Qed.

Theorem index_from_str_int_empty s :
  index_from_str s = Err (InvalidInteger IntEmpty) <-> s = [].
Proof. exact (index_from_str_spec s (Err (InvalidInteger IntEmpty))). Qed.

Theorem index_from_str_int_overflow s :
  index_from_str s = Err (InvalidInteger IntPosOverflow) <->
  canonical_dec s /\ exists v, dec_acc 0 s = Some v /\ USIZE_MAX < v.
Proof. exact (index_from_str_spec s (Err (InvalidInteger IntPosOverflow))). Qed.

(* InvalidCharacterError::char() *)
Lemma invalid_char_at a b r : invalid_char (a ++ b :: r) (len a) = Ret b.
Proof.
  unfold invalid_char, len. rewrite Nat2N.id.
  rewrite nth_error_app2 by apply le_n. rewrite PeanoNat.Nat.sub_diag. reflexivity.
Qed.

(* on an InvalidCharacter error, char() returns the first non-digit byte (never panics) *)
Theorem invalid_char_truthful s off :
  index_from_str s = Err (InvalidCharacter off) ->
  exists a b r, s = a ++ b :: r /\ forallb is_digit a = true /\ is_digit b = false /\
                off = len a /\ invalid_char s off = Ret b.
Proof.
  intros H. apply index_from_str_invalid_char in H as (_ & _ & a & b & r & -> & Ha & Hb & ->).
  exists a, b, r. repeat split; try assumption. apply invalid_char_at.
Qed.

Corollary invalid_char_no_panic s off :
  index_from_str s = Err (InvalidCharacter off) ->
  exists b, invalid_char s off = Ret b /\ is_digit b = false.
Proof.
  intros H. apply invalid_char_truthful in H as (a & b & r & _ & _ & Hb & _ & Hr).
  exists b. auto.
Qed.

(* ================================================================================ *)
(* (d) bounds                                                                       *)
(* ================================================================================ *)

Theorem for_len_ok i l k : for_len i l = Ok k <-> exists n, i = Num n /\ n < l /\ k = n.
Proof.
  destruct i as [n|]; cbn [for_len].
  - destruct (n <? l) eqn:Hlt; split.
    + intros H. injection H as <-. apply N.ltb_lt in Hlt. exists n. auto.
    + intros (m & Hm & _ & ->). injection Hm as ->. reflexivity.
    + discriminate.
    + intros (m & Hm & Hml & _). injection Hm as ->. apply N.ltb_ge in Hlt. lia.
  - split; [discriminate|]. intros (m & Hm & _). discriminate Hm.
Qed.

Theorem for_len_err i l a b : for_len i l = Err (a, b) -> a = l /\ b = for_len_unchecked i l.
Proof.
  destruct i as [n|]; cbn [for_len for_len_unchecked].
  - destruct (n <? l); [discriminate|]. intros H. injection H as <- <-. auto.
  - intros H. injection H as <- <-. auto.
Qed.

(* for_len fails exactly on '-' and on numeric i >= l *)
Theorem for_len_err_iff i l a b :
  for_len i l = Err (a, b) <->
  a = l /\ ((i = Next /\ b = l) \/ (exists n, i = Num n /\ l <= n /\ b = n)).
Proof.
  destruct i as [n|]; cbn [for_len].
  - destruct (n <? l) eqn:Hlt; split.
    + discriminate.
    + intros (_ & [(Hn & _)|(m & Hm & Hml & _)]); [discriminate Hn|].
      injection Hm as ->. apply N.ltb_lt in Hlt. lia.
    + intros H. injection H as <- <-. apply N.ltb_ge in Hlt.
      split; [reflexivity|]. right. exists n. auto.
    + intros (-> & [(Hn & _)|(m & Hm & _ & ->)]); [discriminate Hn|].
      injection Hm as ->. reflexivity.
  - split.
    + intros H. injection H as <- <-. auto.
    + intros (-> & [(_ & ->)|(m & Hm & _)]); [reflexivity|discriminate Hm].
Qed.

Theorem for_len_incl_ok i l k :
  for_len_incl i l = Ok k <-> (i = Next /\ k = l) \/ (exists n, i = Num n /\ n <= l /\ k = n).
Proof.
  destruct i as [n|]; cbn [for_len_incl].
  - destruct (n <=? l) eqn:Hle; split.
    + intros H. injection H as <-. apply N.leb_le in Hle. right. exists n. auto.
    + intros [(Hn & _)|(m & Hm & _ & ->)]; [discriminate Hn|]. injection Hm as ->. reflexivity.
    + discriminate.
    + intros [(Hn & _)|(m & Hm & Hml & _)]; [discriminate Hn|].
      injection Hm as ->. apply N.leb_gt in Hle. lia.
  - split.
    + intros H. injection H as <-. auto.
    + intros [(_ & ->)|(m & Hm & _)]; [reflexivity|discriminate Hm].
Qed.

Theorem for_len_incl_err i l a b :
  for_len_incl i l = Err (a, b) -> a = l /\ exists n, i = Num n /\ b = n /\ l < n.
Proof.
  destruct i as [n|]; cbn [for_len_incl].
  - destruct (n <=? l) eqn:Hle; [discriminate|]. intros H. injection H as <- <-.
    apply N.leb_gt in Hle. split; [reflexivity|]. exists n. auto.
  - discriminate.
Qed.

Theorem for_len_incl_err_iff i l a b :
  for_len_incl i l = Err (a, b) <-> a = l /\ exists n, i = Num n /\ b = n /\ l < n.
Proof.
  split; [apply for_len_incl_err|].
  intros (-> & n & -> & -> & Hlt). cbn [for_len_incl].
  apply N.leb_gt in Hlt. rewrite Hlt. reflexivity.
Qed.

Theorem for_len_unchecked_next l : for_len_unchecked Next l = l.
Proof. reflexivity. Qed.

Theorem for_len_unchecked_num n l : for_len_unchecked (Num n) l = n.
Proof. reflexivity. Qed.
