(* Proofs/NodeLaws.v -- C05: for every node of every (well-formed) document the pointer spelled
   from its selector path resolves to that very node. *)
From Coq Require Import Arith.
From JP Require Import Bytes Dec Spec Value SpecTree Model.Token Model.Pointer Model.Index Model.Tree
  Proofs.BytesFacts Proofs.TokenProofs Proofs.SplitProofs Proofs.IndexProofs Proofs.ValueFacts
  Proofs.TreeRefine Proofs.TreeLaws.

Arguments N.add : simpl never.
Arguments N.eqb : simpl never.
Arguments N.ltb : simpl never.
Arguments N.leb : simpl never.
Arguments N.sub : simpl never.

(* ---- the spelled pointer is valid ------------------------------------------------------------------------- *)

Lemma digits_valid_tok s : forallb is_digit s = true -> valid_tok s = true.
Proof.
  intros H. unfold valid_tok. apply andb_true_iff.
  assert (Hb : forall b, In b s -> b <> SLASH /\ b <> TILDE).
  { intros b Hin. rewrite forallb_forall in H. specialize (H b Hin). unfold is_digit in H.
    apply andb_true_iff in H as [H1 H2]. apply N.leb_le in H1, H2. unfold SLASH, TILDE. lia. }
  clear H. induction s as [|b r IH]; [split; reflexivity|].
  destruct (Hb b (or_introl eq_refl)) as [Hs Ht].
  destruct IH as [IH1 IH2]; [intros c Hc; apply Hb; right; exact Hc|].
  apply N.eqb_neq in Hs, Ht. split.
  - rewrite no_slash_cons, Hs. exact IH1.
  - cbn [escapes_ok]. rewrite Ht. exact IH2.
Qed.

Lemma sel_token_valid s : valid_tok (sel_token s) = true.
Proof. destruct s as [n|k]; cbn [sel_token]; [apply digits_valid_tok, dec_of_N_digits|apply valid_tok_encode]. Qed.

Lemma path_tokens_valid path : forallb valid_tok (map sel_token path) = true.
Proof. induction path as [|s p IH]; [reflexivity|]. cbn [map forallb]. rewrite sel_token_valid. exact IH. Qed.

Theorem ptr_of_path_valid path : valid_ptr (ptr_of_path path) = true.
Proof. apply valid_ptr_from_tokens_enc, path_tokens_valid. Qed.

Lemma tokens_ptr_of_path path : tokens (ptr_of_path path) = map sel_token path.
Proof.
  apply tokens_from_tokens_enc. apply Forall_forall. intros t Hin.
  pose proof (path_tokens_valid path) as H. rewrite forallb_forall in H.
  apply valid_tok_no_slash, H, Hin.
Qed.

(* ---- the walk along the spelled tokens finds the node ---------------------------------------------------------- *)

Theorem spec_resolve_every_node path : forall d v pos off,
  wf_value d -> get_at path d = Some v ->
  spec_resolve (map sel_token path) d pos off = Ok (path, v).
Proof.
  induction path as [|s p IH]; intros d v pos off Hwf H; cbn [get_at] in H.
  - inversion H; subst. reflexivity.
  - destruct s as [n|k]; cbn [map sel_token].
    + destruct d as [| | | | |l|m]; try discriminate.
      destruct (nth_error l n) as [c|] eqn:Hc; [|discriminate].
      assert (Hn : (n < length l)%nat) by (apply nth_error_Some; congruence).
      pose proof (wf_Arr_inv _ Hwf) as [Hlen _].
      assert (Hi : index_from_str (dec_of_N (N.of_nat n)) = Ok (Num (N.of_nat n))).
      { apply index_from_str_num. split; [unfold len in Hlen; lia|reflexivity]. }
      cbn [spec_resolve]. rewrite Hi.
      assert (Hlt : (N.of_nat n <? len l) = true) by (apply N.ltb_lt; unfold len; lia).
      rewrite Hlt, Nat2N.id, Hc.
      rewrite (IH c v _ _ (wf_nth _ _ _ Hwf Hc) H). reflexivity.
    + destruct d as [| | | | |l|m]; try discriminate.
      destruct (obj_lookup k m) as [c|] eqn:Hc; [|discriminate].
      cbn [spec_resolve]. rewrite unescape_encode, Hc.
      rewrite (IH c v _ _ (wf_lookup _ _ _ Hwf Hc) H). reflexivity.
Qed.

Theorem resolve_every_node path d v :
  wf_value d -> get_at path d = Some v -> resolve (ptr_of_path path) d = Ret (Ok (path, v)).
Proof.
  intros Hwf H. unfold ptr_of_path. rewrite (resolve_tokens _ d (path_tokens_valid path)).
  rewrite (spec_resolve_every_node path d v 0 0 Hwf H). reflexivity.
Qed.

(* ---- every enumerated path is a real path ------------------------------------------------------------------------- *)

Definition arr_paths :=
  fix go (l : list value) (i : nat) : list (list sel) :=
    match l with
    | [] => []
    | c :: r => map (cons (Idx i)) (all_paths c) ++ go r (S i)
    end.

Definition obj_paths :=
  fix go (m : list (str * value)) : list (list sel) :=
    match m with
    | [] => []
    | (k, c) :: r => map (cons (Key k)) (all_paths c) ++ go r
    end.

Lemma all_paths_Arr l : all_paths (Arr l) = [] :: arr_paths l 0.
Proof. reflexivity. Qed.

Lemma all_paths_Obj m : all_paths (Obj m) = [] :: obj_paths m.
Proof. reflexivity. Qed.

Lemma in_arr_paths l : forall i s p,
  In (s :: p) (arr_paths l i) ->
  exists j c, s = Idx (i + j) /\ nth_error l j = Some c /\ In p (all_paths c).
Proof.
  induction l as [|c r IH]; intros i s p H; cbn [arr_paths] in H; [destruct H|].
  apply in_app_or in H as [H|H].
  - apply in_map_iff in H as (p' & E & Hin). inversion E; subst.
    exists O, c. rewrite Nat.add_0_r. auto.
  - destruct (IH _ _ _ H) as (j & c' & -> & Hn & Hin). exists (S j), c'.
    split; [f_equal; lia|]. auto.
Qed.

Lemma in_obj_paths m : forall s p,
  In (s :: p) (obj_paths m) -> exists k c, s = Key k /\ In (k, c) m /\ In p (all_paths c).
Proof.
  induction m as [|[k c] r IH]; intros s p H; cbn [obj_paths] in H; [destruct H|].
  apply in_app_or in H as [H|H].
  - apply in_map_iff in H as (p' & E & Hin). inversion E; subst. exists k, c. split; [reflexivity|].
    split; [left; reflexivity|exact Hin].
  - destruct (IH _ _ H) as (k' & c' & -> & Hn & Hin). exists k', c'. split; [reflexivity|].
    split; [right; exact Hn|exact Hin].
Qed.

Lemma all_paths_scalar d : is_container d = false -> all_paths d = [[]].
Proof. destruct d; try discriminate; reflexivity. Qed.

Theorem all_paths_real path : forall d,
  wf_value d -> In path (all_paths d) -> exists v, get_at path d = Some v.
Proof.
  induction path as [|s p IH]; intros d Hwf Hin; [exists d; reflexivity|].
  destruct d as [| | | | |l|m];
    try (rewrite all_paths_scalar in Hin by reflexivity; destruct Hin as [E|[]]; discriminate).
  - rewrite all_paths_Arr in Hin. destruct Hin as [E|Hin]; [discriminate|].
    destruct (in_arr_paths _ _ _ _ Hin) as (j & c & -> & Hn & Hp). cbn [Nat.add get_at]. rewrite Hn.
    exact (IH c (wf_nth _ _ _ Hwf Hn) Hp).
  - rewrite all_paths_Obj in Hin. destruct Hin as [E|Hin]; [discriminate|].
    destruct (in_obj_paths _ _ _ Hin) as (k & c & -> & Hn & Hp). cbn [get_at].
    pose proof (wf_Obj_inv _ Hwf) as [Hs _].
    pose proof (obj_lookup_sorted_In _ _ _ Hs Hn) as Hl. rewrite Hl.
    exact (IH c (wf_lookup _ _ _ Hwf Hl) Hp).
Qed.

Lemma path_eqb_refl p : path_eqb p p = true.
Proof.
  induction p as [|s p IH]; [reflexivity|]. cbn [path_eqb]. rewrite IH, andb_true_r.
  destruct s; cbn [sel_eqb]; [apply Nat.eqb_refl|apply str_eqb_refl].
Qed.

(* for every node of every document: the pointer built from its path resolves to that node *)
Theorem every_node_addressable d path :
  wf_value d -> In path (all_paths d) ->
  exists v, get_at path d = Some v /\ resolve (ptr_of_path path) d = Ret (Ok (path, v)) /\
            node_addressable d path = true.
Proof.
  intros Hwf Hin. destruct (all_paths_real path d Hwf Hin) as [v Hv]. exists v.
  pose proof (resolve_every_node path d v Hwf Hv) as Hr.
  split; [exact Hv|]. split; [exact Hr|]. unfold node_addressable. rewrite Hr. apply path_eqb_refl.
Qed.
