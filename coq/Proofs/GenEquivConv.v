(* Proofs/GenEquivConv.v -- part of the REGENERATED-MODEL tie (DESIGN 13.11): the conversions between the pointer types and
   text, re-translated from src/pointer.rs / src/token.rs on every run (Generated/ScanConv.v), hand the text on UNCHANGED, and
   the fallible ones accept exactly what the parser accepts (and report its error).  Not translated (serde Serialize /
   Deserialize impls over generic (de)serializers, Display / fmt, the Box<Pointer> raw-pointer casts, the integer -> Token
   macro): hand model + differential tie, Properties/C18.v. *)

From JP Require Import Bytes Value GenPrelude Model.Token Model.Pointer Generated.ScanTypes Generated.ScanPointer Generated.ScanToken
  Generated.ScanPtrOps Generated.ScanBuf Generated.ScanPtrBuild Generated.ScanConv
  Proofs.GenEquivBase Proofs.GenEquivPointer Proofs.GenEquivToken Proofs.GenEquivPtrBuild.

(* ---- the views and owned copies: the identity on the text --------------------------------------------------------------- *)
Theorem gen_conv_identities (p : str) :
  gen_Pointer_as_str p = Ret p /\ gen_Pointer_to_owned p = Ret p /\ gen_Pointer_as_ref_str p = Ret p /\
  gen_Pointer_borrow_str p = Ret p /\ gen_Pointer_as_ref_bytes p = Ret p /\ gen_Pointer_as_ref_Pointer p = Ret p /\
  gen_PointerBuf_as_ref_Pointer p = Ret p /\ gen_PointerBuf_as_ptr p = Ret p /\ gen_PointerBuf_borrow_Pointer p = Ret p /\
  gen_PointerBuf_deref p = Ret p /\ gen_Pointer_to_json_value p = Ret (VStr p).
Proof. repeat split. Qed.

Theorem gen_buf_new_root : gen_PointerBuf_new = Ret [] /\ gen_PointerBuf_root = Ret [].
Proof. split; reflexivity. Qed.

(* ---- the fallible constructors: all five are the parser, and on success the text is the input ------------------------------ *)
Lemma validate_cases (s : str) :
  (gen_validate s = Ret (Ok s) /\ valid_ptr s = true) \/ (exists e, gen_validate s = Ret (Err e) /\ valid_ptr s = false).
Proof.
  destruct (gen_validate_total s) as [[t|e] H].
  - destruct (gen_validate_ok_is_input s t H) as [-> Hv]. left. split; assumption.
  - right. exists e. split; [exact H|].
    destruct (valid_ptr s) eqn:E; [|reflexivity].
    apply gen_validate_accepts_iff in E. rewrite E in H. discriminate.
Qed.

Theorem gen_parsers_are_validate (s : str) :
  gen_Pointer_parse s = gen_validate s /\ gen_PointerBuf_try_from_String s = gen_validate s /\
  gen_PointerBuf_try_from_str s = gen_validate s /\ gen_PointerBuf_from_str s = gen_validate s.
Proof.
  unfold gen_PointerBuf_from_str, gen_PointerBuf_try_from_str, gen_PointerBuf_try_from_String, gen_Pointer_parse.
  destruct (validate_cases s) as [[H _]|(e & H & _)]; rewrite H; cbn; repeat split; reflexivity.
Qed.

Theorem gen_parsers_accept_iff (s : str) :
  (gen_Pointer_parse s = Ret (Ok s) <-> valid_ptr s = true) /\
  (gen_PointerBuf_try_from_String s = Ret (Ok s) <-> valid_ptr s = true) /\
  (gen_PointerBuf_try_from_str s = Ret (Ok s) <-> valid_ptr s = true) /\
  (gen_PointerBuf_from_str s = Ret (Ok s) <-> valid_ptr s = true) /\
  (forall t, gen_Pointer_parse s = Ret (Ok t) \/ gen_PointerBuf_try_from_String s = Ret (Ok t) \/
             gen_PointerBuf_try_from_str s = Ret (Ok t) \/ gen_PointerBuf_from_str s = Ret (Ok t) -> t = s).
Proof.
  destruct (gen_parsers_are_validate s) as (A & B & C & D). rewrite A, B, C, D.
  repeat split; try apply gen_validate_accepts_iff.
  intros t [H|[H|[H|H]]]; exact (proj1 (gen_validate_ok_is_input s t H)).
Qed.

(* ---- Token::from(&str / &String / String / &Token): Token::new on the text (escaping it), the reference form borrows ---------- *)
Theorem gen_token_froms (s : str) :
  gen_Token_from_str s = gen_Token_new (Cow_Borrowed s) /\ gen_Token_from_ref_String s = gen_Token_new (Cow_Borrowed s) /\
  gen_Token_from_String s = gen_Token_new (Cow_Owned s) /\ (forall t, gen_Token_from_ref_Token t = Ret t).
Proof.
  unfold gen_Token_from_str, gen_Token_from_ref_String, gen_Token_from_String.
  repeat split; try (match goal with |- context [gen_Token_new ?c] => destruct (gen_Token_new c) end; reflexivity).
Qed.

Theorem gen_token_from_encodes (s : str) :
  exists a b c, gen_Token_from_str s = Ret a /\ gen_Token_from_ref_String s = Ret b /\ gen_Token_from_String s = Ret c /\
    cow_text (Token_inner a) = encode s /\ cow_text (Token_inner b) = encode s /\ cow_text (Token_inner c) = encode s.
Proof.
  destruct (gen_token_froms s) as (A & B & C & _). rewrite A, B, C.
  destruct (gen_new_encodes (Cow_Borrowed s)) as (t1 & H1 & E1). destruct (gen_new_encodes (Cow_Owned s)) as (t2 & H2 & E2).
  exists t1, t1, t2. cbn [cow_text] in E1, E2. repeat split; assumption.
Qed.

(* ---- Display: what `to_string()` / `{}` print ----------------------------------------------------------------------------
   `fn fmt(&self, f)` is translated to the text it writes.  A pointer prints its (encoded) text unchanged; a token prints its
   DECODED text; an index prints the decimal spelling of the number, or "-". *)
Theorem gen_display_pointer (p : str) : gen_Pointer_display p = Ret p /\ gen_PointerBuf_display p = Ret p.
Proof. split; reflexivity. Qed.

Theorem gen_display_token (t : Token) :
  gen_Token_display t = Ret (decoded (cow_text (Token_inner t))).
Proof.
  unfold gen_Token_display. rewrite gen_decoded_eq. cbn [Token_inner]. unfold decoded.
  destruct (decoded_cow (cow_text (Token_inner t))) as [al tx]. cbn [snd]. destruct al; reflexivity.
Qed.

(* ---- PointerBuf::parse: the parser, and on failure a report that keeps the error AND the original string ------------------ *)
Theorem gen_bufparse_eq (s : str) :
  gen_PointerBuf_parse s =
  match gen_validate s with
  | Ret (Ok _) => Ret (Ok s)
  | Ret (Err e) => Ret (Err (mk_RichParseError e s))
  | Panic => Panic
  | OutOfFuel => OutOfFuel
  end.
Proof. unfold gen_PointerBuf_parse. destruct (gen_validate s) as [[t|e]| |]; reflexivity. Qed.

Theorem gen_bufparse_report (s : str) :
  (valid_ptr s = true -> gen_PointerBuf_parse s = Ret (Ok s)) /\
  (valid_ptr s = false -> exists e, gen_validate s = Ret (Err e) /\ gen_PointerBuf_parse s = Ret (Err (mk_RichParseError e s))).
Proof.
  rewrite gen_bufparse_eq. destruct (validate_cases s) as [[H Hv]|(e & H & Hv)]; rewrite H, Hv; split; intros A; try discriminate.
  - reflexivity.
  - exists e. split; reflexivity.
Qed.
