(* Proofs/GenEquivIndexStr.v -- part of the REGENERATED-MODEL tie (DESIGN 13): `impl FromStr for Index` as
   re-translated from src/index.rs (Generated/ScanIndex.v) equals the hand-written [index_from_str] of Model/Index.v
   on every well-formed UTF-8 text.  The Rust code locates the first non-digit with `s.chars().position(..)`, a CHAR
   index; the generated definition therefore goes through [str_chars] (the code points), and the lemma below shows
   that on well-formed text this is the BYTE index the model uses -- everything before it is an ASCII digit. *)

From JP Require Import Proofs.GenEquivBase GenTreePrelude Generated.ScanIndex Utf8 Proofs.Utf8Proofs.

Arguments N.add : simpl never.
Arguments N.sub : simpl never.
Arguments N.mul : simpl never.
Arguments N.eqb : simpl never.
Arguments N.ltb : simpl never.
Arguments N.leb : simpl never.
Arguments N.of_nat : simpl never.

Definition nondigit (c : N) : bool := negb (is_digit c).

Lemma nondigit_ge_128 c : 128 <= c -> nondigit c = true.
Proof.
  intros H. unfold nondigit, is_digit.
  destruct (N.leb_spec c 57) as [H57|H57]; [lia|]. rewrite Bool.andb_false_r. reflexivity.
Qed.

Lemma position_head_true (f : N -> bool) b r : f b = true -> position f (b :: r) = Some O.
Proof. intros H. cbn [position]. rewrite H. reflexivity. Qed.

(* on well-formed text the first non-digit CHAR and the first non-digit BYTE are at the same index *)
Lemma chars_position_nondigit_table s : utf8_table s ->
  position nondigit (str_chars s) = position nondigit s.
Proof.
  induction 1 as [| b r Hb Hr IH
                  | b0 b1 r H0 H1 Hr IH
                  | b1 b2 r H1 H2 Hr IH | b0 b1 b2 r H0 H1 H2 Hr IH | b1 b2 r H1 H2 Hr IH | b0 b1 b2 r H0 H1 H2 Hr IH
                  | b1 b2 b3 r H1 H2 H3 Hr IH | b0 b1 b2 b3 r H0 H1 H2 H3 Hr IH | b1 b2 b3 r H1 H2 H3 Hr IH].
  - reflexivity.
  - cbn [str_chars]. destruct (N.ltb_spec b 128) as [_|H]; [|lia].
    cbn [position]. rewrite IH. reflexivity.
  - cbn [str_chars].
    destruct (N.ltb_spec b0 128) as [H|_]; [lia|]. destruct (N.ltb_spec b0 224) as [_|H]; [|lia].
    rewrite !position_head_true; [reflexivity| |]; apply nondigit_ge_128; lia.
  - cbn [str_chars].
    destruct (N.ltb_spec 224 128) as [H|_]; [lia|]. destruct (N.ltb_spec 224 224) as [H|_]; [lia|].
    destruct (N.ltb_spec 224 240) as [_|H]; [|lia].
    rewrite !position_head_true; [reflexivity| |]; apply nondigit_ge_128; lia.
  - cbn [str_chars].
    destruct (N.ltb_spec b0 128) as [H|_]; [lia|]. destruct (N.ltb_spec b0 224) as [H|_]; [lia|].
    destruct (N.ltb_spec b0 240) as [_|H]; [|lia].
    rewrite !position_head_true; [reflexivity| |]; apply nondigit_ge_128; lia.
  - cbn [str_chars].
    destruct (N.ltb_spec 237 128) as [H|_]; [lia|]. destruct (N.ltb_spec 237 224) as [H|_]; [lia|].
    destruct (N.ltb_spec 237 240) as [_|H]; [|lia].
    rewrite !position_head_true; [reflexivity| |]; apply nondigit_ge_128; lia.
  - cbn [str_chars].
    destruct (N.ltb_spec b0 128) as [H|_]; [lia|]. destruct (N.ltb_spec b0 224) as [H|_]; [lia|].
    destruct (N.ltb_spec b0 240) as [_|H]; [|lia].
    rewrite !position_head_true; [reflexivity| |]; apply nondigit_ge_128; lia.
  - cbn [str_chars].
    destruct (N.ltb_spec 240 128) as [H|_]; [lia|]. destruct (N.ltb_spec 240 224) as [H|_]; [lia|].
    destruct (N.ltb_spec 240 240) as [H|_]; [lia|].
    rewrite !position_head_true; [reflexivity| |]; apply nondigit_ge_128; lia.
  - cbn [str_chars].
    destruct (N.ltb_spec b0 128) as [H|_]; [lia|]. destruct (N.ltb_spec b0 224) as [H|_]; [lia|].
    destruct (N.ltb_spec b0 240) as [H|_]; [lia|].
    rewrite !position_head_true; [reflexivity| |]; apply nondigit_ge_128; lia.
  - cbn [str_chars].
    destruct (N.ltb_spec 244 128) as [H|_]; [lia|]. destruct (N.ltb_spec 244 224) as [H|_]; [lia|].
    destruct (N.ltb_spec 244 240) as [H|_]; [lia|].
    rewrite !position_head_true; [reflexivity| |]; apply nondigit_ge_128; lia.
Qed.

Lemma chars_position_nondigit s : utf8_valid s = true ->
  chars_positionN (fun c => negb (is_digit c)) s = positionN (fun c => negb (is_digit c)) s.
Proof.
  intros H. apply utf8_valid_iff_table in H. unfold chars_positionN, positionN.
  f_equal. exact (chars_position_nondigit_table s H).
Qed.

Lemma gen_pie_from_eq e : gen_ParseIndexError_from e = Ret (ParseIndexError_InvalidInteger e).
Proof. reflexivity. Qed.

(* std's `str::parse::<usize>` ([prim_parse_usize], faithful on arbitrary text: sign, InvalidDigit, incremental overflow) is
   the model's [parse_usize] on strings of ASCII digits -- the only strings Index::from_str hands it *)
Lemma dec_acc_ge : forall s acc n, dec_acc acc s = Some n -> acc <= n.
Proof.
  induction s as [|c r IH]; intros acc n H; cbn [dec_acc] in H.
  - inversion H. lia.
  - destruct (is_digit c); [|discriminate]. apply IH in H. lia.
Qed.

Lemma position_nondigit_none_cons c r :
  position (fun c => negb (is_digit c)) (c :: r) = None ->
  is_digit c = true /\ position (fun c => negb (is_digit c)) r = None.
Proof.
  cbn [position]. destruct (is_digit c); cbn [negb]; [|discriminate].
  destruct (position (fun c0 => negb (is_digit c0)) r); [discriminate|]. auto.
Qed.

Lemma parse_digits_all : forall s acc, position (fun c => negb (is_digit c)) s = None -> acc <= USIZE_MAX ->
  parse_digits acc s =
  match dec_acc acc s with
  | Some n => if n <=? USIZE_MAX then Ok n else Err ParseIntError_PosOverflow
  | None => Err ParseIntError_InvalidDigit
  end.
Proof.
  induction s as [|c r IH]; intros acc Hp Ha; cbn [parse_digits dec_acc].
  - destruct (N.leb_spec acc USIZE_MAX); [reflexivity|lia].
  - apply position_nondigit_none_cons in Hp as [Hd Hr]. rewrite Hd.
    destruct (N.ltb_spec USIZE_MAX (10 * acc + (c - 48))) as [Hov|Hok].
    + destruct (dec_acc (10 * acc + (c - 48)) r) as [n|] eqn:E.
      * apply dec_acc_ge in E. destruct (N.leb_spec n USIZE_MAX); [lia|reflexivity].
      * exfalso. clear -Hr E. revert E. generalize (10 * acc + (c - 48)).
        induction r as [|d r IHr]; intros a E; cbn [dec_acc] in E; [discriminate|].
        apply position_nondigit_none_cons in Hr as [Hd Hr']. rewrite Hd in E. exact (IHr Hr' _ E).
    + apply IH; [exact Hr|exact Hok].
Qed.

Lemma prim_parse_usize_digits s : position (fun c => negb (is_digit c)) s = None ->
  prim_parse_usize s =
  match parse_usize s with
  | Ok n => Ok n
  | Err IntEmpty => Err ParseIntError_Empty
  | Err IntPosOverflow => Err ParseIntError_PosOverflow
  end.
Proof.
  intros Hp. destruct s as [|c r]; [reflexivity|].
  unfold prim_parse_usize, parse_usize.
  pose proof (position_nondigit_none_cons c r Hp) as [Hd _].
  assert (Hc : (c =? 43) = false).
  { unfold is_digit in Hd. apply andb_prop in Hd as [H1 _]. apply N.leb_le in H1. apply N.eqb_neq. lia. }
  rewrite Hc. rewrite (parse_digits_all (c :: r) 0 Hp) by (unfold USIZE_MAX; lia).
  destruct (dec_acc 0 (c :: r)) as [n|] eqn:E.
  - destruct (n <=? USIZE_MAX); reflexivity.
  - exfalso. clear -Hp E. revert E. generalize 0.
    induction (c :: r) as [|d l IHl]; intros a E; cbn [dec_acc] in E; [discriminate|].
    apply position_nondigit_none_cons in Hp as [Hd Hr']. rewrite Hd in E. exact (IHl Hr' _ E).
Qed.

(* Index::from_str, as it stands in the source, is the model's index_from_str on every Rust `str` *)
Theorem gen_index_from_str_eq : forall s : str, utf8_valid s = true ->
  gen_Index_from_str s =
  Ret (match index_from_str s with
       | Ok i => Ok (gen_index_of i)
       | Err e => Err (gen_pie_of s e)
       end).
Proof.
  intros s Hs. unfold gen_Index_from_str, index_from_str.
  change DASH with 45. change ZERO with 48.
  destruct (str_eqb s [45]); [reflexivity|].
  destruct (starts_with s [48] && negb (str_eqb s [48])); [reflexivity|].
  rewrite (chars_position_nondigit s Hs). unfold positionN.
  destruct (position (fun c => negb (is_digit c)) s) as [off|] eqn:Hpos; cbn [option_map]; [reflexivity|].
  rewrite (prim_parse_usize_digits s) by exact Hpos. destruct (parse_usize s) as [n|[|]]; reflexivity.
Qed.

(* hence the primitive used by the generated tree walks for `Token::to_index` IS the regenerated parser *)
Corollary prim_to_index_is_generated : forall t : Token, utf8_valid (cow_text (Token_inner t)) = true ->
  gen_Index_from_str (cow_text (Token_inner t)) = Ret (prim_to_index t).
Proof. intros t H. rewrite (gen_index_from_str_eq _ H). reflexivity. Qed.

Corollary gen_index_from_str_total : forall s, utf8_valid s = true -> exists r, gen_Index_from_str s = Ret r.
Proof. intros s H. rewrite (gen_index_from_str_eq s H). eauto. Qed.

(* ==== the property, stated of the regenerated parser itself ===================================== *)

From JP Require Import Proofs.IndexProofs.

(* the source's parser accepts exactly "-" and the canonical decimal spellings of the usize values *)
Theorem gen_from_str_accept_exact : forall s : str, utf8_valid s = true ->
  (gen_Index_from_str s = Ret (Ok Index_Next) <-> s = [DASH]) /\
  (forall n, gen_Index_from_str s = Ret (Ok (Index_Num n)) <-> n <= USIZE_MAX /\ s = dec_of_N n).
Proof.
  intros s Hs. rewrite (gen_index_from_str_eq s Hs). split.
  - rewrite <- index_from_str_next. destruct (index_from_str s) as [[m|]|e]; cbn [gen_index_of];
      split; intros H; try reflexivity; try discriminate; try (injection H as H; discriminate).
  - intros n. rewrite <- index_from_str_num. destruct (index_from_str s) as [[m|]|e]; cbn [gen_index_of];
      split; intros H; try discriminate.
    + injection H as ->. reflexivity.
    + injection H as ->. reflexivity.
Qed.

(* its rejections are truthful: which error, and for InvalidCharacter the offset (a CHAR index in the source, equal
   to the BYTE index because everything before it is an ASCII digit) and the source text *)
Theorem gen_from_str_rejections : forall (s : str) (e : ParseIndexError), utf8_valid s = true ->
  gen_Index_from_str s = Ret (Err e) ->
  exists me, index_from_str s = Err me /\ e = gen_pie_of s me.
Proof.
  intros s e Hs. rewrite (gen_index_from_str_eq s Hs).
  destruct (index_from_str s) as [i|me]; [discriminate|]. intros [= <-]. eauto.
Qed.

(* ==== Token::to_index itself =============================================================================================
   `Token::to_index` is `self.try_into()`, i.e. `<Index as TryFrom<&Token>>::try_from`, i.e. `Index::from_str(token.encoded())`.
   All three are re-translated; the generated tree walks use the primitive [prim_to_index] for `token.to_index()`: here the two are
   shown to be the same function (on Rust strings), so the primitive is no longer a separate assumption. *)
From JP Require Import Generated.ScanToken Proofs.GenEquivToken.

Theorem gen_Token_to_index_is_prim : forall t : Token, utf8_valid (cow_text (Token_inner t)) = true ->
  gen_Token_to_index t = Ret (prim_to_index t) /\ gen_Index_try_from_ref_Token t = Ret (prim_to_index t).
Proof.
  intros t H. unfold gen_Token_to_index, gen_Index_try_from_ref_Token.
  rewrite gen_encoded_eq. rewrite (prim_to_index_is_generated t H). split; reflexivity.
Qed.

Theorem gen_Token_is_next_eq : forall t : Token,
  gen_Token_is_next t = Ret (match prim_to_index t with Ok Index_Next => true | _ => false end).
Proof. intros t. unfold gen_Token_is_next. destruct (prim_to_index t) as [[n|]|e]; reflexivity. Qed.

(* ==== InvalidCharacterError: what the error of Index::from_str carries and what its accessors return =======================
   No well-formedness hypothesis: read off the regenerated parser.  The error keeps the input, its offset is the CHARACTER index of
   the first non-digit character, and char() - `source.chars().nth(offset).expect(..)` - never panics on it and returns that very
   character, which is not an ASCII digit. *)
Theorem gen_invalid_character_error_accessors : forall (s : str) (e : InvalidCharacterError),
  gen_Index_from_str s = Ret (Err (ParseIndexError_InvalidCharacter e)) ->
  gen_InvalidCharacterError_source e = Ret s /\
  chars_positionN (fun c => negb (is_digit c)) s = Some (InvalidCharacterError_offset e) /\
  gen_InvalidCharacterError_offset e = Ret (InvalidCharacterError_offset e) /\
  exists c, gen_InvalidCharacterError_char e = Ret c /\
            nth_N (str_chars s) (InvalidCharacterError_offset e) = Some c /\ is_digit c = false.
Proof.
  intros s e H. unfold gen_Index_from_str in H.
  destruct (str_eqb s [45]); [discriminate|].
  destruct (starts_with s [48] && negb (str_eqb s [48])); [discriminate|].
  destruct (chars_positionN (fun c => negb (is_digit c)) s) as [off|] eqn:P.
  - inversion H; subst e. cbn [InvalidCharacterError_source InvalidCharacterError_offset].
    split; [reflexivity|]. split; [reflexivity|]. split; [reflexivity|].
    unfold gen_InvalidCharacterError_char. cbn [InvalidCharacterError_source InvalidCharacterError_offset].
    unfold chars_positionN, positionN in P.
    destruct (position (fun c => negb (is_digit c)) (str_chars s)) as [i|] eqn:Q; cbn [option_map] in P; [|discriminate].
    inversion P; subst off.
    destruct (position_some _ _ _ Q) as (a & b & r & Hs & Hl & Hb & _).
    rewrite Hs. replace (N.of_nat i) with (len a) by (unfold len; rewrite Hl; reflexivity).
    rewrite nth_N_app_len. exists b. repeat split. apply Bool.negb_true_iff, Hb.
  - exfalso. destruct (prim_parse_usize s) as [n|pe]; cbn [gen_ParseIndexError_from] in H.
    + discriminate.
    + unfold gen_ParseIndexError_from in H. discriminate.
Qed.
