(* Proofs/ClosureProofs.v -- C01: every value the safe API yields holds valid RFC 6901 text. *)
From Coq Require Import ZArith.
From JP Require Import Bytes Dec Spec SpecBuf Model.Token Model.Pointer Model.Slice Model.Index Model.Conv
  Proofs.BytesFacts Proofs.TokenProofs Proofs.SplitProofs Proofs.ValidateProofs Proofs.TokensProofs
  Proofs.IndexProofs Proofs.ConvProofs Proofs.BufProofs Proofs.PrefixProofs Proofs.SliceProofs.

Arguments N.add : simpl never.
Arguments N.eqb : simpl never.
Arguments N.sub : simpl never.

Lemma nth_N_In {A} (l : list A) i x : nth_N l i = Some x -> In x l.
Proof.
  revert i; induction l as [|y l IH]; intros i; cbn [nth_N]; [discriminate|].
  destruct (i =? 0); [intros H; inversion H; left; reflexivity|]. intros H. right. eapply IH, H.
Qed.

Lemma forallb_In {A} (f : A -> bool) l x : forallb f l = true -> In x l -> f x = true.
Proof. intros H. rewrite forallb_forall in H. apply H. Qed.

Lemma forallb_rev {A} (f : A -> bool) l : forallb f (rev l) = forallb f l.
Proof.
  induction l as [|x l IH]; [reflexivity|]. cbn [rev forallb]. rewrite forallb_app, IH. cbn. rewrite andb_true_r. apply andb_comm.
Qed.

(* ---- accessors / splitters / slicers on one valid pointer --------------------------------------- *)

Definition accessors_closed (p : str) : Prop :=
  forallb valid_tok (ptokens p) = true /\
  (forall t, front p = Some t -> valid_tok t = true) /\
  (forall t, back p = Some t -> valid_tok t = true) /\
  (forall i t, get_tok p i = Some t -> valid_tok t = true) /\
  (forall c, In c (components p) -> match c with CRoot => True | CToken t => valid_tok t = true end) /\
  (forall t r, split_front p = Some (t, r) -> valid_tok t = true /\ valid_ptr r = true) /\
  (forall f t, split_back p = Some (f, t) -> valid_ptr f = true /\ valid_tok t = true) /\
  (forall f, parent p = Some f -> valid_ptr f = true) /\
  (forall k h t, split_at p k = Some (h, t) -> valid_ptr h = true /\ valid_ptr t = true) /\
  (forall lo hi x y, get_bounds p lo hi = Ret (Some (x, y)) ->
     x <= y /\ y <= len p /\ valid_ptr (bytes_at p x y) = true).

Theorem accessors_are_closed p : valid_ptr p = true -> accessors_closed p.
Proof.
  intros Hp. destruct (valid_ptr_decompose p Hp) as [Ep Vp].
  destruct (accessors_agree p Hp) as (_ & _ & Hfront & Hback & Hget & Hcomp & Hsf & Hsb & Hpar).
  cbv zeta in *. remember (tokens p) as ts eqn:Ets.
  assert (Hrev : forall t r, rev ts = t :: r -> valid_tok t = true /\ forallb valid_tok (rev r) = true).
  { intros t r E. assert (Hv : forallb valid_tok (rev ts) = true) by (rewrite forallb_rev; exact Vp).
    rewrite E in Hv. cbn [forallb] in Hv. apply andb_true_iff in Hv as [H1 H2]. rewrite forallb_rev. auto. }
  unfold accessors_closed. repeat split.
  - rewrite ptokens_tokens, <- Ets. exact Vp.
  - intros t H. rewrite Hfront in H. destruct ts as [|u r]; [discriminate|]. inversion H; subst.
    cbn [forallb] in Vp. apply andb_true_iff in Vp. tauto.
  - intros t H. rewrite Hback in H. destruct (rev ts) as [|u r] eqn:E; [discriminate|]. inversion H; subst.
    apply (Hrev _ _ eq_refl).
  - intros i t H. rewrite Hget in H. eapply forallb_In; [exact Vp|eapply nth_N_In, H].
  - intros c H. rewrite Hcomp in H. destruct H as [<-|H]; [exact I|].
    apply in_map_iff in H as (t & <- & Ht). eapply forallb_In; eassumption.
  - rewrite Hsf in H. destruct ts as [|u r']; [discriminate|]. inversion H; subst.
    cbn [forallb] in Vp. apply andb_true_iff in Vp. tauto.
  - rewrite Hsf in H. destruct ts as [|u r']; [discriminate|]. inversion H; subst.
    cbn [forallb] in Vp. apply andb_true_iff in Vp as [_ Vr]. apply valid_ptr_from_tokens_enc, Vr.
  - rewrite Hsb in H. destruct (rev ts) as [|u r] eqn:E; [discriminate|]. inversion H; subst.
    apply valid_ptr_from_tokens_enc. apply (Hrev _ _ eq_refl).
  - rewrite Hsb in H. destruct (rev ts) as [|u r] eqn:E; [discriminate|]. inversion H; subst. apply (Hrev _ _ eq_refl).
  - intros f H. rewrite Hpar in H. destruct (rev ts) as [|u r] eqn:E; [discriminate|]. inversion H; subst.
    apply valid_ptr_from_tokens_enc. apply (Hrev _ _ eq_refl).
  - rewrite Ep in H. apply (split_at_valid ts k h t Vp H).
  - rewrite Ep in H. apply (split_at_valid ts k h t Vp H).
  - destruct (get_bounds_valid_ptr_view p lo hi x y Hp H) as (H1 & _). exact H1.
  - destruct (get_bounds_valid_ptr_view p lo hi x y Hp H) as (_ & H2 & _). exact H2.
  - destruct (get_bounds_valid_ptr_view p lo hi x y Hp H) as (_ & _ & H3 & _). exact H3.
Qed.

(* ---- constructors ------------------------------------------------------------------------------- *)

Theorem constructors_closed :
  valid_ptr [] = true /\
  (forall d s t, door_run d s = DoorOk t -> t = s /\ valid_ptr t = true) /\
  (forall o s, valid_tok (ttext (token_new o s)) = true) /\
  (forall e, from_encoded e = None -> valid_tok (ttext (from_encoded_tok e)) = true) /\
  (forall t, valid_tok (ttext t) = true -> valid_tok (ttext (token_into_owned t)) = true) /\
  (forall z, valid_tok (token_of_int z) = true) /\
  (forall s r, deserialize s = Some r -> valid_ptr r = true) /\
  (forall L, valid_ptr (buf_from_tokens L) = true) /\
  (forall raw, valid_ptr (buf_from_tokens [raw]) = true) /\
  (forall n, valid_ptr (SLASH :: dec_of_N n) = true).
Proof.
  split; [reflexivity|]. split.
  { intros d s t H. pose proof (doors_agree d s) as D. destruct (validate s) eqn:E.
    - destruct d; rewrite D in H; discriminate.
    - rewrite D in H. inversion H; subst. split; [reflexivity|apply validate_ok_iff, E]. }
  split; [intros o s; rewrite token_new_text; apply valid_tok_encode|].
  split; [intros e H; apply from_encoded_ok_iff, H|].
  split; [intros t H; exact H|].
  split; [intros z; apply token_of_int_spec|].
  split; [intros s r H; apply deserialize_exact in H as [H ->]; exact H|].
  split; [intros L; rewrite buf_from_tokens_spec; apply from_tokens_valid|].
  split; [intros raw; rewrite buf_from_tokens_spec; apply from_tokens_valid|].
  intros n. pose proof (token_of_int_spec (Z.of_N n)) as (Hv & _).
  replace (token_of_int (Z.of_N n)) with (dec_of_N n) in Hv by (destruct n; reflexivity).
  change (SLASH :: dec_of_N n) with (from_tokens_enc [dec_of_N n] ++ []) || idtac.
  replace (SLASH :: dec_of_N n) with (from_tokens_enc [dec_of_N n])
    by (unfold from_tokens_enc; cbn; rewrite app_nil_r; reflexivity).
  apply valid_ptr_from_tokens_enc. cbn. rewrite Hv. reflexivity.
Qed.

(* ---- operations on two pointers / a pointer and a token ---------------------------------------------- *)

Theorem binary_closed p q raw :
  valid_ptr p = true -> valid_ptr q = true ->
  (forall v, p_strip_prefix p q = Some v -> valid_ptr v = true) /\
  (forall v, p_strip_suffix p q = Some v -> valid_ptr v = true) /\
  valid_ptr (intersection p q) = true /\
  valid_ptr (concat_ptr p q) = true /\
  valid_ptr (with_trailing_token p (ttext (token_new false raw))) = true /\
  valid_ptr (with_leading_token p (ttext (token_new false raw))) = true.
Proof.
  intros Hp Hq.
  split; [intros v H; apply (p_strip_prefix_some p q v Hp Hq H)|].
  split; [intros v H; apply (p_strip_suffix_some p q v Hp Hq H)|].
  split; [apply intersection_valid; assumption|].
  rewrite token_new_text.
  destruct (builders_agree p raw q Hp Hq) as (_ & _ & _ & H1 & H2 & H3). auto.
Qed.

(* ---- re-parsing gives back an equal value -------------------------------------------------------------- *)

Theorem reparse :
  (forall p, valid_ptr p = true -> door_run DParse p = DoorOk p) /\
  (forall e, valid_tok e = true -> from_encoded e = None /\ ttext (from_encoded_tok e) = e).
Proof.
  split.
  - intros p H. pose proof (doors_agree DParse p) as D. apply validate_ok_iff in H. rewrite H in D. exact D.
  - intros e H. split; [apply from_encoded_ok_iff, H|reflexivity].
Qed.

(* ---- every finite history of mutators ------------------------------------------------------------------- *)

Definition ret_valid (r : ret) : Prop :=
  match r with
  | RPop (Some t) => valid_tok t = true
  | RRepl (ReplOk (Some t)) => valid_tok t = true
  | _ => True
  end.

Theorem history_closed p0 ops :
  valid_ptr p0 = true -> Forall op_ok ops ->
  exists p rs, impl_run p0 ops = Ret (p, rs) /\ valid_ptr p = true /\ Forall ret_valid rs.
Proof.
  intros Hp Hops. destruct (refines_deque p0 ops Hp Hops) as (p & rs & Hrun & _ & Hv & _ & Hcorr).
  exists p, rs. split; [exact Hrun|]. split; [exact Hv|].
  clear -Hcorr. induction Hcorr as [|r d rs ds Hrd _ IH]; constructor; [|exact IH].
  destruct r as [|[t|]|[[t|]|]]; cbn [ret_valid]; try exact I; destruct d as [|[x|]| |]; cbn [ret_corr] in Hrd; tauto.
Qed.
