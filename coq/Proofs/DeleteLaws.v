(* Proofs/DeleteLaws.v -- C08: delete removes exactly the addressed member / element. *)
From Coq Require Import Arith.
From JP Require Import Bytes Spec Value SpecTree Model.Token Model.Pointer Model.Index Model.Tree
  Proofs.BytesFacts Proofs.TokenProofs Proofs.SplitProofs Proofs.IndexProofs Proofs.ValueFacts
  Proofs.TreeRefine Proofs.TreeLaws Proofs.AssignLaws.

Arguments N.add : simpl never.
Arguments N.eqb : simpl never.
Arguments N.ltb : simpl never.
Arguments N.leb : simpl never.
Arguments N.sub : simpl never.

(* ---- when does it delete, what does it return ---------------------------------------------------------- *)

Theorem spec_delete_root be d : spec_delete be [] d = (empty_root be, Some d).
Proof. reflexivity. Qed.

Theorem spec_delete_iff be ts d v :
  ts <> [] ->
  (snd (spec_delete be ts d) = Some v <-> exists path, spec_resolve ts d 0 0 = Ok (path, v)).
Proof.
  intros Hne. destruct ts as [|t r]; [contradiction|]. unfold spec_delete.
  destruct (spec_resolve (t :: r) d 0 0) as [[path w]|e]; cbn [snd]; split.
  - intros H. inversion H; subst. eauto.
  - intros [p H]. inversion H; subst. reflexivity.
  - discriminate.
  - intros [p H]. discriminate.
Qed.

Theorem spec_delete_none be ts d : snd (spec_delete be ts d) = None -> fst (spec_delete be ts d) = d.
Proof.
  destruct ts as [|t r]; [discriminate|]. unfold spec_delete.
  destruct (spec_resolve (t :: r) d 0 0) as [[path w]|e]; cbn [fst snd]; [discriminate|reflexivity].
Qed.

(* ---- a successful delete, taken apart -------------------------------------------------------------------- *)

Lemma spec_resolve_snoc_inv init t d path v :
  spec_resolve (init ++ [t]) d 0 0 = Ok (path, v) ->
  (exists pp m, spec_resolve init d 0 0 = Ok (pp, Obj m) /\ obj_lookup (unescape t) m = Some v /\
      path = pp ++ [Key (unescape t)])
  \/ (exists pp a i, spec_resolve init d 0 0 = Ok (pp, Arr a) /\ index_from_str t = Ok (Num i) /\
      i < len a /\ nth_error a (N.to_nat i) = Some v /\ path = pp ++ [Idx (N.to_nat i)]).
Proof.
  rewrite spec_resolve_app. intros H.
  destruct (spec_resolve init d 0 0) as [[pp parent]|e]; [|discriminate].
  destruct (spec_resolve [t] parent (0 + len init) (0 + len (from_tokens_enc init))) as [[p w]|e] eqn:E;
    [|discriminate].
  inversion H; subst.
  destruct (container_cases parent) as [[a ->]|[[m ->]|Hd]].
  - apply resolve_arr_inv in E as (j & c & p' & Hi & Hj & Hc & Hrec & ->).
    cbn in Hrec. inversion Hrec; subst. right. exists pp, a, j. auto.
  - apply resolve_obj_inv in E as (c & p' & Hc & Hrec & ->).
    cbn in Hrec. inversion Hrec; subst. left. exists pp, m. auto.
  - exfalso. exact (resolve_scalar_inv _ _ _ _ _ _ _ Hd E).
Qed.

Lemma spec_delete_success be init t d path v :
  spec_resolve (init ++ [t]) d 0 0 = Ok (path, v) ->
  spec_delete be (init ++ [t]) d = (remove_at path d, Some v).
Proof.
  intros H. unfold spec_delete. destruct (init ++ [t]) as [|x y] eqn:E; [destruct init; discriminate|].
  rewrite H. reflexivity.
Qed.

(* ---- updating the node a walk reaches ----------------------------------------------------------------------- *)

Lemma spec_resolve_update_same init : forall d pos off pp parent f,
  spec_resolve init d pos off = Ok (pp, parent) ->
  spec_resolve init (update_at pp f d) pos off = Ok (pp, f parent).
Proof.
  induction init as [|t r IH]; intros d pos off pp parent f H.
  - cbn in H. inversion H; subst. reflexivity.
  - destruct (container_cases d) as [[a ->]|[[m ->]|Hd]].
    + apply resolve_arr_inv in H as (j & c & p & Hi & Hj & Hc & Hrec & ->).
      cbn [update_at]. rewrite Hc.
      rewrite (resolve_arr_step t r _ j (update_at p f c) pos off Hi).
      * rewrite (IH _ _ _ _ _ f Hrec). reflexivity.
      * rewrite len_set_nth. exact Hj.
      * apply nth_error_set_nth_same, to_nat_lt_length, Hj.
    + apply resolve_obj_inv in H as (c & p & Hc & Hrec & ->).
      cbn [update_at]. rewrite Hc.
      rewrite (resolve_obj_step t r _ (update_at p f c) pos off) by apply obj_lookup_insert_same.
      rewrite (IH _ _ _ _ _ f Hrec). reflexivity.
    + exfalso. exact (resolve_scalar_inv _ _ _ _ _ _ _ Hd H).
Qed.

(* locations that branch off before that node are untouched *)
Lemma spec_resolve_update_frame init : forall qs d pos off pos' off' pp parent f path w,
  forallb valid_tok init = true -> forallb valid_tok qs = true ->
  spec_resolve init d pos off = Ok (pp, parent) ->
  spec_resolve qs d pos' off' = Ok (path, w) ->
  ~ is_prefix init qs -> ~ is_prefix qs init ->
  spec_resolve qs (update_at pp f d) pos' off' = Ok (path, w).
Proof.
  induction init as [|t r IH]; intros qs d pos off pos' off' pp parent f path w Hvt Hvq H Hq Hn1 Hn2.
  - exfalso. apply Hn1, is_prefix_nil.
  - destruct qs as [|q qr]; [exfalso; apply Hn2, is_prefix_nil|].
    apply forallb_valid_cons in Hvt as [Ht Hr]. apply forallb_valid_cons in Hvq as [Hqv Hqr].
    destruct (container_cases d) as [[a ->]|[[m ->]|Hd]].
    + apply resolve_arr_inv in Hq as (j & cj & p & Hi & Hj & Hcj & Hrec & ->).
      apply resolve_arr_inv in H as (n & c & p0 & Hti & Hn & Hc & Hres & ->).
      cbn [update_at]. rewrite Hc.
      destruct (N.eq_dec j n) as [->|Hne].
      * assert (cj = c) by congruence. subst cj.
        assert (t = q) by (exact (index_num_inj _ _ _ Hti Hi)). subst q.
        rewrite (resolve_arr_step t qr _ n (update_at p0 f c) pos' off' Hi).
        -- rewrite (IH qr c _ _ _ _ p0 parent f p w Hr Hqr Hres Hrec); [reflexivity| |].
           ++ intros Hp. apply Hn1, is_prefix_cons, Hp.
           ++ intros Hp. apply Hn2, is_prefix_cons, Hp.
        -- rewrite len_set_nth. exact Hn.
        -- apply nth_error_set_nth_same, to_nat_lt_length, Hn.
      * rewrite (resolve_arr_step q qr _ j cj pos' off' Hi); [rewrite Hrec; reflexivity| |].
        -- rewrite len_set_nth. exact Hj.
        -- rewrite nth_error_set_nth_other by lia. exact Hcj.
    + apply resolve_obj_inv in Hq as (cj & p & Hcj & Hrec & ->).
      apply resolve_obj_inv in H as (c & p0 & Hc & Hres & ->).
      cbn [update_at]. rewrite Hc.
      destruct (str_dec (unescape t) (unescape q)) as [E|Hne].
      * assert (t = q) by (exact (valid_tok_unescape_inj _ _ Ht Hqv E)). subst q.
        assert (cj = c) by congruence. subst cj.
        rewrite (resolve_obj_step t qr _ (update_at p0 f c) pos' off') by apply obj_lookup_insert_same.
        rewrite (IH qr c _ _ _ _ p0 parent f p w Hr Hqr Hres Hrec); [reflexivity| |].
        -- intros Hp. apply Hn1, is_prefix_cons, Hp.
        -- intros Hp. apply Hn2, is_prefix_cons, Hp.
      * rewrite (resolve_obj_step q qr _ cj pos' off'); [rewrite Hrec; reflexivity|].
        rewrite obj_lookup_insert_other by exact Hne. exact Hcj.
    + exfalso. exact (resolve_scalar_inv _ _ _ _ _ _ _ Hd Hq).
Qed.

Lemma wf_get_at path : forall d c, wf_value d -> get_at path d = Some c -> wf_value c.
Proof.
  induction path as [|s p IH]; intros d c Hwf H; cbn [get_at] in H.
  - inversion H; subst. exact Hwf.
  - destruct s as [n|k].
    + destruct d; try discriminate. destruct (nth_error l n) as [c0|] eqn:E; [|discriminate].
      exact (IH _ _ (wf_nth _ _ _ Hwf E) H).
    + destruct d; try discriminate. destruct (obj_lookup k m) as [c0|] eqn:E; [|discriminate].
      exact (IH _ _ (wf_lookup _ _ _ Hwf E) H).
Qed.

Lemma sorted_get_at path : forall d c, sorted_value d -> get_at path d = Some c -> sorted_value c.
Proof.
  induction path as [|s p IH]; intros d c Hwf H; cbn [get_at] in H.
  - inversion H; subst. exact Hwf.
  - destruct s as [n|k].
    + destruct d; try discriminate. destruct (nth_error l n) as [c0|] eqn:E; [|discriminate].
      exact (IH _ _ (sorted_nth _ _ _ Hwf E) H).
    + destruct d; try discriminate. destruct (obj_lookup k m) as [c0|] eqn:E; [|discriminate].
      exact (IH _ _ (sorted_lookup _ _ _ Hwf E) H).
Qed.

Lemma is_prefix_dec (a : list str) : forall b, {is_prefix a b} + {~ is_prefix a b}.
Proof.
  induction a as [|x a IH]; intros b; [left; apply is_prefix_nil|].
  destruct b as [|y b]; [right; intros [c Hc]; discriminate|].
  destruct (str_dec x y) as [->|Hne].
  - destruct (IH b) as [Hp|Hn]; [left; apply is_prefix_cons, Hp|].
    right. intros [c Hc]. inversion Hc; subst. apply Hn. exists c. reflexivity.
  - right. intros [c Hc]. inversion Hc; subst. contradiction.
Qed.

Lemma is_prefix_app_r {A} (a b c : list A) : is_prefix a b -> is_prefix a (b ++ c).
Proof. intros [x ->]. exists (x ++ c). rewrite app_assoc. reflexivity. Qed.

(* ---- C08: the parent is an object ----------------------------------------------------------------------------- *)

Theorem spec_delete_removes_member_sorted be init t d pp m v :
  sorted_value d -> forallb valid_tok (init ++ [t]) = true ->
  spec_resolve init d 0 0 = Ok (pp, Obj m) -> obj_lookup (unescape t) m = Some v ->
  let k := unescape t in
  let d' := fst (spec_delete be (init ++ [t]) d) in
  snd (spec_delete be (init ++ [t]) d) = Some v /\
  (* the parent is now the same map without k *)
  spec_resolve init d' 0 0 = Ok (pp, Obj (obj_remove k m)) /\
  obj_lookup k (obj_remove k m) = None /\
  (forall k', k' <> k -> obj_lookup k' (obj_remove k m) = obj_lookup k' m) /\
  (* so the pointer no longer resolves: NotFound at its last token *)
  spec_resolve (init ++ [t]) d' 0 0 = Err (RNotFound (len init) (len (from_tokens_enc init))) /\
  (* and every location that is neither below the deleted one nor one of its ancestors is untouched *)
  (forall qs path w, forallb valid_tok qs = true ->
     spec_resolve qs d 0 0 = Ok (path, w) ->
     ~ is_prefix (init ++ [t]) qs -> ~ is_prefix qs (init ++ [t]) ->
     spec_resolve qs d' 0 0 = Ok (path, w)).
Proof.
  intros Hwf Hv Hres Hl k d'. change (obj_lookup k m = Some v) in Hl.
  apply forallb_valid_app in Hv as [Hvi Hvt]. cbn [forallb] in Hvt. rewrite andb_true_r in Hvt.
  assert (Hfull : spec_resolve (init ++ [t]) d 0 0 = Ok (pp ++ [Key k], v)).
  { rewrite spec_resolve_app, Hres. cbn [spec_resolve]. fold k. rewrite Hl. reflexivity. }
  assert (Hd' : d' = update_at pp (remove_child (Key k)) d).
  { unfold d'. rewrite (spec_delete_success be _ _ _ _ _ Hfull). cbn [fst]. apply remove_at_snoc. }
  assert (Hparent : spec_resolve init d' 0 0 = Ok (pp, Obj (obj_remove k m))).
  { rewrite Hd'. apply (spec_resolve_update_same init d 0 0 pp (Obj m)). exact Hres. }
  assert (Hsorted : keys_sorted m = true).
  { destruct (spec_resolve_by_reference _ _ _ _ _ _ Hres) as [Hg _].
    apply (sorted_get_at _ _ _ Hwf) in Hg. apply sorted_Obj_inv in Hg. tauto. }
  assert (Hgone : obj_lookup k (obj_remove k m) = None) by (apply obj_lookup_remove_same, Hsorted).
  split; [rewrite (spec_delete_success be _ _ _ _ _ Hfull); reflexivity|].
  split; [exact Hparent|]. split; [exact Hgone|].
  split; [intros k' Hk'; apply obj_lookup_remove_other; congruence|].
  split.
  - rewrite spec_resolve_app, Hparent. cbn [spec_resolve]. fold k. rewrite Hgone.
    rewrite !N.add_0_l. reflexivity.
  - intros qs path w Hvq Hq Hn1 Hn2.
    destruct (is_prefix_dec init qs) as [[rest ->]|Hni].
    + destruct rest as [|q qr].
      { exfalso. apply Hn2. rewrite app_nil_r. exists [t]. reflexivity. }
      apply forallb_valid_app in Hvq as [_ Hvq]. apply forallb_valid_cons in Hvq as [Hqv _].
      assert (Hkq : k <> unescape q).
      { intros E. apply (valid_tok_unescape_inj _ _ Hvt Hqv) in E. subst q.
        apply Hn1. exists qr. rewrite <- app_assoc. reflexivity. }
      rewrite spec_resolve_app, Hres in Hq. rewrite spec_resolve_app, Hparent.
      destruct (spec_resolve (q :: qr) (Obj m) (0 + len init) (0 + len (from_tokens_enc init)))
        as [[p2 w2]|e] eqn:E; [|discriminate].
      apply resolve_obj_inv in E as (cj & p & Hcj & Hrec & ->).
      rewrite (resolve_obj_step q qr _ cj).
      * rewrite Hrec. exact Hq.
      * rewrite obj_lookup_remove_other by exact Hkq. exact Hcj.
    + rewrite Hd'. apply (spec_resolve_update_frame init qs d 0 0 0 0 pp (Obj m)); try assumption.
      intros Hp. apply Hn2, is_prefix_app_r, Hp.
Qed.

Corollary spec_delete_removes_member be init t d pp m v :
  wf_value d -> forallb valid_tok (init ++ [t]) = true ->
  spec_resolve init d 0 0 = Ok (pp, Obj m) -> obj_lookup (unescape t) m = Some v ->
  let k := unescape t in
  let d' := fst (spec_delete be (init ++ [t]) d) in
  snd (spec_delete be (init ++ [t]) d) = Some v /\
  spec_resolve init d' 0 0 = Ok (pp, Obj (obj_remove k m)) /\
  obj_lookup k (obj_remove k m) = None /\
  (forall k', k' <> k -> obj_lookup k' (obj_remove k m) = obj_lookup k' m) /\
  spec_resolve (init ++ [t]) d' 0 0 = Err (RNotFound (len init) (len (from_tokens_enc init))) /\
  (forall qs path w, forallb valid_tok qs = true ->
     spec_resolve qs d 0 0 = Ok (path, w) ->
     ~ is_prefix (init ++ [t]) qs -> ~ is_prefix qs (init ++ [t]) ->
     spec_resolve qs d' 0 0 = Ok (path, w)).
Proof. intros Hwf. apply spec_delete_removes_member_sorted, wf_sorted, Hwf. Qed.

(* ---- C08: the parent is an array --------------------------------------------------------------------------------- *)

Theorem spec_delete_removes_element be init t d pp a i v :
  forallb valid_tok (init ++ [t]) = true ->
  spec_resolve init d 0 0 = Ok (pp, Arr a) -> index_from_str t = Ok (Num i) -> i < len a ->
  nth_error a (N.to_nat i) = Some v ->
  let d' := fst (spec_delete be (init ++ [t]) d) in
  let a' := remove_nth (N.to_nat i) a in
  snd (spec_delete be (init ++ [t]) d) = Some v /\
  (* the parent is now the array with element i taken out, the later ones shifted down *)
  spec_resolve init d' 0 0 = Ok (pp, Arr a') /\
  len a' = len a - 1 /\
  (forall j, nth_error a' j = if (j <? N.to_nat i)%nat then nth_error a j else nth_error a (S j)) /\
  (* every location that is neither below the parent array nor one of its ancestors is untouched *)
  (forall qs path w, forallb valid_tok qs = true ->
     spec_resolve qs d 0 0 = Ok (path, w) ->
     ~ is_prefix init qs -> ~ is_prefix qs init ->
     spec_resolve qs d' 0 0 = Ok (path, w)).
Proof.
  intros Hv Hres Hi Hlt Hnth d' a'.
  apply forallb_valid_app in Hv as [Hvi Hvt].
  assert (Hfull : spec_resolve (init ++ [t]) d 0 0 = Ok (pp ++ [Idx (N.to_nat i)], v)).
  { rewrite spec_resolve_app, Hres. rewrite (resolve_arr_step t [] a i v _ _ Hi Hlt Hnth). reflexivity. }
  assert (Hd' : d' = update_at pp (remove_child (Idx (N.to_nat i))) d).
  { unfold d'. rewrite (spec_delete_success be _ _ _ _ _ Hfull). cbn [fst]. apply remove_at_snoc. }
  split; [rewrite (spec_delete_success be _ _ _ _ _ Hfull); reflexivity|].
  split; [rewrite Hd'; apply (spec_resolve_update_same init d 0 0 pp (Arr a)); exact Hres|].
  split.
  { unfold a', len. rewrite length_remove_nth by (apply to_nat_lt_length, Hlt).
    apply to_nat_lt_length in Hlt. lia. }
  split; [intros j; apply nth_error_remove_nth|].
  intros qs path w Hvq Hq Hn1 Hn2. rewrite Hd'.
  apply (spec_resolve_update_frame init qs d 0 0 0 0 pp (Arr a)); assumption.
Qed.
