(* Proofs/SplitProofs.v -- the foundation: text <-> token list.
   `split_on`, `tokens`, `from_tokens_enc` are mutually inverse on pointer-shaped text;
   `find` / `rfind` / `split_front` / `split_back` computed against token lists. *)
From Coq Require Import Arith Wf_nat.
From JP Require Import Bytes Spec Model.Token Model.Pointer Proofs.BytesFacts Proofs.TokenProofs.

Arguments N.add : simpl never.
Arguments N.eqb : simpl never.

Ltac beq b c := destruct (N.eqb_spec b c); [subst b; bc|].

(* ---- no_slash ------------------------------------------------------------------ *)

Lemma no_slash_app a b : no_slash (a ++ b) = no_slash a && no_slash b.
Proof. unfold no_slash. apply forallb_app. Qed.

Lemma no_slash_cons b r : no_slash (b :: r) = negb (b =? SLASH) && no_slash r.
Proof. reflexivity. Qed.

Lemma valid_tok_no_slash t : valid_tok t = true -> no_slash t = true.
Proof. unfold valid_tok. intros H. apply andb_true_iff in H. tauto. Qed.

Lemma valid_tok_escapes t : valid_tok t = true -> escapes_ok t = true.
Proof. unfold valid_tok. intros H. apply andb_true_iff in H. tauto. Qed.

(* ---- split_on -------------------------------------------------------------------- *)

Lemma split_on_nonempty c s : split_on c s <> [].
Proof.
  destruct s as [|b r]; cbn [split_on]; [discriminate|].
  destruct (b =? c); [discriminate|]. destruct (split_on c r); discriminate.
Qed.

Lemma split_on_noslash t : no_slash t = true -> split_on SLASH t = [t].
Proof.
  induction t as [|b r IH]; cbn [split_on]; intros H; [reflexivity|].
  rewrite no_slash_cons in H. apply andb_true_iff in H as [Hb Hr]. apply negb_true_iff in Hb.
  rewrite Hb, IH by assumption. reflexivity.
Qed.

Lemma split_on_app_slash t r :
  no_slash t = true -> split_on SLASH (t ++ SLASH :: r) = t :: split_on SLASH r.
Proof.
  induction t as [|b t IH]; cbn [app split_on]; intros H.
  - bc. reflexivity.
  - rewrite no_slash_cons in H. apply andb_true_iff in H as [Hb Hr]. apply negb_true_iff in Hb.
    rewrite Hb, IH by assumption. reflexivity.
Qed.

Lemma split_on_pieces_noslash s : Forall (fun t => no_slash t = true) (split_on SLASH s).
Proof.
  induction s as [|b r IH]; cbn [split_on].
  - constructor; [reflexivity|constructor].
  - destruct (N.eqb_spec b SLASH) as [->|Hb].
    + constructor; [reflexivity|exact IH].
    + destruct (split_on SLASH r) as [|h t] eqn:E; [constructor; [|constructor]|].
      * rewrite no_slash_cons. apply N.eqb_neq in Hb. rewrite Hb. reflexivity.
      * inversion IH; subst. constructor; [|assumption].
        rewrite no_slash_cons. apply N.eqb_neq in Hb. rewrite Hb. assumption.
Qed.

(* joining the pieces gives the text back *)
Lemma from_tokens_enc_split s : from_tokens_enc (split_on SLASH s) = SLASH :: s.
Proof.
  unfold from_tokens_enc. induction s as [|b r IH]; cbn [split_on]; [reflexivity|].
  destruct (N.eqb_spec b SLASH) as [->|Hb].
  - cbn [flat_map app]. rewrite IH. reflexivity.
  - destruct (split_on SLASH r) as [|h t] eqn:E; [exfalso; exact (split_on_nonempty _ _ E)|].
    cbn [flat_map app] in *. inversion IH as [H1]. reflexivity.
Qed.

Lemma from_tokens_enc_app a b : from_tokens_enc (a ++ b) = from_tokens_enc a ++ from_tokens_enc b.
Proof. unfold from_tokens_enc. apply flat_map_app. Qed.

Lemma from_tokens_enc_cons t ts : from_tokens_enc (t :: ts) = SLASH :: t ++ from_tokens_enc ts.
Proof. reflexivity. Qed.

(* splitting a slash-free head followed by a pointer text *)
Lemma split_on_head t ts :
  no_slash t = true -> Forall (fun u => no_slash u = true) ts ->
  split_on SLASH (t ++ from_tokens_enc ts) = t :: ts.
Proof.
  intros Ht Hts. revert t Ht. induction Hts as [|u ts Hu Hts IH]; intros t Ht.
  - cbn. rewrite app_nil_r. apply split_on_noslash, Ht.
  - rewrite from_tokens_enc_cons, split_on_app_slash by assumption. rewrite IH by assumption. reflexivity.
Qed.

(* ---- tokens <-> text ----------------------------------------------------------------- *)

Definition ptr_shaped (p : str) : Prop := p = [] \/ exists r, p = SLASH :: r.

Lemma valid_ptr_shaped p : valid_ptr p = true -> ptr_shaped p.
Proof.
  destruct p as [|b r]; [left; reflexivity|]. cbn [valid_ptr]. intros H.
  apply andb_true_iff in H as [Hb _]. apply N.eqb_eq in Hb. subst b. right. eauto.
Qed.

Lemma ptokens_tokens p : ptokens p = tokens p.
Proof. reflexivity. Qed.

Theorem tokens_from_tokens_enc ts :
  Forall (fun u => no_slash u = true) ts -> tokens (from_tokens_enc ts) = ts.
Proof.
  intros H. destruct H as [|u ts Hu Hts]; [reflexivity|].
  unfold tokens. rewrite from_tokens_enc_cons. cbn [split_on]. bc. cbn [tl].
  apply split_on_head; assumption.
Qed.

Theorem from_tokens_enc_tokens p : ptr_shaped p -> from_tokens_enc (tokens p) = p.
Proof.
  intros [->|[r ->]]; [reflexivity|].
  unfold tokens. cbn [split_on]. bc. cbn [tl]. apply from_tokens_enc_split.
Qed.

Lemma tokens_noslash p : Forall (fun t => no_slash t = true) (tokens p).
Proof.
  unfold tokens. pose proof (split_on_pieces_noslash p) as H.
  destruct (split_on SLASH p); [constructor|]. inversion H; assumption.
Qed.

Lemma from_tokens_enc_shaped ts : ptr_shaped (from_tokens_enc ts).
Proof. destruct ts; [left; reflexivity|right; rewrite from_tokens_enc_cons; eauto]. Qed.

(* the key lemma: concatenating pointer-shaped texts concatenates their token lists *)
Theorem tokens_app p q : ptr_shaped p -> ptr_shaped q -> tokens (p ++ q) = tokens p ++ tokens q.
Proof.
  intros Hp Hq.
  rewrite <- (from_tokens_enc_tokens p Hp) at 1. rewrite <- (from_tokens_enc_tokens q Hq) at 1.
  rewrite <- from_tokens_enc_app. apply tokens_from_tokens_enc.
  apply Forall_app. split; apply tokens_noslash.
Qed.

Lemma from_tokens_enc_inj a b :
  Forall (fun u => no_slash u = true) a -> Forall (fun u => no_slash u = true) b ->
  from_tokens_enc a = from_tokens_enc b -> a = b.
Proof.
  intros Ha Hb H. rewrite <- (tokens_from_tokens_enc a Ha), <- (tokens_from_tokens_enc b Hb), H. reflexivity.
Qed.

(* ---- escapes_ok across token boundaries ------------------------------------------------ *)

Lemma tilde_ind (P : str -> Prop) :
  P [] ->
  (forall b r, b <> TILDE -> P r -> P (b :: r)) ->
  P [TILDE] ->
  (forall c r, P r -> P (TILDE :: c :: r)) ->
  forall s, P s.
Proof.
  intros H0 H1 H2 H3 s. remember (length s) as n eqn:Hn. revert s Hn.
  induction n as [n IH] using lt_wf_ind. intros s Hn.
  destruct s as [|b r]; [exact H0|].
  destruct (N.eq_dec b TILDE) as [->|Hb].
  - destruct r as [|c r']; [exact H2|]. apply H3. apply (IH (length r')); [subst n; cbn; lia|reflexivity].
  - apply H1; [exact Hb|]. apply (IH (length r)); [subst n; cbn; lia|reflexivity].
Qed.

Lemma escapes_ok_app_slash t r :
  escapes_ok (t ++ SLASH :: r) = escapes_ok t && escapes_ok r.
Proof.
  revert t. apply tilde_ind.
  - cbn [app escapes_ok]. bc. reflexivity.
  - intros b t Hb IH. cbn [app escapes_ok]. apply N.eqb_neq in Hb. rewrite Hb. exact IH.
  - cbn [app escapes_ok]. bc. cbn. reflexivity.
  - intros c t IH. cbn [app escapes_ok]. bc. rewrite IH. apply andb_assoc.
Qed.

Lemma escapes_ok_from_tokens_enc ts :
  escapes_ok (from_tokens_enc ts) = forallb escapes_ok ts.
Proof.
  induction ts as [|t ts IH]; [reflexivity|].
  rewrite from_tokens_enc_cons. cbn [forallb]. rewrite <- IH.
  change (SLASH :: t ++ from_tokens_enc ts) with ([SLASH] ++ t ++ from_tokens_enc ts).
  cbn [app escapes_ok]. bc.
  destruct ts as [|u ts'].
  - cbn [from_tokens_enc flat_map]. rewrite app_nil_r, andb_true_r. reflexivity.
  - rewrite from_tokens_enc_cons. rewrite escapes_ok_app_slash. cbn [escapes_ok]. bc. reflexivity.
Qed.

(* a text is a valid pointer iff it is the join of valid tokens *)
Theorem valid_ptr_iff_tokens p :
  valid_ptr p = true <-> ptr_shaped p /\ forallb valid_tok (tokens p) = true.
Proof.
  split.
  - intros H. pose proof (valid_ptr_shaped p H) as Hs. split; [exact Hs|].
    assert (He : escapes_ok p = true).
    { destruct p as [|b r]; [reflexivity|]. cbn [valid_ptr] in H. apply andb_true_iff in H. tauto. }
    rewrite <- (from_tokens_enc_tokens p Hs), escapes_ok_from_tokens_enc in He.
    pose proof (tokens_noslash p) as Hn.
    rewrite forallb_forall in *. intros t Ht. unfold valid_tok.
    rewrite Forall_forall in Hn. rewrite (Hn t Ht), (He t Ht). reflexivity.
  - intros [Hs Hv]. rewrite <- (from_tokens_enc_tokens p Hs).
    assert (He : escapes_ok (from_tokens_enc (tokens p)) = true).
    { rewrite escapes_ok_from_tokens_enc. rewrite forallb_forall in *. intros t Ht.
      apply valid_tok_escapes, Hv, Ht. }
    destruct (tokens p) as [|t ts]; [reflexivity|].
    rewrite from_tokens_enc_cons in *. cbn [valid_ptr]. bc. exact He.
Qed.

Lemma valid_ptr_from_tokens_enc ts :
  forallb valid_tok ts = true -> valid_ptr (from_tokens_enc ts) = true.
Proof.
  intros H. apply valid_ptr_iff_tokens. split; [apply from_tokens_enc_shaped|].
  rewrite tokens_from_tokens_enc; [exact H|].
  apply Forall_forall. intros t Ht. rewrite forallb_forall in H. apply valid_tok_no_slash, H, Ht.
Qed.

(* a valid pointer determines, and is determined by, its list of valid tokens *)
Theorem valid_ptr_decompose p :
  valid_ptr p = true ->
  p = from_tokens_enc (tokens p) /\ forallb valid_tok (tokens p) = true.
Proof.
  intros H. apply valid_ptr_iff_tokens in H as [Hs Hv]. split; [symmetry; apply from_tokens_enc_tokens, Hs|exact Hv].
Qed.

(* ---- find / rfind against token structure ------------------------------------------------ *)

Lemma find_noslash t : no_slash t = true -> find SLASH t = None.
Proof.
  unfold find. intros H. apply position_none. unfold no_slash in H.
  rewrite forallb_forall in *. intros b Hb. specialize (H b Hb). rewrite N.eqb_sym. exact H.
Qed.

Lemma find_app_slash t r : no_slash t = true -> find SLASH (t ++ SLASH :: r) = Some (length t).
Proof.
  unfold find. intros H. apply position_app_first; [|apply N.eqb_refl].
  unfold no_slash in H. rewrite forallb_forall in *. intros b Hb. specialize (H b Hb).
  rewrite N.eqb_sym. exact H.
Qed.

Lemma rfind_noslash t : no_slash t = true -> rfind SLASH t = None.
Proof.
  induction t as [|b r IH]; cbn [rfind]; intros H; [reflexivity|].
  rewrite no_slash_cons in H. apply andb_true_iff in H as [Hb Hr]. apply negb_true_iff in Hb.
  rewrite IH by assumption. rewrite N.eqb_sym, Hb. reflexivity.
Qed.

Lemma rfind_app_slash a t : no_slash t = true -> rfind SLASH (a ++ SLASH :: t) = Some (length a).
Proof.
  intros Ht. induction a as [|x a IH]; cbn [app rfind length].
  - rewrite rfind_noslash by assumption. bc. reflexivity.
  - rewrite IH. reflexivity.
Qed.

(* ---- split_front / split_back / front / back / parent on token lists ----------------------- *)

Lemma is_root_from_tokens_enc ts : is_root (from_tokens_enc ts) = match ts with [] => true | _ => false end.
Proof. destruct ts; reflexivity. Qed.

Theorem split_front_cons t ts :
  no_slash t = true ->
  split_front (from_tokens_enc (t :: ts)) = Some (t, from_tokens_enc ts).
Proof.
  intros Ht. rewrite from_tokens_enc_cons. unfold split_front. cbn [is_root skipn].
  destruct ts as [|u ts'].
  - cbn [from_tokens_enc flat_map]. rewrite app_nil_r, find_noslash by assumption. reflexivity.
  - rewrite from_tokens_enc_cons, find_app_slash by assumption.
    rewrite firstn_app_exact, skipn_app_exact. reflexivity.
Qed.

Lemma split_front_nil : split_front [] = None.
Proof. reflexivity. Qed.

Theorem split_back_snoc ts t :
  no_slash t = true ->
  split_back (from_tokens_enc (ts ++ [t])) = Some (from_tokens_enc ts, t).
Proof.
  intros Ht. rewrite from_tokens_enc_app. cbn [from_tokens_enc flat_map]. rewrite app_nil_r.
  fold (from_tokens_enc ts). unfold split_back, rsplit_once.
  rewrite rfind_app_slash by assumption.
  rewrite firstn_app_exact.
  replace (S (length (from_tokens_enc ts))) with (length (from_tokens_enc ts ++ [SLASH]))
    by (rewrite app_length; cbn; lia).
  replace (from_tokens_enc ts ++ SLASH :: t) with ((from_tokens_enc ts ++ [SLASH]) ++ t)
    by (rewrite <- app_assoc; reflexivity).
  rewrite skipn_app_exact. reflexivity.
Qed.

Lemma split_back_nil : split_back [] = None.
Proof. reflexivity. Qed.

(* every valid pointer is root or has a last token *)
Lemma tokens_snoc_cases {A} (l : list A) : l = [] \/ exists a x, l = a ++ [x].
Proof. destruct l as [|x l] using rev_ind; [left; reflexivity|right; eauto]. Qed.

(* lengths: fuel bounds *)
Lemma length_from_tokens_enc_cons t ts :
  length (from_tokens_enc (t :: ts)) = S (length t + length (from_tokens_enc ts))%nat.
Proof. rewrite from_tokens_enc_cons. cbn [length]. rewrite app_length. reflexivity. Qed.

Lemma length_from_tokens_enc_ge ts : (length ts <= length (from_tokens_enc ts))%nat.
Proof.
  induction ts as [|t ts IH]; [cbn; lia|]. rewrite length_from_tokens_enc_cons. cbn [length]. lia.
Qed.

Lemma length_from_tokens_enc_app a b :
  length (from_tokens_enc (a ++ b)) = (length (from_tokens_enc a) + length (from_tokens_enc b))%nat.
Proof. rewrite from_tokens_enc_app, app_length. reflexivity. Qed.
