(* Proofs/TreeLaws.v -- laws of the token-list specification (SpecTree.v):
   errors name the first failing step (C05), their position / offset locate the culprit token in
   the pointer text (C15), assign is atomic on error (C07), clause structure of assign (C06). *)
From Coq Require Import Arith.
From JP Require Import Bytes Spec Value SpecTree Model.Token Model.Pointer Model.Index Model.Tree
  Proofs.BytesFacts Proofs.TokenProofs Proofs.SplitProofs Proofs.IndexProofs Proofs.ValueFacts
  Proofs.TreeRefine.

Arguments N.add : simpl never.
Arguments N.eqb : simpl never.
Arguments N.ltb : simpl never.
Arguments N.leb : simpl never.
Arguments N.sub : simpl never.

(* ---- well-formed documents ------------------------------------------------------------------------ *)

Lemma wf_Arr_inv l : wf_value (Arr l) -> len l <= USIZE_MAX /\ Forall wf_value l.
Proof. intros H. inversion H; subst; [discriminate|auto]. Qed.

Lemma wf_Obj_inv m : wf_value (Obj m) -> keys_sorted m = true /\ Forall (fun kv => wf_value (snd kv)) m.
Proof. intros H. inversion H; subst; [discriminate|auto]. Qed.

Lemma wf_nth l n c : wf_value (Arr l) -> nth_error l n = Some c -> wf_value c.
Proof. intros H E. apply wf_Arr_inv in H as [_ H]. exact (nth_error_Forall _ _ _ _ H E). Qed.

Lemma wf_lookup m k c : wf_value (Obj m) -> obj_lookup k m = Some c -> wf_value c.
Proof.
  intros H E. apply wf_Obj_inv in H as [_ H]. apply obj_lookup_In in E.
  rewrite Forall_forall in H. exact (H _ E).
Qed.

Lemma sorted_Arr_inv l : sorted_value (Arr l) -> Forall sorted_value l.
Proof. intros H. inversion H; subst; [discriminate|auto]. Qed.

Lemma sorted_Obj_inv m :
  sorted_value (Obj m) -> keys_sorted m = true /\ Forall (fun kv => sorted_value (snd kv)) m.
Proof. intros H. inversion H; subst; [discriminate|auto]. Qed.

Lemma sorted_nth l n c : sorted_value (Arr l) -> nth_error l n = Some c -> sorted_value c.
Proof. intros H E. apply sorted_Arr_inv in H. exact (nth_error_Forall _ _ _ _ H E). Qed.

Lemma sorted_lookup m k c : sorted_value (Obj m) -> obj_lookup k m = Some c -> sorted_value c.
Proof.
  intros H E. apply sorted_Obj_inv in H as [_ H]. apply obj_lookup_In in E.
  rewrite Forall_forall in H. exact (H _ E).
Qed.

(* well-formed documents are sorted (structural recursion through the nested [Forall]s) *)
Fixpoint wf_sorted (d : value) (H : wf_value d) {struct H} : sorted_value d :=
  match H in wf_value d0 return sorted_value d0 with
  | wf_scalar v Hs => sorted_scalar v Hs
  | wf_Arr l _ HF =>
      sorted_Arr l
        ((fix go (l : list value) (HF : Forall wf_value l) {struct HF} : Forall sorted_value l :=
            match HF in Forall _ l0 return Forall sorted_value l0 with
            | Forall_nil _ => Forall_nil _
            | @Forall_cons _ _ x l' Hx Hr => @Forall_cons _ _ x l' (wf_sorted x Hx) (go l' Hr)
            end) l HF)
  | wf_Obj m Hs HF =>
      sorted_Obj m Hs
        ((fix go (m : list (str * value)) (HF : Forall (fun kv => wf_value (snd kv)) m) {struct HF}
            : Forall (fun kv => sorted_value (snd kv)) m :=
            match HF in Forall _ m0 return Forall (fun kv => sorted_value (snd kv)) m0 with
            | Forall_nil _ => Forall_nil _
            | @Forall_cons _ _ x m' Hx Hr =>
                @Forall_cons _ (fun kv => sorted_value (snd kv)) x m' (wf_sorted (snd x) Hx) (go m' Hr)
            end) m HF)
  end.

(* proves [wf_value d] for a concrete document *)
Ltac wf_tac :=
  repeat first [ apply wf_scalar; reflexivity
               | apply wf_Arr; [vm_compute; discriminate|]
               | apply wf_Obj; [reflexivity|]
               | apply Forall_cons; cbn [snd]
               | apply Forall_nil ].

(* ---- C05: the error names the first failing step ------------------------------------------------------ *)

(* token [t] cannot be followed from node [c]; [e] is the error the walk reports for it *)
Definition step_fails (t : str) (c : value) (pos off : N) (e : resolve_error) : Prop :=
  match c with
  | Arr a =>
      match index_from_str t with
      | Err pe => e = RFailedToParseIndex pos off pe
      | Ok Next => e = ROutOfBounds pos off (len a) (len a)
      | Ok (Num n) => len a <= n /\ e = ROutOfBounds pos off (len a) n
      end
  | Obj m => obj_lookup (unescape t) m = None /\ e = RNotFound pos off
  | _ => e = RUnreachable pos off
  end.

Lemma step_fails_resolve t post c pos off e :
  step_fails t c pos off e -> spec_resolve (t :: post) c pos off = Err e.
Proof.
  unfold step_fails. cbn [spec_resolve]. destruct c as [| | | | |a|m]; try (intros ->; reflexivity).
  - destruct (index_from_str t) as [[n|]|pe]; try (intros ->; reflexivity).
    intros [Hn ->]. assert (E : (n <? len a) = false) by (apply N.ltb_ge; exact Hn).
    rewrite E. reflexivity.
  - intros [-> ->]. reflexivity.
Qed.

Lemma spec_resolve_err_split ts : forall d pos off e,
  spec_resolve ts d pos off = Err e ->
  exists pre t post path c,
    ts = pre ++ t :: post /\ spec_resolve pre d pos off = Ok (path, c) /\
    step_fails t c (pos + len pre) (off + len (from_tokens_enc pre)) e.
Proof.
  induction ts as [|t r IH]; intros d pos off e H; cbn [spec_resolve] in H; [discriminate|].
  assert (Hhere : step_fails t d pos off e ->
    exists pre t0 post path c,
      t :: r = pre ++ t0 :: post /\ spec_resolve pre d pos off = Ok (path, c) /\
      step_fails t0 c (pos + len pre) (off + len (from_tokens_enc pre)) e).
  { intros Hs. exists [], t, r, [], d. cbn [app spec_resolve from_tokens_enc flat_map].
    rewrite len_nil, !N.add_0_r. auto. }
  assert (Hdeeper : forall c s,
    spec_resolve [t] d pos off = Ok ([s], c) ->
    spec_resolve r c (pos + 1) (off + (1 + len t)) = Err e ->
    exists pre t0 post path c0,
      t :: r = pre ++ t0 :: post /\ spec_resolve pre d pos off = Ok (path, c0) /\
      step_fails t0 c0 (pos + len pre) (off + len (from_tokens_enc pre)) e).
  { intros c s Hone Hrest.
    destruct (IH _ _ _ _ Hrest) as (pre & t0 & post & path & c0 & -> & Hpre & Hstep).
    exists (t :: pre), t0, post, (s :: path), c0. split; [reflexivity|]. split.
    - change (t :: pre) with ([t] ++ pre). rewrite spec_resolve_app, Hone.
      replace (pos + len [t]) with (pos + 1) by (rewrite len_cons, len_nil; lia).
      replace (off + len (from_tokens_enc [t])) with (off + (1 + len t))
        by (rewrite len_from_tokens_enc_cons; cbn [from_tokens_enc flat_map]; rewrite len_nil; lia).
      rewrite Hpre. reflexivity.
    - replace (pos + len (t :: pre)) with (pos + 1 + len pre) by (rewrite len_cons; lia).
      replace (off + len (from_tokens_enc (t :: pre))) with (off + (1 + len t) + len (from_tokens_enc pre))
        by (rewrite len_from_tokens_enc_cons; lia).
      exact Hstep. }
  destruct d as [| | | | |a|m]; try (apply Hhere; inversion H; reflexivity).
  - destruct (index_from_str t) as [[n|]|pe] eqn:Hi.
    + destruct (n <? len a) eqn:Hn.
      * destruct (nth_error a (N.to_nat n)) as [c|] eqn:Hc.
        -- destruct (spec_resolve r c (pos + 1) (off + (1 + len t))) as [[p w]|e'] eqn:E; [discriminate|].
           inversion H; subst e'. apply (Hdeeper c (Idx (N.to_nat n))); [|exact E].
           cbn [spec_resolve]. rewrite Hi, Hn, Hc. reflexivity.
        -- apply N.ltb_lt in Hn. destruct (nth_error_lt_len a n Hn) as [c Hc']. congruence.
      * apply Hhere. unfold step_fails. rewrite Hi. apply N.ltb_ge in Hn. inversion H. auto.
    + apply Hhere. unfold step_fails. rewrite Hi. inversion H. reflexivity.
    + apply Hhere. unfold step_fails. rewrite Hi. inversion H. reflexivity.
  - destruct (obj_lookup (unescape t) m) as [c|] eqn:Hc.
    + destruct (spec_resolve r c (pos + 1) (off + (1 + len t))) as [[p w]|e'] eqn:E; [discriminate|].
      inversion H; subst e'. apply (Hdeeper c (Key (unescape t))); [|exact E].
      cbn [spec_resolve]. rewrite Hc. reflexivity.
    + apply Hhere. unfold step_fails. inversion H. auto.
Qed.

(* the converse: a walk that succeeds along [pre] and cannot take [t] fails with that error *)
Lemma spec_resolve_err_build pre t post d pos off path c e :
  spec_resolve pre d pos off = Ok (path, c) ->
  step_fails t c (pos + len pre) (off + len (from_tokens_enc pre)) e ->
  spec_resolve (pre ++ t :: post) d pos off = Err e.
Proof.
  intros Hpre Hstep. rewrite spec_resolve_app, Hpre.
  rewrite (step_fails_resolve _ post _ _ _ _ Hstep). reflexivity.
Qed.


Theorem spec_resolve_error_first_failure ts d e :
  spec_resolve ts d 0 0 = Err e <-> first_failure ts d e.
Proof.
  split.
  - intros H. destruct (spec_resolve_err_split _ _ _ _ _ H) as (pre & t & post & path & c & Hts & Hpre & Hstep).
    exists pre, t, post, path, c. split; [exact Hts|]. split; [exact Hpre|].
    rewrite !N.add_0_l in Hstep. unfold step_fails in Hstep.
    destruct c as [| | | | |a|m]; try (subst e; cbn; repeat split; reflexivity).
    + destruct (index_from_str t) as [[n|]|pe] eqn:Hi.
      * destruct Hstep as [Hn ->]. cbn. repeat split. exists a. repeat split. right. auto.
      * subst e. cbn. repeat split. exists a. repeat split. left. auto.
      * subst e. cbn. repeat split. exists a. auto.
    + destruct Hstep as [Hn ->]. cbn. repeat split. exists m. auto.
  - intros (pre & t & post & path & c & -> & Hpre & Hp & Ho & Hcase).
    apply (spec_resolve_err_build pre t post d 0 0 path c e Hpre).
    rewrite !N.add_0_l. unfold step_fails.
    destruct e as [p o pe|p o l i|p o|p o]; cbn [re_position re_offset] in Hp, Ho; subst p o.
    + destruct Hcase as (a & -> & Hi). rewrite Hi. reflexivity.
    + destruct Hcase as (a & -> & -> & [[Hi ->]|[Hi Hle]]); rewrite Hi; auto.
    + destruct Hcase as (m & -> & Hl). auto.
    + unfold is_scalar in Hcase. destruct c; try reflexivity; discriminate.
Qed.

(* ---- assign: errors, atomicity ---------------------------------------------------------------------- *)

Definition assign_step_fails (t : str) (c : value) (pos off : N) (e : assign_error) : Prop :=
  exists a, c = Arr a /\
    match index_from_str t with
    | Err pe => e = AFailedToParseIndex pos off pe
    | Ok Next => False
    | Ok (Num n) => len a < n /\ e = AOutOfBounds pos off (len a) n
    end.

Lemma spec_assign_err_split ts : forall d v pos off d' e,
  spec_assign ts d v pos off = (d', Err e) ->
  exists pre t post path c,
    ts = pre ++ t :: post /\ spec_resolve pre d pos off = Ok (path, c) /\
    assign_step_fails t c (pos + len pre) (off + len (from_tokens_enc pre)) e.
Proof.
  induction ts as [|t r IH]; intros d v pos off d' e H; cbn [spec_assign] in H; [discriminate|].
  assert (Hhere : assign_step_fails t d pos off e ->
    exists pre t0 post path c,
      t :: r = pre ++ t0 :: post /\ spec_resolve pre d pos off = Ok (path, c) /\
      assign_step_fails t0 c (pos + len pre) (off + len (from_tokens_enc pre)) e).
  { intros Hs. exists [], t, r, [], d. cbn [app spec_resolve from_tokens_enc flat_map].
    rewrite len_nil, !N.add_0_r. auto. }
  assert (Hdeeper : forall c c' s,
    spec_resolve [t] d pos off = Ok ([s], c) ->
    spec_assign r c v (pos + 1) (off + (1 + len t)) = (c', Err e) ->
    exists pre t0 post path c0,
      t :: r = pre ++ t0 :: post /\ spec_resolve pre d pos off = Ok (path, c0) /\
      assign_step_fails t0 c0 (pos + len pre) (off + len (from_tokens_enc pre)) e).
  { intros c c' s Hone Hrest.
    destruct (IH _ _ _ _ _ _ Hrest) as (pre & t0 & post & path & c0 & -> & Hpre & Hstep).
    exists (t :: pre), t0, post, (s :: path), c0. split; [reflexivity|]. split.
    - change (t :: pre) with ([t] ++ pre). rewrite spec_resolve_app, Hone.
      replace (pos + len [t]) with (pos + 1) by (rewrite len_cons, len_nil; lia).
      replace (off + len (from_tokens_enc [t])) with (off + (1 + len t))
        by (rewrite len_from_tokens_enc_cons; cbn [from_tokens_enc flat_map]; rewrite len_nil; lia).
      rewrite Hpre. reflexivity.
    - replace (pos + len (t :: pre)) with (pos + 1 + len pre) by (rewrite len_cons; lia).
      replace (off + len (from_tokens_enc (t :: pre))) with (off + (1 + len t) + len (from_tokens_enc pre))
        by (rewrite len_from_tokens_enc_cons; lia).
      exact Hstep. }
  destruct d as [| | | | |a|m];
    try (destruct (str_eqb t [ZERO] || str_eqb t [DASH]); discriminate).
  - destruct (index_from_str t) as [i|pe] eqn:Hi.
    + cbv zeta in H.
      destruct ((match i with Num n => n | Next => len a end) <? len a) eqn:Hn.
      * apply N.ltb_lt in Hn.
        destruct (nth_error_lt_len a _ Hn) as [c Hc]. rewrite Hc in H.
        destruct (spec_assign r c v (pos + 1) (off + (1 + len t))) as [c' res] eqn:E.
        inversion H; subst.
        destruct i as [n|]; [|lia].
        apply (Hdeeper c c' (Idx (N.to_nat n))); [|exact E].
        cbn [spec_resolve]. rewrite Hi. apply N.ltb_lt in Hn. rewrite Hn, Hc. reflexivity.
      * destruct ((match i with Num n => n | Next => len a end) =? len a) eqn:Hq; [discriminate|].
        apply N.ltb_ge in Hn. apply N.eqb_neq in Hq.
        apply Hhere. exists a. split; [reflexivity|]. rewrite Hi.
        destruct i as [n|]; [|lia]. inversion H; subst. split; [lia|reflexivity].
    + apply Hhere. exists a. split; [reflexivity|]. rewrite Hi. inversion H. reflexivity.
  - destruct (obj_lookup (unescape t) m) as [c|] eqn:Hc; [|discriminate].
    destruct (spec_assign r c v (pos + 1) (off + (1 + len t))) as [c' res] eqn:E.
    inversion H; subst.
    apply (Hdeeper c c' (Key (unescape t))); [|exact E].
    cbn [spec_resolve]. rewrite Hc. reflexivity.
Qed.

(* C07: a failed assign leaves the document as it was *)
Theorem spec_assign_atomic_sorted ts : forall d v pos off d' e,
  sorted_value d -> spec_assign ts d v pos off = (d', Err e) -> d' = d.
Proof.
  induction ts as [|t r IH]; intros d v pos off d' e Hwf H; cbn [spec_assign] in H; [discriminate|].
  destruct d as [| | | | |a|m];
    try (destruct (str_eqb t [ZERO] || str_eqb t [DASH]); discriminate).
  - destruct (index_from_str t) as [i|pe]; [|inversion H; reflexivity].
    cbv zeta in H.
    destruct ((match i with Num n => n | Next => len a end) <? len a).
    + destruct (nth_error a (N.to_nat match i with Num n => n | Next => len a end)) as [c|] eqn:Hc;
        [|inversion H; reflexivity].
      destruct (spec_assign r c v (pos + 1) (off + (1 + len t))) as [c' res] eqn:E.
      inversion H; subst.
      rewrite (IH _ _ _ _ _ _ (sorted_nth _ _ _ Hwf Hc) E). rewrite (set_nth_id _ _ _ Hc). reflexivity.
    + destruct ((match i with Num n => n | Next => len a end) =? len a); [discriminate|].
      inversion H; reflexivity.
  - destruct (obj_lookup (unescape t) m) as [c|] eqn:Hc; [|discriminate].
    destruct (spec_assign r c v (pos + 1) (off + (1 + len t))) as [c' res] eqn:E.
    inversion H; subst.
    rewrite (IH _ _ _ _ _ _ (sorted_lookup _ _ _ Hwf Hc) E).
    apply sorted_Obj_inv in Hwf as [Hs _]. rewrite (obj_insert_lookup_id _ _ _ Hs Hc). reflexivity.
Qed.

Corollary spec_assign_atomic ts d v pos off d' e :
  wf_value d -> spec_assign ts d v pos off = (d', Err e) -> d' = d.
Proof. intros Hwf. apply spec_assign_atomic_sorted, wf_sorted, Hwf. Qed.


Theorem spec_assign_error_first_failure ts d v d' e :
  spec_assign ts d v 0 0 = (d', Err e) -> assign_first_failure ts d e.
Proof.
  intros H. destruct (spec_assign_err_split _ _ _ _ _ _ _ H) as (pre & t & post & path & c & Hts & Hpre & Hstep).
  destruct Hstep as (a & -> & Hstep). exists pre, t, post, path, a.
  split; [exact Hts|]. split; [exact Hpre|]. rewrite !N.add_0_l in Hstep.
  destruct (index_from_str t) as [[n|]|pe]; [destruct Hstep as [Hn ->]|contradiction|subst e]; cbn; auto.
Qed.
