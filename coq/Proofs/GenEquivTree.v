(* Proofs/GenEquivTree.v -- part of the REGENERATED-MODEL tie (DESIGN 13): the definitions of Generated/Scan*.v are
   re-translated from the crate's current Rust source by tools/rs2v.py on every run; the lemmas here
   re-prove, for ALL inputs, that each equals the hand-written model function of Model/*.v that the
   property theorems are stated about.  An edit to a translated function changes the generated term and
   the lemma either still goes through (the edit preserves the function) or breaks (the check then
   searches for a failing input and reports).  Scripts name nothing generated except function names.

   This file: src/resolve.rs and src/assign.rs (Generated/ScanTree.v) -- the error accessors, Diagnostic::labels,
   the helper `parse_index`, the FOUR resolve walks (json / toml x resolve / resolve_mut) and the two `expand`
   copies -- against Model/Tree.v (`resolve`, `expand`, `walk_label`, ...) and SpecHist.v (`parse_index`,
   `json_resolve_mut`).  No validity hypothesis is needed for any of the equalities: they hold for every
   document and every pointer TEXT.

   Direction of the type correspondences: generated -> model.  The generated `InvalidCharacterError` carries
   the token text (`source`), the model's `InvalidCharacter` only the offset, so the generated error types have
   strictly more information and are mapped ONTO the model's ([model_pie], [model_rerr], [model_aerr]). *)

From JP Require Import Proofs.GenEquivBase Value Model.Slice Model.Tree SpecHist
  Generated.ScanToken Generated.ScanPtrOps Generated.ScanSlice Generated.ScanIndex GenTreePrelude Generated.ScanTree
  Proofs.SliceProofs Proofs.GenEquivToken Proofs.GenEquivIndex Proofs.GenEquivPtrOps Proofs.GenEquivSlice.

Arguments N.add : simpl never.
Arguments N.sub : simpl never.
Arguments N.eqb : simpl never.
Arguments N.ltb : simpl never.
Arguments N.leb : simpl never.
Arguments N.of_nat : simpl never.

(* ==== correspondence of the generated types with the model's ===================================================== *)

Definition model_index (i : Index) : index :=
  match i with Index_Num n => Num n | Index_Next => Next end.

Definition model_pie (e : ParseIndexError) : parse_index_error :=
  match e with
  | ParseIndexError_InvalidInteger ParseIntError_Empty => InvalidInteger IntEmpty
  | ParseIndexError_InvalidInteger ParseIntError_PosOverflow => InvalidInteger IntPosOverflow
  | ParseIndexError_InvalidInteger ParseIntError_InvalidDigit => InvalidInteger IntEmpty   (* never produced by the crate: from_str checks the digits first *)
  | ParseIndexError_LeadingZeros => LeadingZeros
  | ParseIndexError_InvalidCharacter c => InvalidCharacter (InvalidCharacterError_offset c)
  end.

Definition model_rerr (e : ResolveError) : resolve_error :=
  match e with
  | ResolveError_FailedToParseIndex p o s => RFailedToParseIndex p o (model_pie s)
  | ResolveError_OutOfBounds p o s => ROutOfBounds p o (OutOfBoundsError_length_ s) (OutOfBoundsError_index s)
  | ResolveError_NotFound p o => RNotFound p o
  | ResolveError_Unreachable p o => RUnreachable p o
  end.

Definition model_aerr (e : AssignError) : assign_error :=
  match e with
  | AssignError_FailedToParseIndex p o s => AFailedToParseIndex p o (model_pie s)
  | AssignError_OutOfBounds p o s => AOutOfBounds p o (OutOfBoundsError_length_ s) (OutOfBoundsError_index s)
  end.

(* [model_pie] undoes the embedding [gen_pie_of] of GenTreePrelude.v, whatever the source text *)
Lemma model_gen_pie (src : str) (e : parse_index_error) : model_pie (gen_pie_of src e) = e.
Proof. destruct e as [[]| |off]; reflexivity. Qed.

Lemma model_gen_index (i : index) : model_index (gen_index_of i) = i.
Proof. destruct i; reflexivity. Qed.

(* the two hand-written embeddings of the model's index (GenEquivBase.v, GenTreePrelude.v) are the same function *)
Lemma gen_index_of_eq (i : index) : gen_index_of i = gen_index i.
Proof. reflexivity. Qed.

(* `Token::to_index` (the primitive [prim_to_index]) in the model's terms *)
Theorem prim_to_index_model (t : Token) :
  match prim_to_index t with
  | Ok i => index_from_str (cow_text (Token_inner t)) = Ok (model_index i)
  | Err e => index_from_str (cow_text (Token_inner t)) = Err (model_pie e)
  end.
Proof.
  unfold prim_to_index. destruct (index_from_str (cow_text (Token_inner t))) as [i|e].
  - rewrite model_gen_index. reflexivity.
  - rewrite model_gen_pie. reflexivity.
Qed.

(* ... and the other way round: the primitive's result is determined by the model's *)
Lemma prim_to_index_tokB (tok : str) :
  prim_to_index (tokB tok) =
  match index_from_str tok with Ok i => Ok (gen_index i) | Err e => Err (gen_pie_of tok e) end.
Proof. reflexivity. Qed.

(* ---- lifting through [outcome] / [result] ------------------------------------------------------------------------ *)

Definition omap {A B} (f : A -> B) (o : outcome A) : outcome B :=
  match o with Ret a => Ret (f a) | Panic => Panic | OutOfFuel => OutOfFuel end.

(* map the error of a generated walk's result through [model_rerr] *)
Definition model_res {A} (r : result A ResolveError) : result A resolve_error :=
  match r with Ok v => Ok v | Err e => Err (model_rerr e) end.

(* drop the selector path the model's walk additionally returns *)
Definition forget_path (r : result (list sel * value) resolve_error) : result value resolve_error :=
  match r with Ok (_, v) => Ok v | Err e => Err e end.

Definition forget (o : outcome (result (list sel * value) resolve_error)) : outcome (result value resolve_error) :=
  omap forget_path o.

Lemma omap_ret_inv {A B} (f : A -> B) (o : outcome A) (b : B) : omap f o = Ret b -> exists a, o = Ret a /\ f a = b.
Proof. destruct o as [a| |]; cbn [omap]; intros H; try discriminate. injection H as <-. eauto. Qed.

(* ==== src/resolve.rs  ResolveError accessors ========================================================================= *)

Theorem gen_ResolveError_offset_eq (e : ResolveError) : gen_ResolveError_offset e = Ret (re_offset (model_rerr e)).
Proof. destruct e; reflexivity. Qed.

Theorem gen_ResolveError_position_eq (e : ResolveError) : gen_ResolveError_position e = Ret (re_position (model_rerr e)).
Proof. destruct e; reflexivity. Qed.

Theorem gen_ResolveError_is_unreachable_eq (e : ResolveError) :
  gen_ResolveError_is_unreachable e = Ret (match model_rerr e with RUnreachable _ _ => true | _ => false end).
Proof. destruct e; reflexivity. Qed.

Theorem gen_ResolveError_is_not_found_eq (e : ResolveError) :
  gen_ResolveError_is_not_found e = Ret (match model_rerr e with RNotFound _ _ => true | _ => false end).
Proof. destruct e; reflexivity. Qed.

Theorem gen_ResolveError_is_out_of_bounds_eq (e : ResolveError) :
  gen_ResolveError_is_out_of_bounds e = Ret (match model_rerr e with ROutOfBounds _ _ _ _ => true | _ => false end).
Proof. destruct e; reflexivity. Qed.

Theorem gen_ResolveError_is_failed_to_parse_index_eq (e : ResolveError) :
  gen_ResolveError_is_failed_to_parse_index e =
  Ret (match model_rerr e with RFailedToParseIndex _ _ _ => true | _ => false end).
Proof. destruct e; reflexivity. Qed.

(* ==== src/assign.rs  AssignError accessors =========================================================================== *)

Theorem gen_AssignError_offset_eq (e : AssignError) : gen_AssignError_offset e = Ret (ae_offset (model_aerr e)).
Proof. destruct e; reflexivity. Qed.

Theorem gen_AssignError_position_eq (e : AssignError) : gen_AssignError_position e = Ret (ae_position (model_aerr e)).
Proof. destruct e; reflexivity. Qed.

Theorem gen_AssignError_is_out_of_bounds_eq (e : AssignError) :
  gen_AssignError_is_out_of_bounds e = Ret (match model_aerr e with AOutOfBounds _ _ _ _ => true | _ => false end).
Proof. destruct e; reflexivity. Qed.

Theorem gen_AssignError_is_failed_to_parse_index_eq (e : AssignError) :
  gen_AssignError_is_failed_to_parse_index e =
  Ret (match model_aerr e with AFailedToParseIndex _ _ _ => true | _ => false end).
Proof. destruct e; reflexivity. Qed.

(* ==== Diagnostic::labels =============================================================================================== *)

(* the body shared by both impls, once position and offset are known: exactly [walk_label] *)
Theorem gen_ResolveError_labels_eq (e : ResolveError) (origin : str) :
  gen_ResolveError_labels e origin =
  Ret (walk_label (re_position (model_rerr e)) (re_offset (model_rerr e)) origin).
Proof.
  unfold gen_ResolveError_labels.
  rewrite gen_ResolveError_position_eq, !gen_ResolveError_offset_eq, gen_get_usize_eq.
  unfold walk_label.
  destruct (get_tok origin (re_position (model_rerr e))) as [tok|]; cbn [option_map]; [|reflexivity].
  rewrite !gen_encoded_eq. cbn [tokB Token_inner cow_text].
  destruct (re_offset (model_rerr e) + 1 <? len origin); reflexivity.
Qed.

Theorem gen_AssignError_labels_eq (e : AssignError) (origin : str) :
  gen_AssignError_labels e origin =
  Ret (walk_label (ae_position (model_aerr e)) (ae_offset (model_aerr e)) origin).
Proof.
  unfold gen_AssignError_labels.
  rewrite gen_AssignError_position_eq, !gen_AssignError_offset_eq, gen_get_usize_eq.
  unfold walk_label.
  destruct (get_tok origin (ae_position (model_aerr e))) as [tok|]; cbn [option_map]; [|reflexivity].
  rewrite !gen_encoded_eq. cbn [tokB Token_inner cow_text].
  destruct (ae_offset (model_aerr e) + 1 <? len origin); reflexivity.
Qed.

(* ==== src/resolve.rs  parse_index ====================================================================================== *)

Theorem gen_parse_index_eq (t : Token) (n pos off : N) :
  exists r, gen_parse_index t n pos off = Ret r /\
            model_res r = parse_index (cow_text (Token_inner t)) n pos off.
Proof.
  unfold gen_parse_index, parse_index, prim_to_index.
  destruct (index_from_str (cow_text (Token_inner t))) as [i|e].
  - rewrite gen_index_of_eq, gen_for_len_eq.
    destruct (for_len i n) as [idx|[l ix]]; cbn [gen_oob]; eexists; split; reflexivity.
  - eexists; split; [reflexivity|]. cbn [model_res model_rerr]. rewrite model_gen_pie. reflexivity.
Qed.

Corollary gen_parse_index_omap (t : Token) (n pos off : N) :
  omap model_res (gen_parse_index t n pos off) = Ret (parse_index (cow_text (Token_inner t)) n pos off).
Proof. destruct (gen_parse_index_eq t n pos off) as (r & -> & <-). reflexivity. Qed.

Corollary gen_parse_index_total (t : Token) (n pos off : N) : exists r, gen_parse_index t n pos off = Ret r.
Proof. destruct (gen_parse_index_eq t n pos off) as (r & H & _). eauto. Qed.

(* ==== the walks ======================================================================================================== *)

(* `&v[idx]` ([list_get], by machine integer) is the model's [nth_error] at the same position *)
Lemma list_get_nth_error {A} (l : list A) (i : N) :
  list_get l i = match nth_error l (N.to_nat i) with Some x => Ret x | None => Panic end.
Proof. unfold list_get. rewrite nth_N_nth_error. reflexivity. Qed.

Lemma cow_text_gen_cow (al : bool) (tx : str) : cow_text (gen_cow al tx) = tx.
Proof. destruct al; reflexivity. Qed.

(* `token.decoded().as_ref()` on a borrowed token is the model's [decoded] *)
Lemma gen_decoded_tokB (tok : str) : exists c, gen_Token_decoded (tokB tok) = Ret c /\ cow_text c = decoded tok.
Proof.
  rewrite gen_decoded_eq. cbn [tokB Token_inner cow_text]. unfold decoded.
  destruct (decoded_cow tok) as [al tx]. cbn [snd]. eexists; split; [reflexivity|apply cow_text_gen_cow].
Qed.

(* One step of a walk, common to the four copies: after [cbn] of both loops.
   - the `while let Some((token, rem)) = ptr.split_front()` head is [split_front];
   - an array step goes through [prim_to_index] + for_len (or the helper parse_index), then `&v[idx]`;
   - an object step through decoded + lookup.
   [IH] closes the recursive calls, whatever selector the model pushed on its [rpath]. *)
(* closing a recursive call: by the induction hypothesis as it stands, or after normalising the counters the source passes on
   (`offset += 1 + tok_len` may be written `offset = offset + tok_len + 1`: same number, different term) *)
Ltac close_rec IH :=
  first [ apply IH
        | match goal with
          | |- omap _ (?g ?fuel ?self ?ptr ?o1 ?p1 ?v) = forget (?m ?fuel' ?ptr' ?v' ?o2 ?p2 ?rp) =>
              replace o1 with o2 by lia; replace p1 with p2 by lia; apply IH
          end ].

Ltac walk_head ptr :=
  rewrite gen_split_front_eq;
  destruct (split_front ptr) as [[tok rem]|]; cbn [option_map]; [|reflexivity];
  rewrite gen_encoded_eq; cbn [tokB Token_inner cow_text].

Ltac walk_obj IH tok m :=
  let c := fresh "c" in let Hc := fresh "Hc" in let Ht := fresh "Ht" in
  destruct (gen_decoded_tokB tok) as (c & Hc & Ht); rewrite Hc, Ht;
  destruct (obj_lookup (decoded tok) m); [close_rec IH|reflexivity].

Ltac walk_child IH l idx :=
  rewrite list_get_nth_error; destruct (nth_error l (N.to_nat idx)); [close_rec IH|reflexivity].

(* the inline array step: token.to_index().map_err(..)?.for_len(v.len()).map_err(..)? ; &v[idx] *)
Ltac walk_arr_inline IH tok l :=
  rewrite prim_to_index_tokB;
  destruct (index_from_str tok) as [i|e];
  [ rewrite gen_for_len_eq;
    destruct (for_len i (len l)) as [idx|[l' ix]]; cbn [gen_oob];
    [ walk_child IH l idx | reflexivity ]
  | cbn [omap model_res model_rerr forget forget_path]; rewrite model_gen_pie; reflexivity ].

(* ---- serde_json  Value::resolve --------------------------------------------------------------------------------------- *)

Lemma gen_json_resolve_loop_eq (self : value) : forall fuel ptr v off pos rpath,
  omap model_res (gen_json_resolve_loop1 fuel self ptr off pos v) = forget (resolve_loop fuel ptr v off pos rpath).
Proof.
  induction fuel as [|fuel IH]; intros ptr v off pos rpath; cbn [gen_json_resolve_loop1 resolve_loop]; [reflexivity|].
  walk_head ptr.
  destruct v as [| | | | |l|m]; try reflexivity.
  - walk_arr_inline IH tok l.
  - walk_obj IH tok m.
Qed.

Theorem gen_json_resolve_eq (d : value) (p : str) : omap model_res (gen_json_resolve d p) = forget (resolve p d).
Proof. apply gen_json_resolve_loop_eq. Qed.

(* ---- toml  Value::resolve --------------------------------------------------------------------------------------------- *)

Lemma gen_toml_resolve_loop_eq (self : value) : forall fuel ptr v off pos rpath,
  omap model_res (gen_toml_resolve_loop1 fuel self ptr off pos v) = forget (resolve_loop fuel ptr v off pos rpath).
Proof.
  induction fuel as [|fuel IH]; intros ptr v off pos rpath; cbn [gen_toml_resolve_loop1 resolve_loop]; [reflexivity|].
  walk_head ptr.
  destruct v as [| | | | |l|m]; try reflexivity.
  - walk_arr_inline IH tok l.
  - walk_obj IH tok m.
Qed.

Theorem gen_toml_resolve_eq (d : value) (p : str) : omap model_res (gen_toml_resolve d p) = forget (resolve p d).
Proof. apply gen_toml_resolve_loop_eq. Qed.

(* ---- toml  Value::resolve_mut ----------------------------------------------------------------------------------------- *)

Lemma gen_toml_resolve_mut_loop_eq (self : value) : forall fuel ptr v off pos rpath,
  omap model_res (gen_toml_resolve_mut_loop1 fuel self ptr off pos v) = forget (resolve_loop fuel ptr v off pos rpath).
Proof.
  induction fuel as [|fuel IH]; intros ptr v off pos rpath; cbn [gen_toml_resolve_mut_loop1 resolve_loop]; [reflexivity|].
  walk_head ptr.
  destruct v as [| | | | |l|m]; try reflexivity.
  - walk_arr_inline IH tok l.
  - walk_obj IH tok m.
Qed.

Theorem gen_toml_resolve_mut_eq (d : value) (p : str) :
  omap model_res (gen_toml_resolve_mut d p) = forget (resolve p d).
Proof. apply gen_toml_resolve_mut_loop_eq. Qed.

(* ---- serde_json  Value::resolve_mut: the copy that goes through the helper `parse_index` ------------------------------ *)

Lemma gen_json_resolve_mut_loop_eq (self : value) : forall fuel ptr v off pos rpath,
  omap model_res (gen_json_resolve_mut_loop1 fuel self ptr off pos v) =
  forget (json_resolve_mut_loop fuel ptr v off pos rpath).
Proof.
  induction fuel as [|fuel IH]; intros ptr v off pos rpath;
    cbn [gen_json_resolve_mut_loop1 json_resolve_mut_loop]; [reflexivity|].
  walk_head ptr.
  destruct v as [| | | | |l|m]; try reflexivity.
  - destruct (gen_parse_index_eq (tokB tok) (len l) pos off) as (r & Hr & Hm).
    cbn [tokB Token_inner cow_text] in Hm. rewrite Hr, <- Hm.
    destruct r as [idx|e]; cbn [model_res]; [|reflexivity].
    walk_child IH l idx.
  - walk_obj IH tok m.
Qed.

Theorem gen_json_resolve_mut_eq (d : value) (p : str) :
  omap model_res (gen_json_resolve_mut d p) = forget (json_resolve_mut p d).
Proof. apply gen_json_resolve_mut_loop_eq. Qed.

(* ==== src/assign.rs  expand (both backends) ============================================================================= *)

Ltac expand_step IH rem :=
  rewrite gen_split_back_eq;
  destruct (split_back rem) as [[ptr tok]|]; cbn [option_map]; [|reflexivity];
  rewrite gen_encoded_eq; cbn [tokB Token_inner cow_text];
  change ZERO with 48; change DASH with 45;
  destruct (str_eqb tok [48]); cbn [orb]; [apply IH|];
  destruct (str_eqb tok [45]); [apply IH|];
  let c := fresh "c" in let Hc := fresh "Hc" in let Ht := fresh "Ht" in
  destruct (gen_decoded_tokB tok) as (c & Hc & Ht); rewrite Hc, Ht; apply IH.

Lemma gen_json_expand_loop_eq : forall fuel rem v, gen_json_expand_loop1 fuel rem v = expand_loop fuel rem v.
Proof.
  induction fuel as [|fuel IH]; intros rem v; cbn [gen_json_expand_loop1 expand_loop]; [reflexivity|].
  expand_step IH rem.
Qed.

Theorem gen_json_expand_eq (r : str) (v : value) : gen_json_expand r v = expand r v.
Proof. apply gen_json_expand_loop_eq. Qed.

Lemma gen_toml_expand_loop_eq : forall fuel rem v, gen_toml_expand_loop1 fuel rem v = expand_loop fuel rem v.
Proof.
  induction fuel as [|fuel IH]; intros rem v; cbn [gen_toml_expand_loop1 expand_loop]; [reflexivity|].
  expand_step IH rem.
Qed.

Theorem gen_toml_expand_eq (r : str) (v : value) : gen_toml_expand r v = expand r v.
Proof. apply gen_toml_expand_loop_eq. Qed.

(* ==== consequences, stated of the regenerated functions themselves ====================================================== *)

From JP Require Import Proofs.TreeRefine Proofs.HistoryProofs.

(* the helper-based JSON resolve_mut, against the model's single [resolve] *)
Theorem gen_json_resolve_mut_eq_resolve (d : value) (p : str) :
  omap model_res (gen_json_resolve_mut d p) = forget (resolve p d).
Proof. rewrite gen_json_resolve_mut_eq, json_resolve_mut_same. reflexivity. Qed.

(* C09: json vs toml, resolve vs resolve_mut: the four walks of the source return the same thing *)
Theorem gen_walks_agree (d : value) (p : str) :
  omap model_res (gen_json_resolve d p) = omap model_res (gen_toml_resolve d p) /\
  omap model_res (gen_json_resolve d p) = omap model_res (gen_json_resolve_mut d p) /\
  omap model_res (gen_json_resolve d p) = omap model_res (gen_toml_resolve_mut d p).
Proof.
  rewrite gen_json_resolve_eq, gen_toml_resolve_eq, gen_json_resolve_mut_eq_resolve, gen_toml_resolve_mut_eq.
  repeat split; reflexivity.
Qed.

(* the errors agree up to [model_rerr] only (the map forgets the text carried by InvalidCharacterError); the SUCCESSES
   and the outcome kind agree on the nose *)
Lemma omap_model_res_ok {A} (o : outcome (result A ResolveError)) (v : A) :
  omap model_res o = Ret (Ok v) -> o = Ret (Ok v).
Proof.
  intros H. apply omap_ret_inv in H as (r & -> & Hr). destruct r as [a|e]; cbn [model_res] in Hr; [|discriminate].
  injection Hr as ->. reflexivity.
Qed.

Theorem gen_walks_agree_ok (d : value) (p : str) (v : value) :
  (gen_json_resolve d p = Ret (Ok v) <-> gen_toml_resolve d p = Ret (Ok v)) /\
  (gen_json_resolve d p = Ret (Ok v) <-> gen_json_resolve_mut d p = Ret (Ok v)) /\
  (gen_json_resolve d p = Ret (Ok v) <-> gen_toml_resolve_mut d p = Ret (Ok v)).
Proof.
  destruct (gen_walks_agree d p) as (H1 & H2 & H3).
  repeat split; intros H; apply omap_model_res_ok;
    first [ rewrite <- H1, H; reflexivity | rewrite <- H2, H; reflexivity | rewrite <- H3, H; reflexivity
          | rewrite H1, H; reflexivity | rewrite H2, H; reflexivity | rewrite H3, H; reflexivity ].
Qed.

(* C05: on a valid pointer none of the four walks panics (the `&v[idx]` indexing is in range) or exhausts its fuel *)
Lemma omap_forget_total (o : outcome (result value ResolveError)) m :
  omap model_res o = forget m -> m <> Panic /\ m <> OutOfFuel -> exists r, o = Ret r.
Proof.
  intros H [Hp Hf]. destruct m as [r| |]; try congruence.
  cbn [forget omap] in H. apply omap_ret_inv in H as (a & -> & _). eauto.
Qed.

Theorem gen_walks_total (d : value) (p : str) : valid_ptr p = true ->
  (exists r, gen_json_resolve d p = Ret r) /\
  (exists r, gen_toml_resolve d p = Ret r) /\
  (exists r, gen_json_resolve_mut d p = Ret r) /\
  (exists r, gen_toml_resolve_mut d p = Ret r).
Proof.
  intros Hp. pose proof (resolve_no_panic p d Hp) as Hn.
  repeat split.
  - exact (omap_forget_total _ _ (gen_json_resolve_eq d p) Hn).
  - exact (omap_forget_total _ _ (gen_toml_resolve_eq d p) Hn).
  - exact (omap_forget_total _ _ (gen_json_resolve_mut_eq_resolve d p) Hn).
  - exact (omap_forget_total _ _ (gen_toml_resolve_mut_eq d p) Hn).
Qed.

(* the same in the "does not return Panic / OutOfFuel" form of Properties/C05.v *)
Corollary gen_walks_no_panic (d : value) (p : str) : valid_ptr p = true ->
  (gen_json_resolve d p <> Panic /\ gen_json_resolve d p <> OutOfFuel) /\
  (gen_toml_resolve d p <> Panic /\ gen_toml_resolve d p <> OutOfFuel) /\
  (gen_json_resolve_mut d p <> Panic /\ gen_json_resolve_mut d p <> OutOfFuel) /\
  (gen_toml_resolve_mut d p <> Panic /\ gen_toml_resolve_mut d p <> OutOfFuel).
Proof.
  intros Hp. destruct (gen_walks_total d p Hp) as ((a & Ha) & (b & Hb) & (c & Hc) & (e & He)).
  split; [rewrite Ha; split; discriminate|].
  split; [rewrite Hb; split; discriminate|].
  split; [rewrite Hc; split; discriminate|].
  rewrite He; split; discriminate.
Qed.

(* on a valid pointer the walks of the source compute the token-by-token specification walk *)
Theorem gen_walks_refine (d : value) (p : str) : valid_ptr p = true ->
  omap model_res (gen_json_resolve d p) = Ret (forget_path (SpecTree.spec_resolve (tokens p) d 0 0)) /\
  omap model_res (gen_toml_resolve d p) = Ret (forget_path (SpecTree.spec_resolve (tokens p) d 0 0)) /\
  omap model_res (gen_json_resolve_mut d p) = Ret (forget_path (SpecTree.spec_resolve (tokens p) d 0 0)) /\
  omap model_res (gen_toml_resolve_mut d p) = Ret (forget_path (SpecTree.spec_resolve (tokens p) d 0 0)).
Proof.
  intros Hp.
  rewrite gen_json_resolve_eq, gen_toml_resolve_eq, gen_json_resolve_mut_eq_resolve, gen_toml_resolve_mut_eq,
    (resolve_refines p d Hp).
  repeat split; reflexivity.
Qed.

(* C06: expand never panics on a valid pointer either (the model-level theorem, transported) *)
Theorem gen_expand_total (r : str) (v : value) : valid_ptr r = true ->
  gen_json_expand r v = Ret (SpecTree.materialise (tokens r) v) /\
  gen_toml_expand r v = Ret (SpecTree.materialise (tokens r) v).
Proof.
  intros Hr. rewrite gen_json_expand_eq, gen_toml_expand_eq, (expand_refines r v Hr). split; reflexivity.
Qed.

(* C15: an error of any of the four walks of the source locates the culprit token of the pointer (position,
   offset, `get`, `split_at`, the '/' byte) and its own Diagnostic::labels covers exactly that token *)
From JP Require Import Proofs.ModelLaws.

Lemma gen_walk_err_model (o : outcome (result value ResolveError)) m (e : ResolveError) :
  omap model_res o = forget m -> o = Ret (Err e) -> m = Ret (Err (model_rerr e)).
Proof.
  intros H ->. cbn [omap model_res] in H. symmetry in H.
  apply omap_ret_inv in H as (r & -> & Hr). destruct r as [[path v]|e']; cbn [forget_path] in Hr; [discriminate|].
  injection Hr as ->. reflexivity.
Qed.

Theorem gen_walks_error_diag (d : value) (p : str) (e : ResolveError) : valid_ptr p = true ->
  gen_json_resolve d p = Ret (Err e) \/ gen_toml_resolve d p = Ret (Err e) \/
  gen_json_resolve_mut d p = Ret (Err e) \/ gen_toml_resolve_mut d p = Ret (Err e) ->
  SpecTree.error_locates_culprit p (re_position (model_rerr e)) (re_offset (model_rerr e)) /\
  exists o l, gen_ResolveError_labels e p = Ret (Some (o, l)).
Proof.
  intros Hp H.
  assert (Hm : resolve p d = Ret (Err (model_rerr e))).
  { destruct H as [H|[H|[H|H]]].
    - exact (gen_walk_err_model _ _ e (gen_json_resolve_eq d p) H).
    - exact (gen_walk_err_model _ _ e (gen_toml_resolve_eq d p) H).
    - exact (gen_walk_err_model _ _ e (gen_json_resolve_mut_eq_resolve d p) H).
    - exact (gen_walk_err_model _ _ e (gen_toml_resolve_mut_eq d p) H). }
  pose proof (resolve_error_diag p d (model_rerr e) Hp Hm) as D. split; [exact D|].
  destruct D as (k & culprit & _ & _ & _ & _ & _ & o & l & Hl & _).
  exists o, l. rewrite gen_ResolveError_labels_eq, Hl. reflexivity.
Qed.
