(* Proofs/GenEquivPtrOps.v -- part of the REGENERATED-MODEL tie (DESIGN 13): the definitions of Generated/Scan*.v are
   re-translated from the crate's current Rust source by tools/rs2v.py on every run; the lemmas here
   re-prove, for ALL inputs, that each equals the hand-written model function of Model/*.v that the
   property theorems are stated about.  An edit to a translated function changes the generated term and
   the lemma either still goes through (the edit preserves the function) or breaks (the check then
   searches for a failing input and reports).  Scripts name nothing generated except function names.

   This file: src/pointer.rs accessors / splitting / prefix-suffix operations (Generated/ScanPtrOps.v)
   against Model/Pointer.v.  No validity hypothesis is needed for any of the equalities. *)

From Coq Require Import Arith.
From JP Require Import Proofs.GenEquivBase Generated.ScanToken Generated.ScanPtrOps Proofs.PrefixProofs.

Arguments N.add : simpl never.
Arguments N.sub : simpl never.
Arguments N.eqb : simpl never.
Arguments N.ltb : simpl never.
Arguments N.leb : simpl never.
Arguments N.of_nat : simpl never.

(* a borrowed token: what every accessor of the source returns *)
Definition tokB (t : str) : Token := mk_Token (Cow_Borrowed t).

(* ---- the primitives of GenPrelude.v on the arguments the source passes them ---------------------------- *)

Lemma str_tokens_eq p : str_tokens p = ptokens p.
Proof. reflexivity. Qed.

Lemma len_eqb0_is_root (p : str) : (len p =? 0) = is_root p.
Proof.
  destruct p as [|b r]; [reflexivity|]. rewrite len_cons. cbn [is_root].
  destruct (N.eqb_spec (len r + 1) 0) as [E|E]; [lia|reflexivity].
Qed.

Lemma len_eqb_length {A} (a b : list A) : (len a =? len b) = Nat.eqb (length a) (length b).
Proof.
  unfold len. destruct (N.eqb_spec (N.of_nat (length a)) (N.of_nat (length b))) as [E|E];
    destruct (Nat.eqb_spec (length a) (length b)) as [F|F]; try reflexivity; lia.
Qed.

Lemma slice_from_1_cons (b : N) (r : str) : slice_from (b :: r) 1 = Ret r.
Proof.
  unfold slice_from. rewrite len_cons.
  destruct (N.leb_spec 1 (len r + 1)) as [H|H]; [|lia]. reflexivity.
Qed.

Lemma nth_N_some_lt {A} (l : list A) : forall i x, nth_N l i = Some x -> i < len l.
Proof.
  induction l as [|y l IH]; intros i x; cbn [nth_N]; [discriminate|].
  rewrite len_cons. destruct (N.eqb_spec i 0) as [E|E]; [lia|].
  intros H. apply IH in H. lia.
Qed.

(* `str::split_at` panics off a char boundary; a position holding an ASCII byte (here always the '/' the crate has just found or
   checked) is a boundary by the byte-level test core performs: no well-formedness hypothesis is needed *)
Lemma is_char_boundary_at_ascii (s : str) (i : N) (b : N) : nth_N s i = Some b -> b < 128 -> is_char_boundary s i = true.
Proof.
  intros H Hb. unfold is_char_boundary. rewrite H.
  destruct (N.leb_spec 128 b) as [A|A]; [lia|]. cbn [andb negb]. rewrite !Bool.orb_true_r. reflexivity.
Qed.

Lemma str_split_at_at_ascii (s : str) (i : N) (b : N) : nth_N s i = Some b -> b < 128 ->
  str_split_at s i = Ret (firstn (N.to_nat i) s, skipn (N.to_nat i) s).
Proof.
  intros H Hb. unfold str_split_at. rewrite (is_char_boundary_at_ascii s i b H Hb).
  apply nth_N_some_lt in H. destruct (N.leb_spec i (len s)) as [A|A]; [reflexivity|lia].
Qed.

Lemma find_nth_N (c : N) (s : str) (i : nat) : find c s = Some i -> nth_N s (N.of_nat i) = Some c.
Proof.
  unfold find. intros F. destruct (position_some _ _ _ F) as (a & b & r & -> & Hl & Hb & _).
  apply N.eqb_eq in Hb. subst b. replace (N.of_nat i) with (len a) by (unfold len; rewrite Hl; reflexivity).
  apply nth_N_app_len.
Qed.


(* ---- src/pointer.rs  is_root / count -------------------------------------------------------------------- *)

Theorem gen_is_root_eq (p : str) : gen_Pointer_is_root p = Ret (is_root p).
Proof. unfold gen_Pointer_is_root. rewrite len_eqb0_is_root. reflexivity. Qed.

Theorem gen_count_eq (p : str) : gen_Pointer_count p = Ret (pcount p).
Proof. unfold gen_Pointer_count. rewrite str_tokens_eq. reflexivity. Qed.

(* ---- back / last / front / first ------------------------------------------------------------------------ *)

Theorem gen_back_eq (p : str) : gen_Pointer_back p = Ret (option_map tokB (back p)).
Proof.
  unfold gen_Pointer_back, back. change SLASH with 47.
  destruct (rsplit_once 47 p) as [[a b]|]; reflexivity.
Qed.

Theorem gen_last_eq (p : str) : gen_Pointer_last p = Ret (option_map tokB (back p)).
Proof. unfold gen_Pointer_last. rewrite gen_back_eq. reflexivity. Qed.

Theorem gen_front_eq (p : str) : gen_Pointer_front p = Ret (option_map tokB (front p)).
Proof.
  unfold gen_Pointer_front, front. rewrite gen_is_root_eq. change SLASH with 47.
  destruct p as [|b r]; [reflexivity|]. cbn [is_root skipn].
  rewrite slice_from_1_cons.
  destruct (split_once 47 r) as [[f x]|]; reflexivity.
Qed.

Theorem gen_first_eq (p : str) : gen_Pointer_first p = Ret (option_map tokB (front p)).
Proof. unfold gen_Pointer_first. rewrite gen_front_eq. reflexivity. Qed.

(* ---- split_front / split_at / split_back / parent ------------------------------------------------------- *)

Theorem gen_split_front_eq (p : str) :
  gen_Pointer_split_front p = Ret (option_map (fun '(t, r) => (tokB t, r)) (split_front p)).
Proof.
  unfold gen_Pointer_split_front, split_front. rewrite gen_is_root_eq. change SLASH with 47.
  destruct p as [|b r]; [reflexivity|]. cbn [is_root skipn].
  rewrite slice_from_1_cons. unfold findN.
  destruct (find 47 r) as [i|] eqn:F; cbn [option_map].
  - rewrite (str_split_at_at_ascii r (N.of_nat i) 47 (find_nth_N 47 r i F)) by lia. rewrite Nat2N.id. reflexivity.
  - reflexivity.
Qed.

Theorem gen_split_at_eq (p : str) (k : N) : gen_Pointer_split_at p k = Ret (split_at p k).
Proof.
  unfold gen_Pointer_split_at, split_at, get_byte. change SLASH with 47.
  destruct (nth_N p k) as [b|] eqn:E; cbn [optN_eqb].
  - destruct (N.eqb_spec b 47) as [Hb|Hb]; cbn [negb]; [|reflexivity]. subst b.
    rewrite (str_split_at_at_ascii p k 47 E) by lia. reflexivity.
  - reflexivity.
Qed.

Theorem gen_split_back_eq (p : str) :
  gen_Pointer_split_back p = Ret (option_map (fun '(f, t) => (f, tokB t)) (split_back p)).
Proof.
  unfold gen_Pointer_split_back, split_back. change SLASH with 47.
  destruct (rsplit_once 47 p) as [[a b]|]; reflexivity.
Qed.

Theorem gen_parent_eq (p : str) : gen_Pointer_parent p = Ret (parent p).
Proof.
  unfold gen_Pointer_parent, parent. change SLASH with 47.
  destruct (rsplit_once 47 p) as [[a b]|]; reflexivity.
Qed.

(* ---- strip_suffix / strip_prefix / ends_with / starts_with ---------------------------------------------- *)

Theorem gen_strip_suffix_eq (p q : str) : gen_Pointer_strip_suffix p q = Ret (p_strip_suffix p q).
Proof. unfold gen_Pointer_strip_suffix, p_strip_suffix. destruct (strip_suffix p q); reflexivity. Qed.

Theorem gen_strip_prefix_eq (p q : str) : gen_Pointer_strip_prefix p q = Ret (p_strip_prefix p q).
Proof.
  unfold gen_Pointer_strip_prefix, p_strip_prefix. change SLASH with 47.
  destruct (strip_prefix p q) as [s|]; [|reflexivity].
  rewrite len_eqb0_is_root. destruct (is_root s || starts_with s [47]); reflexivity.
Qed.

Theorem gen_ends_with_eq (p q : str) : gen_Pointer_ends_with p q = Ret (p_ends_with p q).
Proof.
  unfold gen_Pointer_ends_with, p_ends_with. rewrite !gen_is_root_eq.
  destruct (is_root p), (is_root q); reflexivity.
Qed.

(* the model function is itself an [outcome]: the `as_bytes()[other.len()]` index *)
Theorem gen_starts_with_eq (p q : str) : gen_Pointer_starts_with p q = p_starts_with p q.
Proof.
  unfold gen_Pointer_starts_with, p_starts_with, idx_get, get_byte. change SLASH with 47.
  rewrite len_eqb_length.
  destruct (starts_with p q); [|reflexivity].
  destruct (Nat.eqb (length q) (length p)); [reflexivity|].
  destruct (nth_N p (len q)); reflexivity.
Qed.

(* ---- intersection ----------------------------------------------------------------------------------------- *)

Lemma gen_intersection_loop_eq (p q : str) : forall ta tb idx,
  gen_Pointer_intersection_loop1 (combine ta tb) p q idx =
  Ret (match split_at p (inter_loop ta tb idx) with Some (head, _) => head | None => p end).
Proof.
  induction ta as [|a ta IH]; intros tb idx.
  - cbn [combine gen_Pointer_intersection_loop1 inter_loop]. rewrite gen_split_at_eq.
    destruct (split_at p idx) as [[h t]|]; reflexivity.
  - destruct tb as [|b tb]; cbn [combine gen_Pointer_intersection_loop1 inter_loop].
    + rewrite gen_split_at_eq. destruct (split_at p idx) as [[h t]|]; reflexivity.
    + destruct (str_eqb a b); cbn [negb].
      * apply IH.
      * rewrite gen_split_at_eq. destruct (split_at p idx) as [[h t]|]; reflexivity.
Qed.

Theorem gen_intersection_eq (p q : str) : gen_Pointer_intersection p q = Ret (intersection p q).
Proof.
  unfold gen_Pointer_intersection, intersection. rewrite !gen_is_root_eq.
  destruct (is_root p); cbn [orb]; [reflexivity|].
  destruct (is_root q); [reflexivity|].
  rewrite !str_tokens_eq. apply gen_intersection_loop_eq.
Qed.

(* ==== totality ================================================================================================ *)

(* none of these functions, as regenerated from the source, panics or runs out of fuel on any input *)
Theorem gen_ptrops_total : forall (p q : str) (k : N),
  (exists r, gen_Pointer_is_root p = Ret r) /\
  (exists r, gen_Pointer_count p = Ret r) /\
  (exists r, gen_Pointer_back p = Ret r) /\
  (exists r, gen_Pointer_last p = Ret r) /\
  (exists r, gen_Pointer_front p = Ret r) /\
  (exists r, gen_Pointer_first p = Ret r) /\
  (exists r, gen_Pointer_split_front p = Ret r) /\
  (exists r, gen_Pointer_split_at p k = Ret r) /\
  (exists r, gen_Pointer_split_back p = Ret r) /\
  (exists r, gen_Pointer_parent p = Ret r) /\
  (exists r, gen_Pointer_strip_suffix p q = Ret r) /\
  (exists r, gen_Pointer_strip_prefix p q = Ret r) /\
  (exists r, gen_Pointer_ends_with p q = Ret r) /\
  (exists r, gen_Pointer_intersection p q = Ret r).
Proof.
  intros p q k.
  rewrite gen_is_root_eq, gen_count_eq, gen_back_eq, gen_last_eq, gen_front_eq, gen_first_eq,
    gen_split_front_eq, gen_split_at_eq, gen_split_back_eq, gen_parent_eq, gen_strip_suffix_eq,
    gen_strip_prefix_eq, gen_ends_with_eq, gen_intersection_eq.
  repeat split; eexists; reflexivity.
Qed.

(* the splitting functions alone (C12) *)
Corollary gen_split_total : forall (p : str) (k : N),
  (exists r, gen_Pointer_split_front p = Ret r) /\ (exists r, gen_Pointer_split_at p k = Ret r) /\
  (exists r, gen_Pointer_split_back p = Ret r) /\ (exists r, gen_Pointer_parent p = Ret r).
Proof.
  intros p k. rewrite gen_split_front_eq, gen_split_at_eq, gen_split_back_eq, gen_parent_eq.
  repeat split; eexists; reflexivity.
Qed.

(* starts_with: the index `self.0.as_bytes()[other.len()]` is in bounds.  For valid pointers this is
   PrefixProofs.p_starts_with_spec (C13), which also says what the answer means ... *)
Theorem gen_starts_with_total : forall p q : str,
  valid_ptr p = true -> valid_ptr q = true ->
  exists b, gen_Pointer_starts_with p q = Ret b /\ (b = true <-> exists rs, tokens p = tokens q ++ rs).
Proof. intros p q Hp Hq. rewrite gen_starts_with_eq. apply p_starts_with_spec; assumption. Qed.

(* ... and in fact no text at all makes it panic: when `other` is a proper text prefix, `self` is longer *)
Theorem gen_starts_with_total_any : forall p q : str, exists b, gen_Pointer_starts_with p q = Ret b.
Proof.
  intros p q. rewrite gen_starts_with_eq. unfold p_starts_with.
  destruct (starts_with p q) eqn:E; [|eexists; reflexivity].
  apply starts_with_iff in E as [s E].
  destruct (Nat.eqb (length q) (length p)) eqn:L; [eexists; reflexivity|].
  apply Nat.eqb_neq in L. destruct s as [|x s].
  - rewrite app_nil_r in E. subst p. congruence.
  - unfold get_byte. rewrite E, nth_N_app_len. eexists; reflexivity.
Qed.

(* ==== Pointer::tokens and the Tokens iterator ==============================================================================
   Callers of `p.tokens()` are translated with the primitive [str_tokens] (the list of encoded tokens).  Here the source of
   that primitive is tied down as well: `Pointer::tokens` (split at '/', drop the piece before the first '/') followed by
   `Tokens::next` until exhaustion (each piece wrapped by Token::from_encoded_unchecked, borrowed) yields exactly
   [map tokB (str_tokens p)].  What stays primitive is std's `str::split(char)` = [split_on] and `Iterator::next` on it
   = head / tail. *)

Theorem gen_tokens_eq (p : str) : gen_Pointer_tokens p = Ret (mk_Tokens (str_tokens p)).
Proof.
  unfold gen_Pointer_tokens, str_tokens, gen_Tokens_new. destruct (split_on 47 p); reflexivity.
Qed.

Theorem gen_Tokens_next_eq (t : Tokens) :
  gen_Tokens_next t = Ret (mk_Tokens (tl (Tokens_inner t)), option_map tokB (hd_error (Tokens_inner t))).
Proof. unfold gen_Tokens_next. destruct t as [[|x r]]; reflexivity. Qed.

(* calling next until it returns None *)
Fixpoint drain_tokens (fuel : nat) (t : Tokens) : outcome (list Token) :=
  match fuel with
  | O => OutOfFuel
  | S fuel' =>
      match gen_Tokens_next t with
      | Ret (t', Some x) => match drain_tokens fuel' t' with Ret l => Ret (x :: l) | Panic => Panic | OutOfFuel => OutOfFuel end
      | Ret (_, None) => Ret []
      | Panic => Panic
      | OutOfFuel => OutOfFuel
      end
  end.

Lemma drain_tokens_eq : forall (l : list str) (fuel : nat), (length l < fuel)%nat ->
  drain_tokens fuel (mk_Tokens l) = Ret (map tokB l).
Proof.
  induction l as [|x r IH]; intros fuel H; destruct fuel as [|fuel]; try (exfalso; inversion H; fail);
    cbn [drain_tokens]; rewrite gen_Tokens_next_eq; cbn [Tokens_inner hd_error tl option_map map]; [reflexivity|].
  rewrite IH by (cbn [length] in H; apply Nat.succ_lt_mono; exact H). reflexivity.
Qed.

Theorem gen_tokens_iterates (p : str) :
  exists t, gen_Pointer_tokens p = Ret t /\
            drain_tokens (S (length (str_tokens p))) t = Ret (map tokB (str_tokens p)) /\
            (* after the last token the iterator keeps returning None (it is fused) *)
            gen_Tokens_next (mk_Tokens []) = Ret (mk_Tokens [], None).
Proof.
  exists (mk_Tokens (str_tokens p)). split; [apply gen_tokens_eq|]. split; [|reflexivity].
  apply drain_tokens_eq. apply Nat.lt_succ_diag_r.
Qed.

(* ---- src/component.rs  Components: Root, then the tokens ------------------------------------------------------------------ *)

Fixpoint drain_components (fuel : nat) (c : Components) : outcome (list Component) :=
  match fuel with
  | O => OutOfFuel
  | S fuel' =>
      match gen_Components_next c with
      | Ret (c', Some x) =>
          match drain_components fuel' c' with Ret l => Ret (x :: l) | Panic => Panic | OutOfFuel => OutOfFuel end
      | Ret (_, None) => Ret []
      | Panic => Panic
      | OutOfFuel => OutOfFuel
      end
  end.

Lemma drain_components_sent : forall (l : list str) (fuel : nat), (length l < fuel)%nat ->
  drain_components fuel (mk_Components (mk_Tokens l) true) = Ret (map (fun t => Component_Token (tokB t)) l).
Proof.
  induction l as [|x r IH]; intros fuel H; destruct fuel as [|fuel]; try (exfalso; inversion H; fail);
    cbn [drain_components]; unfold gen_Components_next; cbn [Components_sent_root Components_tokens negb];
    rewrite gen_Tokens_next_eq; cbn [Tokens_inner hd_error tl option_map map fst snd]; [reflexivity|].
  rewrite IH by (cbn [length] in H; apply Nat.succ_lt_mono; exact H). reflexivity.
Qed.

Theorem gen_components_iterates (p : str) :
  exists c, gen_Components_from p = Ret c /\
    drain_components (S (S (length (str_tokens p)))) c =
    Ret (Component_Root :: map (fun t => Component_Token (tokB t)) (str_tokens p)).
Proof.
  eexists; split; [reflexivity|].
  change (drain_components (S (S (length (str_tokens p)))) (mk_Components (mk_Tokens (str_tokens p)) false))
    with (match drain_components (S (length (str_tokens p))) (mk_Components (mk_Tokens (str_tokens p)) true) with
          | Ret l => Ret (Component_Root :: l) | Panic => Panic | OutOfFuel => OutOfFuel end).
  rewrite drain_components_sent by apply Nat.lt_succ_diag_r. reflexivity.
Qed.
