(* Proofs/GenEquivPtrBuild.v -- part of the REGENERATED-MODEL tie (DESIGN 13): Pointer::to_buf, len, is_empty,
   with_trailing_token, with_leading_token, concat as re-translated from src/pointer.rs (Generated/ScanPtrBuild.v)
   equal the hand-written models, and, with the accessors of GenEquivPtrOps / GenEquivSlice, the statement of C04 for
   the functions as they stand in the source. *)

From JP Require Import Proofs.GenEquivBase Generated.ScanToken Generated.ScanPtrOps Generated.ScanSlice Generated.ScanBuf
  Generated.ScanPtrBuild Proofs.GenEquivPtrOps Proofs.GenEquivSlice Proofs.GenEquivBuf Proofs.GenEquivToken
  Proofs.TokenProofs Proofs.TokensProofs.

Theorem gen_to_buf_eq p : gen_Pointer_to_buf p = Ret p.
Proof. reflexivity. Qed.

Theorem gen_len_eq p : gen_Pointer_len p = Ret (len p).
Proof. reflexivity. Qed.

Theorem gen_is_empty_eq p : gen_Pointer_is_empty p = Ret (is_root p).
Proof. unfold gen_Pointer_is_empty. rewrite len_eqb0_is_root. reflexivity. Qed.

Theorem gen_with_trailing_token_eq p t :
  gen_Pointer_with_trailing_token p t = Ret (with_trailing_token p (cow_text (Token_inner t))).
Proof. unfold gen_Pointer_with_trailing_token. rewrite gen_to_buf_eq, gen_push_back_eq. reflexivity. Qed.

Theorem gen_with_leading_token_eq p t :
  gen_Pointer_with_leading_token p t = Ret (with_leading_token p (cow_text (Token_inner t))).
Proof. unfold gen_Pointer_with_leading_token. rewrite gen_to_buf_eq, gen_push_front_eq. reflexivity. Qed.

Theorem gen_concat_eq p q : gen_Pointer_concat p q = Ret (concat_ptr p q).
Proof. unfold gen_Pointer_concat. rewrite gen_to_buf_eq, gen_append_eq. reflexivity. Qed.

(* ==== C04, stated of the regenerated functions ================================================= *)

(* the accessors agree with the token list *)
Theorem gen_accessors_agree : forall p : str,
  valid_ptr p = true ->
  let ts := tokens p in
  gen_Pointer_count p = Ret (len ts) /\
  gen_Pointer_is_root p = Ret (match ts with [] => true | _ => false end) /\
  gen_Pointer_front p = Ret (option_map tokB (hd_error ts)) /\
  gen_Pointer_first p = Ret (option_map tokB (hd_error ts)) /\
  gen_Pointer_back p = Ret (option_map tokB (match rev ts with [] => None | t :: _ => Some t end)) /\
  gen_Pointer_last p = Ret (option_map tokB (match rev ts with [] => None | t :: _ => Some t end)) /\
  (forall i, gen_get_usize i p = Ret (option_map tokB (nth_N ts i))) /\
  gen_Pointer_len p = Ret (len p) /\
  gen_Pointer_is_empty p = Ret (match ts with [] => true | _ => false end).
Proof.
  intros p Hp ts.
  destruct (accessors_agree p Hp) as (Hc & Hr & Hf & Hb & Hg & _).
  assert (Hroot : is_root p = match ts with [] => true | _ => false end).
  { subst ts. destruct (tokens p) as [|t0 r0] eqn:E.
    - apply (proj2 Hr). reflexivity.
    - destruct (is_root p) eqn:R; [|reflexivity]. pose proof (proj1 Hr eq_refl) as H0. discriminate. }
  rewrite gen_count_eq, gen_is_root_eq, gen_front_eq, gen_first_eq, gen_back_eq, gen_last_eq, gen_len_eq, gen_is_empty_eq.
  rewrite Hc, Hf, Hb, Hroot.
  repeat match goal with |- _ /\ _ => split end; reflexivity.
Qed.

(* the builders are snoc / cons / append on the token lists, through the source's own Token::new *)
Theorem gen_builders_agree : forall (p q : str) (c : Cow),
  valid_ptr p = true -> valid_ptr q = true ->
  exists t pt pl pc,
    gen_Token_new c = Ret t /\
    gen_Pointer_with_trailing_token p t = Ret pt /\ valid_ptr pt = true /\ tokens pt = tokens p ++ [encode (cow_text c)] /\
    gen_Pointer_with_leading_token p t = Ret pl /\ valid_ptr pl = true /\ tokens pl = encode (cow_text c) :: tokens p /\
    gen_Pointer_concat p q = Ret pc /\ valid_ptr pc = true /\ tokens pc = tokens p ++ tokens q.
Proof.
  intros p q c Hp Hq. destruct (gen_token_new_model c) as (t & Ht & Htext & _).
  exists t. rewrite gen_with_trailing_token_eq, gen_with_leading_token_eq, gen_concat_eq, Htext, token_new_text.
  destruct (builders_agree p (cow_text c) q Hp Hq) as (H1 & H2 & H3 & V1 & V2 & V3).
  do 3 eexists. repeat split; try reflexivity; assumption.
Qed.
