(* Proofs/GenEquivTreeMut.v -- part of the REGENERATED-MODEL tie (DESIGN 13.8): the walks of the crate that MUTATE a
   document through `&mut` references (Generated/ScanTreeMut.v, translated in LENS MODE by tools/rs2v.py from the current
   source on every run) against the hand-written model of Model/Tree.v.

   Lens mode: a `&mut` reference into the document is the pair (content, write-back) of [GenTreePrelude.lens]; a
   translated function returns the document after its writes beside its result.  The hand-written model instead
   carries SELECTOR PATHS and rebuilds the document with [update_at].  The bridge is [lens_at]: a reference that the
   source derived step by step (`match r { Array(a) => &mut a[i] }`, `m.get_mut(k)`) shows the node at a path and
   writes back exactly like [update_at] on that path.  With it

     - `resolve_mut` (both backends) returns a reference AT the path the model's [resolve] returns, showing the
       same node, and leaves the document alone;
     - `delete` (both backends) equals the model's [delete]: same document afterwards, same removed value,
       same panics -- for EVERY document and EVERY pointer text (no validity hypothesis).                                *)

From JP Require Import Proofs.GenEquivBase Value Model.Slice Model.Tree SpecHist
  Generated.ScanToken Generated.ScanPtrOps Generated.ScanSlice Generated.ScanIndex GenTreePrelude Generated.ScanTree
  Generated.ScanTreeMut
  Proofs.SliceProofs Proofs.GenEquivToken Proofs.GenEquivIndex Proofs.GenEquivPtrOps Proofs.GenEquivSlice
  Proofs.ValueFacts Proofs.TreeRefine Proofs.GenEquivTree.

Arguments N.add : simpl never.
Arguments N.sub : simpl never.
Arguments N.eqb : simpl never.
Arguments N.ltb : simpl never.
Arguments N.leb : simpl never.
Arguments N.of_nat : simpl never.

(* ==== references as paths ================================================================================================ *)

Definition lens_at (d : value) (path : list sel) (l : lens value) : Prop :=
  get_at path d = Some (fst l) /\ forall x, snd l x = update_at path (fun _ => x) d.

Lemma lens_at_root d : lens_at d [] (lens_root d).
Proof. split; [reflexivity|]. intros x. reflexivity. Qed.

Lemma update_at_app p : forall q f d, update_at (p ++ q) f d = update_at p (update_at q f) d.
Proof.
  induction p as [|s p IH]; intros q f d; [reflexivity|].
  cbn [app update_at]. destruct s as [n|k].
  - destruct d; try reflexivity. destruct (nth_error l n); [rewrite IH|]; reflexivity.
  - destruct d; try reflexivity. destruct (obj_lookup k m); [rewrite IH|]; reflexivity.
Qed.

(* `match r { Value::Array(a) => &mut a[i] }` *)
Lemma lens_at_idx d p l a i c :
  lens_at d p l -> fst l = Arr a -> nth_error a (N.to_nat i) = Some c ->
  exists l', lens_index (lens_arr l a) i = Ret l' /\ fst l' = c /\ lens_at d (p ++ [Idx (N.to_nat i)]) l'.
Proof.
  intros [Hg Hp] Ha Hc. unfold lens_index, lens_arr. cbn [fst snd]. rewrite nth_N_nth_error, Hc.
  eexists; split; [reflexivity|]. split; [reflexivity|]. split; cbn [fst snd].
  - rewrite get_at_app, Hg, Ha. cbn [get_at]. rewrite Hc. reflexivity.
  - intros x. rewrite Hp, update_at_app.
    apply (update_at_ext p _ _ d (fst l) Hg). rewrite Ha. cbn [update_at]. rewrite Hc. reflexivity.
Qed.

Lemma lens_index_none (l : lens value) a i :
  nth_error a (N.to_nat i) = None -> lens_index (lens_arr l a) i = Panic.
Proof. intros H. unfold lens_index, lens_arr. cbn [fst]. rewrite nth_N_nth_error, H. reflexivity. Qed.

(* `match r { Value::Object(m) => m.get_mut(k) }` *)
Lemma lens_at_key d p l m k c :
  lens_at d p l -> fst l = Obj m -> obj_lookup k m = Some c ->
  exists l', lens_get_mut (lens_obj l m) k = Some l' /\ fst l' = c /\ lens_at d (p ++ [Key k]) l'.
Proof.
  intros [Hg Hp] Hm Hc. unfold lens_get_mut, lens_obj. cbn [fst snd]. rewrite Hc.
  eexists; split; [reflexivity|]. split; [reflexivity|]. split; cbn [fst snd].
  - rewrite get_at_app, Hg, Hm. cbn [get_at]. rewrite Hc. reflexivity.
  - intros x. rewrite Hp, update_at_app.
    apply (update_at_ext p _ _ d (fst l) Hg). rewrite Hm. cbn [update_at]. rewrite Hc. reflexivity.
Qed.

Lemma lens_get_mut_none (l : lens value) m k : obj_lookup k m = None -> lens_get_mut (lens_obj l m) k = None.
Proof. intros H. unfold lens_get_mut, lens_obj. cbn [fst]. rewrite H. reflexivity. Qed.

(* ==== resolve_mut ======================================================================================================== *)

(* the generated walk against the model's: same outcome; on success a reference AT the model's path showing the model's
   node; the document is returned untouched *)
Definition lres_rel (d root : value) (g : outcome (value * result (lens value) ResolveError))
  (m : outcome (result (list sel * value) resolve_error)) : Prop :=
  match g, m with
  | Ret (root', Ok l), Ret (Ok (path, v)) => root' = root /\ fst l = v /\ lens_at d path l
  | Ret (root', Err e), Ret (Err e') => root' = root /\ model_rerr e = e'
  | Panic, Panic => True
  | OutOfFuel, OutOfFuel => True
  | _, _ => False
  end.

(* closing a recursive call of a walk: by the induction hypothesis as it stands, or after normalising the two counters *)
Ltac close_lres IH H3 :=
  first [ apply IH; exact H3
        | match goal with
          | |- lres_rel _ _ (?g ?fuel ?self ?ptr ?root ?o1 ?p1 ?l) (?m ?fuel' ?ptr' ?v ?o2 ?p2 ?rp) =>
              replace o1 with o2 by lia; replace p1 with p2 by lia; apply IH; exact H3
          end ].

Ltac mut_head ptr :=
  rewrite gen_split_front_eq;
  destruct (split_front ptr) as [[tok rem]|]; cbn [option_map];
  [ rewrite gen_encoded_eq; cbn [tokB Token_inner cow_text] | ].

Ltac mut_obj IH d rpath lv tok m Hat :=
  let c := fresh "c" in let Hc := fresh "Hc" in let Ht := fresh "Ht" in
  let ch := fresh "ch" in let Hl := fresh "Hl" in
  destruct (gen_decoded_tokB tok) as (c & Hc & Ht); rewrite Hc, Ht;
  destruct (obj_lookup (decoded tok) m) as [ch|] eqn:Hl;
  [ let l' := fresh "l'" in let H1 := fresh "H1" in let H2 := fresh "H2" in let H3 := fresh "H3" in
    destruct (lens_at_key d (rev rpath) lv m (decoded tok) ch Hat eq_refl Hl) as (l' & H1 & H2 & H3);
    rewrite H1; rewrite <- H2; close_lres IH H3
  | rewrite lens_get_mut_none by exact Hl; cbn [lres_rel model_rerr]; split; reflexivity ].

Ltac mut_child IH d rpath lv l idx Hat :=
  let ch := fresh "ch" in let Hn := fresh "Hn" in
  destruct (nth_error l (N.to_nat idx)) as [ch|] eqn:Hn;
  [ let l' := fresh "l'" in let H1 := fresh "H1" in let H2 := fresh "H2" in let H3 := fresh "H3" in
    destruct (lens_at_idx d (rev rpath) lv l idx ch Hat eq_refl Hn) as (l' & H1 & H2 & H3);
    rewrite H1; rewrite <- H2; close_lres IH H3
  | rewrite lens_index_none by exact Hn; exact I ].

Lemma gen_json_resolve_mut_lens_loop_ok d self root : forall fuel ptr lv off pos rpath,
  lens_at d (rev rpath) lv ->
  lres_rel d root (gen_json_resolve_mut_lens_loop1 fuel self ptr root off pos lv)
                  (json_resolve_mut_loop fuel ptr (fst lv) off pos rpath).
Proof.
  induction fuel as [|fuel IH]; intros ptr lv off pos rpath Hat;
    cbn [gen_json_resolve_mut_lens_loop1 json_resolve_mut_loop]; [exact I|].
  mut_head ptr; [|cbn [lres_rel]; auto].
  destruct lv as [v put]. cbn [fst] in *.
  destruct v as [| | | | |l|m]; try (cbn [lres_rel model_rerr]; split; reflexivity).
  - cbn [lens_arr fst].
    destruct (gen_parse_index_eq (tokB tok) (len l) pos off) as (r & Hr & Hm).
    cbn [tokB Token_inner cow_text] in Hm. rewrite Hr, <- Hm.
    destruct r as [idx|e]; cbn [model_res]; [|cbn [lres_rel]; split; reflexivity].
    mut_child IH d rpath (Arr l, put) l idx Hat.
  - cbn [lens_obj fst]. mut_obj IH d rpath (Obj m, put) tok m Hat.
Qed.

From JP Require Import Proofs.HistoryProofs.

Theorem gen_json_resolve_mut_lens_ok (d : value) (p : str) :
  lres_rel d d (gen_json_resolve_mut_lens d (lens_root d) p) (resolve p d).
Proof.
  rewrite <- json_resolve_mut_same. unfold gen_json_resolve_mut_lens, json_resolve_mut.
  apply (gen_json_resolve_mut_lens_loop_ok d (lens_root d) d (S (length p)) p (lens_root d) 0 0 []).
  apply lens_at_root.
Qed.

(* ---- toml: the copy with the index step written inline ------------------------------------------------------------------ *)

Ltac mut_arr_inline IH d rpath lv tok l Hat :=
  rewrite prim_to_index_tokB;
  destruct (index_from_str tok) as [i|e];
  [ rewrite gen_for_len_eq;
    destruct (for_len i (len l)) as [idx|[l' ix]]; cbn [gen_oob];
    [ mut_child IH d rpath lv l idx Hat | cbn [lres_rel model_rerr]; split; reflexivity ]
  | cbn [lres_rel model_rerr]; split; [reflexivity | rewrite model_gen_pie; reflexivity] ].

Lemma gen_toml_resolve_mut_lens_loop_ok d self root : forall fuel ptr lv off pos rpath,
  lens_at d (rev rpath) lv ->
  lres_rel d root (gen_toml_resolve_mut_lens_loop1 fuel self ptr root off pos lv)
                  (resolve_loop fuel ptr (fst lv) off pos rpath).
Proof.
  induction fuel as [|fuel IH]; intros ptr lv off pos rpath Hat;
    cbn [gen_toml_resolve_mut_lens_loop1 resolve_loop]; [exact I|].
  mut_head ptr; [|cbn [lres_rel]; auto].
  destruct lv as [v put]. cbn [fst] in *.
  destruct v as [| | | | |l|m]; try (cbn [lres_rel model_rerr]; split; reflexivity).
  - cbn [lens_arr fst]. mut_arr_inline IH d rpath (Arr l, put) tok l Hat.
  - cbn [lens_obj fst]. mut_obj IH d rpath (Obj m, put) tok m Hat.
Qed.

Theorem gen_toml_resolve_mut_lens_ok (d : value) (p : str) :
  lres_rel d d (gen_toml_resolve_mut_lens d (lens_root d) p) (resolve p d).
Proof.
  unfold gen_toml_resolve_mut_lens, resolve.
  apply (gen_toml_resolve_mut_lens_loop_ok d (lens_root d) d (S (length p)) p (lens_root d) 0 0 []).
  apply lens_at_root.
Qed.

(* ==== delete ============================================================================================================= *)

From JP Require Import SpecTree Proofs.TreeLaws Proofs.WfLaws.

(* writing back what a reference shows gives the document back -- on real documents (BTreeMap keys sorted: the association
   list model re-inserts an entry at its sorted position) *)
Lemma update_at_id p : forall d c, sorted_value d -> get_at p d = Some c -> update_at p (fun _ => c) d = d.
Proof.
  induction p as [|s p IH]; intros d c Hs H; cbn [get_at update_at] in *.
  - inversion H. reflexivity.
  - destruct s as [n|k].
    + destruct d; try reflexivity. destruct (nth_error l n) as [c0|] eqn:E; [|reflexivity].
      rewrite (IH c0 c); [|exact (sorted_nth _ _ _ Hs E)|exact H].
      rewrite set_nth_id by exact E. reflexivity.
    + destruct d; try reflexivity. destruct (obj_lookup k m) as [c0|] eqn:E; [|reflexivity].
      rewrite (IH c0 c); [|exact (sorted_lookup _ _ _ Hs E)|exact H].
      apply sorted_Obj_inv in Hs as [Hk HF].
      rewrite obj_insert_lookup_id; [reflexivity|exact Hk|exact E].
Qed.

Lemma obj_remove_absent k : forall m, obj_lookup k m = None -> obj_remove k m = m.
Proof.
  induction m as [|[k' v'] r IH]; intros H; cbn [obj_lookup obj_remove] in *; [reflexivity|].
  destruct (str_eqb k k'); [discriminate|]. rewrite IH by exact H. reflexivity.
Qed.

Theorem gen_json_delete_eq (d : value) (p : str) : sorted_value d ->
  gen_json_delete d (lens_root d) p = delete Json p d.
Proof.
  intros Hs. unfold gen_json_delete, delete. rewrite gen_split_back_eq.
  destruct (split_back p) as [[pp last]|]; cbn [option_map]; [|reflexivity].
  unfold resolve_mut.
  pose proof (gen_json_resolve_mut_lens_ok d pp) as H.
  destruct (gen_json_resolve_mut_lens d (lens_root d) pp) as [[root' [[v put]|e]]| |];
    destruct (resolve pp d) as [[[path w]|e']| |]; cbn [lres_rel] in H; try contradiction; try reflexivity.
  2: { destruct H as [-> _]. reflexivity. }
  destruct H as (-> & Hv & Hg & Hp). cbn [fst snd] in *. subst w.
  destruct v as [| | | | |l|m]; try reflexivity.
  - cbn [lens_arr fst snd lens_set].
    rewrite prim_to_index_tokB. destruct (index_from_str last) as [i|e]; [|reflexivity].
    rewrite gen_for_len_eq. destruct (for_len i (len l)) as [idx|[l' ix]]; cbn [gen_oob]; [|reflexivity].
    rewrite list_get_nth_error. destruct (nth_error l (N.to_nat idx)) as [c|]; [|reflexivity].
    rewrite Hp. reflexivity.
  - cbn [lens_obj fst snd lens_set].
    destruct (gen_decoded_tokB last) as (c & Hc & Ht). rewrite Hc, Ht.
    destruct (obj_lookup (decoded last) m) as [ch|] eqn:Hl; rewrite Hp; [reflexivity|].
    rewrite obj_remove_absent by exact Hl. rewrite update_at_id by assumption. reflexivity.
Qed.

Theorem gen_toml_delete_eq (d : value) (p : str) : sorted_value d ->
  gen_toml_delete d (lens_root d) p = delete Toml p d.
Proof.
  intros Hs. unfold gen_toml_delete, delete. rewrite gen_split_back_eq.
  destruct (split_back p) as [[pp last]|]; cbn [option_map]; [|reflexivity].
  unfold resolve_mut.
  pose proof (gen_toml_resolve_mut_lens_ok d pp) as H.
  destruct (gen_toml_resolve_mut_lens d (lens_root d) pp) as [[root' [[v put]|e]]| |];
    destruct (resolve pp d) as [[[path w]|e']| |]; cbn [lres_rel] in H; try contradiction; try reflexivity.
  2: { destruct H as [-> _]. reflexivity. }
  destruct H as (-> & Hv & Hg & Hp). cbn [fst snd] in *. subst w.
  destruct v as [| | | | |l|m]; try reflexivity.
  - cbn [lens_arr fst snd lens_set].
    rewrite prim_to_index_tokB. destruct (index_from_str last) as [i|e]; [|reflexivity].
    rewrite gen_for_len_eq. destruct (for_len i (len l)) as [idx|[l' ix]]; cbn [gen_oob]; [|reflexivity].
    rewrite list_get_nth_error. destruct (nth_error l (N.to_nat idx)) as [c|]; [|reflexivity].
    rewrite Hp. reflexivity.
  - cbn [lens_obj fst snd lens_set].
    destruct (gen_decoded_tokB last) as (c & Hc & Ht). rewrite Hc, Ht.
    destruct (obj_lookup (decoded last) m) as [ch|] eqn:Hl; rewrite Hp; [reflexivity|].
    rewrite obj_remove_absent by exact Hl. rewrite update_at_id by assumption. reflexivity.
Qed.

(* ==== assign ============================================================================================================= *)

(* The generated walk is the source's LOOP: it descends with a reference and writes once at the end.  The model's
   [assign_loop] instead RETURNS the rebuilt subtree from each level.  [arel]: whatever subtree the model returns for the
   node the reference shows, the generated walk has written back through the reference; on an error nothing was written. *)
Definition arel (root : value) (put : value -> value) (cur : value)
  (g : outcome (value * result (option value) AssignError))
  (m : outcome (value * result (option value) assign_error)) : Prop :=
  match g, m with
  | Ret (root', Ok res), Ret (cur', Ok res') => root' = put cur' /\ res = res'
  | Ret (root', Err e), Ret (cur', Err e') => root' = root /\ cur' = cur /\ model_aerr e = e'
  | Panic, Panic => True
  | OutOfFuel, OutOfFuel => True
  | _, _ => False
  end.

Lemma for_len_incl_le i n idx : for_len_incl i n = Ok idx -> (idx <=? n) = true.
Proof.
  destruct i as [k|]; cbn [for_len_incl]; intros H.
  - destruct (k <=? n) eqn:E; [|discriminate]. inversion H; subst. exact E.
  - inversion H. apply N.leb_refl.
Qed.

Ltac arel_rec IH fuel rem child put' value root off pos Hs :=
  let H := fresh "H" in
  match goal with
  | |- arel _ _ _ (?g ?fuel' ?rem' ?dest ?value' ?root' ?o1 ?p1) _ =>
      first [ constr_eq o1 off | replace o1 with off by lia ]; first [ constr_eq p1 pos | replace p1 with pos by lia ]
  | _ => idtac
  end;
  pose proof (IH rem child put' value root off pos Hs) as H;
  match type of H with
  | arel _ _ _ ?g ?m =>
      destruct g as [[? [?|?]]| |]; destruct m as [[? [?|?]]| |]; cbn [arel] in H |- *;
      try contradiction; try exact I
  end.

Lemma gen_json_assign_value_loop_ok : forall fuel ptr cur put value root off pos,
  sorted_value cur ->
  arel root put cur (gen_json_assign_value_loop1 fuel ptr (cur, put) value root off pos)
                    (assign_loop fuel ptr cur value off pos).
Proof.
  induction fuel as [|fuel IH]; intros ptr cur put value root off pos Hs;
    cbn [gen_json_assign_value_loop1 assign_loop]; [exact I|].
  mut_head ptr; [|cbn [arel fst snd lens_set]; split; reflexivity].
  cbn [fst].
  destruct cur as [| | | | |l|m].
  1-5: unfold gen_json_assign_scalar; rewrite gen_json_expand_eq;
       destruct (expand ptr value); cbn [arel fst snd lens_set]; try exact I; split; reflexivity.
  - (* array *)
    unfold gen_json_assign_array, lens_arr. cbn [fst snd].
    rewrite prim_to_index_tokB. destruct (index_from_str tok) as [i|e].
    2: { cbn [arel fst snd model_aerr]. rewrite model_gen_pie. repeat split. }
    rewrite gen_for_len_incl_eq. destruct (for_len_incl i (len l)) as [idx|[l' ix]] eqn:Hfl; cbn [gen_oob].
    2: { cbn [arel fst snd model_aerr]. repeat split. }
    try rewrite (for_len_incl_le _ _ _ Hfl).   (* the debug_assert!, when the source has it *)
    destruct (idx <? len l).
    + rewrite gen_is_root_eq. unfold lens_index. cbn [fst snd]. rewrite nth_N_nth_error.
      destruct (nth_error l (N.to_nat idx)) as [child|] eqn:Hn.
      2: { destruct (is_root rem); exact I. }
      destruct (is_root rem).
      * cbn [arel fst snd]. split; reflexivity.
      * cbn [fst snd].
        arel_rec IH fuel rem child (fun x' => put (Arr (set_nth (N.to_nat idx) x' l))) value root
                 (off + (1 + len tok)) (pos + 1) (sorted_nth _ _ _ Hs Hn).
        -- exact H.
        -- destruct H as (-> & -> & ->). rewrite set_nth_id by exact Hn. repeat split.
    + rewrite gen_json_expand_eq. destruct (expand rem value); cbn [arel fst snd lens_set]; try exact I.
      split; reflexivity.
  - (* object *)
    unfold gen_json_assign_object, lens_obj. cbn [fst snd].
    destruct (gen_decoded_tokB tok) as (c & Hc & Ht). rewrite Hc, Ht.
    unfold lens_entry, lens_get_mut. cbn [fst snd].
    destruct (obj_lookup (decoded tok) m) as [child|] eqn:Hl.
    + rewrite gen_is_root_eq. destruct (is_root rem).
      * cbn [arel fst snd lens_set]. split; reflexivity.
      * cbn [fst snd].
        arel_rec IH fuel rem child (fun x' => put (Obj (obj_insert (decoded tok) x' m))) value root
                 (off + (1 + len tok)) (pos + 1) (sorted_lookup _ _ _ Hs Hl).
        -- exact H.
        -- destruct H as (-> & -> & ->). apply sorted_Obj_inv in Hs as [Hk _].
           rewrite obj_insert_lookup_id by assumption. repeat split.
    + rewrite gen_json_expand_eq. destruct (expand rem value); cbn [arel fst snd]; try exact I.
      split; reflexivity.
Qed.

Definition model_ares (r : result (option value) AssignError) : result (option value) assign_error :=
  match r with Ok x => Ok x | Err e => Err (model_aerr e) end.

Definition model_aout (x : value * result (option value) AssignError) : value * result (option value) assign_error :=
  (fst x, model_ares (snd x)).

Lemma arel_root_eq d g m : arel d (fun x => x) d g m -> omap model_aout g = m.
Proof.
  destruct g as [[root' [res|e]]| |]; destruct m as [[cur' [res'|e']]| |]; cbn [arel]; try contradiction; try reflexivity.
  - intros [-> ->]. reflexivity.
  - intros (-> & -> & <-). reflexivity.
Qed.

Theorem gen_json_assign_eq (d : value) (p : str) (v : value) : sorted_value d ->
  omap model_aout (gen_json_assign d (lens_root d) p v) = assign p d v.
Proof.
  intros Hs. unfold gen_json_assign, gen_json_assign_value, assign, lens_root.
  pose proof (gen_json_assign_value_loop_ok (S (length p)) p d (fun x => x) v d 0 0 Hs) as H.
  apply arel_root_eq in H. rewrite <- H.
  destruct (gen_json_assign_value_loop1 (S (length p)) p (d, fun x => x) v d 0 0) as [[r1 r2]| |]; reflexivity.
Qed.

(* ---- toml: the same three helpers and loop, on toml::Value ------------------------------------------------------------ *)

Lemma gen_toml_assign_value_loop_ok : forall fuel ptr cur put value root off pos,
  sorted_value cur ->
  arel root put cur (gen_toml_assign_value_loop1 fuel ptr (cur, put) value root off pos)
                    (assign_loop fuel ptr cur value off pos).
Proof.
  induction fuel as [|fuel IH]; intros ptr cur put value root off pos Hs;
    cbn [gen_toml_assign_value_loop1 assign_loop]; [exact I|].
  mut_head ptr; [|cbn [arel fst snd lens_set]; split; reflexivity].
  cbn [fst].
  destruct cur as [| | | | |l|m].
  1-5: unfold gen_toml_assign_scalar; rewrite gen_toml_expand_eq;
       destruct (expand ptr value); cbn [arel fst snd lens_set]; try exact I; split; reflexivity.
  - (* array *)
    unfold gen_toml_assign_array, lens_arr. cbn [fst snd].
    rewrite prim_to_index_tokB. destruct (index_from_str tok) as [i|e].
    2: { cbn [arel fst snd model_aerr]. rewrite model_gen_pie. repeat split. }
    rewrite gen_for_len_incl_eq. destruct (for_len_incl i (len l)) as [idx|[l' ix]] eqn:Hfl; cbn [gen_oob].
    2: { cbn [arel fst snd model_aerr]. repeat split. }
    try rewrite (for_len_incl_le _ _ _ Hfl).   (* the debug_assert!, when the source has it *)
    destruct (idx <? len l).
    + rewrite gen_is_root_eq. unfold lens_index. cbn [fst snd]. rewrite nth_N_nth_error.
      destruct (nth_error l (N.to_nat idx)) as [child|] eqn:Hn.
      2: { destruct (is_root rem); exact I. }
      destruct (is_root rem).
      * cbn [arel fst snd]. split; reflexivity.
      * cbn [fst snd].
        arel_rec IH fuel rem child (fun x' => put (Arr (set_nth (N.to_nat idx) x' l))) value root
                 (off + (1 + len tok)) (pos + 1) (sorted_nth _ _ _ Hs Hn).
        -- exact H.
        -- destruct H as (-> & -> & ->). rewrite set_nth_id by exact Hn. repeat split.
    + rewrite gen_toml_expand_eq. destruct (expand rem value); cbn [arel fst snd lens_set]; try exact I.
      split; reflexivity.
  - (* object *)
    unfold gen_toml_assign_object, lens_obj. cbn [fst snd].
    destruct (gen_decoded_tokB tok) as (c & Hc & Ht). rewrite Hc, Ht.
    unfold lens_entry, lens_get_mut. cbn [fst snd].
    destruct (obj_lookup (decoded tok) m) as [child|] eqn:Hl.
    + rewrite gen_is_root_eq. destruct (is_root rem).
      * cbn [arel fst snd lens_set]. split; reflexivity.
      * cbn [fst snd].
        arel_rec IH fuel rem child (fun x' => put (Obj (obj_insert (decoded tok) x' m))) value root
                 (off + (1 + len tok)) (pos + 1) (sorted_lookup _ _ _ Hs Hl).
        -- exact H.
        -- destruct H as (-> & -> & ->). apply sorted_Obj_inv in Hs as [Hk _].
           rewrite obj_insert_lookup_id by assumption. repeat split.
    + rewrite gen_toml_expand_eq. destruct (expand rem value); cbn [arel fst snd]; try exact I.
      split; reflexivity.
Qed.

Theorem gen_toml_assign_eq (d : value) (p : str) (v : value) : sorted_value d ->
  omap model_aout (gen_toml_assign d (lens_root d) p v) = assign p d v.
Proof.
  intros Hs. unfold gen_toml_assign, gen_toml_assign_value, assign, lens_root.
  pose proof (gen_toml_assign_value_loop_ok (S (length p)) p d (fun x => x) v d 0 0 Hs) as H.
  apply arel_root_eq in H. rewrite <- H.
  destruct (gen_toml_assign_value_loop1 (S (length p)) p (d, fun x => x) v d 0 0) as [[r1 r2]| |]; reflexivity.
Qed.
