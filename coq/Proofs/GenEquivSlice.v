(* Proofs/GenEquivSlice.v -- part of the REGENERATED-MODEL tie (DESIGN 13): the definitions of Generated/Scan*.v are
   re-translated from the crate's current Rust source by tools/rs2v.py on every run; the lemmas here
   re-prove, for ALL inputs, that each equals the hand-written model function of Model/*.v that the
   property theorems are stated about.  An edit to a translated function changes the generated term and
   the lemma either still goes through (the edit preserves the function) or breaks (the check then
   searches for a failing input and reports).  Scripts name nothing generated except function names.

   This file: src/pointer/slice.rs, the PointerIndex impls (Generated/ScanSlice.v) against Model/Slice.v.
   The model's range getters return the byte RANGE (x, y) of the result, the generated ones its CONTENT
   `&pointer.0[x..y]`; [content] maps the one to the other.  Two different [slice_range] are involved,
   always qualified below: [GenPrelude.slice_range] (content) and [Slice.slice_range] (range). *)

From JP Require Import Proofs.GenEquivBase Generated.ScanPtrOps Generated.ScanSlice Model.Slice Proofs.SliceProofs
  Proofs.GenEquivPtrOps.

Arguments N.add : simpl never.
Arguments N.sub : simpl never.
Arguments N.eqb : simpl never.
Arguments N.ltb : simpl never.
Arguments N.leb : simpl never.
Arguments N.of_nat : simpl never.

(* the bytes of the range the model computes *)
Definition content (p : str) (r : outcome (option (N * N))) : outcome (option str) :=
  match r with
  | Ret (Some (x, y)) => Ret (Some (bytes_at p x y))
  | Ret None => Ret None
  | Panic => Panic
  | OutOfFuel => OutOfFuel
  end.

(* `Some(&bytes[..])`, with the slicing panic propagated: the shape of every exit of the generated loops *)
Definition some_slice (r : outcome str) : outcome (option str) :=
  match r with Ret sl => Ret (Some sl) | Panic => Panic | OutOfFuel => OutOfFuel end.

(* ---- the three slicing primitives against [opt_slice] ------------------------------------------------------ *)

Lemma gen_slice_range_eq (p : str) (a b : N) :
  some_slice (GenPrelude.slice_range p a b) = content p (opt_slice p (Some a) (Some b)).
Proof.
  unfold some_slice, content, opt_slice, GenPrelude.slice_range, Slice.slice_range, bytes_at.
  destruct ((a <=? b) && (b <=? len p)); reflexivity.
Qed.

Lemma bytes_at_to_end (p : str) (a : N) : a <= len p -> bytes_at p a (len p) = skipn (N.to_nat a) p.
Proof.
  intros Ha. unfold bytes_at. apply firstn_all2. rewrite skipn_length. unfold len in *. lia.
Qed.

Lemma bytes_at_from_start (p : str) (b : N) : bytes_at p 0 b = firstn (N.to_nat b) p.
Proof. unfold bytes_at. rewrite N.sub_0_r. reflexivity. Qed.

Lemma gen_slice_from_eq (p : str) (a : N) :
  some_slice (slice_from p a) = content p (opt_slice p (Some a) (Some (len p))).
Proof.
  unfold some_slice, content, opt_slice, slice_from, Slice.slice_range.
  destruct (N.leb_spec a (len p)) as [H|H]; cbn [andb]; [|reflexivity].
  destruct (N.leb_spec (len p) (len p)) as [H'|H']; [|lia].
  rewrite bytes_at_to_end by exact H. reflexivity.
Qed.

Lemma gen_slice_to_eq (p : str) (b : N) :
  some_slice (slice_to p b) = content p (opt_slice p (Some 0) (Some b)).
Proof.
  unfold some_slice, content, opt_slice, slice_to, Slice.slice_range.
  destruct (N.leb_spec 0 b) as [H0|H0]; [|lia]. cbn [andb].
  destruct (b <=? len p); [|reflexivity].
  rewrite bytes_at_from_start. reflexivity.
Qed.

Lemma content_none_l (p : str) (eo : option N) : content p (opt_slice p None eo) = Ret None.
Proof. reflexivity. Qed.

Lemma content_none_r (p : str) (so : option N) : content p (opt_slice p so None) = Ret None.
Proof. destruct so; reflexivity. Qed.

(* ---- usize ---------------------------------------------------------------------------------------------------- *)

Theorem gen_get_usize_eq (i : N) (p : str) : gen_get_usize i p = Ret (option_map tokB (get_tok p i)).
Proof. unfold gen_get_usize, get_tok. rewrite str_tokens_eq. reflexivity. Qed.

(* ---- Range<usize> ----------------------------------------------------------------------------------------------- *)

Lemma gen_get_Range_loop_eq (p : str) (s e : N) : forall l idx offset so,
  gen_get_Range_loop1 l (mk_Range s e) p idx offset so None =
  content p (let '(i, o, so', eo') := range_loop l idx offset s e so in
             opt_slice p so' (if i =? e then Some o else eo')).
Proof.
  induction l as [|t l IH]; intros idx offset so;
    cbn [gen_get_Range_loop1 range_loop Range_start Range_end_ option_map].
  - destruct (idx =? e).
    + destruct so as [a|]; [apply gen_slice_range_eq|reflexivity].
    + destruct so as [a|]; reflexivity.
  - destruct (idx =? s); destruct (idx =? e) eqn:Ee; try rewrite Ee; try apply IH.
    + apply gen_slice_range_eq.
    + destruct so as [a|]; [apply gen_slice_range_eq|reflexivity].
Qed.

Theorem gen_get_Range_eq (s e : N) (p : str) : gen_get_Range (mk_Range s e) p = content p (get_range p s e).
Proof.
  unfold gen_get_Range, get_range. cbn [Range_start Range_end_].
  destruct (e <? s); [reflexivity|].
  rewrite str_tokens_eq. apply gen_get_Range_loop_eq.
Qed.

(* ---- RangeFrom<usize> --------------------------------------------------------------------------------------------- *)

Lemma gen_get_RangeFrom_loop_eq (p : str) (s : N) : forall l idx offset,
  gen_get_RangeFrom_loop1 l idx (mk_RangeFrom s) p offset None =
  content p (opt_slice p (from_loop l idx offset s) (Some (len p))).
Proof.
  induction l as [|t l IH]; intros idx offset;
    cbn [gen_get_RangeFrom_loop1 from_loop RangeFrom_start option_map].
  - reflexivity.
  - destruct (idx =? s); [apply gen_slice_from_eq|apply IH].
Qed.

Theorem gen_get_RangeFrom_eq (s : N) (p : str) :
  gen_get_RangeFrom (mk_RangeFrom s) p = content p (get_range_from p s).
Proof.
  unfold gen_get_RangeFrom, get_range_from. rewrite str_tokens_eq. apply gen_get_RangeFrom_loop_eq.
Qed.

(* ---- RangeTo<usize> ----------------------------------------------------------------------------------------------- *)

Lemma gen_get_RangeTo_loop_eq (p : str) (e : N) : forall l idx offset,
  gen_get_RangeTo_loop1 l (mk_RangeTo e) p idx offset None =
  content p (let '(i, o, eo') := to_loop l idx offset e in
             opt_slice p (Some 0) (if i =? e then Some o else eo')).
Proof.
  induction l as [|t l IH]; intros idx offset;
    cbn [gen_get_RangeTo_loop1 to_loop RangeTo_end_ option_map].
  - destruct (idx =? e); [apply gen_slice_to_eq|reflexivity].
  - destruct (idx =? e) eqn:Ee; [rewrite Ee; apply gen_slice_to_eq|apply IH].
Qed.

Theorem gen_get_RangeTo_eq (e : N) (p : str) : gen_get_RangeTo (mk_RangeTo e) p = content p (get_range_to p e).
Proof.
  unfold gen_get_RangeTo, get_range_to. rewrite str_tokens_eq. apply gen_get_RangeTo_loop_eq.
Qed.

(* ---- RangeFull ---------------------------------------------------------------------------------------------------- *)

Theorem gen_get_RangeFull_eq (p : str) : gen_get_RangeFull mk_RangeFull p = content p (get_range_full p).
Proof.
  unfold gen_get_RangeFull, get_range_full, content. rewrite bytes_at_whole. reflexivity.
Qed.

(* ---- RangeInclusive<usize> ---------------------------------------------------------------------------------------- *)

Lemma gen_get_RangeInclusive_loop_eq (p : str) (self : RangeInclusive) (s e : N) : forall l idx offset so,
  gen_get_RangeInclusive_loop1 l idx self p s e offset so None =
  content p (let '(so', eo') := incl_loop l idx offset s e so in opt_slice p so' eo').
Proof.
  induction l as [|t l IH]; intros idx offset so;
    cbn [gen_get_RangeInclusive_loop1 incl_loop option_map].
  - destruct so as [a|]; reflexivity.
  - destruct (idx =? s); destruct (idx =? e); try apply IH.
    + apply gen_slice_range_eq.
    + destruct so as [a|]; [apply gen_slice_range_eq|reflexivity].
Qed.

Theorem gen_get_RangeInclusive_eq (s e : N) (p : str) :
  gen_get_RangeInclusive (mk_RangeInclusive s e) p = content p (get_range_incl p s e).
Proof.
  unfold gen_get_RangeInclusive, get_range_incl. cbn [RangeInclusive_start RangeInclusive_end_].
  destruct (e <? s); [reflexivity|].
  rewrite str_tokens_eq. apply gen_get_RangeInclusive_loop_eq.
Qed.

(* ---- RangeToInclusive<usize> -------------------------------------------------------------------------------------- *)

Lemma gen_get_RangeToInclusive_loop_eq (p : str) (e : N) : forall l idx offset,
  gen_get_RangeToInclusive_loop1 l idx (mk_RangeToInclusive e) p offset None =
  content p (opt_slice p (Some 0) (to_incl_loop l idx offset e)).
Proof.
  induction l as [|t l IH]; intros idx offset;
    cbn [gen_get_RangeToInclusive_loop1 to_incl_loop RangeToInclusive_end_ option_map].
  - reflexivity.
  - destruct (idx =? e); [apply gen_slice_to_eq|apply IH].
Qed.

Theorem gen_get_RangeToInclusive_eq (e : N) (p : str) :
  gen_get_RangeToInclusive (mk_RangeToInclusive e) p = content p (get_range_to_incl p e).
Proof.
  unfold gen_get_RangeToInclusive, get_range_to_incl. rewrite str_tokens_eq.
  apply gen_get_RangeToInclusive_loop_eq.
Qed.

(* ---- (Bound<usize>, Bound<usize>) --------------------------------------------------------------------------------- *)

Definition gen_bound (b : bound) : Bound :=
  match b with Included n => Bound_Included n | Excluded n => Bound_Excluded n | Unbounded => Bound_Unbounded end.

(* a bound payload is a usize *)
Definition bound_ok (b : bound) : Prop :=
  match b with Included n | Excluded n => n <= USIZE_MAX | Unbounded => True end.

(* `start.checked_add(1)` on a usize is the model's [checked_add1] *)
Lemma checked_add_usize_1 (s : N) : s <= USIZE_MAX -> checked_add_usize s 1 = checked_add1 s.
Proof.
  intros Hs. unfold checked_add_usize, checked_add1.
  destruct (N.leb_spec (s + 1) USIZE_MAX) as [H|H]; destruct (N.eqb_spec s USIZE_MAX) as [E|E];
    try reflexivity; lia.
Qed.

(* re-returning a callee's outcome (`match f x with Ret r => Ret r | Panic => Panic | ..`) is the identity *)
Lemma outcome_eta {A} (r : outcome A) :
  match r with Ret x => Ret x | Panic => Panic | OutOfFuel => OutOfFuel end = r.
Proof. destruct r; reflexivity. Qed.

(* [gen_get_Bounds] is a very large term (the translation of a tuple `match` re-examines `self` on every
   fall-through); it is only ever reduced on a pair of constructor-headed bounds, which selects one leaf. *)
Theorem gen_get_Bounds_eq (lo hi : bound) (p : str) : bound_ok lo -> bound_ok hi ->
  gen_get_Bounds (gen_bound lo, gen_bound hi) p = content p (get_bounds p lo hi).
Proof.
  intros Hlo Hhi.
  destruct lo as [s|s|], hi as [e|e|]; cbn [gen_bound get_bounds bound_ok] in *;
    lazy beta iota delta [gen_get_Bounds];
    try rewrite (checked_add_usize_1 s Hlo);
    try (destruct (checked_add1 s) as [s'|]; [|reflexivity]);
    rewrite outcome_eta;
    first [ apply gen_get_RangeInclusive_eq | apply gen_get_Range_eq | apply gen_get_RangeFrom_eq
          | apply gen_get_RangeToInclusive_eq | apply gen_get_RangeTo_eq | apply gen_get_RangeFull_eq ].
Qed.

(* without the usize hypothesis on an Excluded start the two differ (N is unbounded, usize is not):
   the statement that holds for ALL bounds in N uses [checked_add_usize] on the model side *)
Definition get_bounds_usize (p : str) (lo hi : bound) : outcome (option (N * N)) :=
  match lo with
  | Excluded s => match checked_add_usize s 1 with
                  | Some s' => get_bounds p (Included s') hi
                  | None => Ret None
                  end
  | _ => get_bounds p lo hi
  end.

Theorem gen_get_Bounds_eq_any (lo hi : bound) (p : str) :
  gen_get_Bounds (gen_bound lo, gen_bound hi) p = content p (get_bounds_usize p lo hi).
Proof.
  destruct lo as [s|s|], hi as [e|e|]; cbn [gen_bound get_bounds get_bounds_usize];
    lazy beta iota delta [gen_get_Bounds];
    try (destruct (checked_add_usize s 1) as [s'|]; [|reflexivity]); cbn [get_bounds];
    rewrite outcome_eta;
    first [ apply gen_get_RangeInclusive_eq | apply gen_get_Range_eq | apply gen_get_RangeFrom_eq
          | apply gen_get_RangeToInclusive_eq | apply gen_get_RangeTo_eq | apply gen_get_RangeFull_eq ].
Qed.

(* ==== totality =================================================================================================== *)

(* for a valid pointer the model's getters all return (SliceProofs.get_bounds_valid_ptr, C12) ... *)
Lemma content_ret (p : str) (r : outcome (option (N * N))) :
  (exists v, r = Ret v) -> exists v, content p r = Ret v.
Proof. intros [[[x y]|] ->]; eexists; reflexivity. Qed.

Lemma get_bounds_ret (p : str) (lo hi : bound) : valid_ptr p = true -> exists v, get_bounds p lo hi = Ret v.
Proof. intros Hp. rewrite (get_bounds_valid_ptr p lo hi Hp). eexists; reflexivity. Qed.

(* ... hence so do the getters of the source: no slicing out of range, for ALL bounds in N *)
Theorem gen_slice_total : forall (p : str), valid_ptr p = true ->
  forall (i s e : N) (lo hi : bound),
  (exists r, gen_get_usize i p = Ret r) /\
  (exists r, gen_get_Range (mk_Range s e) p = Ret r) /\
  (exists r, gen_get_RangeFrom (mk_RangeFrom s) p = Ret r) /\
  (exists r, gen_get_RangeTo (mk_RangeTo e) p = Ret r) /\
  (exists r, gen_get_RangeFull mk_RangeFull p = Ret r) /\
  (exists r, gen_get_RangeInclusive (mk_RangeInclusive s e) p = Ret r) /\
  (exists r, gen_get_RangeToInclusive (mk_RangeToInclusive e) p = Ret r) /\
  (exists r, gen_get_Bounds (gen_bound lo, gen_bound hi) p = Ret r).
Proof.
  intros p Hp i s e lo hi.
  rewrite gen_get_usize_eq, gen_get_Range_eq, gen_get_RangeFrom_eq, gen_get_RangeTo_eq, gen_get_RangeFull_eq,
    gen_get_RangeInclusive_eq, gen_get_RangeToInclusive_eq, gen_get_Bounds_eq_any.
  split; [eexists; reflexivity|].
  split; [apply content_ret, (get_bounds_ret p (Included s) (Excluded e) Hp)|].
  split; [apply content_ret, (get_bounds_ret p (Included s) Unbounded Hp)|].
  split; [apply content_ret, (get_bounds_ret p Unbounded (Excluded e) Hp)|].
  split; [apply content_ret, (get_bounds_ret p Unbounded Unbounded Hp)|].
  split; [apply content_ret, (get_bounds_ret p (Included s) (Included e) Hp)|].
  split; [apply content_ret, (get_bounds_ret p Unbounded (Included e) Hp)|].
  apply content_ret. unfold get_bounds_usize.
  destruct lo as [a|a|]; try apply (get_bounds_ret p _ hi Hp).
  destruct (checked_add_usize a 1) as [a'|]; [apply (get_bounds_ret p _ hi Hp)|eexists; reflexivity].
Qed.
