(* Proofs/GenEquivPointer.v -- part of the REGENERATED-MODEL tie (DESIGN 13): the definitions of Generated/Scan*.v are
   re-translated from the crate's current Rust source by tools/rs2v.py on every run; the lemmas here
   re-prove, for ALL inputs, that each equals the hand-written model function of Model/*.v that the
   property theorems are stated about.  An edit to a translated function changes the generated term and
   the lemma either still goes through (the edit preserves the function) or breaks (the check then
   searches for a failing input and reports).  Scripts name nothing generated except function names. *)

From JP Require Import Proofs.GenEquivBase Generated.ScanPointer.

Arguments N.add : simpl never.
Arguments N.sub : simpl never.
Arguments N.eqb : simpl never.
Arguments N.ltb : simpl never.
Arguments N.leb : simpl never.
Arguments N.of_nat : simpl never.

(* ---- src/pointer.rs  validate_bytes / validate -------------------------------------------------- *)

Lemma gen_validate_loop_eq : forall fuel s pre off po to,
  (length s < fuel)%nat ->
  gen_validate_bytes_loop1 fuel (pre ++ s) off po to (len pre) =
  Ret (match validate_loop s (len pre) po to with None => Ok tt | Some e => Err (gen_pe e) end).
Proof.
  induction fuel as [|fuel IH]; intros s pre off po to Hf; [lia|].
  cbn [gen_validate_bytes_loop1].
  destruct s as [|b r].
  - rewrite app_nil_r. destruct (N.ltb_spec (len pre) (len pre)) as [H|H]; [lia|]. reflexivity.
  - rewrite len_app, len_cons.
    destruct (N.ltb_spec (len pre) (len pre + (len r + 1))) as [H|H]; [clear H|lia].
    unfold idx_get at 1. rewrite nth_N_app_len.
    cbn [validate_loop]. change SLASH with 47. change TILDE with 126. change ZERO with 48. change ONE with 49.
    cbn [length] in Hf.
    destruct (b =? 47) eqn:E47.
    + (* '/' *)
      replace (pre ++ b :: r) with ((pre ++ [b]) ++ r) by (rewrite <- app_assoc; reflexivity).
      replace (len pre + 1) with (len (pre ++ [b])) by (rewrite len_app; reflexivity).
      rewrite IH by lia. replace (0 + 1) with (0 + 1) by reflexivity.
      replace (len (pre ++ [b])) with (len pre + 1) by (rewrite len_app; reflexivity).
      reflexivity.
    + destruct (b =? 126) eqn:E126.
      * (* '~' *)
        destruct r as [|c r'].
        -- rewrite len_nil.
           destruct (N.leb_spec (len pre + (0 + 1)) (len pre + 1)) as [H|H]; [|lia]. reflexivity.
        -- rewrite len_cons.
           destruct (N.leb_spec (len pre + (len r' + 1 + 1)) (len pre + 1)) as [H|H]; [lia|clear H].
           unfold idx_get. rewrite nth_N_app_len1.
           cbn [length] in Hf.
           assert (Hnext : gen_validate_bytes_loop1 fuel (pre ++ b :: c :: r') off po (to + 1 + 1) (len pre + 1 + 1) =
                           Ret (match validate_loop r' (len pre + 1 + 1) po (to + 1 + 1) with
                                | None => Ok tt | Some e => Err (gen_pe e) end)).
           { replace (pre ++ b :: c :: r') with ((pre ++ [b; c]) ++ r') by (rewrite <- app_assoc; reflexivity).
             replace (len pre + 1 + 1) with (len (pre ++ [b; c])) by (rewrite len_app; unfold len; cbn [length]; lia).
             apply IH. lia. }
           destruct (c =? 48) eqn:E48; cbn [negb andb].
           ++ exact Hnext.
           ++ destruct (c =? 49) eqn:E49; cbn [negb].
              ** exact Hnext.
              ** reflexivity.
      * (* any other byte *)
        replace (pre ++ b :: r) with ((pre ++ [b]) ++ r) by (rewrite <- app_assoc; reflexivity).
        replace (len pre + 1) with (len (pre ++ [b])) by (rewrite len_app; reflexivity).
        rewrite IH by lia.
        replace (len (pre ++ [b])) with (len pre + 1) by (rewrite len_app; reflexivity).
        reflexivity.
Qed.

(* the parser, as regenerated from the source, is the model's [validate] for every input *)
Theorem gen_validate_eq : forall s : str,
  gen_validate s = Ret (match validate s with None => Ok s | Some e => Err (gen_pe e) end).
Proof.
  intros s. unfold gen_validate, validate.
  destruct s as [|b r].
  - reflexivity.
  - rewrite len_cons. destruct (N.eqb_spec (len r + 1) 0) as [H|H]; [lia|clear H].
    unfold gen_validate_bytes. unfold idx_get. cbn [nth_N].
    destruct (N.eqb_spec 0 0) as [_|H]; [|congruence].
    change SLASH with 47. rewrite Bool.andb_true_r.
    destruct (b =? 47) eqn:E47; cbn [negb].
    + pose proof (gen_validate_loop_eq (S (length (b :: r))) (b :: r) [] 0 0 0) as L.
      cbn [app] in L. change (@len N []) with 0 in L. rewrite L by (cbn [length]; lia).
      destruct (validate_loop (b :: r) 0 0 0); reflexivity.
    + reflexivity.
Qed.

(* in particular: no input makes the regenerated parser panic or run out of fuel *)
Corollary gen_validate_total : forall s, exists r, gen_validate s = Ret r.
Proof. intros s. rewrite gen_validate_eq. eauto. Qed.

(* ---- ParseError accessors ------------------------------------------------------------------------ *)

Lemma gen_pe_pointer_offset_eq e : gen_ParseError_pointer_offset e = Ret (pe_pointer_offset (model_pe e)).
Proof. destruct e; reflexivity. Qed.

Lemma gen_pe_offset_eq e : gen_ParseError_offset e = Ret (pe_pointer_offset (model_pe e)).
Proof. destruct e; reflexivity. Qed.

Lemma gen_pe_source_offset_eq e : gen_ParseError_source_offset e = Ret (pe_source_offset (model_pe e)).
Proof. destruct e; reflexivity. Qed.

Lemma gen_pe_complete_offset_eq e : gen_ParseError_complete_offset e = Ret (pe_complete_offset (model_pe e)).
Proof. destruct e; reflexivity. Qed.

Lemma gen_pe_invalid_encoding_len_eq e subject :
  gen_ParseError_invalid_encoding_len e subject = pe_invalid_encoding_len (model_pe e) subject.
Proof.
  destruct e as [|po src]; [reflexivity|].
  unfold gen_ParseError_invalid_encoding_len. rewrite gen_pe_complete_offset_eq.
  cbn [model_pe pe_invalid_encoding_len]. unfold sub_chk.
  destruct (N.eqb_spec (len subject) 0) as [E|E].
  - rewrite E. reflexivity.
  - destruct (N.ltb_spec (len subject) 1) as [H|H]; [lia|].
    destruct (_ <? _); reflexivity.
Qed.

(* Diagnostic::labels for ParseError: the one label is (complete_offset, invalid_encoding_len) -- the model's [pe_label] *)
Lemma gen_pe_labels_eq e subject :
  gen_ParseError_labels e subject =
  match pe_label (model_pe e) subject with Ret x => Ret (Some x) | Panic => Panic | OutOfFuel => OutOfFuel end.
Proof.
  unfold gen_ParseError_labels, pe_label. rewrite gen_pe_complete_offset_eq, gen_pe_invalid_encoding_len_eq.
  destruct (pe_invalid_encoding_len (model_pe e) subject); reflexivity.
Qed.

Lemma gen_pe_is_no_leading_slash_eq e :
  gen_ParseError_is_no_leading_slash e = Ret (match model_pe e with NoLeadingSlash => true | _ => false end).
Proof. destruct e; reflexivity. Qed.

Lemma gen_pe_is_invalid_encoding_eq e :
  gen_ParseError_is_invalid_encoding e = Ret (match model_pe e with NoLeadingSlash => false | _ => true end).
Proof. destruct e; reflexivity. Qed.


(* ==== the properties, stated of the regenerated functions themselves ============================= *)

From JP Require Import Proofs.ValidateProofs.

(* C02: the parser as it stands in the source accepts exactly the grammar and returns its input *)
Theorem gen_validate_accepts_iff : forall s : str, gen_validate s = Ret (Ok s) <-> valid_ptr s = true.
Proof.
  intros s. rewrite gen_validate_eq, <- validate_ok_iff.
  destruct (validate s); split; intros H; try reflexivity; try discriminate.
Qed.

Theorem gen_validate_ok_is_input : forall s t : str, gen_validate s = Ret (Ok t) -> t = s /\ valid_ptr s = true.
Proof.
  intros s t. rewrite gen_validate_eq. destruct (validate s) eqn:V; [discriminate|].
  intros [= <-]. split; [reflexivity|apply validate_ok_iff, V].
Qed.

Theorem gen_validate_err_is_model : forall s e, gen_validate s = Ret (Err e) ->
  validate s = Some (model_pe e) /\ e = gen_pe (model_pe e).
Proof.
  intros s e. rewrite gen_validate_eq. destruct (validate s) as [m|] eqn:V; [|discriminate].
  intros [= <-]. rewrite model_gen_pe. split; reflexivity.
Qed.

(* C14: the error the source's parser returns, read through the source's own accessors, pinpoints the
   first offence; the label computed by the source's invalid_encoding_len lies inside the input *)
Theorem gen_parse_error_pinpoints : forall (s : str) (e : ParseError),
  gen_validate s = Ret (Err e) ->
  (e = ParseError_NoLeadingSlash /\ (exists b r, s = b :: r /\ b <> SLASH) /\
   gen_ParseError_complete_offset e = Ret 0 /\ gen_ParseError_invalid_encoding_len e s = Ret 0) \/
  (exists a rest co po so l,
     s = a ++ TILDE :: rest /\ escapes_ok a = true /\ bad_follow rest /\
     gen_ParseError_complete_offset e = Ret co /\ co = len a /\
     gen_ParseError_pointer_offset e = Ret po /\ gen_ParseError_offset e = Ret po /\
     nth_N s po = Some SLASH /\ po <= co /\
     gen_ParseError_source_offset e = Ret so /\ so = co - po /\
     no_slash (firstn (N.to_nat (so - 1)) (skipn (S (N.to_nat po)) s)) = true /\
     gen_ParseError_invalid_encoding_len e s = Ret l /\ co + l <= len s /\ (l = 1 \/ l = 2) /\
     gen_ParseError_is_invalid_encoding e = Ret true /\ gen_ParseError_is_no_leading_slash e = Ret false).
Proof.
  intros s e H. apply gen_validate_err_is_model in H as [V E].
  rewrite gen_pe_complete_offset_eq, gen_pe_pointer_offset_eq, gen_pe_offset_eq, gen_pe_source_offset_eq,
    gen_pe_invalid_encoding_len_eq, gen_pe_is_invalid_encoding_eq, gen_pe_is_no_leading_slash_eq.
  destruct (model_pe e) as [|po so] eqn:M.
  - left. rewrite E. cbn [gen_pe]. split; [reflexivity|]. split; [apply validate_nls_iff, V|]. split; reflexivity.
  - right. pose proof (validate_enc_offsets s po so V) as (a & rest & Hs & Ha & Hb & Hco & Hpo & Hle & Hns & Hso).
    pose proof (label_inside s _ V) as (o & l & Hl & Hin & Ho & _ & Hl12).
    unfold pe_label in Hl.
    destruct (pe_invalid_encoding_len (Pointer.InvalidEncoding po so) s) as [l'| |] eqn:EL; try discriminate.
    injection Hl as <- <-.
    exists a, rest, (pe_complete_offset (Pointer.InvalidEncoding po so)), po, so, l'.
    repeat split; try assumption; try reflexivity.
Qed.

(* the label that Diagnostic::labels computes for the string that failed to parse lies inside it and starts at the offence *)
Theorem gen_parse_error_label_inside : forall (s : str) (e : ParseError),
  gen_validate s = Ret (Err e) ->
  exists o l, gen_ParseError_labels e s = Ret (Some (o, l)) /\ o + l <= len s /\
              gen_ParseError_complete_offset e = Ret o.
Proof.
  intros s e H. apply gen_validate_err_is_model in H as [V E].
  pose proof (label_inside s _ V) as (o & l & Hl & Hin & Ho & _).
  exists o, l. rewrite gen_pe_labels_eq, Hl, gen_pe_complete_offset_eq, <- Ho. repeat split; try reflexivity. exact Hin.
Qed.
