(* Proofs/GenEquivIndex.v -- part of the REGENERATED-MODEL tie (DESIGN 13): the definitions of Generated/Scan*.v are
   re-translated from the crate's current Rust source by tools/rs2v.py on every run; the lemmas here
   re-prove, for ALL inputs, that each equals the hand-written model function of Model/*.v that the
   property theorems are stated about.  An edit to a translated function changes the generated term and
   the lemma either still goes through (the edit preserves the function) or breaks (the check then
   searches for a failing input and reports).  Scripts name nothing generated except function names. *)

From JP Require Import Proofs.GenEquivBase Generated.ScanIndex.

Arguments N.add : simpl never.
Arguments N.sub : simpl never.
Arguments N.eqb : simpl never.
Arguments N.ltb : simpl never.
Arguments N.leb : simpl never.
Arguments N.of_nat : simpl never.

(* ---- src/index.rs  for_len / for_len_incl / for_len_unchecked --------------------------------------- *)

Definition gen_oob (r : result N (N * N)) : result N OutOfBoundsError :=
  match r with Ok n => Ok n | Err (l, i) => Err (mk_OutOfBoundsError l i) end.

Theorem gen_for_len_eq i n : gen_Index_for_len (gen_index i) n = Ret (gen_oob (for_len i n)).
Proof. destruct i as [m|]; cbn; [destruct (m <? n)|]; reflexivity. Qed.

Theorem gen_for_len_incl_eq i n : gen_Index_for_len_incl (gen_index i) n = Ret (gen_oob (for_len_incl i n)).
Proof. destruct i as [m|]; cbn; [destruct (m <=? n)|]; reflexivity. Qed.

Theorem gen_for_len_unchecked_eq i n : gen_Index_for_len_unchecked (gen_index i) n = Ret (for_len_unchecked i n).
Proof. destruct i; reflexivity. Qed.

(* ==== the properties, stated of the regenerated functions themselves ============================= *)

Lemma gen_index_surj : forall i : Index, exists m, i = gen_index m.
Proof. intros [n|]; [exists (Num n)|exists Next]; reflexivity. Qed.

(* C16: for_len accepts exactly numeric i < n; for_len_incl accepts i <= n and maps '-' to n;
   for_len_unchecked maps '-' to n and i to i; an out-of-bounds error reports the n and i involved *)
Theorem gen_bound_checks_exact : forall (i : Index) (n : N),
  gen_Index_for_len i n =
    Ret (match i with
         | Index_Num m => if m <? n then Ok m else Err (mk_OutOfBoundsError n m)
         | Index_Next => Err (mk_OutOfBoundsError n n) end) /\
  gen_Index_for_len_incl i n =
    Ret (match i with
         | Index_Num m => if m <=? n then Ok m else Err (mk_OutOfBoundsError n m)
         | Index_Next => Ok n end) /\
  gen_Index_for_len_unchecked i n = Ret (match i with Index_Num m => m | Index_Next => n end).
Proof.
  intros i n. destruct (gen_index_surj i) as [m ->].
  rewrite gen_for_len_eq, gen_for_len_incl_eq, gen_for_len_unchecked_eq.
  destruct m as [k|]; cbn; [destruct (k <? n), (k <=? n)|]; repeat split; reflexivity.
Qed.

(* Display of an Index (`fn fmt` translated to the text it writes): the decimal spelling of the number, or "-" *)
Theorem gen_display_index (i : Index) :
  gen_Index_display i = Ret (match i with Index_Num n => Dec.dec_of_N n | Index_Next => [45] end).
Proof. destruct i; reflexivity. Qed.
