(* Proofs/BytesFacts.v -- characterising lemmas for the primitives of Bytes.v. *)
From JP Require Import Bytes.

Arguments N.add : simpl never.
Arguments N.eqb : simpl never.


(* ---- the byte constants are pairwise distinct ---------------------------------- *)
Lemma eqb_SLASH_TILDE : (SLASH =? TILDE) = false. Proof. reflexivity. Qed.
Lemma eqb_SLASH_ZERO : (SLASH =? ZERO) = false. Proof. reflexivity. Qed.
Lemma eqb_SLASH_ONE : (SLASH =? ONE) = false. Proof. reflexivity. Qed.
Lemma eqb_SLASH_DASH : (SLASH =? DASH) = false. Proof. reflexivity. Qed.
Lemma eqb_SLASH_NINE : (SLASH =? NINE) = false. Proof. reflexivity. Qed.
Lemma eqb_TILDE_SLASH : (TILDE =? SLASH) = false. Proof. reflexivity. Qed.
Lemma eqb_TILDE_ZERO : (TILDE =? ZERO) = false. Proof. reflexivity. Qed.
Lemma eqb_TILDE_ONE : (TILDE =? ONE) = false. Proof. reflexivity. Qed.
Lemma eqb_TILDE_DASH : (TILDE =? DASH) = false. Proof. reflexivity. Qed.
Lemma eqb_TILDE_NINE : (TILDE =? NINE) = false. Proof. reflexivity. Qed.
Lemma eqb_ZERO_SLASH : (ZERO =? SLASH) = false. Proof. reflexivity. Qed.
Lemma eqb_ZERO_TILDE : (ZERO =? TILDE) = false. Proof. reflexivity. Qed.
Lemma eqb_ZERO_ONE : (ZERO =? ONE) = false. Proof. reflexivity. Qed.
Lemma eqb_ZERO_DASH : (ZERO =? DASH) = false. Proof. reflexivity. Qed.
Lemma eqb_ZERO_NINE : (ZERO =? NINE) = false. Proof. reflexivity. Qed.
Lemma eqb_ONE_SLASH : (ONE =? SLASH) = false. Proof. reflexivity. Qed.
Lemma eqb_ONE_TILDE : (ONE =? TILDE) = false. Proof. reflexivity. Qed.
Lemma eqb_ONE_ZERO : (ONE =? ZERO) = false. Proof. reflexivity. Qed.
Lemma eqb_ONE_DASH : (ONE =? DASH) = false. Proof. reflexivity. Qed.
Lemma eqb_ONE_NINE : (ONE =? NINE) = false. Proof. reflexivity. Qed.
Lemma eqb_DASH_SLASH : (DASH =? SLASH) = false. Proof. reflexivity. Qed.
Lemma eqb_DASH_TILDE : (DASH =? TILDE) = false. Proof. reflexivity. Qed.
Lemma eqb_DASH_ZERO : (DASH =? ZERO) = false. Proof. reflexivity. Qed.
Lemma eqb_DASH_ONE : (DASH =? ONE) = false. Proof. reflexivity. Qed.
Lemma eqb_DASH_NINE : (DASH =? NINE) = false. Proof. reflexivity. Qed.
Lemma eqb_NINE_SLASH : (NINE =? SLASH) = false. Proof. reflexivity. Qed.
Lemma eqb_NINE_TILDE : (NINE =? TILDE) = false. Proof. reflexivity. Qed.
Lemma eqb_NINE_ZERO : (NINE =? ZERO) = false. Proof. reflexivity. Qed.
Lemma eqb_NINE_ONE : (NINE =? ONE) = false. Proof. reflexivity. Qed.
Lemma eqb_NINE_DASH : (NINE =? DASH) = false. Proof. reflexivity. Qed.

#[export] Hint Rewrite eqb_SLASH_TILDE eqb_SLASH_ZERO eqb_SLASH_ONE eqb_SLASH_DASH eqb_SLASH_NINE eqb_TILDE_SLASH eqb_TILDE_ZERO eqb_TILDE_ONE eqb_TILDE_DASH eqb_TILDE_NINE eqb_ZERO_SLASH eqb_ZERO_TILDE eqb_ZERO_ONE eqb_ZERO_DASH eqb_ZERO_NINE eqb_ONE_SLASH eqb_ONE_TILDE eqb_ONE_ZERO eqb_ONE_DASH eqb_ONE_NINE eqb_DASH_SLASH eqb_DASH_TILDE eqb_DASH_ZERO eqb_DASH_ONE eqb_DASH_NINE eqb_NINE_SLASH eqb_NINE_TILDE eqb_NINE_ZERO eqb_NINE_ONE eqb_NINE_DASH N.eqb_refl : bytes.
Ltac bc := autorewrite with bytes.
Ltac bc_in H := autorewrite with bytes in H.

Lemma str_eqb_eq a b : str_eqb a b = true <-> a = b.
Proof.
  revert b; induction a as [|x a IH]; intros [|y b]; cbn [str_eqb]; split; intros H;
    try reflexivity; try discriminate.
  - apply andb_true_iff in H as [Hx Hab]. apply N.eqb_eq in Hx. apply IH in Hab. congruence.
  - inversion H; subst. rewrite N.eqb_refl. cbn. apply IH. reflexivity.
Qed.

Lemma str_eqb_refl a : str_eqb a a = true.
Proof. apply str_eqb_eq; reflexivity. Qed.

(* position *)
Lemma position_none f s : position f s = None <-> forallb (fun b => negb (f b)) s = true.
Proof.
  induction s as [|b r IH]; cbn [position forallb]; [tauto|].
  destruct (f b); cbn [negb andb].
  - split; discriminate.
  - destruct (position f r); cbn [option_map]; split; intros H; try discriminate.
    + apply IH in H. discriminate.
    + apply IH. exact H.
    + reflexivity.
Qed.

Lemma position_some f s i :
  position f s = Some i ->
  exists a b r, s = a ++ b :: r /\ length a = i /\ f b = true /\ forallb (fun b => negb (f b)) a = true.
Proof.
  revert i; induction s as [|b r IH]; cbn [position]; intros i H; [discriminate|].
  destruct (f b) eqn:Hb.
  - inversion H; subst. exists [], b, r. cbn. auto.
  - destruct (position f r) as [j|]; cbn [option_map] in H; [|discriminate].
    inversion H; subst. destruct (IH j eq_refl) as (a & c & r' & -> & Hl & Hc & Ha).
    exists (b :: a), c, r'. cbn [app length forallb]. rewrite Hb, Ha, Hl. cbn. auto.
Qed.

Lemma position_app_first f a b r :
  forallb (fun b => negb (f b)) a = true -> f b = true ->
  position f (a ++ b :: r) = Some (length a).
Proof.
  induction a as [|x a IH]; cbn [app position forallb length]; intros Ha Hb.
  - rewrite Hb. reflexivity.
  - apply andb_true_iff in Ha as [Hx Ha]. apply negb_true_iff in Hx. rewrite Hx.
    rewrite IH by assumption. reflexivity.
Qed.

Lemma firstn_app_exact {A} (a b : list A) : firstn (length a) (a ++ b) = a.
Proof. induction a; cbn; congruence. Qed.

Lemma skipn_app_exact {A} (a b : list A) : skipn (length a) (a ++ b) = b.
Proof. induction a; cbn; congruence. Qed.
