(* Proofs/TreeDiag.v -- C15: position / offset of a walk error locate the culprit token inside
   the pointer text; the diagnostic label covers exactly that token's bytes. *)
From Coq Require Import Arith.
From JP Require Import Bytes Spec Value SpecTree Model.Token Model.Pointer Model.Index Model.Tree
  Proofs.BytesFacts Proofs.TokenProofs Proofs.SplitProofs Proofs.ValueFacts
  Proofs.TreeRefine Proofs.TreeLaws.

Arguments N.add : simpl never.
Arguments N.eqb : simpl never.
Arguments N.ltb : simpl never.
Arguments N.leb : simpl never.
Arguments N.sub : simpl never.


(* the offset is the sum of 1 + encoded length over the preceding tokens *)
Lemma len_from_tokens_enc_sum ts :
  len (from_tokens_enc ts) = fold_right (fun t acc => 1 + len t + acc) 0 ts.
Proof.
  induction ts as [|t ts IH]; [reflexivity|]. rewrite len_from_tokens_enc_cons, IH. reflexivity.
Qed.

Lemma locates_of_split pre (t : str) post pos off :
  pos = 0 + len pre -> off = 0 + len (from_tokens_enc pre) ->
  locates (pre ++ t :: post) (length pre) pos off.
Proof.
  intros -> ->. unfold locates. rewrite app_length. cbn [length]. split; [lia|].
  rewrite firstn_app_exact, !N.add_0_l. split; reflexivity.
Qed.

Theorem resolve_error_locates ts d e :
  spec_resolve ts d 0 0 = Err e -> exists k, locates ts k (re_position e) (re_offset e).
Proof.
  intros H. destruct (spec_resolve_err_split _ _ _ _ _ H) as (pre & t & post & path & c & -> & _ & Hstep).
  exists (length pre). apply locates_of_split; unfold step_fails in Hstep;
    destruct c as [| | | | |a|m]; try (subst e; reflexivity);
    try (destruct Hstep as [_ ->]; reflexivity);
    destruct (index_from_str t) as [[n|]|pe]; try (subst e; reflexivity);
    destruct Hstep as [_ ->]; reflexivity.
Qed.

Theorem assign_error_locates ts d v d' e :
  spec_assign ts d v 0 0 = (d', Err e) -> exists k, locates ts k (ae_position e) (ae_offset e).
Proof.
  intros H. destruct (spec_assign_err_split _ _ _ _ _ _ _ H) as (pre & t & post & path & c & -> & _ & Hstep).
  exists (length pre). destruct Hstep as (a & -> & Hstep).
  apply locates_of_split; destruct (index_from_str t) as [[n|]|pe]; try contradiction;
    try (subst e; reflexivity); destruct Hstep as [_ ->]; reflexivity.
Qed.

(* ---- the text side ------------------------------------------------------------------------------------ *)

Lemma nth_N_of_nat {A} (l : list A) : forall k, nth_N l (N.of_nat k) = nth_error l k.
Proof.
  induction l as [|x r IH]; intros k; cbn [nth_N]; [destruct k; reflexivity|].
  destruct k as [|k].
  - reflexivity.
  - assert (E : (N.of_nat (S k) =? 0) = false) by (apply N.eqb_neq; lia). rewrite E.
    replace (N.of_nat (S k) - 1) with (N.of_nat k) by lia. cbn [nth_error]. apply IH.
Qed.

Lemma nth_error_split {A} (l : list A) k t :
  nth_error l k = Some t -> l = firstn k l ++ t :: skipn (S k) l /\ skipn k l = t :: skipn (S k) l.
Proof.
  revert k. induction l as [|x r IH]; intros [|k] H; cbn [nth_error] in H; try discriminate.
  - inversion H; subst. split; reflexivity.
  - destruct (IH k H) as [H1 H2]. cbn [firstn skipn app]. split; [f_equal; exact H1|exact H2].
Qed.


Theorem culprit_in_text ts k position offset :
  Forall (fun t => no_slash t = true) ts -> locates ts k position offset ->
  let p := from_tokens_enc ts in
  exists culprit,
    nth_error ts k = Some culprit /\
    get_tok p position = Some culprit /\
    split_at p offset = Some (from_tokens_enc (firstn k ts), from_tokens_enc (skipn k ts)) /\
    get_byte p offset = Some SLASH /\
    exists o l, walk_label position offset p = Some (o, l) /\ label_covers p culprit offset o l.
Proof.
  intros Hns (Hk & -> & ->) p.
  destruct (nth_error ts k) as [t|] eqn:Ht; [|apply nth_error_None in Ht; lia].
  exists t. split; [reflexivity|].
  destruct (nth_error_split ts k t Ht) as [Hsplit Hskip].
  set (pre := firstn k ts) in *. set (post := skipn (S k) ts) in *.
  assert (Hp : p = from_tokens_enc pre ++ SLASH :: t ++ from_tokens_enc post).
  { unfold p. rewrite Hsplit at 1. rewrite from_tokens_enc_app, from_tokens_enc_cons. reflexivity. }
  set (P := from_tokens_enc pre) in *. set (R := from_tokens_enc post) in *.
  assert (Htok : get_tok p (N.of_nat k) = Some t).
  { unfold get_tok. rewrite ptokens_tokens. unfold p. rewrite tokens_from_tokens_enc by exact Hns.
    rewrite nth_N_of_nat. exact Ht. }
  assert (Hbyte : get_byte p (len P) = Some SLASH).
  { unfold get_byte, len. rewrite nth_N_of_nat, Hp, nth_error_app2 by lia.
    rewrite Nat.sub_diag. reflexivity. }
  split; [exact Htok|]. split; [|split; [exact Hbyte|]].
  - unfold split_at. rewrite Hbyte. bc. unfold len. rewrite Nat2N.id.
    rewrite Hp at 1 2. rewrite firstn_app_exact, skipn_app_exact, Hskip, from_tokens_enc_cons.
    reflexivity.
  - unfold walk_label. rewrite Htok.
    assert (Hlen : len p = len P + 1 + len t + len R).
    { rewrite Hp, len_app, len_cons, len_app. lia. }
    eexists _, _. split; [reflexivity|]. split; [reflexivity|]. split.
    + intros Hne. assert (Hl : 1 <= len t) by (destruct t; [contradiction|rewrite len_cons; lia]).
      assert (E : (len P + 1 <? len p) = true) by (apply N.ltb_lt; lia). rewrite E.
      split; [reflexivity|].
      assert (Ho : N.to_nat (len P + 1) = length (P ++ [SLASH])).
      { rewrite app_length. unfold len. cbn [length]. lia. }
      rewrite Ho. rewrite Hp.
      replace (P ++ SLASH :: t ++ R) with ((P ++ [SLASH]) ++ t ++ R) by (rewrite <- app_assoc; reflexivity).
      rewrite skipn_app_exact. unfold len. rewrite Nat2N.id. apply firstn_app_exact.
    + intros ->. destruct (len P + 1 <? len p); split; auto; rewrite Hlen; lia.
Qed.

(* a valid token has no '/' *)
Lemma valid_toks_noslash ts :
  forallb valid_tok ts = true -> Forall (fun t => no_slash t = true) ts.
Proof.
  intros H. apply Forall_forall. intros t Hin. rewrite forallb_forall in H.
  apply valid_tok_no_slash, H, Hin.
Qed.
