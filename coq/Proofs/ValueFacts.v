(* Proofs/ValueFacts.v -- get/set laws of the containers of Value.v: sorted association lists
   ([obj_lookup] / [obj_insert] / [obj_remove] / [keys_sorted]) and lists ([set_nth] / [remove_nth]). *)
From Coq Require Import Arith.
From JP Require Import Bytes Value Proofs.BytesFacts.

Arguments N.add : simpl never.
Arguments N.eqb : simpl never.

(* ---- str_cmp is a strict total order ------------------------------------------------------------ *)

Lemma str_cmp_eq a : forall b, str_cmp a b = Eq <-> a = b.
Proof.
  induction a as [|x a IH]; intros [|y b]; cbn [str_cmp]; split; intros H;
    try reflexivity; try discriminate.
  - destruct (N.compare_spec x y) as [->|Hlt|Hgt]; try discriminate.
    apply IH in H. subst. reflexivity.
  - inversion H; subst. rewrite N.compare_refl. apply IH. reflexivity.
Qed.

Lemma str_cmp_refl a : str_cmp a a = Eq.
Proof. apply str_cmp_eq. reflexivity. Qed.

Lemma str_cmp_antisym a : forall b, str_cmp b a = CompOpp (str_cmp a b).
Proof.
  induction a as [|x a IH]; intros [|y b]; cbn [str_cmp]; try reflexivity.
  rewrite (N.compare_antisym x y). destruct (x ?= y); cbn [CompOpp]; [apply IH|reflexivity|reflexivity].
Qed.

Lemma str_cmp_lt_trans a : forall b c, str_cmp a b = Lt -> str_cmp b c = Lt -> str_cmp a c = Lt.
Proof.
  induction a as [|x a IH]; intros [|y b] [|z c]; cbn [str_cmp]; intros H1 H2;
    try reflexivity; try discriminate.
  destruct (N.compare_spec x y) as [->|Hxy|Hxy]; try discriminate.
  - destruct (N.compare_spec y z) as [->|Hyz|Hyz]; try discriminate; [|reflexivity].
    apply (IH b c); assumption.
  - destruct (N.compare_spec y z) as [->|Hyz|Hyz]; try discriminate.
    + apply N.compare_lt_iff in Hxy. rewrite Hxy. reflexivity.
    + assert (Hxz : x < z) by lia. apply N.compare_lt_iff in Hxz. rewrite Hxz. reflexivity.
Qed.

Lemma str_ltb_trans a b c : str_ltb a b = true -> str_ltb b c = true -> str_ltb a c = true.
Proof.
  unfold str_ltb. intros H1 H2.
  destruct (str_cmp a b) eqn:E1; try discriminate. destruct (str_cmp b c) eqn:E2; try discriminate.
  rewrite (str_cmp_lt_trans a b c E1 E2). reflexivity.
Qed.

Lemma str_ltb_cmp a b : str_ltb a b = true <-> str_cmp a b = Lt.
Proof. unfold str_ltb. destruct (str_cmp a b); split; intros H; try reflexivity; discriminate. Qed.

Lemma str_eqb_neq a b : str_eqb a b = false <-> a <> b.
Proof.
  split.
  - intros H E. apply str_eqb_eq in E. congruence.
  - intros H. destruct (str_eqb a b) eqn:E; [|reflexivity]. apply str_eqb_eq in E. contradiction.
Qed.

Lemma str_eqb_sym a b : str_eqb a b = str_eqb b a.
Proof.
  destruct (str_eqb a b) eqn:E.
  - apply str_eqb_eq in E. subst. symmetry. apply str_eqb_refl.
  - apply str_eqb_neq in E. symmetry. apply str_eqb_neq. congruence.
Qed.

Lemma str_cmp_lt_neq a b : str_cmp a b = Lt -> a <> b.
Proof. intros H E. subst. rewrite str_cmp_refl in H. discriminate. Qed.

Lemma str_cmp_gt_neq a b : str_cmp a b = Gt -> a <> b.
Proof. intros H E. subst. rewrite str_cmp_refl in H. discriminate. Qed.

Lemma str_cmp_gt_lt a b : str_cmp a b = Gt -> str_cmp b a = Lt.
Proof. intros H. rewrite str_cmp_antisym, H. reflexivity. Qed.

Lemma str_dec (a b : str) : {a = b} + {a <> b}.
Proof. destruct (str_eqb a b) eqn:E; [left; apply str_eqb_eq, E|right; apply str_eqb_neq, E]. Qed.

(* ---- lookup after insert (no sortedness needed) ---------------------------------------------------- *)

Lemma obj_lookup_insert_same k v m : obj_lookup k (obj_insert k v m) = Some v.
Proof.
  induction m as [|[k' v'] r IH]; cbn [obj_insert obj_lookup].
  - rewrite str_eqb_refl. reflexivity.
  - destruct (str_cmp k k') eqn:E; cbn [obj_lookup].
    + rewrite str_eqb_refl. reflexivity.
    + rewrite str_eqb_refl. reflexivity.
    + apply str_cmp_gt_neq, str_eqb_neq in E. rewrite E. exact IH.
Qed.

Lemma obj_lookup_insert_other k k' v m : k <> k' -> obj_lookup k' (obj_insert k v m) = obj_lookup k' m.
Proof.
  intros Hne. assert (Hf : str_eqb k' k = false) by (apply str_eqb_neq; congruence).
  induction m as [|[k0 v0] r IH]; cbn [obj_insert obj_lookup].
  - rewrite Hf. reflexivity.
  - destruct (str_cmp k k0) eqn:E; cbn [obj_lookup].
    + apply str_cmp_eq in E. subst k0. rewrite Hf. reflexivity.
    + rewrite Hf. reflexivity.
    + rewrite IH. reflexivity.
Qed.

Lemma obj_insert_insert k v w m : obj_insert k v (obj_insert k w m) = obj_insert k v m.
Proof.
  induction m as [|[k' v'] r IH]; cbn [obj_insert].
  - rewrite str_cmp_refl. reflexivity.
  - destruct (str_cmp k k') eqn:E; cbn [obj_insert].
    + rewrite str_cmp_refl. reflexivity.
    + rewrite str_cmp_refl. reflexivity.
    + rewrite E, IH. reflexivity.
Qed.

Lemma obj_lookup_remove_other k k' m : k <> k' -> obj_lookup k' (obj_remove k m) = obj_lookup k' m.
Proof.
  intros Hne. induction m as [|[k0 v0] r IH]; cbn [obj_remove obj_lookup]; [reflexivity|].
  destruct (str_eqb k k0) eqn:E.
  - apply str_eqb_eq in E. subst k0.
    assert (Hf : str_eqb k' k = false) by (apply str_eqb_neq; congruence). rewrite Hf. reflexivity.
  - cbn [obj_lookup]. rewrite IH. reflexivity.
Qed.

(* ---- sortedness -------------------------------------------------------------------------------------- *)

Definition keys_above (k : str) (m : obj) : Prop := Forall (fun kv => str_ltb k (fst kv) = true) m.

Lemma keys_sorted_cons k v r :
  keys_sorted ((k, v) :: r) = true <-> keys_above k r /\ keys_sorted r = true.
Proof.
  revert k v. induction r as [|[k' v'] r IH]; intros k v.
  - cbn. split; [intros _; split; [constructor|reflexivity]|reflexivity].
  - change (keys_sorted ((k, v) :: (k', v') :: r)) with (str_ltb k k' && keys_sorted ((k', v') :: r)).
    rewrite andb_true_iff. split.
    + intros [H1 H2]. split; [|exact H2]. constructor; [exact H1|].
      apply IH in H2 as [Ha _]. unfold keys_above in *. rewrite Forall_forall in *.
      intros kv Hin. apply (str_ltb_trans k k'); [exact H1|apply Ha, Hin].
    + intros [Ha Hs]. inversion Ha; subst. split; assumption.
Qed.

Lemma keys_above_lookup_none k m : keys_above k m -> obj_lookup k m = None.
Proof.
  induction m as [|[k' v'] r IH]; intros H; [reflexivity|]. inversion H as [|? ? Hk Hr]; subst.
  cbn [obj_lookup fst] in *. apply str_ltb_cmp, str_cmp_lt_neq, str_eqb_neq in Hk. rewrite Hk.
  apply IH, Hr.
Qed.

Lemma keys_above_insert k0 k v m :
  str_ltb k0 k = true -> keys_above k0 m -> keys_above k0 (obj_insert k v m).
Proof.
  intros Hk. induction m as [|[k' v'] r IH]; intros Ha; cbn [obj_insert].
  - constructor; [exact Hk|constructor].
  - inversion Ha as [|? ? H1 H2]; subst. destruct (str_cmp k k').
    + constructor; [exact Hk|exact H2].
    + constructor; [exact Hk|exact Ha].
    + constructor; [exact H1|apply IH, H2].
Qed.

Lemma keys_sorted_insert k v m : keys_sorted m = true -> keys_sorted (obj_insert k v m) = true.
Proof.
  induction m as [|[k' v'] r IH]; intros Hs; cbn [obj_insert]; [reflexivity|].
  pose proof Hs as Hs'. apply keys_sorted_cons in Hs' as [Ha Hr].
  destruct (str_cmp k k') eqn:E.
  - apply str_cmp_eq in E. subst k'. apply keys_sorted_cons. split; assumption.
  - apply keys_sorted_cons. split; [|exact Hs].
    constructor; [apply str_ltb_cmp, E|].
    unfold keys_above in *. rewrite Forall_forall in *. intros kv Hin.
    apply (str_ltb_trans k k'); [apply str_ltb_cmp, E|apply Ha, Hin].
  - apply keys_sorted_cons. split; [|apply IH, Hr].
    apply keys_above_insert; [apply str_ltb_cmp, str_cmp_gt_lt, E|exact Ha].
Qed.

(* re-inserting what is already there changes nothing (this is where sortedness is needed) *)
Lemma obj_insert_lookup_id k c m :
  keys_sorted m = true -> obj_lookup k m = Some c -> obj_insert k c m = m.
Proof.
  induction m as [|[k' v'] r IH]; intros Hs Hl; cbn [obj_lookup obj_insert] in *; [discriminate|].
  apply keys_sorted_cons in Hs as [Ha Hr].
  destruct (str_eqb k k') eqn:E.
  - apply str_eqb_eq in E. subst k'. inversion Hl; subst. rewrite str_cmp_refl. reflexivity.
  - destruct (str_cmp k k') eqn:C.
    + apply str_cmp_eq in C. apply str_eqb_neq in E. contradiction.
    + exfalso. assert (Hn : obj_lookup k r = None).
      { apply keys_above_lookup_none. unfold keys_above in *. rewrite Forall_forall in *.
        intros kv Hin. apply (str_ltb_trans k k'); [apply str_ltb_cmp, C|apply Ha, Hin]. }
      congruence.
    + rewrite (IH Hr Hl). reflexivity.
Qed.

Lemma keys_above_remove k0 k m : keys_above k0 m -> keys_above k0 (obj_remove k m).
Proof.
  induction m as [|[k' v'] r IH]; intros Ha; cbn [obj_remove]; [constructor|].
  inversion Ha; subst. destruct (str_eqb k k'); [assumption|]. constructor; [assumption|apply IH; assumption].
Qed.

Lemma keys_sorted_remove k m : keys_sorted m = true -> keys_sorted (obj_remove k m) = true.
Proof.
  induction m as [|[k' v'] r IH]; intros Hs; cbn [obj_remove]; [reflexivity|].
  apply keys_sorted_cons in Hs as [Ha Hr]. destruct (str_eqb k k'); [exact Hr|].
  apply keys_sorted_cons. split; [apply keys_above_remove, Ha|apply IH, Hr].
Qed.

Lemma obj_lookup_remove_same k m : keys_sorted m = true -> obj_lookup k (obj_remove k m) = None.
Proof.
  induction m as [|[k' v'] r IH]; intros Hs; cbn [obj_remove]; [reflexivity|].
  apply keys_sorted_cons in Hs as [Ha Hr]. destruct (str_eqb k k') eqn:E.
  - apply str_eqb_eq in E. subst k'. apply keys_above_lookup_none, Ha.
  - cbn [obj_lookup]. rewrite E. apply IH, Hr.
Qed.

Lemma obj_lookup_In k m c : obj_lookup k m = Some c -> In (k, c) m.
Proof.
  induction m as [|[k' v'] r IH]; cbn [obj_lookup]; intros H; [discriminate|].
  destruct (str_eqb k k') eqn:E.
  - apply str_eqb_eq in E. inversion H; subst. left. reflexivity.
  - right. apply IH, H.
Qed.

(* in a sorted map every listed member is found by lookup *)
Lemma obj_lookup_sorted_In k c m : keys_sorted m = true -> In (k, c) m -> obj_lookup k m = Some c.
Proof.
  induction m as [|[k' v'] r IH]; intros Hs Hin; [destruct Hin|].
  apply keys_sorted_cons in Hs as [Ha Hr]. cbn [obj_lookup]. destruct Hin as [E|Hin].
  - inversion E; subst. rewrite str_eqb_refl. reflexivity.
  - unfold keys_above in Ha. rewrite Forall_forall in Ha. specialize (Ha _ Hin). cbn [fst] in Ha.
    apply str_ltb_cmp, str_cmp_lt_neq in Ha.
    assert (Hf : str_eqb k k' = false) by (apply str_eqb_neq; congruence). rewrite Hf.
    apply IH; assumption.
Qed.

Lemma Forall_obj_insert (P : str * value -> Prop) k v m :
  P (k, v) -> Forall P m -> Forall P (obj_insert k v m).
Proof.
  intros Hp. induction m as [|[k' v'] r IH]; intros H; cbn [obj_insert].
  - constructor; [exact Hp|constructor].
  - inversion H; subst. destruct (str_cmp k k'); constructor; auto.
Qed.

Lemma Forall_obj_remove (P : str * value -> Prop) k m : Forall P m -> Forall P (obj_remove k m).
Proof.
  induction m as [|[k' v'] r IH]; intros H; cbn [obj_remove]; [constructor|].
  inversion H; subst. destruct (str_eqb k k'); [assumption|constructor; auto].
Qed.

(* ---- set_nth / remove_nth ------------------------------------------------------------------------------ *)

Lemma length_set_nth {A} n (x : A) : forall l, length (set_nth n x l) = length l.
Proof.
  induction n as [|n IH]; intros [|y l]; cbn [set_nth length]; try reflexivity. rewrite IH. reflexivity.
Qed.

Lemma nth_error_set_nth_same {A} n (x : A) : forall l,
  (n < length l)%nat -> nth_error (set_nth n x l) n = Some x.
Proof.
  induction n as [|n IH]; intros [|y l] H; cbn [length] in H; try lia; cbn [set_nth nth_error].
  - reflexivity.
  - apply IH. lia.
Qed.

Lemma nth_error_set_nth_other {A} n (x : A) : forall l j,
  n <> j -> nth_error (set_nth n x l) j = nth_error l j.
Proof.
  induction n as [|n IH]; intros [|y l] j H; cbn [set_nth]; try reflexivity.
  - destruct j; [contradiction|reflexivity].
  - destruct j; [reflexivity|]. cbn [nth_error]. apply IH. congruence.
Qed.

Lemma set_nth_id {A} n (c : A) : forall l, nth_error l n = Some c -> set_nth n c l = l.
Proof.
  induction n as [|n IH]; intros [|y l] H; cbn [nth_error set_nth] in *; try discriminate.
  - inversion H; subst. reflexivity.
  - rewrite (IH l H). reflexivity.
Qed.

Lemma set_nth_set_nth {A} n (x y : A) : forall l, set_nth n x (set_nth n y l) = set_nth n x l.
Proof.
  induction n as [|n IH]; intros [|z l]; cbn [set_nth]; try reflexivity. rewrite IH. reflexivity.
Qed.

Lemma Forall_set_nth {A} (P : A -> Prop) n x : forall l, P x -> Forall P l -> Forall P (set_nth n x l).
Proof.
  induction n as [|n IH]; intros [|y l] Hx H; cbn [set_nth]; try constructor;
    inversion H; subst; auto.
Qed.

Lemma length_remove_nth {A} n : forall (l : list A),
  (n < length l)%nat -> length (remove_nth n l) = (length l - 1)%nat.
Proof.
  induction n as [|n IH]; intros [|y l] H; cbn [length] in H; try lia; cbn [remove_nth length].
  - lia.
  - rewrite IH by lia. lia.
Qed.

Lemma nth_error_remove_nth {A} n : forall (l : list A) j,
  nth_error (remove_nth n l) j = if (j <? n)%nat then nth_error l j else nth_error l (S j).
Proof.
  induction n as [|n IH]; intros [|y l] j; cbn [remove_nth].
  - destruct (j <? 0)%nat; destruct j; reflexivity.
  - reflexivity.
  - destruct (j <? S n)%nat; destruct j; reflexivity.
  - destruct j as [|j]; [reflexivity|]. cbn [nth_error]. rewrite IH.
    change (S j <? S n)%nat with (j <? n)%nat. reflexivity.
Qed.

Lemma Forall_remove_nth {A} (P : A -> Prop) n : forall l, Forall P l -> Forall P (remove_nth n l).
Proof.
  induction n as [|n IH]; intros [|y l] H; cbn [remove_nth]; try constructor;
    inversion H; subst; auto.
Qed.

Lemma nth_error_snoc_last {A} (a : list A) x : nth_error (a ++ [x]) (length a) = Some x.
Proof. rewrite nth_error_app2 by lia. rewrite Nat.sub_diag. reflexivity. Qed.

Lemma nth_error_Forall {A} (P : A -> Prop) l n c : Forall P l -> nth_error l n = Some c -> P c.
Proof. intros H E. rewrite Forall_forall in H. apply H. eapply nth_error_In, E. Qed.
