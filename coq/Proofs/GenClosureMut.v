(* Proofs/GenClosureMut.v -- consequences of Proofs/GenEquivTreeMut.v, stated of the REGENERATED mutating walks themselves
   (Generated/ScanTreeMut.v: assign_value / assign_array / assign_object / assign_scalar / Assign::assign, Delete::delete,
   ResolveMut::resolve_mut, both backends, re-translated from the crate's current source on every run).

   [gen_tree_run] folds the regenerated functions over a history of operations, each applied to `&mut doc`
   ([lens_root]); the theorems say that this fold IS the reference tree store of SpecTree.v / SpecHist.v. *)

From JP Require Import Proofs.GenEquivBase Value Model.Slice Model.Tree SpecTree SpecHist
  Generated.ScanToken Generated.ScanPtrOps Generated.ScanSlice Generated.ScanIndex GenTreePrelude Generated.ScanTree
  Generated.ScanTreeMut
  Proofs.ValueFacts Proofs.TreeRefine Proofs.TreeLaws Proofs.WfLaws Proofs.ModelLaws Proofs.HistoryProofs
  Proofs.GenEquivTree Proofs.GenEquivTreeMut.

Definition gen_assign (be : backend) := match be with Json => gen_json_assign | Toml => gen_toml_assign end.
Definition gen_delete (be : backend) := match be with Json => gen_json_delete | Toml => gen_toml_delete end.
Definition gen_resolve (be : backend) := match be with Json => gen_json_resolve | Toml => gen_toml_resolve end.
Definition gen_resolve_mut_lens (be : backend) :=
  match be with Json => gen_json_resolve_mut_lens | Toml => gen_toml_resolve_mut_lens end.

(* ---- single calls ------------------------------------------------------------------------------------------------------- *)

Theorem gen_assign_eq be (d : value) (p : str) (v : value) : sorted_value d ->
  omap model_aout (gen_assign be d (lens_root d) p v) = assign p d v.
Proof. destruct be; [apply gen_json_assign_eq|apply gen_toml_assign_eq]. Qed.

Theorem gen_delete_eq be (d : value) (p : str) : sorted_value d ->
  gen_delete be d (lens_root d) p = delete be p d.
Proof. destruct be; [apply gen_json_delete_eq|apply gen_toml_delete_eq]. Qed.

Theorem gen_resolve_mut_lens_ok be (d : value) (p : str) :
  lres_rel d d (gen_resolve_mut_lens be d (lens_root d) p) (resolve p d).
Proof. destruct be; [apply gen_json_resolve_mut_lens_ok|apply gen_toml_resolve_mut_lens_ok]. Qed.

(* the regenerated assign IS the rule table of SpecTree.spec_assign, on every real document and valid pointer *)
Theorem gen_assign_refines be (d : value) (p : str) (v : value) : sorted_value d -> valid_ptr p = true ->
  omap model_aout (gen_assign be d (lens_root d) p v) = Ret (spec_assign (tokens p) d v 0 0).
Proof. intros Hs Hp. rewrite gen_assign_eq by exact Hs. apply assign_refines, Hp. Qed.

Theorem gen_delete_refines be (d : value) (p : str) : sorted_value d -> valid_ptr p = true ->
  gen_delete be d (lens_root d) p = Ret (spec_delete be (tokens p) d).
Proof. intros Hs Hp. rewrite gen_delete_eq by exact Hs. apply delete_refines, Hp. Qed.

(* atomic on error, of the source itself: a failed assign returns the document it was given *)
Theorem gen_assign_atomic be (d : value) (p : str) (v : value) (d' : value) (e : AssignError) :
  sorted_value d -> gen_assign be d (lens_root d) p v = Ret (d', Err e) -> d' = d.
Proof.
  intros Hs H.
  assert (A : forall g, arel d (fun x => x) d g (assign p d v) -> g = Ret (d', Err e) -> d' = d).
  { intros g R ->. destruct (assign p d v) as [[c [r|e']]| |]; cbn [arel] in R; try contradiction. tauto. }
  destruct be; cbn [gen_assign] in H.
  - unfold gen_json_assign in H. apply (A (gen_json_assign_value d p (lens_root d) v)).
    + apply (gen_json_assign_value_loop_ok (S (length p)) p d (fun x => x) v d 0 0 Hs).
    + destruct (gen_json_assign_value d p (lens_root d) v) as [[r1 r2]| |]; cbn [fst snd] in H; try discriminate.
      inversion H; subst. reflexivity.
  - unfold gen_toml_assign in H. apply (A (gen_toml_assign_value d p (lens_root d) v)).
    + apply (gen_toml_assign_value_loop_ok (S (length p)) p d (fun x => x) v d 0 0 Hs).
    + destruct (gen_toml_assign_value d p (lens_root d) v) as [[r1 r2]| |]; cbn [fst snd] in H; try discriminate.
      inversion H; subst. reflexivity.
Qed.

(* none of the regenerated mutating walks panics or runs out of fuel on a valid pointer *)
Theorem gen_mut_walks_total be (d : value) (p : str) (v : value) : sorted_value d -> valid_ptr p = true ->
  (exists r, gen_assign be d (lens_root d) p v = Ret r) /\ (exists r, gen_delete be d (lens_root d) p = Ret r) /\
  (exists r, gen_resolve_mut_lens be d (lens_root d) p = Ret r).
Proof.
  intros Hs Hp. split; [|split].
  - pose proof (gen_assign_refines be d p v Hs Hp) as H.
    destruct (gen_assign be d (lens_root d) p v); try discriminate. eauto.
  - rewrite gen_delete_refines by assumption. eauto.
  - pose proof (gen_resolve_mut_lens_ok be d p) as H. rewrite (resolve_refines p d Hp) in H.
    destruct (gen_resolve_mut_lens be d (lens_root d) p) as [r| |]; cbn [lres_rel] in H; try contradiction. eauto.
Qed.

(* ---- histories ---------------------------------------------------------------------------------------------------------- *)

(* what a caller of the source observes of one operation: resolve shows the value (no path) *)
Inductive gen_out :=
| GAssign (r : result (option value) assign_error)
| GDelete (r : option value)
| GResolve (r : result value resolve_error)
| GWrite (r : result unit resolve_error).

Definition forget_out (o : tree_out) : gen_out :=
  match o with
  | TAssign r => GAssign r | TDelete r => GDelete r | TResolve r => GResolve (forget_path r) | TWrite r => GWrite r
  end.

Definition gen_tree_step (be : backend) (d : value) (o : tree_op) : outcome (value * gen_out) :=
  match o with
  | OAssign p v =>
      match gen_assign be d (lens_root d) p v with
      | Ret (d', r) => Ret (d', GAssign (model_ares r)) | Panic => Panic | OutOfFuel => OutOfFuel
      end
  | ODelete p =>
      match gen_delete be d (lens_root d) p with
      | Ret (d', r) => Ret (d', GDelete r) | Panic => Panic | OutOfFuel => OutOfFuel
      end
  | OResolve p =>
      match gen_resolve be d p with
      | Ret r => Ret (d, GResolve (model_res r)) | Panic => Panic | OutOfFuel => OutOfFuel
      end
  | OWrite p v =>                                   (* *doc.resolve_mut(p)? = v *)
      match gen_resolve_mut_lens be d (lens_root d) p with
      | Ret (_, Ok l) => Ret (snd l v, GWrite (Ok tt))
      | Ret (_, Err e) => Ret (d, GWrite (Err (model_rerr e)))
      | Panic => Panic | OutOfFuel => OutOfFuel
      end
  end.

Fixpoint gen_tree_run (be : backend) (d : value) (ops : list tree_op) : outcome (value * list gen_out) :=
  match ops with
  | [] => Ret (d, [])
  | o :: r =>
      match gen_tree_step be d o with
      | Ret (d', out) =>
          match gen_tree_run be d' r with
          | Ret (d'', outs) => Ret (d'', out :: outs) | Panic => Panic | OutOfFuel => OutOfFuel
          end
      | Panic => Panic | OutOfFuel => OutOfFuel
      end
  end.

Lemma gen_resolve_eq be d p : omap model_res (gen_resolve be d p) = forget (resolve p d).
Proof. destruct be; [apply gen_json_resolve_eq|apply gen_toml_resolve_eq]. Qed.

Lemma gen_step_is_model be d o : sorted_value d ->
  gen_tree_step be d o = omap (fun x => (fst x, forget_out (snd x))) (impl_tree_step be d o).
Proof.
  intros Hs. destruct o as [p v|p|p|p v]; cbn [gen_tree_step impl_tree_step].
  - rewrite <- (gen_assign_eq be d p v Hs).
    destruct (gen_assign be d (lens_root d) p v) as [[d' r]| |]; reflexivity.
  - rewrite (gen_delete_eq be d p Hs). destruct (delete be p d) as [[d' r]| |]; reflexivity.
  - pose proof (gen_resolve_eq be d p) as H.
    destruct (gen_resolve be d p) as [r| |]; destruct (resolve p d) as [r'| |]; cbn [omap forget] in H |- *;
      try discriminate; try reflexivity.
    inversion H as [H1]. cbn [fst snd forget_out]. rewrite H1. reflexivity.
  - unfold write_through, resolve_mut. pose proof (gen_resolve_mut_lens_ok be d p) as H.
    destruct (gen_resolve_mut_lens be d (lens_root d) p) as [[root' [l|e]]| |];
      destruct (resolve p d) as [[[path w]|e']| |]; cbn [lres_rel] in H; try contradiction; try reflexivity.
    + destruct H as (_ & _ & _ & Hp). cbn [omap fst snd forget_out]. rewrite Hp. reflexivity.
    + destruct H as [_ <-]. reflexivity.
Qed.

(* THE history theorem of the regenerated source: from a real document, any sequence of valid assigns / deletes /
   resolves / writes through resolve_mut leaves the document of the reference tree and returns what it returns *)
Theorem gen_history_refines be ops : forall d,
  sorted_value d -> Forall op_values_sorted ops -> Forall op_valid ops ->
  gen_tree_run be d ops =
  Ret (fst (spec_tree_run be d ops), map forget_out (snd (spec_tree_run be d ops))).
Proof.
  induction ops as [|o ops IH]; intros d Hs Hv Hops; cbn [gen_tree_run spec_tree_run]; [reflexivity|].
  inversion Hv as [|? ? Hvo Hvs]; subst. inversion Hops as [|? ? Ho Hos]; subst.
  rewrite (gen_step_is_model be d o Hs), (impl_step_refines be d o Ho).
  pose proof (spec_step_sorted be d o Hs Hvo) as S.
  destruct (spec_tree_step be d o) as [d' out]. cbn [omap fst snd] in *.
  rewrite (IH d' S Hvs Hos). destruct (spec_tree_run be d' ops) as [d'' outs]. reflexivity.
Qed.

Corollary gen_history_no_panic be ops d :
  sorted_value d -> Forall op_values_sorted ops -> Forall op_valid ops ->
  gen_tree_run be d ops <> Panic /\ gen_tree_run be d ops <> OutOfFuel.
Proof. intros A B C. rewrite (gen_history_refines be ops d A B C). split; discriminate. Qed.

(* ---- the two backends against each other (C09) ------------------------------------------------------------------------- *)

Theorem gen_assign_backends_agree (d : value) (p : str) (v : value) : sorted_value d ->
  omap model_aout (gen_json_assign d (lens_root d) p v) = omap model_aout (gen_toml_assign d (lens_root d) p v).
Proof. intros Hs. rewrite gen_json_assign_eq, gen_toml_assign_eq by exact Hs. reflexivity. Qed.

Theorem gen_delete_backends_agree (d : value) (p : str) : sorted_value d -> valid_ptr p = true -> p <> [] ->
  gen_json_delete d (lens_root d) p = gen_toml_delete d (lens_root d) p.
Proof.
  intros Hs Hp Hne. rewrite gen_json_delete_eq, gen_toml_delete_eq by exact Hs. apply delete_backends_agree; assumption.
Qed.

Theorem gen_delete_root (d : value) :
  gen_json_delete d (lens_root d) [] = Ret (Null, Some d) /\ gen_toml_delete d (lens_root d) [] = Ret (Obj [], Some d).
Proof. split; reflexivity. Qed.

(* writing through the reference the source's resolve_mut returns: resolve then reads the written value at that pointer, and
   every location that is neither on the path nor below it resolves as before *)
Theorem gen_write_through_laws be (d : value) (p : str) (v : value) (root : value) (l : lens value) :
  valid_ptr p = true -> gen_resolve_mut_lens be d (lens_root d) p = Ret (root, Ok l) ->
  root = d /\
  exists path, resolve p d = Ret (Ok (path, fst l)) /\
    snd l v = update_at path (fun _ => v) d /\
    resolve p (snd l v) = Ret (Ok (path, v)) /\
    (forall q qpath w, valid_ptr q = true -> resolve q d = Ret (Ok (qpath, w)) ->
       ~ is_prefix (tokens q) (tokens p) -> ~ is_prefix (tokens p) (tokens q) ->
       resolve q (snd l v) = Ret (Ok (qpath, w))).
Proof.
  intros Hp H. pose proof (gen_resolve_mut_lens_ok be d p) as R. rewrite H in R.
  destruct (resolve p d) as [[[path w]|e]| |] eqn:E; cbn [lres_rel] in R; try contradiction.
  destruct R as (-> & Hw & Hg & Hput). split; [reflexivity|]. exists path. subst w.
  assert (W : write_through p d v = Ret (Ok (snd l v))).
  { unfold write_through, resolve_mut. rewrite E, Hput. reflexivity. }
  destruct (write_through_laws p d v (snd l v) Hp W) as (path' & old & E' & _ & Hd' & Hr & Hf).
  rewrite E in E'. inversion E'; subst path' old.
  split; [reflexivity|]. split; [exact (Hput v)|]. split; [exact Hr|exact Hf].
Qed.

(* ---- errors of the regenerated mutating walks locate the culprit (C15) ------------------------------------------------- *)

Theorem gen_assign_error_diag be (d : value) (p : str) (v d' : value) (e : AssignError) :
  sorted_value d -> valid_ptr p = true -> gen_assign be d (lens_root d) p v = Ret (d', Err e) ->
  exists pos off, gen_AssignError_position e = Ret pos /\ gen_AssignError_offset e = Ret off /\
    SpecTree.error_locates_culprit p pos off /\ assign_first_failure (tokens p) d (model_aerr e).
Proof.
  intros Hs Hp H. pose proof (gen_assign_eq be d p v Hs) as A. rewrite H in A. cbn [omap model_aout fst snd model_ares] in A.
  exists (ae_position (model_aerr e)), (ae_offset (model_aerr e)).
  split; [apply gen_AssignError_position_eq|]. split; [apply gen_AssignError_offset_eq|].
  split; [exact (assign_error_diag p d v d' (model_aerr e) Hp (eq_sym A))|].
  apply (assign_error_first_failure p d v (model_aerr e) Hp). exists d'. exact (eq_sym A).
Qed.

Theorem gen_resolve_mut_error_diag be (d : value) (p : str) (root : value) (e : ResolveError) :
  valid_ptr p = true -> gen_resolve_mut_lens be d (lens_root d) p = Ret (root, Err e) ->
  exists pos off, gen_ResolveError_position e = Ret pos /\ gen_ResolveError_offset e = Ret off /\
    SpecTree.error_locates_culprit p pos off /\ first_failure (tokens p) d (model_rerr e).
Proof.
  intros Hp H. pose proof (gen_resolve_mut_lens_ok be d p) as R. rewrite H in R.
  destruct (resolve p d) as [[[path w]|e']| |] eqn:E; cbn [lres_rel] in R; try contradiction.
  destruct R as [_ <-].
  exists (re_position (model_rerr e)), (re_offset (model_rerr e)).
  split; [apply gen_ResolveError_position_eq|]. split; [apply gen_ResolveError_offset_eq|].
  split; [exact (resolve_error_diag p d (model_rerr e) Hp E)|].
  apply (resolve_error_first_failure p d (model_rerr e) Hp). exact E.
Qed.
