(* Proofs/Utf8Proofs.v -- every string the model functions build or cut out of well-formed UTF-8
   is well-formed UTF-8 again: the justification of the crate's `from_utf8_unchecked` /
   `new_unchecked` calls ("we only cut at / insert / replace ASCII bytes"). *)
From Coq Require Import ZArith.
From JP Require Import Bytes Dec Spec SpecBuf Utf8 Model.Token Model.Pointer Model.Slice Model.Index Model.Conv
  Proofs.BytesFacts Proofs.TokenProofs Proofs.SplitProofs Proofs.ValidateProofs Proofs.TokensProofs
  Proofs.IndexProofs Proofs.ConvProofs Proofs.BufProofs Proofs.PrefixProofs Proofs.SliceProofs
  Proofs.ClosureProofs.

Arguments N.add : simpl never.
Arguments N.sub : simpl never.
Arguments N.eqb : simpl never.
Arguments N.ltb : simpl never.
Arguments N.leb : simpl never.

(* ==== 1. byte classes ========================================================================== *)

Lemma in_range_spec lo hi b : in_range lo hi b = true <-> lo <= b /\ b <= hi.
Proof. unfold in_range. rewrite andb_true_iff, !N.leb_le. tauto. Qed.

Lemma in_range_false lo hi b : in_range lo hi b = false <-> b < lo \/ hi < b.
Proof.
  unfold in_range. rewrite andb_false_iff, !N.leb_gt. tauto.
Qed.

Lemma is_ascii_spec b : is_ascii b = true <-> b < 128.
Proof. unfold is_ascii. apply N.ltb_lt. Qed.

Lemma is_cont_spec b : is_cont b = true <-> 128 <= b /\ b <= 191.
Proof. apply in_range_spec. Qed.

(* break every comparison on bytes in the goal into its two cases *)
Ltac brk :=
  repeat match goal with
  | |- context [?a <? ?b] => destruct (N.ltb_spec a b)
  | |- context [?a <=? ?b] => destruct (N.leb_spec a b)
  | |- context [?a =? ?b] => destruct (N.eqb_spec a b)
  end; cbn [andb orb negb].

Lemma lead_width_1 b : lead_width b = 1%nat <-> b < 128.
Proof. unfold lead_width, in_range. brk; split; intros; try discriminate; try lia; reflexivity. Qed.

Lemma lead_width_ascii b : b < 128 -> lead_width b = 1%nat.
Proof. apply lead_width_1. Qed.

Lemma lead_width_high b : lead_width b <> 0%nat -> lead_width b <> 1%nat -> 194 <= b /\ b <= 244.
Proof. unfold lead_width, in_range. brk; intros; try congruence; lia. Qed.

Lemma lead_width_le b : lead_width b <> 0%nat -> b <= 244.
Proof. unfold lead_width, in_range. brk; intros; try congruence; lia. Qed.

Lemma lead_width_cont b : is_cont b = true -> lead_width b = 0%nat.
Proof. rewrite is_cont_spec. unfold lead_width, in_range. brk; intros; try reflexivity; lia. Qed.

Lemma second_ok_cont b0 b1 : second_ok b0 b1 = true -> is_cont b1 = true.
Proof.
  unfold second_ok. rewrite is_cont_spec.
  destruct (b0 =? 224); [|destruct (b0 =? 237); [|destruct (b0 =? 240); [|destruct (b0 =? 244)]]];
    rewrite in_range_spec; lia.
Qed.

(* ==== 2. a valid text is a concatenation of characters ======================================== *)

(* one encoded scalar value *)
Definition is_char (ch : str) : Prop :=
  match ch with
  | [b0] => lead_width b0 = 1%nat
  | [b0; b1] => lead_width b0 = 2%nat /\ second_ok b0 b1 = true
  | [b0; b1; b2] => lead_width b0 = 3%nat /\ second_ok b0 b1 = true /\ is_cont b2 = true
  | [b0; b1; b2; b3] =>
      lead_width b0 = 4%nat /\ second_ok b0 b1 = true /\ is_cont b2 = true /\ is_cont b3 = true
  | _ => False
  end.

Inductive chars : str -> Prop :=
| chars_nil : chars []
| chars_cons ch r : is_char ch -> chars r -> chars (ch ++ r).

Lemma utf8_char_app ch s : is_char ch -> utf8_valid (ch ++ s) = utf8_valid s.
Proof.
  destruct ch as [|b0 [|b1 [|b2 [|b3 [|b4 ch]]]]]; cbn [is_char]; try contradiction.
  - intros W. cbn [app utf8_valid]. rewrite W. reflexivity.
  - intros (W & H1). cbn [app utf8_valid]. rewrite W, H1. reflexivity.
  - intros (W & H1 & H2). cbn [app utf8_valid]. rewrite W, H1, H2. reflexivity.
  - intros (W & H1 & H2 & H3). cbn [app utf8_valid]. rewrite W, H1, H2, H3. reflexivity.
Qed.

Lemma chars_utf8 s : chars s -> utf8_valid s = true.
Proof. induction 1 as [|ch r Hch _ IH]; [reflexivity|]. rewrite utf8_char_app; assumption. Qed.

Lemma utf8_chars_len : forall n s, (length s <= n)%nat -> utf8_valid s = true -> chars s.
Proof.
  induction n as [|n IH]; intros s Hl H.
  - destruct s; [constructor|cbn in Hl; lia].
  - destruct s as [|b0 r0]; [constructor|]. cbn [utf8_valid] in H. cbn [length] in Hl.
    destruct (lead_width b0) as [|[|[|[|[|w]]]]] eqn:W; try discriminate.
    + apply (chars_cons [b0] r0); [exact W|]. apply IH; [lia|exact H].
    + destruct r0 as [|b1 r1]; [discriminate|]. apply andb_true_iff in H as [H1 H].
      cbn [length] in Hl.
      apply (chars_cons [b0; b1] r1); [split; assumption|]. apply IH; [lia|exact H].
    + destruct r0 as [|b1 [|b2 r2]]; try discriminate.
      apply andb_true_iff in H as [H12 H]. apply andb_true_iff in H12 as [H1 H2].
      cbn [length] in Hl.
      apply (chars_cons [b0; b1; b2] r2); [repeat split; assumption|]. apply IH; [lia|exact H].
    + destruct r0 as [|b1 [|b2 [|b3 r3]]]; try discriminate.
      apply andb_true_iff in H as [H123 H]. apply andb_true_iff in H123 as [H12 H3].
      apply andb_true_iff in H12 as [H1 H2]. cbn [length] in Hl.
      apply (chars_cons [b0; b1; b2; b3] r3); [repeat split; assumption|]. apply IH; [lia|exact H].
Qed.

Theorem utf8_chars s : utf8_valid s = true <-> chars s.
Proof. split; [apply (utf8_chars_len (length s)); apply le_n|apply chars_utf8]. Qed.

Lemma chars_one ch : is_char ch -> chars ch.
Proof. intros H. rewrite <- (app_nil_r ch). constructor; [exact H|constructor]. Qed.

(* the shape of one character *)
Lemma is_char_nonempty ch : is_char ch -> ch <> [].
Proof. destruct ch; [contradiction|discriminate]. Qed.

Lemma is_char_tail_cont ch : is_char ch -> Forall (fun c => is_cont c = true) (tl ch).
Proof.
  destruct ch as [|b0 [|b1 [|b2 [|b3 [|b4 ch]]]]]; cbn [is_char tl]; try contradiction.
  - constructor.
  - intros (_ & H1). apply second_ok_cont in H1. repeat constructor; assumption.
  - intros (_ & H1 & H2). apply second_ok_cont in H1. repeat constructor; assumption.
  - intros (_ & H1 & H2 & H3). apply second_ok_cont in H1. repeat constructor; assumption.
Qed.

Lemma is_char_head ch : is_char ch -> exists b0 t, ch = b0 :: t /\ lead_width b0 = length ch.
Proof.
  destruct ch as [|b0 [|b1 [|b2 [|b3 [|b4 ch]]]]]; cbn [is_char]; try contradiction; intros H;
    exists b0; eexists; (split; [reflexivity|]); cbn [length]; tauto.
Qed.

(* a character is one ASCII byte, or consists of bytes >= 128 only *)
Lemma is_char_cases ch :
  is_char ch -> (exists c, ch = [c] /\ c < 128) \/ (ch <> [] /\ Forall (fun b => 128 <= b) ch).
Proof.
  intros H. pose proof (is_char_tail_cont ch H) as Ht.
  destruct (is_char_head ch H) as (b0 & t & -> & W). cbn [tl] in Ht.
  destruct t as [|b1 t].
  - left. exists b0. split; [reflexivity|]. apply lead_width_1. exact W.
  - right. split; [discriminate|]. constructor.
    + assert (194 <= b0 /\ b0 <= 244) by (apply lead_width_high; rewrite W; cbn [length]; lia). lia.
    + eapply Forall_impl; [|exact Ht]. cbn beta. intros c Hc. apply is_cont_spec in Hc. lia.
Qed.

Lemma is_char_lt_256 ch : is_char ch -> Forall (fun b => b < 256) ch.
Proof.
  intros H. pose proof (is_char_tail_cont ch H) as Ht.
  destruct (is_char_head ch H) as (b0 & t & -> & W). cbn [tl] in Ht. constructor.
  - assert (b0 <= 244) by (apply lead_width_le; rewrite W; cbn [length]; lia). lia.
  - eapply Forall_impl; [|exact Ht]. cbn beta. intros c Hc. apply is_cont_spec in Hc. lia.
Qed.

(* ==== 3. the core lemmas ======================================================================= *)

Theorem utf8_app a b : utf8_valid a = true -> utf8_valid b = true -> utf8_valid (a ++ b) = true.
Proof.
  intros Ha Hb. apply utf8_chars in Ha. induction Ha as [|ch r Hch _ IH]; [exact Hb|].
  rewrite <- app_assoc, utf8_char_app; assumption.
Qed.

Theorem utf8_cons_ascii c s : c < 128 -> utf8_valid (c :: s) = utf8_valid s.
Proof. intros H. cbn [utf8_valid]. rewrite (lead_width_ascii c H). reflexivity. Qed.

(* the first byte of the right-hand part is not a continuation byte: the cut is on a boundary *)
Definition nocont_head (b : str) : Prop :=
  match b with [] => True | c :: _ => is_cont c = false end.

Lemma chars_app_inv s : chars s -> forall a b, s = a ++ b -> nocont_head b -> chars a /\ chars b.
Proof.
  induction 1 as [|ch r Hch Hr IH]; intros a b E Hb.
  - symmetry in E. apply app_eq_nil in E as [-> ->]. split; constructor.
  - apply app_eq_app in E as [l [[E1 E2]|[E1 E2]]].
    + (* ch = a ++ l, b = l ++ r *)
      destruct l as [|c l'].
      * rewrite app_nil_r in E1. subst a b. cbn [app]. split; [apply chars_one, Hch|exact Hr].
      * destruct a as [|x a'].
        -- cbn [app] in E1. subst ch b. split; [constructor|]. constructor; assumption.
        -- exfalso. subst b. cbn [app nocont_head] in Hb.
           pose proof (is_char_tail_cont ch Hch) as Ht. rewrite E1 in Ht. cbn [app tl] in Ht.
           apply Forall_app in Ht as [_ Ht]. inversion Ht; congruence.
    + (* a = ch ++ l, r = l ++ b *)
      destruct (IH l b E2 Hb) as [Hl Hb']. split; [subst a; constructor; assumption|exact Hb'].
Qed.

(* the general cutting lemma *)
Theorem utf8_app_inv_boundary a b :
  utf8_valid (a ++ b) = true -> nocont_head b -> utf8_valid a = true /\ utf8_valid b = true.
Proof.
  intros H Hb. apply utf8_chars in H. destruct (chars_app_inv _ H a b eq_refl Hb) as [Ha Hb'].
  split; apply utf8_chars; assumption.
Qed.

Lemma ascii_not_cont c : c < 128 -> is_cont c = false.
Proof. intros H. apply in_range_false. lia. Qed.

Lemma ascii_head_nocont b : ascii_head b -> nocont_head b.
Proof. destruct b as [|c r]; [intros _; exact I|]. cbn. apply ascii_not_cont. Qed.

Lemma utf8_nocont_head b : utf8_valid b = true -> nocont_head b.
Proof.
  destruct b as [|c r]; [intros _; exact I|]. cbn [utf8_valid nocont_head]. intros H.
  destruct (is_cont c) eqn:E; [|reflexivity]. rewrite (lead_width_cont c E) in H. discriminate.
Qed.

Theorem utf8_app_inv_ascii_head a b :
  utf8_valid (a ++ b) = true -> (b = [] \/ exists c r, b = c :: r /\ c < 128) ->
  utf8_valid a = true /\ utf8_valid b = true.
Proof.
  intros H Hb. apply utf8_app_inv_boundary; [exact H|].
  destruct Hb as [->|(c & r & -> & Hc)]; [exact I|]. cbn. apply ascii_not_cont, Hc.
Qed.

Theorem utf8_app_inv_ascii a b :
  utf8_valid (a ++ b) = true -> ascii_head b -> utf8_valid a = true /\ utf8_valid b = true.
Proof. intros H Hb. apply utf8_app_inv_boundary; [exact H|apply ascii_head_nocont, Hb]. Qed.

(* UTF-8 is self-synchronising: a valid suffix (prefix) of a valid text leaves a valid rest *)
Theorem utf8_app_inv_r a b : utf8_valid (a ++ b) = true -> utf8_valid b = true -> utf8_valid a = true.
Proof. intros H Hb. apply (utf8_app_inv_boundary a b H), utf8_nocont_head, Hb. Qed.

Theorem utf8_app_inv_l a b : utf8_valid (a ++ b) = true -> utf8_valid a = true -> utf8_valid b = true.
Proof.
  intros H Ha. apply utf8_chars in Ha. induction Ha as [|ch r Hch _ IH]; [exact H|].
  apply IH. rewrite <- app_assoc, utf8_char_app in H; assumption.
Qed.

Theorem utf8_split_ascii a c b :
  c < 128 -> utf8_valid (a ++ c :: b) = true -> utf8_valid a = true /\ utf8_valid b = true.
Proof.
  intros Hc H. destruct (utf8_app_inv_ascii a (c :: b) H Hc) as [Ha Hb].
  rewrite utf8_cons_ascii in Hb by exact Hc. auto.
Qed.

Theorem utf8_cut_at_ascii s k c :
  utf8_valid s = true -> nth_error s k = Some c -> c < 128 ->
  char_boundary s k /\ char_boundary s (S k).
Proof.
  intros Hs Hk Hc. apply nth_error_split in Hk as (a & b & -> & <-).
  destruct (utf8_split_ascii a c b Hc Hs) as [Ha Hb].
  unfold char_boundary. rewrite firstn_app_exact, skipn_app_exact.
  replace (a ++ c :: b) with ((a ++ [c]) ++ b) by (rewrite <- app_assoc; reflexivity).
  replace (S (length a)) with (length (a ++ [c])) by (rewrite app_length; cbn [length]; lia).
  rewrite firstn_app_exact, skipn_app_exact.
  repeat split; try assumption.
  - rewrite utf8_cons_ascii; assumption.
  - apply utf8_app; [exact Ha|]. rewrite utf8_cons_ascii by exact Hc. reflexivity.
Qed.

Theorem utf8_bytes_lt_256 s : utf8_valid s = true -> Forall (fun b => b < 256) s.
Proof.
  intros H. apply utf8_chars in H. induction H as [|ch r Hch _ IH]; [constructor|].
  apply Forall_app. split; [apply is_char_lt_256, Hch|exact IH].
Qed.

Theorem utf8_ascii_only s : Forall (fun b => b < 128) s -> utf8_valid s = true.
Proof. induction 1 as [|c s Hc _ IH]; [reflexivity|]. rewrite utf8_cons_ascii; assumption. Qed.

(* induction over a valid text: an ASCII byte at a time, or a multi-byte character at a time *)
Lemma utf8_ind (P : str -> Prop) :
  P [] ->
  (forall c r, c < 128 -> utf8_valid r = true -> P r -> P (c :: r)) ->
  (forall h r, Forall (fun b => 128 <= b) h -> utf8_valid h = true -> utf8_valid r = true -> P r -> P (h ++ r)) ->
  forall s, utf8_valid s = true -> P s.
Proof.
  intros H0 H1 Hh s Hs. apply utf8_chars in Hs. induction Hs as [|ch r Hch Hr IH]; [exact H0|].
  pose proof (chars_utf8 r Hr) as Vr.
  destruct (is_char_cases ch Hch) as [(c & -> & Hc)|[_ Hhigh]].
  - apply H1; assumption.
  - apply Hh; try assumption. apply chars_utf8, chars_one, Hch.
Qed.

Lemma char_boundary_0 s : utf8_valid s = true -> char_boundary s 0.
Proof. intros H. split; [reflexivity|exact H]. Qed.

Lemma char_boundary_end s : utf8_valid s = true -> char_boundary s (length s).
Proof. intros H. split; [rewrite firstn_all; exact H|rewrite skipn_all; reflexivity]. Qed.

(* ==== 4. vocabulary for the per-function lemmas ================================================ *)

Notation all_utf8 := (Forall (fun t : str => utf8_valid t = true)).
Notation high := (Forall (fun b : N => 128 <= b)).

Lemma SLASH_ascii : SLASH < 128. Proof. reflexivity. Qed.
Lemma TILDE_ascii : TILDE < 128. Proof. reflexivity. Qed.
Lemma ZERO_ascii : ZERO < 128. Proof. reflexivity. Qed.
Lemma ONE_ascii : ONE < 128. Proof. reflexivity. Qed.
Lemma DASH_ascii : DASH < 128. Proof. reflexivity. Qed.
#[local] Hint Resolve SLASH_ascii TILDE_ascii ZERO_ascii ONE_ascii DASH_ascii : ascii.

(* discharge the side condition `c < 128` of [utf8_cons_ascii] *)
Ltac asc := first [assumption | reflexivity | auto with ascii].

Lemma all_utf8_forallb ts : forallb utf8_valid ts = true <-> all_utf8 ts.
Proof. rewrite forallb_forall, Forall_forall. tauto. Qed.

Lemma all_utf8_firstn ts k : all_utf8 ts -> all_utf8 (firstn k ts).
Proof. rewrite !Forall_forall. intros H x Hx. apply H, (In_firstn _ _ _ Hx). Qed.

Lemma all_utf8_skipn ts k : all_utf8 ts -> all_utf8 (skipn k ts).
Proof. rewrite !Forall_forall. intros H x Hx. apply H, (In_skipn _ _ _ Hx). Qed.

Lemma all_utf8_tl ts : all_utf8 ts -> all_utf8 (tl ts).
Proof. intros H. destruct ts; [constructor|]. inversion H; assumption. Qed.

Lemma all_utf8_set_nth n t ts : utf8_valid t = true -> all_utf8 ts -> all_utf8 (set_nth n t ts).
Proof.
  intros Ht H. revert n. induction H as [|x ts Hx Hts IH]; intros [|n]; cbn [set_nth]; constructor; auto.
Qed.

Lemma all_utf8_nth_error ts n t : all_utf8 ts -> nth_error ts n = Some t -> utf8_valid t = true.
Proof. intros H E. rewrite Forall_forall in H. apply H. eapply nth_error_In, E. Qed.

Lemma skipn_S_app_exact {A} (a : list A) c r : skipn (S (length a)) (a ++ c :: r) = r.
Proof. induction a as [|x a IH]; [reflexivity|exact IH]. Qed.

Lemma firstn_S_app_exact {A} (a : list A) c r : firstn (S (length a)) (a ++ c :: r) = a ++ [c].
Proof. induction a as [|x a IH]; [reflexivity|]. cbn [length app firstn] in *. rewrite IH. reflexivity. Qed.

Lemma find_some c s i : find c s = Some i -> exists a r, s = a ++ c :: r /\ length a = i.
Proof.
  unfold find. intros H. apply position_some in H as (a & b & r & -> & Hl & Hb & _).
  apply N.eqb_eq in Hb. subst b. eauto.
Qed.

Lemma ascii_head_shaped p : ptr_shaped p -> ascii_head p.
Proof. intros [->|[r ->]]; [exact I|exact SLASH_ascii]. Qed.

Lemma ascii_head_valid_ptr p : valid_ptr p = true -> ascii_head p.
Proof. intros H. apply ascii_head_shaped, valid_ptr_shaped, H. Qed.

Lemma ascii_head_app a b : ascii_head a -> ascii_head b -> ascii_head (a ++ b).
Proof. destruct a; [intros _ H; exact H|intros H _; exact H]. Qed.

Lemma ascii_head_firstn a k : ascii_head a -> ascii_head (firstn k a).
Proof. destruct a, k; cbn; trivial. Qed.

(* ==== 5. tokens ================================================================================ *)

Lemma ascii_head_from_tokens_enc ts : ascii_head (from_tokens_enc ts).
Proof. apply ascii_head_shaped, from_tokens_enc_shaped. Qed.

(* a pointer text is well-formed exactly when each of its tokens is *)
Theorem utf8_from_tokens_enc_iff ts : utf8_valid (from_tokens_enc ts) = true <-> all_utf8 ts.
Proof.
  induction ts as [|t ts IH]; [split; [constructor|reflexivity]|].
  rewrite from_tokens_enc_cons, utf8_cons_ascii by asc. split.
  - intros H. apply utf8_app_inv_ascii in H as [Ht Hr]; [|apply ascii_head_from_tokens_enc].
    constructor; [exact Ht|apply IH, Hr].
  - intros H. inversion H; subst. apply utf8_app; [assumption|apply IH; assumption].
Qed.

Theorem utf8_from_tokens_enc ts : all_utf8 ts -> utf8_valid (from_tokens_enc ts) = true.
Proof. apply utf8_from_tokens_enc_iff. Qed.

Theorem utf8_split_on s : utf8_valid s = true -> all_utf8 (split_on SLASH s).
Proof.
  intros H. apply utf8_from_tokens_enc_iff. rewrite from_tokens_enc_split, utf8_cons_ascii by asc. exact H.
Qed.

Theorem utf8_ptokens p : utf8_valid p = true -> all_utf8 (ptokens p).
Proof. intros H. apply all_utf8_tl, utf8_split_on, H. Qed.

Theorem utf8_tokens p : utf8_valid p = true -> all_utf8 (tokens p).
Proof. exact (utf8_ptokens p). Qed.

(* bytes >= 128 are none of the bytes the escaping functions look at *)
Lemma high_not_special b : 128 <= b ->
  (b =? TILDE) = false /\ (b =? SLASH) = false /\ (b =? ZERO) = false /\ (b =? ONE) = false.
Proof. unfold TILDE, SLASH, ZERO, ONE. intros H. repeat split; apply N.eqb_neq; lia. Qed.

Lemma encode_high_app h r : high h -> encode (h ++ r) = h ++ encode r.
Proof.
  induction 1 as [|b h Hb _ IH]; [reflexivity|]. cbn [app encode].
  destruct (high_not_special b Hb) as (-> & -> & _). rewrite IH. reflexivity.
Qed.

Theorem utf8_encode s : utf8_valid s = true -> utf8_valid (encode s) = true.
Proof.
  revert s. apply utf8_ind.
  - reflexivity.
  - intros c r Hc _ IH. cbn [encode].
    destruct (c =? TILDE); [|destruct (c =? SLASH)]; rewrite !utf8_cons_ascii by asc; exact IH.
  - intros h r Hh Vh _ IH. rewrite encode_high_app by exact Hh. apply utf8_app; assumption.
Qed.

Theorem utf8_new_loop s : utf8_valid s = true -> utf8_valid (new_loop s) = true.
Proof. rewrite new_loop_encode. apply utf8_encode. Qed.

Theorem utf8_token_new o s : utf8_valid s = true -> utf8_valid (ttext (token_new o s)) = true.
Proof. rewrite token_new_text. apply utf8_encode. Qed.

(* Token::new as the Rust code runs it: a verbatim prefix up to the first special byte, then the loop *)
Theorem utf8_token_new_pieces s i :
  utf8_valid s = true -> position is_special s = Some i -> char_boundary s i.
Proof.
  intros H Hp. apply position_some in Hp as (a & b & r & -> & <- & Hb & _).
  assert (b < 128).
  { unfold is_special in Hb. apply orb_true_iff in Hb as [E|E]; apply N.eqb_eq in E; subst b; reflexivity. }
  unfold char_boundary. rewrite firstn_app_exact, skipn_app_exact. apply utf8_app_inv_ascii; assumption.
Qed.

(* unescape: what follows a '~' *)
Definition after_tilde_text (s : str) : str :=
  match s with
  | c :: r' => if c =? ZERO then TILDE :: unescape r' else if c =? ONE then SLASH :: unescape r' else unescape s
  | [] => []
  end.

Lemma unescape_tilde s : unescape (TILDE :: s) = after_tilde_text s.
Proof. cbn [unescape]. rewrite N.eqb_refl. reflexivity. Qed.

Lemma unescape_high_app h r : high h -> unescape (h ++ r) = h ++ unescape r.
Proof.
  induction 1 as [|b h Hb _ IH]; [reflexivity|]. cbn [app unescape].
  destruct (high_not_special b Hb) as (-> & _). rewrite IH. reflexivity.
Qed.

Lemma utf8_unescape_both s : utf8_valid s = true ->
  utf8_valid (unescape s) = true /\ utf8_valid (after_tilde_text s) = true.
Proof.
  revert s. apply utf8_ind.
  - split; reflexivity.
  - intros c r Hc _ [IH1 IH2].
    assert (A : utf8_valid (unescape (c :: r)) = true).
    { destruct (N.eqb_spec c TILDE) as [->|Hn].
      - rewrite unescape_tilde. exact IH2.
      - cbn [unescape]. apply N.eqb_neq in Hn. rewrite Hn, utf8_cons_ascii by asc. exact IH1. }
    split; [exact A|]. cbn [after_tilde_text].
    destruct (c =? ZERO); [|destruct (c =? ONE)]; rewrite ?utf8_cons_ascii by asc; assumption.
  - intros h r Hh Vh _ [IH1 IH2].
    assert (A : utf8_valid (unescape (h ++ r)) = true).
    { rewrite unescape_high_app by exact Hh. apply utf8_app; assumption. }
    split; [exact A|]. destruct h as [|b h']; [exact IH2|].
    cbn [app after_tilde_text]. inversion Hh; subst.
    destruct (high_not_special b) as (_ & _ & -> & ->); [assumption|]. exact A.
Qed.

(* for ALL texts e, valid token or not *)
Theorem utf8_unescape e : utf8_valid e = true -> utf8_valid (unescape e) = true.
Proof. intros H. apply utf8_unescape_both, H. Qed.

Lemma dec_loop_high_app h r esc : high h -> dec_loop (h ++ r) esc = h ++ dec_loop r esc.
Proof.
  induction 1 as [|b h Hb _ IH]; [reflexivity|]. cbn [app dec_loop].
  destruct (high_not_special b Hb) as (-> & _ & -> & ->). cbn [andb]. rewrite IH. reflexivity.
Qed.

Theorem utf8_dec_loop s esc : utf8_valid s = true -> utf8_valid (dec_loop s esc) = true.
Proof.
  intros H. revert esc. revert s H. apply (utf8_ind (fun s => forall esc, utf8_valid (dec_loop s esc) = true)).
  - reflexivity.
  - intros c r Hc _ IH esc. cbn [dec_loop].
    destruct (c =? TILDE); [apply IH|].
    destruct ((c =? ZERO) && esc); [rewrite utf8_cons_ascii by asc; apply IH|].
    destruct ((c =? ONE) && esc); rewrite utf8_cons_ascii by asc; apply IH.
  - intros h r Hh Vh _ IH esc. rewrite dec_loop_high_app by exact Hh. apply utf8_app; [exact Vh|apply IH].
Qed.

(* Token::decoded, for ALL token texts t *)
Theorem utf8_decoded t : utf8_valid t = true -> utf8_valid (decoded t) = true.
Proof.
  intros H. unfold decoded, decoded_cow.
  destruct (position (N.eqb TILDE) t) as [i|] eqn:Hp; cbn [snd]; [|exact H].
  apply position_some in Hp as (a & b & r & -> & <- & Hb & _). apply N.eqb_eq in Hb. subst b.
  rewrite firstn_app_exact, skipn_S_app_exact.
  destruct (utf8_split_ascii a TILDE r TILDE_ascii H) as [Va Vr].
  apply utf8_app; [exact Va|apply utf8_dec_loop, Vr].
Qed.

Lemma all_utf8_map_encode L : all_utf8 L -> all_utf8 (map encode L).
Proof. induction 1; cbn [map]; constructor; [apply utf8_encode|]; assumption. Qed.

Theorem utf8_from_tokens L : all_utf8 L -> utf8_valid (from_tokens L) = true.
Proof. intros H. apply utf8_from_tokens_enc, all_utf8_map_encode, H. Qed.

Theorem utf8_buf_from_tokens L : all_utf8 L -> utf8_valid (buf_from_tokens L) = true.
Proof. rewrite buf_from_tokens_spec. apply utf8_from_tokens. Qed.

Lemma digit_ascii b : is_digit b = true -> b < 128.
Proof. unfold is_digit. intros H. apply andb_true_iff in H as [_ H]. apply N.leb_le in H. lia. Qed.

Lemma digits_ascii s : forallb is_digit s = true -> Forall (fun b => b < 128) s.
Proof. rewrite forallb_forall, Forall_forall. intros H b Hb. apply digit_ascii, H, Hb. Qed.

Theorem dec_of_N_ascii n : Forall (fun b => b < 128) (dec_of_N n).
Proof. apply digits_ascii, dec_of_N_digits. Qed.

Theorem utf8_dec_of_N n : utf8_valid (dec_of_N n) = true.
Proof. apply utf8_ascii_only, dec_of_N_ascii. Qed.

Theorem token_of_int_ascii z : Forall (fun b => b < 128) (token_of_int z).
Proof.
  destruct z as [|p|p]; cbn [token_of_int dec_of_Z].
  - repeat constructor.
  - apply dec_of_N_ascii.
  - constructor; [exact DASH_ascii|apply dec_of_N_ascii].
Qed.

Theorem utf8_token_of_int z : utf8_valid (token_of_int z) = true.
Proof. apply utf8_ascii_only, token_of_int_ascii. Qed.

Theorem utf8_index_display i : utf8_valid (index_display i) = true.
Proof. destruct i; [apply utf8_dec_of_N|reflexivity]. Qed.

(* ==== 6. accessors of one pointer ============================================================== *)

(* cutting at the first / last '/' *)
Lemma utf8_split_once p a b :
  utf8_valid p = true -> split_once SLASH p = Some (a, b) -> utf8_valid a = true /\ utf8_valid b = true.
Proof.
  intros H E. unfold split_once in E. destruct (find SLASH p) as [i|] eqn:Ef; [|discriminate].
  apply find_some in Ef as (x & y & -> & <-). rewrite firstn_app_exact, skipn_S_app_exact in E.
  inversion E; subst. apply (utf8_split_ascii a SLASH b SLASH_ascii H).
Qed.

Lemma utf8_rsplit_once p a b :
  utf8_valid p = true -> rsplit_once SLASH p = Some (a, b) -> utf8_valid a = true /\ utf8_valid b = true.
Proof.
  intros H E. unfold rsplit_once in E. destruct (rfind SLASH p) as [i|] eqn:Ef; [|discriminate].
  apply rfind_some in Ef as (x & y & -> & <- & _). rewrite firstn_app_exact, skipn_S_app_exact in E.
  inversion E; subst. apply (utf8_split_ascii a SLASH b SLASH_ascii H).
Qed.

Theorem utf8_back p t : utf8_valid p = true -> back p = Some t -> utf8_valid t = true.
Proof.
  intros H E. unfold back in E. destruct (rsplit_once SLASH p) as [[a b]|] eqn:Er; [|discriminate].
  cbn [option_map snd] in E. inversion E; subst. apply (utf8_rsplit_once p a t H Er).
Qed.

Theorem utf8_parent p f : utf8_valid p = true -> parent p = Some f -> utf8_valid f = true.
Proof.
  intros H E. unfold parent in E. destruct (rsplit_once SLASH p) as [[a b]|] eqn:Er; [|discriminate].
  cbn [option_map fst] in E. inversion E; subst. apply (utf8_rsplit_once p f b H Er).
Qed.

Theorem utf8_split_back p f t :
  utf8_valid p = true -> split_back p = Some (f, t) -> utf8_valid f = true /\ utf8_valid t = true.
Proof. apply utf8_rsplit_once. Qed.

(* front / split_front / pop_front cut at byte 1 (`self.0[1..]`): the first byte has to be a whole
   character.  It is for every pointer text ('/'); for an arbitrary text see NOTES.md. *)
Theorem utf8_front_partial p t :
  utf8_valid p = true -> ascii_head p -> front p = Some t -> utf8_valid t = true.
Proof.
  intros H Ha E. unfold front in E. destruct p as [|b p']; cbn [is_root skipn] in E; [discriminate|].
  cbn [ascii_head] in Ha. rewrite utf8_cons_ascii in H by exact Ha.
  destruct (split_once SLASH p') as [[f r]|] eqn:Es; inversion E; subst; [|exact H].
  apply (utf8_split_once p' t r H Es).
Qed.

Theorem utf8_split_front_partial p t r :
  utf8_valid p = true -> ascii_head p -> split_front p = Some (t, r) ->
  utf8_valid t = true /\ utf8_valid r = true.
Proof.
  intros H Ha E. unfold split_front in E. destruct p as [|b p']; cbn [is_root skipn] in E; [discriminate|].
  cbn [ascii_head] in Ha. rewrite utf8_cons_ascii in H by exact Ha.
  destruct (find SLASH p') as [i|] eqn:Ef.
  - apply find_some in Ef as (x & y & -> & <-). rewrite firstn_app_exact, skipn_app_exact in E.
    inversion E; subst. apply utf8_app_inv_ascii; [exact H|exact SLASH_ascii].
  - inversion E; subst. split; [exact H|reflexivity].
Qed.

Theorem utf8_split_at p k h t :
  utf8_valid p = true -> split_at p k = Some (h, t) -> utf8_valid h = true /\ utf8_valid t = true.
Proof.
  intros H E. unfold split_at, get_byte in E. rewrite nth_N_nth_error in E.
  destruct (nth_error p (N.to_nat k)) as [b|] eqn:En; [|discriminate].
  destruct (N.eqb_spec b SLASH) as [->|]; [|discriminate]. inversion E; subst.
  destruct (utf8_cut_at_ascii p _ SLASH H En SLASH_ascii) as [B _]. exact B.
Qed.

Theorem utf8_get_tok p i t : utf8_valid p = true -> get_tok p i = Some t -> utf8_valid t = true.
Proof.
  intros H E. pose proof (utf8_ptokens p H) as Ht. rewrite Forall_forall in Ht.
  apply Ht. eapply nth_N_In, E.
Qed.

Theorem utf8_components p c :
  utf8_valid p = true -> In c (components p) ->
  match c with CRoot => True | CToken t => utf8_valid t = true end.
Proof.
  intros H [<-|Hc]; [exact I|]. apply in_map_iff in Hc as (t & <- & Ht).
  pose proof (utf8_ptokens p H) as Hts. rewrite Forall_forall in Hts. apply Hts, Ht.
Qed.

(* ==== 7. range slices (Model/Slice.v) ========================================================== *)

Theorem utf8_get_bounds_shaped p lo hi x y :
  ptr_shaped p -> utf8_valid p = true -> get_bounds p lo hi = Ret (Some (x, y)) ->
  x <= y /\ y <= len p /\ utf8_valid (bytes_at p x y) = true.
Proof.
  intros Sp H E. pose proof (from_tokens_enc_tokens p Sp) as Ep. rewrite <- Ep in E.
  destruct (get_bounds_view (tokens p) lo hi x y (tokens_noslash p) E)
    as (i & j & _ & _ & _ & _ & _ & Hxy & Hy & Hb & _).
  rewrite Ep in Hy, Hb. repeat split; try assumption. rewrite Hb.
  apply utf8_from_tokens_enc. unfold sub_tokens. apply all_utf8_firstn, all_utf8_skipn, utf8_tokens, H.
Qed.

Theorem utf8_get_bounds p lo hi x y :
  valid_ptr p = true -> utf8_valid p = true -> get_bounds p lo hi = Ret (Some (x, y)) ->
  x <= y /\ y <= len p /\ utf8_valid (bytes_at p x y) = true.
Proof. intros Hp. apply utf8_get_bounds_shaped, valid_ptr_shaped, Hp. Qed.

(* the six concrete range forms are instances of the (Bound, Bound) form *)
Lemma get_range_as_bounds p s e : get_range p s e = get_bounds p (Included s) (Excluded e).
Proof. reflexivity. Qed.
Lemma get_range_from_as_bounds p s : get_range_from p s = get_bounds p (Included s) Unbounded.
Proof. reflexivity. Qed.
Lemma get_range_to_as_bounds p e : get_range_to p e = get_bounds p Unbounded (Excluded e).
Proof. reflexivity. Qed.
Lemma get_range_full_as_bounds p : get_range_full p = get_bounds p Unbounded Unbounded.
Proof. reflexivity. Qed.
Lemma get_range_incl_as_bounds p s e : get_range_incl p s e = get_bounds p (Included s) (Included e).
Proof. reflexivity. Qed.
Lemma get_range_to_incl_as_bounds p e : get_range_to_incl p e = get_bounds p Unbounded (Included e).
Proof. reflexivity. Qed.

Theorem utf8_ranges p x y :
  valid_ptr p = true -> utf8_valid p = true ->
  (forall s e, get_range p s e = Ret (Some (x, y)) -> utf8_valid (bytes_at p x y) = true) /\
  (forall s, get_range_from p s = Ret (Some (x, y)) -> utf8_valid (bytes_at p x y) = true) /\
  (forall e, get_range_to p e = Ret (Some (x, y)) -> utf8_valid (bytes_at p x y) = true) /\
  (get_range_full p = Ret (Some (x, y)) -> utf8_valid (bytes_at p x y) = true) /\
  (forall s e, get_range_incl p s e = Ret (Some (x, y)) -> utf8_valid (bytes_at p x y) = true) /\
  (forall e, get_range_to_incl p e = Ret (Some (x, y)) -> utf8_valid (bytes_at p x y) = true).
Proof.
  intros Hp H. repeat split; intros;
    match goal with E : _ = Ret (Some (x, y)) |- _ =>
      first [ rewrite get_range_as_bounds in E | rewrite get_range_from_as_bounds in E
            | rewrite get_range_to_as_bounds in E | rewrite get_range_full_as_bounds in E
            | rewrite get_range_incl_as_bounds in E | rewrite get_range_to_incl_as_bounds in E ];
      apply (utf8_get_bounds p _ _ x y Hp H E)
    end.
Qed.

(* ==== 8. two pointers, or a pointer and a token ================================================ *)

Theorem utf8_p_strip_prefix p q v :
  utf8_valid p = true -> p_strip_prefix p q = Some v -> utf8_valid v = true.
Proof.
  intros H E. unfold p_strip_prefix in E. destruct (strip_prefix p q) as [s|] eqn:Es; [|discriminate].
  destruct (is_root s || starts_with s [SLASH]) eqn:B; [|discriminate]. inversion E; subst s.
  apply strip_prefix_some in Es. subst p. apply boundary_check_iff, ascii_head_shaped in B.
  apply (utf8_app_inv_ascii q v H B).
Qed.

(* the remaining prefix is cut off in front of a valid text: the cut is on a character boundary *)
Theorem utf8_p_strip_suffix p q v :
  utf8_valid p = true -> utf8_valid q = true -> p_strip_suffix p q = Some v -> utf8_valid v = true.
Proof.
  intros H Hq E. unfold p_strip_suffix in E. apply strip_suffix_some in E. subst p.
  apply (utf8_app_inv_r v q H Hq).
Qed.

(* ... or in front of '/' (a valid pointer), whatever else the suffix holds *)
Theorem utf8_p_strip_suffix_ptr p q v :
  utf8_valid p = true -> valid_ptr q = true -> p_strip_suffix p q = Some v -> utf8_valid v = true.
Proof.
  intros H Hq E. unfold p_strip_suffix in E. apply strip_suffix_some in E. subst p.
  apply (utf8_app_inv_ascii v q H), ascii_head_valid_ptr, Hq.
Qed.

Theorem utf8_intersection p q : utf8_valid p = true -> utf8_valid (intersection p q) = true.
Proof.
  intros H. unfold intersection. destruct (is_root p || is_root q); [reflexivity|].
  destruct (split_at p _) as [[h t]|] eqn:E; [|exact H]. apply (utf8_split_at p _ h t H E).
Qed.

Theorem utf8_append p q : utf8_valid p = true -> utf8_valid q = true -> utf8_valid (append p q) = true.
Proof. rewrite append_is_app. apply utf8_app. Qed.

Theorem utf8_concat_ptr p q :
  utf8_valid p = true -> utf8_valid q = true -> utf8_valid (concat_ptr p q) = true.
Proof. apply utf8_append. Qed.

Theorem utf8_push_front p tok :
  utf8_valid p = true -> utf8_valid tok = true -> utf8_valid (push_front p tok) = true.
Proof. intros Hp Ht. unfold push_front. rewrite utf8_cons_ascii by asc. apply utf8_app; assumption. Qed.

Theorem utf8_push_back p tok :
  utf8_valid p = true -> utf8_valid tok = true -> utf8_valid (push_back p tok) = true.
Proof.
  intros Hp Ht. unfold push_back. apply utf8_app; [exact Hp|]. rewrite utf8_cons_ascii by asc. exact Ht.
Qed.

Theorem utf8_with_trailing_token p tok :
  utf8_valid p = true -> utf8_valid tok = true -> utf8_valid (with_trailing_token p tok) = true.
Proof. apply utf8_push_back. Qed.

Theorem utf8_with_leading_token p tok :
  utf8_valid p = true -> utf8_valid tok = true -> utf8_valid (with_leading_token p tok) = true.
Proof. apply utf8_push_front. Qed.

(* ==== 9. PointerBuf mutators =================================================================== *)

Theorem utf8_pop_back p p' t :
  utf8_valid p = true -> pop_back p = (p', t) ->
  utf8_valid p' = true /\ (forall x, t = Some x -> utf8_valid x = true) /\ (ascii_head p -> ascii_head p').
Proof.
  intros H E. unfold pop_back in E. destruct (rfind SLASH p) as [i|] eqn:Ef.
  - apply rfind_some in Ef as (a & b & -> & <- & _).
    rewrite firstn_S_app_exact, removelast_last, skipn_S_app_exact in E. inversion E; subst.
    destruct (utf8_split_ascii p' SLASH b SLASH_ascii H) as [Ha Hb].
    split; [exact Ha|]. split; [intros x Ex; inversion Ex; subst; exact Hb|].
    destruct p'; [intros _; exact I|intros X; exact X].
  - inversion E; subst. split; [exact H|]. split; [discriminate|auto].
Qed.

Lemma pop_front_ret p : exists p' t, pop_front p = Ret (p', t).
Proof.
  unfold pop_front. destruct p as [|b r]; cbn [is_root skipn]; [eauto|].
  destruct (find SLASH r); cbn [firstn]; eauto.
Qed.

Theorem utf8_pop_front_partial p p' t :
  utf8_valid p = true -> ascii_head p -> pop_front p = Ret (p', t) ->
  utf8_valid p' = true /\ (forall x, t = Some x -> utf8_valid x = true) /\ ascii_head p'.
Proof.
  intros H Ha E. unfold pop_front in E. destruct p as [|b r]; cbn [is_root skipn] in E.
  - inversion E; subst. split; [reflexivity|]. split; [discriminate|exact I].
  - cbn [ascii_head] in Ha. rewrite utf8_cons_ascii in H by exact Ha.
    destruct (find SLASH r) as [i|] eqn:Ef.
    + apply find_some in Ef as (x & y & -> & <-). cbn [firstn skipn] in E.
      rewrite firstn_app_exact, skipn_app_exact in E. inversion E; subst.
      destruct (utf8_app_inv_ascii x (SLASH :: y) H SLASH_ascii) as [Hx Hy].
      split; [exact Hy|]. split; [intros z Ez; inversion Ez; subst; exact Hx|exact SLASH_ascii].
    + inversion E; subst. split; [reflexivity|]. split; [intros z Ez; inversion Ez; subst; exact H|exact I].
Qed.

Theorem utf8_replace_tok p index tok p' r :
  utf8_valid p = true -> utf8_valid tok = true -> replace_tok p index tok = (p', r) ->
  utf8_valid p' = true /\ (forall old, r = ReplOk (Some old) -> utf8_valid old = true) /\
  (ascii_head p -> ascii_head p').
Proof.
  intros H Ht E. unfold replace_tok in E. destruct (is_root p).
  { inversion E; subst. split; [exact H|]. split; [discriminate|auto]. }
  destruct (len (ptokens p) <=? index).
  { inversion E; subst. split; [exact H|]. split; [discriminate|auto]. }
  inversion E; subst. pose proof (utf8_ptokens p H) as Hts. split.
  - apply utf8_from_tokens_enc, all_utf8_set_nth; assumption.
  - split; [|intros _; apply ascii_head_from_tokens_enc].
    intros old Eo. inversion Eo as [En]. apply (all_utf8_nth_error _ _ _ Hts En).
Qed.

Theorem utf8_clear p : utf8_valid (clear p) = true.
Proof. reflexivity. Qed.

(* ---- histories ------------------------------------------------------------------------------- *)

(* every token / pointer argument of the operation is well-formed UTF-8 *)
Definition op_utf8 (op : buf_op) : Prop :=
  match op with
  | PushFront raw => utf8_valid raw = true
  | PushBack raw => utf8_valid raw = true
  | Append q => utf8_valid q = true
  | Replace _ raw => utf8_valid raw = true
  | PopFront | PopBack | Clear => True
  end.

(* the pointer argument of `Append` begins with an ASCII byte (a weakening of SpecBuf.op_ok) *)
Definition op_head (op : buf_op) : Prop :=
  match op with
  | Append q => ascii_head q
  | _ => True
  end.

Definition ret_utf8 (r : ret) : Prop :=
  match r with
  | RPop (Some t) => utf8_valid t = true
  | RRepl (ReplOk (Some t)) => utf8_valid t = true
  | _ => True
  end.

Lemma op_ok_head op : op_ok op -> op_head op.
Proof. destruct op; cbn [op_ok op_head]; trivial. apply ascii_head_valid_ptr. Qed.

Lemma utf8_step p op :
  utf8_valid p = true -> ascii_head p -> op_utf8 op -> op_head op ->
  exists p' r, impl_step p op = Ret (p', r) /\ utf8_valid p' = true /\ ascii_head p' /\ ret_utf8 r.
Proof.
  intros H Ha Hop Hh. destruct op as [raw|raw| | |q|index raw|]; cbn [impl_step op_utf8 op_head] in *.
  - eexists _, _. split; [reflexivity|]. split; [|split; [exact SLASH_ascii|exact I]].
    apply utf8_push_front; [exact H|apply utf8_token_new, Hop].
  - eexists _, _. split; [reflexivity|]. split; [|split; [|exact I]].
    + apply utf8_push_back; [exact H|apply utf8_token_new, Hop].
    + unfold push_back. apply ascii_head_app; [exact Ha|exact SLASH_ascii].
  - destruct (pop_front_ret p) as (p' & t & E). rewrite E.
    destruct (utf8_pop_front_partial p p' t H Ha E) as (H1 & H2 & H3).
    eexists _, _. split; [reflexivity|]. split; [exact H1|]. split; [exact H3|].
    destruct t as [x|]; [apply H2; reflexivity|exact I].
  - destruct (pop_back p) as [p' t] eqn:E.
    destruct (utf8_pop_back p p' t H E) as (H1 & H2 & H3).
    eexists _, _. split; [reflexivity|]. split; [exact H1|]. split; [exact (H3 Ha)|].
    destruct t as [x|]; [apply H2; reflexivity|exact I].
  - eexists _, _. split; [reflexivity|]. split; [apply utf8_append; assumption|]. split; [|exact I].
    rewrite append_is_app. apply ascii_head_app; assumption.
  - destruct (replace_tok p index (ttext (token_new false raw))) as [p' r] eqn:E.
    destruct (utf8_replace_tok p index _ p' r H (utf8_token_new false raw Hop) E) as (H1 & H2 & H3).
    eexists _, _. split; [reflexivity|]. split; [exact H1|]. split; [exact (H3 Ha)|].
    destruct r as [[old|]|]; cbn [ret_utf8]; [apply H2; reflexivity|exact I|exact I].
  - eexists _, _. split; [reflexivity|]. split; [reflexivity|]. split; exact I.
Qed.

(* the strongest form: the start text and the `Append` arguments need only begin with an ASCII
   byte (so that PopFront's `self.0[1..]` / `token.remove(0)` cut off a whole character) *)
Theorem utf8_history_closed_partial p0 ops :
  utf8_valid p0 = true -> ascii_head p0 -> Forall op_utf8 ops -> Forall op_head ops ->
  exists p rs, impl_run p0 ops = Ret (p, rs) /\ utf8_valid p = true /\ ascii_head p /\ Forall ret_utf8 rs.
Proof.
  intros H Ha Hops Hhs. revert p0 H Ha Hhs.
  induction Hops as [|op ops Hop _ IH]; intros p0 H Ha Hhs.
  - exists p0, []. cbn [impl_run]. auto.
  - inversion Hhs as [|? ? Hh Hhs']; subst.
    destruct (utf8_step p0 op H Ha Hop Hh) as (p1 & r & E1 & H1 & Ha1 & Hr).
    destruct (IH p1 H1 Ha1 Hhs') as (p & rs & E & Hp & Hap & Hrs).
    exists p, (r :: rs). cbn [impl_run]. rewrite E1, E. auto.
Qed.

(* the form mirroring C01: histories of a PointerBuf (valid start, `&Pointer` arguments valid) *)
Theorem utf8_history_closed p0 ops :
  valid_ptr p0 = true -> Forall op_ok ops ->
  utf8_valid p0 = true -> Forall op_utf8 ops ->
  exists p rs, impl_run p0 ops = Ret (p, rs) /\
    valid_ptr p = true /\ utf8_valid p = true /\ Forall ret_valid rs /\ Forall ret_utf8 rs.
Proof.
  intros Vp Hok H Hops.
  destruct (history_closed p0 ops Vp Hok) as (p & rs & E & Vp' & Vrs).
  destruct (utf8_history_closed_partial p0 ops H (ascii_head_valid_ptr p0 Vp) Hops) as (p' & rs' & E' & H' & _ & Hrs').
  { eapply Forall_impl; [|exact Hok]. exact op_ok_head. }
  rewrite E in E'. inversion E'; subst. exists p', rs'. auto.
Qed.

(* ==== 10. error offsets ======================================================================== *)

Lemma char_count_ascii a : Forall (fun b => b < 128) a -> char_count a = length a.
Proof.
  unfold char_count. induction 1 as [|b a Hb _ IH]; [reflexivity|]. cbn [filter].
  rewrite (ascii_not_cont b Hb). cbn [negb length]. rewrite IH. reflexivity.
Qed.

Lemma char_boundary_at_ascii s k c :
  utf8_valid s = true -> nth_N s k = Some c -> c < 128 -> char_boundary s (N.to_nat k).
Proof.
  intros H E Hc. rewrite nth_N_nth_error in E. apply (utf8_cut_at_ascii s _ c H E Hc).
Qed.

(* index.rs: `s.chars().position(|c| !c.is_ascii_digit())` counts CHARS, the model (and the error's
   consumers) count BYTES: the two agree, because everything before the offending character is an
   ASCII digit; and the offset lies inside the text, on a character boundary *)
Theorem utf8_index_error_offset s off :
  index_from_str s = Err (InvalidCharacter off) ->
  Forall (fun b => is_digit b = true) (firstn (N.to_nat off) s) /\ off < len s /\
  Forall (fun b => is_ascii b = true) (firstn (N.to_nat off) s) /\
  char_count (firstn (N.to_nat off) s) = N.to_nat off /\
  (utf8_valid s = true -> char_boundary s (N.to_nat off)).
Proof.
  intros H. apply index_from_str_invalid_char in H as (_ & _ & a & b & r & -> & Ha & Hb & ->).
  unfold len. rewrite Nat2N.id, firstn_app_exact.
  pose proof (digits_ascii a Ha) as Hasc.
  split; [rewrite forallb_forall in Ha; apply Forall_forall; exact Ha|].
  split; [rewrite app_length; cbn [length]; lia|].
  split; [eapply Forall_impl; [|exact Hasc]; intros c Hc; apply is_ascii_spec, Hc|].
  split; [apply char_count_ascii, Hasc|].
  intros V. unfold char_boundary. rewrite firstn_app_exact, skipn_app_exact.
  pose proof (utf8_ascii_only a Hasc) as Va. split; [exact Va|apply (utf8_app_inv_l a _ V Va)].
Qed.

(* pointer.rs: both offsets of an InvalidEncoding error point at ASCII bytes, '/' and '~' *)
Theorem utf8_parse_error_offsets s po so :
  validate s = Some (InvalidEncoding po so) ->
  nth_N s po = Some SLASH /\ nth_N s (po + so) = Some TILDE /\
  is_ascii SLASH = true /\ is_ascii TILDE = true /\
  (utf8_valid s = true -> char_boundary s (N.to_nat po) /\ char_boundary s (N.to_nat (po + so))).
Proof.
  intros H. destruct (validate_enc_err _ _ _ H) as (a1 & a2 & rest & E & _ & _ & _ & -> & -> & _).
  assert (H1 : nth_N s (len a1) = Some SLASH) by (rewrite E; apply nth_N_app_len).
  assert (H2 : nth_N s (len a1 + (1 + len a2)) = Some TILDE).
  { rewrite E.
    replace (a1 ++ SLASH :: a2 ++ TILDE :: rest) with ((a1 ++ SLASH :: a2) ++ TILDE :: rest)
      by (rewrite <- app_assoc; reflexivity).
    replace (len a1 + (1 + len a2)) with (len (a1 ++ SLASH :: a2))
      by (unfold len; rewrite app_length; cbn [length]; lia).
    apply nth_N_app_len. }
  split; [exact H1|]. split; [exact H2|]. split; [reflexivity|]. split; [reflexivity|].
  intros V. split.
  - apply (char_boundary_at_ascii s _ SLASH V H1 SLASH_ascii).
  - apply (char_boundary_at_ascii s _ TILDE V H2 TILDE_ascii).
Qed.

Theorem utf8_error_offsets_ascii :
  (forall s off, index_from_str s = Err (InvalidCharacter off) ->
     Forall (fun b => is_digit b = true) (firstn (N.to_nat off) s) /\ off < len s /\
     Forall (fun b => is_ascii b = true) (firstn (N.to_nat off) s) /\
     char_count (firstn (N.to_nat off) s) = N.to_nat off /\
     (utf8_valid s = true -> char_boundary s (N.to_nat off))) /\
  (forall s po so, validate s = Some (InvalidEncoding po so) ->
     nth_N s po = Some SLASH /\ nth_N s (po + so) = Some TILDE /\
     is_ascii SLASH = true /\ is_ascii TILDE = true /\
     (utf8_valid s = true -> char_boundary s (N.to_nat po) /\ char_boundary s (N.to_nat (po + so)))).
Proof. split; [exact utf8_index_error_offset|exact utf8_parse_error_offsets]. Qed.

(* ==== 11. the summaries (clause structure of Properties/C01.v) ================================= *)

(* (a1) constructors, parsing doors, conversions, escaping *)
Theorem utf8_constructors_closed :
  utf8_valid [] = true /\
  (forall d s t, utf8_valid s = true -> door_run d s = DoorOk t -> utf8_valid t = true) /\
  (forall o s, utf8_valid s = true -> utf8_valid (ttext (token_new o s)) = true) /\
  (forall e, utf8_valid e = true -> utf8_valid (ttext (from_encoded_tok e)) = true) /\
  (forall t, utf8_valid (ttext t) = true -> utf8_valid (ttext (token_into_owned t)) = true) /\
  (forall z, utf8_valid (token_of_int z) = true) /\
  (forall s r, utf8_valid s = true -> deserialize s = Some r -> utf8_valid r = true) /\
  (forall L, Forall (fun t => utf8_valid t = true) L -> utf8_valid (buf_from_tokens L) = true) /\
  (forall raw, utf8_valid raw = true -> utf8_valid (buf_from_tokens [raw]) = true) /\
  (forall n, utf8_valid (SLASH :: dec_of_N n) = true) /\
  (forall s, utf8_valid s = true -> utf8_valid (encode s) = true /\ utf8_valid (new_loop s) = true) /\
  (forall e, utf8_valid e = true ->
     utf8_valid (unescape e) = true /\ utf8_valid (decoded e) = true /\
     forall esc, utf8_valid (dec_loop e esc) = true) /\
  (forall ts, Forall (fun t => utf8_valid t = true) ts -> utf8_valid (from_tokens_enc ts) = true) /\
  (forall L, Forall (fun t => utf8_valid t = true) L -> utf8_valid (from_tokens L) = true) /\
  (forall n, utf8_valid (dec_of_N n) = true) /\
  (forall i, utf8_valid (index_display i) = true).
Proof.
  split; [reflexivity|].
  split. { intros d s t H E. destruct constructors_closed as (_ & D & _). destruct (D d s t E) as [-> _]. exact H. }
  split; [exact utf8_token_new|].
  split; [intros e H; exact H|].
  split; [intros t H; exact H|].
  split; [exact utf8_token_of_int|].
  split. { intros s r H E. apply deserialize_exact in E as [_ ->]. exact H. }
  split; [exact utf8_buf_from_tokens|].
  split; [intros raw H; apply utf8_buf_from_tokens; constructor; [exact H|constructor]|].
  split; [intros n; rewrite utf8_cons_ascii by asc; apply utf8_dec_of_N|].
  split; [intros s H; split; [apply utf8_encode|apply utf8_new_loop]; exact H|].
  split. { intros e H. split; [apply utf8_unescape, H|]. split; [apply utf8_decoded, H|]. intros esc. apply utf8_dec_loop, H. }
  split; [exact utf8_from_tokens_enc|].
  split; [exact utf8_from_tokens|].
  split; [exact utf8_dec_of_N|exact utf8_index_display].
Qed.

(* (a2) accessors, iterators, splitters, slicers of one well-formed text.  Only the three accessors
   that cut at byte 1 need the first byte to be ASCII, only the range slicer needs the text to be
   pointer-shaped (empty or beginning with '/'); a valid pointer is both. *)
Theorem utf8_accessors_closed p : utf8_valid p = true ->
  forallb utf8_valid (ptokens p) = true /\
  (forall t, ascii_head p -> front p = Some t -> utf8_valid t = true) /\
  (forall t, back p = Some t -> utf8_valid t = true) /\
  (forall i t, get_tok p i = Some t -> utf8_valid t = true) /\
  (forall c, In c (components p) -> match c with CRoot => True | CToken t => utf8_valid t = true end) /\
  (forall t r, ascii_head p -> split_front p = Some (t, r) -> utf8_valid t = true /\ utf8_valid r = true) /\
  (forall f t, split_back p = Some (f, t) -> utf8_valid f = true /\ utf8_valid t = true) /\
  (forall f, parent p = Some f -> utf8_valid f = true) /\
  (forall k h t, split_at p k = Some (h, t) -> utf8_valid h = true /\ utf8_valid t = true) /\
  (forall lo hi x y, ptr_shaped p -> get_bounds p lo hi = Ret (Some (x, y)) ->
     x <= y /\ y <= len p /\ utf8_valid (bytes_at p x y) = true).
Proof.
  intros H.
  split; [apply all_utf8_forallb, utf8_ptokens, H|].
  split; [intros t Ha; apply utf8_front_partial; assumption|].
  split; [intros t; apply utf8_back, H|].
  split; [intros i t; apply utf8_get_tok, H|].
  split; [intros c; apply utf8_components, H|].
  split; [intros t r Ha; apply utf8_split_front_partial; assumption|].
  split; [intros f t; apply utf8_split_back, H|].
  split; [intros f; apply utf8_parent, H|].
  split; [intros k h t; apply utf8_split_at, H|].
  intros lo hi x y Sp. apply utf8_get_bounds_shaped; assumption.
Qed.

(* the same for a valid pointer, clause by clause as in C01_accessors_closed *)
Theorem utf8_accessors_closed_valid_ptr p : valid_ptr p = true -> utf8_valid p = true ->
  forallb utf8_valid (ptokens p) = true /\
  (forall t, front p = Some t -> utf8_valid t = true) /\
  (forall t, back p = Some t -> utf8_valid t = true) /\
  (forall i t, get_tok p i = Some t -> utf8_valid t = true) /\
  (forall c, In c (components p) -> match c with CRoot => True | CToken t => utf8_valid t = true end) /\
  (forall t r, split_front p = Some (t, r) -> utf8_valid t = true /\ utf8_valid r = true) /\
  (forall f t, split_back p = Some (f, t) -> utf8_valid f = true /\ utf8_valid t = true) /\
  (forall f, parent p = Some f -> utf8_valid f = true) /\
  (forall k h t, split_at p k = Some (h, t) -> utf8_valid h = true /\ utf8_valid t = true) /\
  (forall lo hi x y, get_bounds p lo hi = Ret (Some (x, y)) ->
     x <= y /\ y <= len p /\ utf8_valid (bytes_at p x y) = true).
Proof.
  intros Vp H. destruct (utf8_accessors_closed p H) as (H1 & H2 & H3 & H4 & H5 & H6 & H7 & H8 & H9 & H10).
  pose proof (ascii_head_valid_ptr p Vp) as Ha. pose proof (valid_ptr_shaped p Vp) as Sp.
  split; [exact H1|]. split; [intros t; apply H2, Ha|].
  split; [exact H3|]. split; [exact H4|]. split; [exact H5|].
  split; [intros t r; apply H6, Ha|]. split; [exact H7|]. split; [exact H8|]. split; [exact H9|].
  intros lo hi x y. apply H10, Sp.
Qed.

(* (a3) operations on two well-formed texts, or a text and a token: no pointer validity needed *)
Theorem utf8_binary_closed p q raw :
  utf8_valid p = true -> utf8_valid q = true -> utf8_valid raw = true ->
  (forall v, p_strip_prefix p q = Some v -> utf8_valid v = true) /\
  (forall v, p_strip_suffix p q = Some v -> utf8_valid v = true) /\
  utf8_valid (intersection p q) = true /\
  utf8_valid (concat_ptr p q) = true /\
  utf8_valid (with_trailing_token p (ttext (token_new false raw))) = true /\
  utf8_valid (with_leading_token p (ttext (token_new false raw))) = true.
Proof.
  intros Hp Hq Hr. pose proof (utf8_token_new false raw Hr) as Ht.
  split; [intros v; apply utf8_p_strip_prefix, Hp|].
  split; [intros v; apply utf8_p_strip_suffix; assumption|].
  split; [apply utf8_intersection, Hp|].
  split; [apply utf8_concat_ptr; assumption|].
  split; [apply utf8_with_trailing_token; assumption|apply utf8_with_leading_token; assumption].
Qed.

(* ==== 12. utf8_valid is Table 3-7 ============================================================== *)

Lemma lead_width_2 b : 194 <= b <= 223 -> lead_width b = 2%nat.
Proof. unfold lead_width, in_range. brk; intros; try reflexivity; lia. Qed.
Lemma lead_width_3 b : 224 <= b <= 239 -> lead_width b = 3%nat.
Proof. unfold lead_width, in_range. brk; intros; try reflexivity; lia. Qed.
Lemma lead_width_4 b : 240 <= b <= 244 -> lead_width b = 4%nat.
Proof. unfold lead_width, in_range. brk; intros; try reflexivity; lia. Qed.

Lemma is_cont_intro b : 128 <= b <= 191 -> is_cont b = true.
Proof. intros H. apply is_cont_spec. lia. Qed.

Lemma second_ok_intro b0 b1 :
  (b0 = 224 -> 160 <= b1) -> (b0 = 237 -> b1 <= 159) -> (b0 = 240 -> 144 <= b1) -> (b0 = 244 -> b1 <= 143) ->
  128 <= b1 <= 191 -> second_ok b0 b1 = true.
Proof.
  intros A B C D H. unfold second_ok.
  destruct (N.eqb_spec b0 224); [apply in_range_spec; specialize (A e); lia|].
  destruct (N.eqb_spec b0 237); [apply in_range_spec; specialize (B e); lia|].
  destruct (N.eqb_spec b0 240); [apply in_range_spec; specialize (C e); lia|].
  destruct (N.eqb_spec b0 244); [apply in_range_spec; specialize (D e); lia|].
  apply in_range_spec; lia.
Qed.

Lemma table_utf8 s : utf8_table s -> utf8_valid s = true.
Proof.
  induction 1; [reflexivity|..]; cbn [utf8_valid].
  - rewrite lead_width_ascii by lia. assumption.
  - rewrite lead_width_2, second_ok_intro by lia. assumption.
  - rewrite lead_width_3, second_ok_intro, is_cont_intro by lia. assumption.
  - rewrite lead_width_3, second_ok_intro, is_cont_intro by lia. assumption.
  - rewrite lead_width_3, second_ok_intro, is_cont_intro by lia. assumption.
  - rewrite lead_width_3, second_ok_intro, is_cont_intro by lia. assumption.
  - rewrite lead_width_4, second_ok_intro, !is_cont_intro by lia. assumption.
  - rewrite lead_width_4, second_ok_intro, !is_cont_intro by lia. assumption.
  - rewrite lead_width_4, second_ok_intro, !is_cont_intro by lia. assumption.
Qed.

Lemma lead_width_3_inv b : lead_width b = 3%nat -> 224 <= b <= 239.
Proof. unfold lead_width, in_range. brk; intros; try discriminate; lia. Qed.
Lemma lead_width_2_inv b : lead_width b = 2%nat -> 194 <= b <= 223.
Proof. unfold lead_width, in_range. brk; intros; try discriminate; lia. Qed.
Lemma lead_width_4_inv b : lead_width b = 4%nat -> 240 <= b <= 244.
Proof. unfold lead_width, in_range. brk; intros; try discriminate; lia. Qed.

Lemma second_ok_inv b0 b1 : second_ok b0 b1 = true ->
  128 <= b1 <= 191 /\ (b0 = 224 -> 160 <= b1) /\ (b0 = 237 -> b1 <= 159) /\
  (b0 = 240 -> 144 <= b1) /\ (b0 = 244 -> b1 <= 143).
Proof.
  unfold second_ok.
  destruct (N.eqb_spec b0 224); [|destruct (N.eqb_spec b0 237); [|destruct (N.eqb_spec b0 240);
    [|destruct (N.eqb_spec b0 244)]]]; rewrite in_range_spec; intros H; repeat split; intros; lia.
Qed.

Lemma chars_table s : chars s -> utf8_table s.
Proof.
  induction 1 as [|ch r Hch _ IH]; [constructor|].
  destruct ch as [|b0 [|b1 [|b2 [|b3 [|b4 ch]]]]]; cbn [is_char] in Hch; try contradiction; cbn [app].
  - apply lead_width_1 in Hch. apply ut_ascii; [lia|exact IH].
  - destruct Hch as (W & H1). apply lead_width_2_inv in W. apply second_ok_inv in H1 as (H1 & _).
    apply ut_2; assumption.
  - destruct Hch as (W & H1 & H2). apply lead_width_3_inv in W. apply is_cont_spec in H2.
    apply second_ok_inv in H1 as (H1 & A & B & _).
    destruct (N.eq_dec b0 224) as [->|N1]; [apply ut_3_E0; try assumption; specialize (A eq_refl); lia|].
    destruct (N.eq_dec b0 237) as [->|N2]; [apply ut_3_ED; try assumption; specialize (B eq_refl); lia|].
    destruct (N.le_gt_cases b0 236).
    + apply ut_3_E1_EC; try assumption; lia.
    + apply ut_3_EE_EF; try assumption; lia.
  - destruct Hch as (W & H1 & H2 & H3). apply lead_width_4_inv in W. apply is_cont_spec in H2, H3.
    apply second_ok_inv in H1 as (H1 & _ & _ & C & D).
    destruct (N.eq_dec b0 240) as [->|N1]; [apply ut_4_F0; try assumption; specialize (C eq_refl); lia|].
    destruct (N.eq_dec b0 244) as [->|N2]; [apply ut_4_F4; try assumption; specialize (D eq_refl); lia|].
    apply ut_4_F1_F3; try assumption; lia.
Qed.

Theorem utf8_valid_iff_table s : utf8_valid s = true <-> utf8_table s.
Proof. split; [intros H; apply chars_table, utf8_chars, H|apply table_utf8]. Qed.

(* ==== 13. why the three `_partial` lemmas carry their extra hypothesis ========================= *)

(* "é" = C3 A9 is well-formed, but it does not begin with an ASCII byte: the three functions that
   cut at byte 1 return the lone continuation byte A9 *)
Example front_needs_ascii_head :
  utf8_valid [195; 169] = true /\
  front [195; 169] = Some [169] /\
  split_front [195; 169] = Some ([169], []) /\
  pop_front [195; 169] = Ret ([], Some [169]) /\
  utf8_valid [169] = false.
Proof. vm_compute. repeat split. Qed.

(* ... hence a history from such a start (or appending such a text to the root) breaks too *)
Example history_needs_ascii_head :
  impl_run [195; 169] [PopFront] = Ret ([], [RPop (Some [169])]) /\
  impl_run [] [Append [195; 169]; PopFront] = Ret ([], [RUnit; RPop (Some [169])]).
Proof. vm_compute. split; reflexivity. Qed.

(* the range slicer on a text that is not pointer-shaped: "€/a" = E2 82 AC 2F 61, range 0..1 *)
Example get_bounds_needs_shape :
  utf8_valid [226; 130; 172; 47; 97] = true /\
  get_bounds [226; 130; 172; 47; 97] (Included 0) (Excluded 1) = Ret (Some (0, 2)) /\
  bytes_at [226; 130; 172; 47; 97] 0 2 = [226; 130] /\
  utf8_valid [226; 130] = false.
Proof. vm_compute. repeat split. Qed.

(* strip_suffix needs SOME hypothesis on the suffix (well-formed, or a valid pointer) *)
Example strip_suffix_needs_suffix_hyp :
  utf8_valid [195; 169] = true /\ p_strip_suffix [195; 169] [169] = Some [195] /\ utf8_valid [195] = false.
Proof. vm_compute. repeat split. Qed.
