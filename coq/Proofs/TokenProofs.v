(* Proofs/TokenProofs.v -- Token::new / decoded / from_encoded against the spec. *)
From Coq Require Import Arith Wf_nat.
From JP Require Import Bytes Spec Model.Token Proofs.BytesFacts.

Arguments N.add : simpl never.
Arguments N.eqb : simpl never.

Ltac crunch := repeat (progress (cbn [unescape encode dec_loop new_loop escapes_ok no_slash forallb from_encoded_loop app negb andb orb]; bc)).
Ltac bne := let X := fresh in intro X; vm_compute in X; discriminate X.
Ltac beq b c := destruct (N.eqb_spec b c); [subst b; bc|].

(* ---- Token::new = encode ---------------------------------------------------- *)

Lemma new_loop_encode s : new_loop s = encode s.
Proof.
  induction s as [|b r IH]; cbn [new_loop encode]; [reflexivity|].
  beq b SLASH; [rewrite IH; reflexivity|]. beq b TILDE; rewrite IH; reflexivity.
Qed.

Lemma encode_plain a : forallb (fun b => negb (is_special b)) a = true -> encode a = a.
Proof.
  induction a as [|b r IH]; cbn [forallb encode]; intros H; [reflexivity|].
  apply andb_true_iff in H as [Hb Hr]. unfold is_special in Hb.
  apply negb_true_iff, orb_false_iff in Hb as [H1 H2]. rewrite H1, H2, IH by assumption. reflexivity.
Qed.

Lemma encode_app a b : encode (a ++ b) = encode a ++ encode b.
Proof.
  induction a as [|x a IH]; cbn [app encode]; [reflexivity|].
  beq x TILDE; [|beq x SLASH]; rewrite IH; reflexivity.
Qed.

Lemma token_new_text o s : ttext (token_new o s) = encode s.
Proof.
  unfold token_new. destruct (position is_special s) as [i|] eqn:Hp.
  - apply position_some in Hp as (a & b & r & -> & Hl & Hb & Ha). subst i. cbn [ttext].
    rewrite firstn_app_exact, skipn_app_exact, new_loop_encode, encode_app, (encode_plain a Ha).
    reflexivity.
  - apply position_none in Hp. cbn [ttext]. symmetry. apply encode_plain, Hp.
Qed.

(* ---- unescape / encode inverse laws ------------------------------------------ *)

Lemma unescape_encode s : unescape (encode s) = s.
Proof.
  induction s as [|b r IH]; cbn [encode]; [reflexivity|].
  beq b TILDE; [cbn; rewrite IH; reflexivity|].
  beq b SLASH; [cbn; rewrite IH; reflexivity|].
  cbn [unescape]. apply N.eqb_neq in n. rewrite n, IH. reflexivity.
Qed.

Lemma escapes_ok_encode s : escapes_ok (encode s) = true.
Proof.
  induction s as [|b r IH]; cbn [encode]; [reflexivity|].
  beq b TILDE; [exact IH|]. beq b SLASH; [exact IH|].
  cbn [escapes_ok]. apply N.eqb_neq in n. rewrite n. exact IH.
Qed.

Lemma no_slash_encode s : no_slash (encode s) = true.
Proof.
  unfold no_slash. induction s as [|b r IH]; cbn [encode]; [reflexivity|].
  beq b TILDE; [exact IH|]. beq b SLASH; [exact IH|].
  cbn [forallb]. apply N.eqb_neq in n0. rewrite n0. exact IH.
Qed.

Lemma valid_tok_encode s : valid_tok (encode s) = true.
Proof. unfold valid_tok. rewrite no_slash_encode, escapes_ok_encode. reflexivity. Qed.

(* induction principle following the shape of valid tokens *)
Lemma valid_tok_ind (P : str -> Prop) :
  P [] ->
  (forall r, valid_tok r = true -> P r -> P (TILDE :: ZERO :: r)) ->
  (forall r, valid_tok r = true -> P r -> P (TILDE :: ONE :: r)) ->
  (forall b r, b <> TILDE -> b <> SLASH -> valid_tok r = true -> P r -> P (b :: r)) ->
  forall e, valid_tok e = true -> P e.
Proof.
  intros H0 H1 H2 H3 e. remember (length e) as n eqn:Hn. revert e Hn.
  induction n as [n IHn] using lt_wf_ind. intros e Hn Hv.
  destruct e as [|b r]; [exact H0|].
  unfold valid_tok in Hv. apply andb_true_iff in Hv as [Hs He].
  cbn [no_slash forallb] in Hs. apply andb_true_iff in Hs as [Hb Hs].
  apply negb_true_iff, N.eqb_neq in Hb. cbn [escapes_ok] in He.
  beq b TILDE.
  - destruct r as [|c r']; [discriminate|].
    apply andb_true_iff in He as [Hc He].
    cbn [forallb] in Hs. apply andb_true_iff in Hs as [_ Hs].
    assert (Hv' : valid_tok r' = true) by (unfold valid_tok, no_slash; rewrite Hs, He; reflexivity).
    assert (IH : P r') by (apply (IHn (length r')); [subst n; cbn; lia|reflexivity|exact Hv']).
    apply orb_true_iff in Hc as [Hc|Hc]; apply N.eqb_eq in Hc; subst c; auto.
  - assert (Hv' : valid_tok r = true) by (unfold valid_tok, no_slash; rewrite Hs, He; reflexivity).
    apply H3; auto. apply (IHn (length r)); [subst n; cbn; lia|reflexivity|exact Hv'].
Qed.

Lemma encode_unescape e : valid_tok e = true -> encode (unescape e) = e.
Proof.
  revert e. apply valid_tok_ind.
  - reflexivity.
  - intros r _ IH. crunch. rewrite IH. reflexivity.
  - intros r _ IH. crunch. rewrite IH. reflexivity.
  - intros b r Hb1 Hb2 _ IH. cbn [unescape]. apply N.eqb_neq in Hb1, Hb2.
    rewrite Hb1. cbn [encode]. rewrite Hb1, Hb2, IH. reflexivity.
Qed.

(* ---- decoded = unescape on valid tokens ---------------------------------------- *)

(* the loop's flag is the invariant "the previous byte was an unconsumed '~'" *)
Lemma dec_loop_false e : valid_tok e = true -> dec_loop e false = unescape e.
Proof.
  revert e. apply valid_tok_ind.
  - reflexivity.
  - intros r _ IH. crunch. rewrite IH. reflexivity.
  - intros r _ IH. crunch. rewrite IH. reflexivity.
  - intros b r Hb1 Hb2 _ IH. cbn [unescape dec_loop]. apply N.eqb_neq in Hb1.
    rewrite Hb1, !andb_false_r, IH. reflexivity.
Qed.

Lemma unescape_plain a : forallb (fun b => negb (TILDE =? b)) a = true -> unescape a = a.
Proof.
  induction a as [|b r IH]; cbn [forallb unescape]; intros H; [reflexivity|].
  apply andb_true_iff in H as [Hb Hr]. apply negb_true_iff in Hb. rewrite N.eqb_sym in Hb.
  rewrite Hb, IH by assumption. reflexivity.
Qed.

Lemma unescape_app_plain a e :
  forallb (fun b => negb (TILDE =? b)) a = true -> unescape (a ++ e) = a ++ unescape e.
Proof.
  induction a as [|b r IH]; cbn [forallb app]; intros H; [reflexivity|].
  apply andb_true_iff in H as [Hb Hr]. apply negb_true_iff in Hb. rewrite N.eqb_sym in Hb.
  cbn [unescape]. rewrite Hb, IH by assumption. reflexivity.
Qed.

Lemma valid_tok_app_inv a e : valid_tok (a ++ e) = true ->
  forallb (fun b => negb (TILDE =? b)) a = true -> valid_tok e = true.
Proof.
  induction a as [|b r IH]; cbn [app forallb]; intros H Ha; [exact H|].
  apply andb_true_iff in Ha as [Hb Hr]. apply negb_true_iff in Hb. rewrite N.eqb_sym in Hb.
  apply IH; [|exact Hr]. unfold valid_tok in *. apply andb_true_iff in H as [H1 H2].
  cbn [no_slash forallb escapes_ok] in H1, H2. rewrite Hb in H2.
  apply andb_true_iff in H1 as [_ H1]. unfold no_slash. rewrite H1, H2. reflexivity.
Qed.

Lemma decoded_unescape e : valid_tok e = true -> decoded e = unescape e.
Proof.
  intros Hv. unfold decoded, decoded_cow.
  destruct (position (N.eqb TILDE) e) as [i|] eqn:Hp; cbn [snd].
  - apply position_some in Hp as (a & b & r & -> & Hl & Hb & Ha). subst i.
    apply N.eqb_eq in Hb. subst b.
    replace (S (length a)) with (length (a ++ [TILDE])) by (rewrite app_length; cbn; lia).
    rewrite firstn_app_exact.
    replace (a ++ TILDE :: r) with ((a ++ [TILDE]) ++ r) by (rewrite <- app_assoc; reflexivity).
    rewrite skipn_app_exact. rewrite <- app_assoc. cbn [app].
    rewrite (unescape_app_plain a _ Ha). f_equal.
    pose proof (valid_tok_app_inv a _ Hv Ha) as Hv'.
    (* TILDE :: r valid: r = c :: r' with c in {0,1} *)
    unfold valid_tok in Hv'. apply andb_true_iff in Hv' as [H1 H2].
    cbn [no_slash forallb escapes_ok] in H1, H2. cbn in H2.
    destruct r as [|c r']; [discriminate|].
    apply andb_true_iff in H2 as [Hc H2].
    cbn [forallb] in H1. apply andb_true_iff in H1 as [_ H1]. apply andb_true_iff in H1 as [_ H1].
    assert (Hv'' : valid_tok r' = true) by (unfold valid_tok, no_slash; rewrite H1, H2; reflexivity).
    apply orb_true_iff in Hc as [Hc|Hc]; apply N.eqb_eq in Hc; subst c; cbn;
      rewrite (dec_loop_false r' Hv''); reflexivity.
  - apply position_none in Hp. symmetry. apply unescape_plain, Hp.
Qed.

Theorem decoded_new o s : decoded (ttext (token_new o s)) = s.
Proof.
  rewrite token_new_text, decoded_unescape by apply valid_tok_encode. apply unescape_encode.
Qed.

(* ---- from_encoded is exact ----------------------------------------------------- *)

(* loop invariant: with the flag clear the rest must be a valid token; with the flag set
   the rest must start with '0'/'1' and continue as a valid token *)
Definition after_tilde (s : str) : bool :=
  match s with
  | c :: r => ((c =? ZERO) || (c =? ONE)) && valid_tok r
  | [] => false
  end.

Lemma valid_tok_cons b r :
  valid_tok (b :: r) = negb (b =? SLASH) && (if b =? TILDE then after_tilde r else valid_tok r).
Proof.
  unfold valid_tok, no_slash. cbn [forallb escapes_ok].
  destruct (b =? SLASH); cbn [negb andb]; [reflexivity|].
  destruct (b =? TILDE).
  - destruct r as [|c r']; cbn [after_tilde forallb]; [apply andb_false_r|].
    unfold valid_tok, no_slash.
    destruct (N.eqb_spec c SLASH) as [->|Hc]; cbn [negb andb]; [reflexivity|].
    destruct ((c =? ZERO) || (c =? ONE)); cbn [andb]; [reflexivity| apply andb_false_r].
  - reflexivity.
Qed.

Lemma from_encoded_loop_ok s off esc :
  from_encoded_loop s off esc = None <->
  (if esc then after_tilde s else valid_tok s) = true.
Proof.
  revert off esc; induction s as [|b r IH]; intros off esc; cbn [from_encoded_loop].
  - destruct esc; cbn; split; intros; try discriminate; reflexivity.
  - destruct esc.
    + cbn [after_tilde].
      beq b SLASH; [cbn; split; discriminate|].
      beq b TILDE; [cbn; split; discriminate|].
      destruct ((b =? ZERO) || (b =? ONE)); cbn [andb].
      * rewrite IH. reflexivity.
      * split; discriminate.
    + rewrite valid_tok_cons.
      beq b SLASH; [cbn; split; discriminate|].
      cbn [negb andb].
      beq b TILDE; [rewrite IH; reflexivity|].
      rewrite andb_false_r. rewrite IH. reflexivity.
Qed.

Theorem from_encoded_ok_iff e : from_encoded e = None <-> valid_tok e = true.
Proof. unfold from_encoded. rewrite from_encoded_loop_ok. reflexivity. Qed.

(* ---- errors are truthful --------------------------------------------------------- *)

(* [prefix_ok a esc]: scanning [a] from a clear flag never errs and ends with flag [esc] *)
Fixpoint scan_flag (a : str) (esc : bool) : option bool :=
  match a with
  | [] => Some esc
  | b :: r =>
      if b =? SLASH then None
      else if b =? TILDE then (if esc then None else scan_flag r true)
      else if ((b =? ZERO) || (b =? ONE)) && esc then scan_flag r false
      else if esc then None else scan_flag r false
  end.

Lemma from_encoded_loop_err s off esc o k :
  from_encoded_loop s off esc = Some (o, k) ->
  exists a rest, s = a ++ rest /\ o = off + len a /\
    exists esc', scan_flag a esc = Some esc' /\
    match k with
    | KSlash => exists r, rest = SLASH :: r
    | KTilde => esc' = true /\ match rest with
                               | [] => True
                               | c :: _ => c <> ZERO /\ c <> ONE /\ c <> SLASH
                               end
    end.
Proof.
  revert off esc; induction s as [|b r IH]; intros off esc; cbn [from_encoded_loop]; intros H.
  - destruct esc; [|discriminate]. inversion H; subst.
    exists [], []. unfold len. cbn. rewrite N.add_0_r. repeat split; eauto.
  - assert (Hstep : forall esc1, scan_flag [b] esc = Some esc1 ->
              from_encoded_loop r (off + 1) esc1 = Some (o, k) ->
              exists a rest, b :: r = a ++ rest /\ o = off + len a /\
                exists esc', scan_flag a esc = Some esc' /\
                match k with
                | KSlash => exists r, rest = SLASH :: r
                | KTilde => esc' = true /\ match rest with
                               | [] => True
                               | c :: _ => c <> ZERO /\ c <> ONE /\ c <> SLASH
                               end
                end).
    { intros esc1 H1 H2. destruct (IH _ _ H2) as (a & rest & -> & -> & esc' & Hs & Hk).
      exists (b :: a), rest. split; [reflexivity|]. split.
      { unfold len. cbn [length]. lia. }
      exists esc'. split; [|exact Hk].
      cbn [scan_flag] in H1 |- *.
      destruct (b =? SLASH); [discriminate|].
      destruct (b =? TILDE).
      { destruct esc; [discriminate|]. inversion H1; subst. exact Hs. }
      destruct (((b =? ZERO) || (b =? ONE)) && esc).
      { inversion H1; subst. exact Hs. }
      destruct esc; [discriminate|]. inversion H1; subst. exact Hs. }
    beq b SLASH.
    { inversion H; subst. exists [], (SLASH :: r). unfold len. cbn. rewrite N.add_0_r.
      repeat split; eauto. }
    apply N.eqb_neq in n.
    beq b TILDE.
    { destruct esc.
      - inversion H; subst. exists [], (TILDE :: r). unfold len; cbn. rewrite N.add_0_r.
        split; [reflexivity|]. split; [reflexivity|]. exists true. repeat split; bne.
      - apply (Hstep true); [reflexivity|exact H]. }
    apply N.eqb_neq in n0.
    destruct (((b =? ZERO) || (b =? ONE)) && esc) eqn:Hz.
    { apply (Hstep false); [cbn [scan_flag]; rewrite n, n0, Hz; reflexivity|exact H]. }
    destruct esc.
    { inversion H; subst. exists [], (b :: r). unfold len; cbn. rewrite N.add_0_r.
      rewrite andb_true_r in Hz. apply orb_false_iff in Hz as [Hz1 Hz2].
      apply N.eqb_neq in Hz1, Hz2, n. split; [reflexivity|]. split; [reflexivity|].
      exists true. repeat split; assumption. }
    apply (Hstep false); [cbn [scan_flag]; rewrite n, n0, Hz; reflexivity|exact H].
Qed.

(* a prefix scanned without error and ending with the flag clear is a valid token;
   ending with the flag set it is a valid token followed by one '~' *)
Lemma scan_flag_valid a esc0 esc :
  scan_flag a esc0 = Some esc ->
  (if esc0 then after_tilde (a ++ (if esc then [ZERO] else [])) 
   else valid_tok (a ++ (if esc then [ZERO] else []))) = true.
Proof.
  revert esc0; induction a as [|b r IH]; intros esc0; cbn [scan_flag app]; intros H.
  - inversion H; subst. destruct esc; reflexivity.
  - destruct esc0.
    + cbn [after_tilde].
      destruct (b =? SLASH); [discriminate|]. destruct (b =? TILDE); [discriminate|].
      destruct ((b =? ZERO) || (b =? ONE)); cbn [andb] in *; [|discriminate].
      exact (IH false H).
    + rewrite valid_tok_cons.
      destruct (b =? SLASH); [discriminate|]. cbn [negb andb].
      destruct (b =? TILDE); [exact (IH true H)|].
      rewrite andb_false_r in H. exact (IH false H).
Qed.

Lemma scan_flag_ends_escaped a esc0 :
  scan_flag a esc0 = Some true ->
  (a = [] /\ esc0 = true) \/ exists a', a = a' ++ [TILDE] /\ scan_flag a' esc0 = Some false.
Proof.
  revert esc0; induction a as [|b r IH]; intros esc0; cbn [scan_flag]; intros H.
  - inversion H; subst. left; split; reflexivity.
  - right.
    assert (Hgo : forall e1, scan_flag r e1 = Some true -> scan_flag [b] esc0 = Some e1 ->
               exists a', b :: r = a' ++ [TILDE] /\ scan_flag a' esc0 = Some false).
    { intros e1 Hr Hb. destruct (IH _ Hr) as [[-> ->]|(r' & -> & Hr')].
      - (* r = [] and the flag after b is set: b is the '~' *)
        exists []. cbn [app scan_flag] in *.
        destruct (N.eqb_spec b SLASH); [discriminate|].
        destruct (N.eqb_spec b TILDE); [subst b; destruct esc0; [discriminate|]; split; reflexivity|].
        destruct (((b =? ZERO) || (b =? ONE)) && esc0); [discriminate|].
        destruct esc0; discriminate.
      - exists (b :: r'). split; [reflexivity|]. cbn [scan_flag] in *.
        destruct (b =? SLASH); [discriminate|].
        destruct (b =? TILDE); [destruct esc0; [discriminate|]; inversion Hb; subst; exact Hr'|].
        destruct (((b =? ZERO) || (b =? ONE)) && esc0); [inversion Hb; subst; exact Hr'|].
        destruct esc0; [discriminate|]. inversion Hb; subst; exact Hr'. }
    destruct (b =? SLASH) eqn:E1; [discriminate|].
    destruct (b =? TILDE) eqn:E2.
    { destruct esc0; [discriminate|]. apply (Hgo true H). cbn [scan_flag]. rewrite E1, E2. reflexivity. }
    destruct (((b =? ZERO) || (b =? ONE)) && esc0) eqn:E3.
    { apply (Hgo false H). cbn [scan_flag]. rewrite E1, E2, E3. reflexivity. }
    destruct esc0; [discriminate|]. apply (Hgo false H). cbn [scan_flag]. rewrite E1, E2, E3. reflexivity.
Qed.

(* "nothing earlier is invalid": the text before the offset is a prefix of some valid token *)
Definition prefix_extends (a : str) : Prop := valid_tok a = true \/ valid_tok (a ++ [ZERO]) = true.

Theorem from_encoded_err_truthful e o k :
  from_encoded e = Some (o, k) ->
  exists a rest, e = a ++ rest /\ o = len a /\ prefix_extends a /\
    match k with
    | KSlash => (* a raw slash sits at the offset *)
        exists r, rest = SLASH :: r
    | KTilde => (* the byte before the offset is a '~' that is not followed by '0' or '1' *)
        (exists a', a = a' ++ [TILDE] /\ valid_tok a' = true) /\
        match rest with [] => True | c :: _ => c <> ZERO /\ c <> ONE end
    end.
Proof.
  unfold from_encoded. intros H.
  destruct (from_encoded_loop_err _ _ _ _ _ H) as (a & rest & -> & Ho & esc' & Hs & Hk).
  exists a, rest. split; [reflexivity|]. split; [rewrite Ho; apply N.add_0_l|].
  pose proof (scan_flag_valid _ _ _ Hs) as Hv. cbn beta iota in Hv.
  split.
  { destruct esc'; [right|left]; [exact Hv| rewrite app_nil_r in Hv; exact Hv]. }
  destruct k; [|exact Hk].
  destruct Hk as [-> Hr]. split.
  - destruct (scan_flag_ends_escaped _ _ Hs) as [[_ Hf]|(a' & -> & Ha')]; [discriminate|].
    exists a'. split; [reflexivity|].
    pose proof (scan_flag_valid _ _ _ Ha') as Hv'. cbn beta iota in Hv'.
    rewrite app_nil_r in Hv'. exact Hv'.
  - destruct rest as [|c r]; [exact I|]. tauto.
Qed.
