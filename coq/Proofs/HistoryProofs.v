(* Proofs/HistoryProofs.v -- C09 (resolve vs resolve_mut, the two backends, write-through) and
   C10 (any history of operations refines the reference tree). *)
From JP Require Import Bytes Dec Spec Value Model.Token Model.Pointer Model.Index Model.Tree SpecTree SpecHist
  Proofs.BytesFacts Proofs.TokenProofs Proofs.SplitProofs Proofs.IndexProofs Proofs.ValueFacts
  Proofs.TreeRefine Proofs.TreeLaws Proofs.TreeDiag Proofs.AssignLaws Proofs.DeleteLaws Proofs.WfLaws
  Proofs.NodeLaws Proofs.ModelLaws.

Arguments N.add : simpl never.
Arguments N.eqb : simpl never.

(* ---- the JSON resolve_mut copy (shared parse_index helper) is the same walk ---------------------- *)

Lemma json_resolve_mut_loop_same fuel : forall ptr v offset position rpath,
  json_resolve_mut_loop fuel ptr v offset position rpath = resolve_loop fuel ptr v offset position rpath.
Proof.
  induction fuel as [|fuel IH]; intros ptr v offset position rpath; cbn [json_resolve_mut_loop resolve_loop]; [reflexivity|].
  destruct (split_front ptr) as [[token rem]|]; [|reflexivity].
  destruct v; try reflexivity.
  - unfold parse_index. destruct (index_from_str token) as [i|e]; [|reflexivity].
    destruct (for_len i (len l)) as [idx|[l0 ix]]; [|reflexivity].
    destruct (nth_error l (N.to_nat idx)); [apply IH|reflexivity].
  - destruct (obj_lookup (decoded token) m); [apply IH|reflexivity].
Qed.

Theorem json_resolve_mut_same ptr d : json_resolve_mut ptr d = resolve ptr d.
Proof. apply json_resolve_mut_loop_same. Qed.

(* ---- backends: the only difference is what deleting the root leaves behind --------------------------- *)

Theorem delete_backends_agree p d :
  valid_ptr p = true -> p <> [] -> delete Json p d = delete Toml p d.
Proof.
  intros Hp Hne. rewrite !(delete_refines _ p d Hp). f_equal.
  destruct (tokens p) as [|t r] eqn:E; [|reflexivity].
  exfalso. apply Hne. destruct (valid_ptr_decompose p Hp) as [Ep _]. rewrite Ep, E. reflexivity.
Qed.

Theorem delete_root be d :
  delete be [] d = Ret (match be with Json => Null | Toml => Obj [] end, Some d).
Proof. reflexivity. Qed.

(* ---- writing through resolve_mut ----------------------------------------------------------------------- *)

(* the value written is what resolve then reads at that pointer, at the same node *)
Lemma spec_resolve_update ts : forall d pos off path c v,
  spec_resolve ts d pos off = Ok (path, c) ->
  spec_resolve ts (update_at path (fun _ => v) d) pos off = Ok (path, v).
Proof.
  induction ts as [|t r IH]; intros d pos off path c v H; cbn [spec_resolve] in H.
  - inversion H; subst. reflexivity.
  - destruct d; try discriminate.
    + destruct (index_from_str t) as [[n|]|e] eqn:Hi; try discriminate.
      destruct (n <? len l) eqn:Hlt; [|discriminate].
      destruct (nth_error l (N.to_nat n)) as [c1|] eqn:Hn; [|discriminate].
      destruct (spec_resolve r c1 (pos + 1) (off + (1 + len t))) as [[p' w]|e] eqn:Hr; [|discriminate].
      inversion H; subst. cbn [update_at]. rewrite Hn. cbn [spec_resolve]. rewrite Hi.
      assert (Hlen : len (set_nth (N.to_nat n) (update_at p' (fun _ => v) c1) l) = len l)
        by (unfold len; rewrite length_set_nth; reflexivity).
      rewrite Hlen, Hlt.
      rewrite nth_error_set_nth_same by (apply nth_error_Some; congruence).
      rewrite (IH _ _ _ _ _ v Hr). reflexivity.
    + destruct (obj_lookup (unescape t) m) as [c1|] eqn:Hl; [|discriminate].
      destruct (spec_resolve r c1 (pos + 1) (off + (1 + len t))) as [[p' w]|e] eqn:Hr; [|discriminate].
      inversion H; subst. cbn [update_at]. rewrite Hl. cbn [spec_resolve].
      rewrite obj_lookup_insert_same. rewrite (IH _ _ _ _ _ v Hr). reflexivity.
Qed.

(* when the pointer resolves, writing through resolve_mut is the same change as assign makes *)
Lemma write_through_is_assign ts d v path c :
  spec_resolve ts d 0 0 = Ok (path, c) ->
  spec_assign ts d v 0 0 = (update_at path (fun _ => v) d, Ok (Some c)).
Proof.
  intros H. pose proof (spec_assign_along ts [] d v 0 0 path c H) as A.
  rewrite app_nil_r in A. cbn [spec_assign fst snd] in A. exact A.
Qed.

Theorem write_through_laws p d v d' :
  valid_ptr p = true -> write_through p d v = Ret (Ok d') ->
  (* resolve_mut reached the node resolve reaches *)
  exists path old, resolve p d = Ret (Ok (path, old)) /\ resolve_mut p d = Ret (Ok (path, old)) /\
    d' = update_at path (fun _ => v) d /\
    (* the written value is what resolve then reads, at that very node *)
    resolve p d' = Ret (Ok (path, v)) /\
    (* no other location changes *)
    (forall q qpath w, valid_ptr q = true -> resolve q d = Ret (Ok (qpath, w)) ->
       ~ is_prefix (tokens q) (tokens p) -> ~ is_prefix (tokens p) (tokens q) ->
       resolve q d' = Ret (Ok (qpath, w))).
Proof.
  intros Hp H. rewrite (write_through_refines p d v Hp) in H.
  rewrite (resolve_refines p d Hp). unfold resolve_mut. rewrite (resolve_refines p d Hp).
  unfold spec_write_through in H.
  destruct (spec_resolve (tokens p) d 0 0) as [[path old]|e] eqn:Hr; [|discriminate].
  inversion H; subst d'. exists path, old. split; [reflexivity|]. split; [reflexivity|]. split; [reflexivity|].
  split.
  - rewrite (resolve_refines p _ Hp). rewrite (spec_resolve_update _ _ _ _ _ _ v Hr). reflexivity.
  - intros q qpath w Hq Hqr Hn1 Hn2.
    destruct (valid_ptr_decompose p Hp) as [_ Vp]. destruct (valid_ptr_decompose q Hq) as [_ Vq].
    rewrite (resolve_refines q d Hq) in Hqr. inversion Hqr as [Hqr'].
    rewrite (resolve_refines q _ Hq). f_equal. rewrite Hqr'.
    exact (spec_assign_frame (tokens p) (tokens q) d v 0 0 _ (Some old) 0 0 qpath w Vp Vq
             (write_through_is_assign _ _ _ _ _ Hr) Hqr' Hn1 Hn2).
Qed.

(* ---- histories ----------------------------------------------------------------------------------------- *)

Lemma impl_step_refines be d o :
  op_valid o -> impl_tree_step be d o = Ret (spec_tree_step be d o).
Proof.
  destruct o as [p v|p|p|p v]; unfold op_valid; cbn [op_ptr impl_tree_step spec_tree_step]; intros Hp.
  - rewrite (assign_refines p d v Hp). destruct (spec_assign (tokens p) d v 0 0). reflexivity.
  - rewrite (delete_refines be p d Hp). destruct (spec_delete be (tokens p) d). reflexivity.
  - rewrite (resolve_refines p d Hp). reflexivity.
  - rewrite (write_through_refines p d v Hp). destruct (spec_write_through (tokens p) d v); reflexivity.
Qed.

Theorem history_refines be ops : forall d,
  Forall op_valid ops -> impl_tree_run be d ops = Ret (spec_tree_run be d ops).
Proof.
  induction ops as [|o ops IH]; intros d H; cbn [impl_tree_run spec_tree_run]; [reflexivity|].
  inversion H as [|? ? Ho Hops]; subst.
  rewrite (impl_step_refines be d o Ho). destruct (spec_tree_step be d o) as [d' out].
  rewrite (IH d' Hops). destruct (spec_tree_run be d' ops). reflexivity.
Qed.

Corollary history_no_panic be ops d :
  Forall op_valid ops -> impl_tree_run be d ops <> Panic /\ impl_tree_run be d ops <> OutOfFuel.
Proof. intros H. rewrite (history_refines be ops d H). split; discriminate. Qed.

(* the BTreeMap invariant survives every operation, so it holds in every reached document *)
Lemma spec_step_sorted be d o :
  sorted_value d -> (match o with OAssign _ v | OWrite _ v => sorted_value v | _ => True end) ->
  sorted_value (fst (spec_tree_step be d o)).
Proof.
  intros Hd Hv. destruct o as [p v|p|p|p v]; cbn [spec_tree_step].
  - pose proof (spec_assign_sorted (tokens p) d v 0 0 Hd Hv) as S.
    destruct (spec_assign (tokens p) d v 0 0). exact S.
  - pose proof (spec_delete_sorted be (tokens p) d Hd) as S.
    destruct (spec_delete be (tokens p) d). exact S.
  - exact Hd.
  - unfold spec_write_through.
    destruct (spec_resolve (tokens p) d 0 0) as [[path c]|e] eqn:Hr; cbn [fst]; [|exact Hd].
    pose proof (spec_assign_sorted (tokens p) d v 0 0 Hd Hv) as S.
    rewrite (write_through_is_assign _ _ v _ _ Hr) in S. exact S.
Qed.

Definition op_values_sorted (o : tree_op) : Prop :=
  match o with OAssign _ v | OWrite _ v => sorted_value v | _ => True end.

Theorem history_sorted be ops : forall d,
  sorted_value d -> Forall op_values_sorted ops -> sorted_value (fst (spec_tree_run be d ops)).
Proof.
  induction ops as [|o ops IH]; intros d Hd H; cbn [spec_tree_run]; [exact Hd|].
  inversion H as [|? ? Ho Hops]; subst.
  pose proof (spec_step_sorted be d o Hd Ho) as S. destruct (spec_tree_step be d o) as [d' out]. cbn [fst] in S.
  pose proof (IH d' S Hops) as S'. destruct (spec_tree_run be d' ops). exact S'.
Qed.

(* sorted + arrays fit = well formed *)
Lemma value_ind' (P : value -> Prop) :
  (forall v, is_container v = false -> P v) ->
  (forall l, Forall P l -> P (Arr l)) ->
  (forall m, Forall (fun kv => P (snd kv)) m -> P (Obj m)) ->
  forall v, P v.
Proof.
  intros Hs Ha Ho. fix IH 1. intros v. destruct v; try (apply Hs; reflexivity).
  - apply Ha. induction l as [|x l IHl]; constructor; [apply IH|exact IHl].
  - apply Ho. induction m as [|[k x] m IHm]; constructor; [apply IH|exact IHm].
Qed.

Lemma wf_of_sorted_fit d : sorted_value d -> arrays_fit d -> wf_value d.
Proof.
  induction d as [v Hv|l IH|m IH] using value_ind'; intros Hs Hf.
  - apply wf_scalar, Hv.
  - inversion Hs as [? Hc|? Hl|]; subst; [discriminate|]. inversion Hf as [? Hc|? Hlen Hfl|]; subst; [discriminate|].
    apply wf_Arr; [exact Hlen|].
    rewrite Forall_forall in *. intros x Hx. apply IH; auto.
  - inversion Hs as [? Hc| |? Hk Hl]; subst; [discriminate|]. inversion Hf as [? Hc| |? Hfl]; subst; [discriminate|].
    apply wf_Obj; [exact Hk|].
    rewrite Forall_forall in *. intros x Hx. apply IH; auto.
Qed.

(* in every reached document every node is resolved, by reference, by the pointer spelled from its path *)
Theorem history_addressable be ops d :
  sorted_value d -> Forall op_values_sorted ops -> Forall op_valid ops ->
  exists d' outs, impl_tree_run be d ops = Ret (d', outs) /\ sorted_value d' /\
    (arrays_fit d' ->
     forall path, In path (all_paths d') ->
       exists v, get_at path d' = Some v /\ resolve (ptr_of_path path) d' = Ret (Ok (path, v))).
Proof.
  intros Hd Hvs Hops. rewrite (history_refines be ops d Hops).
  pose proof (history_sorted be ops d Hd Hvs) as S.
  destruct (spec_tree_run be d ops) as [d' outs]. cbn [fst] in S.
  exists d', outs. split; [reflexivity|]. split; [exact S|].
  intros Hf path Hin.
  destruct (every_node_addressable d' path (wf_of_sorted_fit d' S Hf) Hin) as (v & Hg & Hr & _).
  exists v. split; assumption.
Qed.

(* every error value produced along the way locates a token of its pointer *)
Lemma impl_step_out_wf be d o d' out :
  op_valid o -> impl_tree_step be d o = Ret (d', out) -> out_wf o out.
Proof.
  destruct o as [p v|p|p|p v]; unfold op_valid; cbn [op_ptr impl_tree_step out_wf]; intros Hp H.
  - destruct (assign p d v) as [[d1 r]| |] eqn:E; try discriminate. inversion H; subst.
    destruct r as [r|e]; [exact I|]. cbn [op_ptr]. exact (assign_error_diag p d v d' e Hp E).
  - destruct (delete be p d) as [[d1 r]| |]; try discriminate. inversion H; subst. exact I.
  - destruct (resolve p d) as [r| |] eqn:E; try discriminate. inversion H; subst.
    destruct r as [r|e]; [exact I|]. cbn [op_ptr]. exact (resolve_error_diag p d' e Hp E).
  - destruct (write_through p d v) as [[d1|e]| |] eqn:E; try discriminate; inversion H; subst; [exact I|].
    cbn [op_ptr]. exact (write_through_error_diag p d' v e Hp E).
Qed.

Fixpoint outs_wf (ops : list tree_op) (outs : list tree_out) : Prop :=
  match ops, outs with
  | o :: ops', out :: outs' => out_wf o out /\ outs_wf ops' outs'
  | [], [] => True
  | _, _ => False
  end.

Theorem history_errors_wf be ops : forall d d' outs,
  Forall op_valid ops -> impl_tree_run be d ops = Ret (d', outs) -> outs_wf ops outs.
Proof.
  induction ops as [|o ops IH]; intros d d' outs Hops H; cbn [impl_tree_run] in H.
  - inversion H; subst. exact I.
  - inversion Hops as [|? ? Ho Hops']; subst.
    destruct (impl_tree_step be d o) as [[d1 out]| |] eqn:E; try discriminate.
    destruct (impl_tree_run be d1 ops) as [[d2 outs']| |] eqn:E2; try discriminate.
    inversion H; subst. cbn [outs_wf]. split; [exact (impl_step_out_wf be d o d1 out Ho E)|].
    exact (IH d1 d' outs' Hops' E2).
Qed.
