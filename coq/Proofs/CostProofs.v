(* Proofs/CostProofs.v -- C19: which Cow variant the token operations build. *)
From JP Require Import Bytes Spec Model.Token Model.Pointer Model.Cost Proofs.BytesFacts Proofs.TokenProofs.

Arguments N.add : simpl never.
Arguments N.eqb : simpl never.

Theorem alloc_token_new_iff s :
  alloc_token_new s = false <-> forallb (fun b => negb (is_special b)) s = true.
Proof.
  unfold alloc_token_new. destruct (position is_special s) eqn:E.
  - split; [discriminate|]. intros H. apply position_none in H. congruence.
  - split; [intros _; apply position_none, E|reflexivity].
Qed.

(* when Token::new does not allocate it keeps the very input (text and Cow variant) *)
Theorem token_new_no_alloc_keeps o s :
  alloc_token_new s = false -> token_new o s = mktoken o s.
Proof.
  unfold alloc_token_new, token_new. destruct (position is_special s); [discriminate|reflexivity].
Qed.

Theorem token_new_alloc_owned o s : alloc_token_new s = true -> towned (token_new o s) = true.
Proof.
  unfold alloc_token_new, token_new. destruct (position is_special s); [reflexivity|discriminate].
Qed.

Theorem alloc_decoded_iff t :
  alloc_decoded t = false <-> forallb (fun b => negb (TILDE =? b)) t = true.
Proof.
  unfold alloc_decoded, decoded_cow. destruct (position (N.eqb TILDE) t) eqn:E; cbn [fst].
  - split; [discriminate|]. intros H. apply position_none in H. congruence.
  - split; [intros _; apply position_none, E|reflexivity].
Qed.

(* when decoded() does not allocate it returns the token's own text *)
Theorem decoded_no_alloc_same t : alloc_decoded t = false -> decoded t = t.
Proof.
  unfold alloc_decoded, decoded, decoded_cow. destruct (position (N.eqb TILDE) t); cbn [fst snd]; [discriminate|reflexivity].
Qed.

(* a raw text without '~' or '/' gives a token whose decoded() does not allocate either *)
Theorem plain_text_zero_copy o s :
  forallb (fun b => negb (is_special b)) s = true ->
  alloc_token_new s = false /\ alloc_decoded (ttext (token_new o s)) = false /\
  decoded (ttext (token_new o s)) = s.
Proof.
  intros H. pose proof (proj2 (alloc_token_new_iff s) H) as Hn.
  split; [exact Hn|]. rewrite (token_new_no_alloc_keeps o s Hn). cbn [ttext].
  assert (Ht : forallb (fun b => negb (TILDE =? b)) s = true).
  { rewrite forallb_forall in *. intros b Hb. specialize (H b Hb). unfold is_special in H.
    apply negb_true_iff, orb_false_iff in H as [_ H]. rewrite N.eqb_sym, H. reflexivity. }
  pose proof (proj2 (alloc_decoded_iff s) Ht) as Hd. split; [exact Hd|apply decoded_no_alloc_same, Hd].
Qed.
