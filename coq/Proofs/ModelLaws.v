(* Proofs/ModelLaws.v -- the laws of SpecTree transported to the model functions of Model/Tree.v
   (pointer TEXT, [outcome]) through the refinement theorems. *)
From Coq Require Import Arith.
From JP Require Import Bytes Spec Value SpecTree Model.Token Model.Pointer Model.Index Model.Tree
  Proofs.BytesFacts Proofs.TokenProofs Proofs.SplitProofs Proofs.IndexProofs Proofs.ValueFacts
  Proofs.TreeRefine Proofs.TreeLaws Proofs.TreeDiag Proofs.AssignLaws Proofs.DeleteLaws.

Arguments N.add : simpl never.
Arguments N.eqb : simpl never.

Lemma Ret_inj {A} (x y : A) : Ret x = Ret y -> x = y.
Proof. intros H. inversion H. reflexivity. Qed.

Lemma valid_ptr_tokens p : valid_ptr p = true -> forallb valid_tok (tokens p) = true.
Proof. intros H. apply valid_ptr_decompose in H. tauto. Qed.

(* ---- C15 on the text ---------------------------------------------------------------------------------------------- *)


Lemma locates_culprit p k position offset :
  valid_ptr p = true -> locates (tokens p) k position offset -> error_locates_culprit p position offset.
Proof.
  intros Hv Hloc. destruct (valid_ptr_decompose p Hv) as [Hp Hts].
  pose proof (culprit_in_text (tokens p) k position offset (valid_toks_noslash _ Hts) Hloc) as H.
  cbv zeta in H. rewrite <- Hp in H. destruct H as (culprit & H1 & H2 & H3 & H4 & H5).
  exists k, culprit. tauto.
Qed.

Theorem resolve_error_diag p d e :
  valid_ptr p = true -> resolve p d = Ret (Err e) ->
  error_locates_culprit p (re_position e) (re_offset e).
Proof.
  intros Hv H. rewrite (resolve_refines p d Hv) in H. apply Ret_inj in H.
  destruct (resolve_error_locates _ _ _ H) as [k Hk]. exact (locates_culprit p k _ _ Hv Hk).
Qed.

Theorem write_through_error_diag p d v e :
  valid_ptr p = true -> write_through p d v = Ret (Err e) ->
  error_locates_culprit p (re_position e) (re_offset e).
Proof.
  intros Hv H. apply (resolve_error_diag p d e Hv).
  unfold write_through, resolve_mut in H.
  destruct (resolve p d) as [[[path w]|e']| |]; try discriminate. inversion H; subst. reflexivity.
Qed.

Theorem assign_error_diag p d v d' e :
  valid_ptr p = true -> assign p d v = Ret (d', Err e) ->
  error_locates_culprit p (ae_position e) (ae_offset e).
Proof.
  intros Hv H. rewrite (assign_refines p d v Hv) in H. apply Ret_inj in H.
  destruct (assign_error_locates _ _ _ _ _ H) as [k Hk]. exact (locates_culprit p k _ _ Hv Hk).
Qed.

(* ---- C07 on the model ------------------------------------------------------------------------------------------------ *)

Theorem assign_atomic p d v d' e :
  valid_ptr p = true -> wf_value d -> assign p d v = Ret (d', Err e) -> d' = d.
Proof.
  intros Hv Hwf H. rewrite (assign_refines p d v Hv) in H. apply Ret_inj in H.
  exact (spec_assign_atomic _ _ _ _ _ _ _ Hwf H).
Qed.

Theorem assign_read_your_write p d v d' res :
  valid_ptr p = true -> dash_free (tokens p) -> assign p d v = Ret (d', Ok res) ->
  exists path, resolve p d' = Ret (Ok (path, v)).
Proof.
  intros Hv Hdf H. rewrite (assign_refines p d v Hv) in H. apply Ret_inj in H.
  destruct (spec_assign_read_your_write_dash_free _ _ _ _ _ Hdf H) as [path Hp].
  exists path. rewrite (resolve_refines p d' Hv), Hp. reflexivity.
Qed.

Theorem assign_frame p q d v d' res path w :
  valid_ptr p = true -> valid_ptr q = true ->
  assign p d v = Ret (d', Ok res) -> resolve q d = Ret (Ok (path, w)) ->
  ~ is_prefix (tokens q) (tokens p) -> ~ is_prefix (tokens p) (tokens q) ->
  resolve q d' = Ret (Ok (path, w)).
Proof.
  intros Hp Hq H Hr Hn1 Hn2.
  rewrite (assign_refines p d v Hp) in H. apply Ret_inj in H.
  rewrite (resolve_refines q d Hq) in Hr. apply Ret_inj in Hr.
  rewrite (resolve_refines q d' Hq).
  rewrite (spec_assign_frame _ _ _ _ _ _ _ _ _ _ _ _ (valid_ptr_tokens p Hp) (valid_ptr_tokens q Hq) H Hr Hn1 Hn2).
  reflexivity.
Qed.

Theorem assign_replaced p d v path w :
  valid_ptr p = true -> resolve p d = Ret (Ok (path, w)) ->
  exists d', assign p d v = Ret (d', Ok (Some w)).
Proof.
  intros Hv Hr. rewrite (resolve_refines p d Hv) in Hr. apply Ret_inj in Hr.
  rewrite (assign_refines p d v Hv).
  pose proof (spec_assign_replaced _ d v 0 0 _ _ _ _ Hr) as H.
  destruct (spec_assign (tokens p) d v 0 0) as [d' res]. cbn [snd] in H. subst res. eauto.
Qed.

Theorem assign_idempotent p d v d' res :
  valid_ptr p = true -> dash_free (tokens p) -> assign p d v = Ret (d', Ok res) ->
  assign p d' v = Ret (d', Ok (Some v)).
Proof.
  intros Hv Hdf H. rewrite (assign_refines p d v Hv) in H. apply Ret_inj in H.
  rewrite (assign_refines p d' v Hv). rewrite (spec_assign_idempotent _ _ _ _ _ _ _ Hdf H). reflexivity.
Qed.

(* ---- C08 on the model -------------------------------------------------------------------------------------------------- *)

Theorem delete_iff_resolves be p d v :
  valid_ptr p = true -> p <> [] ->
  ((exists d', delete be p d = Ret (d', Some v)) <-> (exists path, resolve p d = Ret (Ok (path, v)))).
Proof.
  intros Hv Hne.
  assert (Hts : tokens p <> []).
  { intros E. destruct (valid_ptr_decompose p Hv) as [Hp _]. rewrite E in Hp. exact (Hne Hp). }
  rewrite (delete_refines be p d Hv), (resolve_refines p d Hv).
  pose proof (spec_delete_iff be (tokens p) d v Hts) as Hiff. split.
  - intros [d' H]. apply Ret_inj in H. destruct Hiff as [Hiff _].
    destruct Hiff as [path Hp]; [rewrite H; reflexivity|]. exists path. rewrite Hp. reflexivity.
  - intros [path H]. apply Ret_inj in H. destruct Hiff as [_ Hiff].
    exists (fst (spec_delete be (tokens p) d)).
    rewrite <- (Hiff (ex_intro _ path H)). destruct (spec_delete be (tokens p) d); reflexivity.
Qed.

Theorem delete_none_unchanged be p d d' :
  valid_ptr p = true -> delete be p d = Ret (d', None) -> d' = d.
Proof.
  intros Hv H. rewrite (delete_refines be p d Hv) in H. apply Ret_inj in H.
  pose proof (spec_delete_none be (tokens p) d) as Hn. rewrite H in Hn. exact (Hn eq_refl).
Qed.

(* ---- C05 / C06 on the model ------------------------------------------------------------------------------------------------ *)

Theorem resolve_by_reference p d path v :
  valid_ptr p = true -> resolve p d = Ret (Ok (path, v)) ->
  get_at path d = Some v /\ length path = count p.
Proof.
  intros Hv H. rewrite (resolve_refines p d Hv) in H. apply Ret_inj in H.
  exact (spec_resolve_by_reference _ _ _ _ _ _ H).
Qed.

Theorem resolve_error_first_failure p d e :
  valid_ptr p = true -> (resolve p d = Ret (Err e) <-> first_failure (tokens p) d e).
Proof.
  intros Hv. rewrite (resolve_refines p d Hv). rewrite <- spec_resolve_error_first_failure.
  split; [apply Ret_inj|intros ->; reflexivity].
Qed.

Theorem assign_error_first_failure p d v e :
  valid_ptr p = true ->
  ((exists d', assign p d v = Ret (d', Err e)) <-> assign_first_failure (tokens p) d e).
Proof.
  intros Hv. rewrite (assign_refines p d v Hv). rewrite <- (spec_assign_error_iff (tokens p) d v e). split.
  - intros [d' H]. apply Ret_inj in H. rewrite H. reflexivity.
  - intros H. exists (fst (spec_assign (tokens p) d v 0 0)).
    destruct (spec_assign (tokens p) d v 0 0) as [d' res]. cbn [snd fst] in *. subst res. reflexivity.
Qed.

Theorem assign_none_preserves p q d v d' path w :
  valid_ptr p = true -> valid_ptr q = true ->
  assign p d v = Ret (d', Ok None) -> resolve q d = Ret (Ok (path, w)) ->
  exists w', resolve q d' = Ret (Ok (path, w')) /\ (is_scalar w -> w' = w).
Proof.
  intros Hp Hq H Hr.
  rewrite (assign_refines p d v Hp) in H. apply Ret_inj in H.
  rewrite (resolve_refines q d Hq) in Hr. apply Ret_inj in Hr.
  destruct (spec_assign_none_preserves _ _ _ _ _ _ _ _ _ _ _ H Hr) as (w' & Hw' & Hs).
  exists w'. split; [|exact Hs]. rewrite (resolve_refines q d' Hq), Hw'. reflexivity.
Qed.

Theorem delete_root be d : delete be [] d = Ret (empty_root be, Some d).
Proof. reflexivity. Qed.
