(* Proofs/GenClosure.v -- C01 for the REGENERATED functions (DESIGN 13): every pointer / token that the functions of
   Generated/Scan*.v (the crate's source as re-translated on this run) return or leave behind for valid inputs is valid
   RFC 6901 text.  Obtained from the equalities of Proofs/GenEquiv*.v and the closure theorems about the hand-written
   model (Proofs/ClosureProofs.v). *)

From JP Require Import Proofs.GenEquivBase Generated.ScanPointer Generated.ScanToken Generated.ScanPtrOps Generated.ScanSlice
  Generated.ScanBuf Generated.ScanPtrBuild Proofs.GenEquivPointer Proofs.GenEquivToken Proofs.GenEquivPtrOps
  Proofs.GenEquivSlice Proofs.GenEquivBuf Proofs.GenEquivPtrBuild Model.Slice Proofs.SliceProofs Proofs.ClosureProofs
  Proofs.TokenProofs Proofs.SplitProofs.

Definition tok_text (t : Token) : str := cow_text (Token_inner t).

(* constructors: what the parser accepts and what the token constructors build is valid *)
Theorem gen_constructors_closed :
  (forall s t, gen_validate s = Ret (Ok t) -> valid_ptr t = true) /\
  (forall c t, gen_Token_new c = Ret t -> valid_tok (tok_text t) = true) /\
  (forall e t, gen_Token_from_encoded e = Ret (Ok t) -> valid_tok (tok_text t) = true) /\
  (forall ts p, Forall (fun t => valid_tok (tok_text t) = true) ts -> gen_PointerBuf_from_tokens ts = Ret p -> valid_ptr p = true).
Proof.
  split; [|split; [|split]].
  - intros s t H. destruct (gen_validate_ok_is_input s t H) as [-> Hv]. exact Hv.
  - intros c t H. destruct (gen_new_encodes c) as (t' & Ht' & Htext). rewrite H in Ht'. injection Ht' as <-.
    unfold tok_text. rewrite Htext. apply valid_tok_encode.
  - intros e t H. unfold tok_text. rewrite (gen_from_encoded_borrows e t H). cbn [cow_text].
    apply gen_from_encoded_exact. eauto.
  - intros ts p Hts H. rewrite gen_from_tokens_eq in H. injection H as <-.
    apply valid_ptr_from_tokens_enc. apply forallb_forall. intros x Hx.
    apply in_map_iff in Hx as (t & <- & Ht). rewrite Forall_forall in Hts. exact (Hts t Ht).
Qed.

(* accessors, splitters, slicers of one valid pointer *)
Theorem gen_accessors_closed : forall p : str, valid_ptr p = true ->
  (forall t, gen_Pointer_front p = Ret (Some t) -> valid_tok (tok_text t) = true) /\
  (forall t, gen_Pointer_first p = Ret (Some t) -> valid_tok (tok_text t) = true) /\
  (forall t, gen_Pointer_back p = Ret (Some t) -> valid_tok (tok_text t) = true) /\
  (forall t, gen_Pointer_last p = Ret (Some t) -> valid_tok (tok_text t) = true) /\
  (forall i t, gen_get_usize i p = Ret (Some t) -> valid_tok (tok_text t) = true) /\
  (forall t r, gen_Pointer_split_front p = Ret (Some (t, r)) -> valid_tok (tok_text t) = true /\ valid_ptr r = true) /\
  (forall f t, gen_Pointer_split_back p = Ret (Some (f, t)) -> valid_ptr f = true /\ valid_tok (tok_text t) = true) /\
  (forall f, gen_Pointer_parent p = Ret (Some f) -> valid_ptr f = true) /\
  (forall k h t, gen_Pointer_split_at p k = Ret (Some (h, t)) -> valid_ptr h = true /\ valid_ptr t = true) /\
  (forall lo hi v, gen_get_Bounds (gen_bound lo, gen_bound hi) p = Ret (Some v) -> valid_ptr v = true).
Proof.
  intros p Hp. destruct (accessors_are_closed p Hp) as (_ & Hf & Hb & Hg & _ & Hsf & Hsb & Hpa & Hsa & Hgb).
  repeat match goal with |- _ /\ _ => split end.
  - intros t. rewrite gen_front_eq. destruct (front p) as [x|] eqn:E; cbn [option_map]; [|discriminate].
    intros [= <-]. exact (Hf x eq_refl).
  - intros t. rewrite gen_first_eq. destruct (front p) as [x|] eqn:E; cbn [option_map]; [|discriminate].
    intros [= <-]. exact (Hf x eq_refl).
  - intros t. rewrite gen_back_eq. destruct (back p) as [x|] eqn:E; cbn [option_map]; [|discriminate].
    intros [= <-]. exact (Hb x eq_refl).
  - intros t. rewrite gen_last_eq. destruct (back p) as [x|] eqn:E; cbn [option_map]; [|discriminate].
    intros [= <-]. exact (Hb x eq_refl).
  - intros i t. rewrite gen_get_usize_eq. destruct (get_tok p i) as [x|] eqn:E; cbn [option_map]; [|discriminate].
    intros [= <-]. exact (Hg i x E).
  - intros t r. rewrite gen_split_front_eq. destruct (split_front p) as [[x y]|] eqn:E; cbn [option_map]; [|discriminate].
    intros [= <- <-]. exact (Hsf x y eq_refl).
  - intros f t. rewrite gen_split_back_eq. destruct (split_back p) as [[x y]|] eqn:E; cbn [option_map]; [|discriminate].
    intros [= <- <-]. exact (Hsb x y eq_refl).
  - intros f. rewrite gen_parent_eq. intros [= H]. exact (Hpa f H).
  - intros k h t. rewrite gen_split_at_eq. intros [= H]. exact (Hsa k h t H).
  - intros lo hi v. rewrite gen_get_Bounds_eq_any. unfold content, get_bounds_usize.
    destruct lo as [s|s|]; try (destruct (checked_add_usize s 1) as [s'|]; [|discriminate]);
      match goal with |- context [get_bounds p ?a ?b] =>
        destruct (get_bounds p a b) as [[[x y]|]| |] eqn:E; try discriminate;
        intros [= <-]; exact (proj2 (proj2 (Hgb a b x y E)))
      end.
Qed.

(* operations on two valid pointers, builders, and the PointerBuf mutators fed with tokens of the source's Token::new *)
Theorem gen_binary_closed : forall (p q : str) (c : Cow) (index : N), valid_ptr p = true -> valid_ptr q = true ->
  (forall v, gen_Pointer_strip_prefix p q = Ret (Some v) -> valid_ptr v = true) /\
  (forall v, gen_Pointer_strip_suffix p q = Ret (Some v) -> valid_ptr v = true) /\
  (exists r, gen_Pointer_intersection p q = Ret r /\ valid_ptr r = true) /\
  (exists r, gen_Pointer_concat p q = Ret r /\ valid_ptr r = true) /\
  (exists r, gen_PointerBuf_append p q = Ret (r, r) /\ valid_ptr r = true) /\
  (exists t pb pf, gen_Token_new c = Ret t /\
     gen_PointerBuf_push_back p t = Ret (pb, tt) /\ valid_ptr pb = true /\
     gen_PointerBuf_push_front p t = Ret (pf, tt) /\ valid_ptr pf = true) /\
  (exists t pr r, gen_Token_new c = Ret t /\ gen_PointerBuf_replace p index t = Ret (pr, r) /\ valid_ptr pr = true /\
     forall old, r = Ok (Some old) -> valid_tok (tok_text old) = true) /\
  (exists pb rb pf rf, gen_PointerBuf_pop_back p = Ret (pb, rb) /\ valid_ptr pb = true /\
     gen_PointerBuf_pop_front p = Ret (pf, rf) /\ valid_ptr pf = true /\
     (forall t, rb = Some t -> valid_tok (tok_text t) = true) /\ (forall t, rf = Some t -> valid_tok (tok_text t) = true)).
Proof.
  intros p q c index Hp Hq.
  destruct (binary_closed p q (cow_text c) Hp Hq) as (Hsp & Hss & Hi & Hc & _ & _).
  repeat match goal with |- _ /\ _ => split end.
  - intros v. rewrite gen_strip_prefix_eq. intros [= H]. exact (Hsp v H).
  - intros v. rewrite gen_strip_suffix_eq. intros [= H]. exact (Hss v H).
  - rewrite gen_intersection_eq. eauto.
  - rewrite gen_concat_eq. eauto.
  - destruct (gen_append_refines_deque p q Hp Hq) as (r & Hr & Hv & _). eauto.
  - destruct (gen_push_refines_deque p c Hp) as (t & pb & pf & Ht & Hb & Hvb & _ & Hf & Hvf & _).
    exists t, pb, pf. repeat split; assumption.
  - destruct (gen_replace_refines_deque p index c Hp) as (t & pr & r & Ht & Hr & Hv & Herr & Hok).
    exists t, pr, r. repeat split; try assumption.
    intros old E. destruct (N.le_gt_cases (len (tokens p)) index) as [Hle|Hlt].
    + destruct (Herr Hle) as [E' _]. rewrite E' in E. discriminate.
    + destruct (Hok Hlt) as (o & E' & Ho & _). rewrite E' in E. injection E as <-. exact Ho.
  - destruct (gen_pop_refines_deque p Hp) as ((pb & rb & Hb & Hvb & Hmb) & (pf & rf & Hf & Hvf & Hmf)).
    exists pb, rb, pf, rf. repeat split; try assumption.
    + intros t E. destruct (dtokens p); [destruct Hmb as [E' _]; rewrite E' in E; discriminate|].
      destruct Hmb as (o & E' & Ho & _). rewrite E' in E. injection E as <-. exact Ho.
    + intros t E. destruct (dtokens p); [destruct Hmf as [E' _]; rewrite E' in E; discriminate|].
      destruct Hmf as (o & E' & Ho & _). rewrite E' in E. injection E as <-. exact Ho.
Qed.
