(* Proofs/PrefixProofs.v -- C13: prefix / suffix / intersection / concat work on whole tokens. *)
From Coq Require Import Arith.
From JP Require Import Bytes Spec Model.Token Model.Pointer SpecBuf
  Proofs.BytesFacts Proofs.TokenProofs Proofs.SplitProofs Proofs.BufProofs.

Arguments N.add : simpl never.
Arguments N.eqb : simpl never.
Arguments N.leb : simpl never.
Arguments N.ltb : simpl never.
Arguments N.sub : simpl never.

(* ---- string primitives: starts_with / strip_prefix / ends_with / strip_suffix / get_byte ------- *)

Lemma starts_with_app p r : starts_with (p ++ r) p = true.
Proof. induction p as [|x p IH]; cbn [app starts_with]; [destruct r; reflexivity|]. rewrite N.eqb_refl, IH. reflexivity. Qed.

Lemma starts_with_iff s p : starts_with s p = true <-> exists r, s = p ++ r.
Proof.
  split.
  - revert s. induction p as [|x p IH]; intros s H; [exists s; reflexivity|].
    destruct s as [|y s]; cbn [starts_with] in H; [discriminate|].
    apply andb_true_iff in H as [Hxy Hs]. apply N.eqb_eq in Hxy. subst y.
    destruct (IH s Hs) as [r ->]. exists r. reflexivity.
  - intros [r ->]. apply starts_with_app.
Qed.

Lemma strip_prefix_some s p v : strip_prefix s p = Some v <-> s = p ++ v.
Proof.
  unfold strip_prefix. split.
  - destruct (starts_with s p) eqn:E; [|discriminate]. apply starts_with_iff in E as [r ->].
    rewrite skipn_app_exact. intros H. inversion H. reflexivity.
  - intros ->. rewrite starts_with_app, skipn_app_exact. reflexivity.
Qed.

Lemma strip_prefix_none s p : strip_prefix s p = None <-> starts_with s p = false.
Proof. unfold strip_prefix. destruct (starts_with s p); split; intros H; try discriminate; reflexivity. Qed.

Lemma ends_with_app a p : ends_with (a ++ p) p = true.
Proof.
  unfold ends_with. rewrite app_length.
  replace (length a + length p - length p)%nat with (length a) by lia.
  rewrite skipn_app_exact, str_eqb_refl.
  replace (length p <=? length a + length p)%nat with true by (symmetry; apply Nat.leb_le; lia).
  reflexivity.
Qed.

Lemma ends_with_iff s p : ends_with s p = true <-> exists a, s = a ++ p.
Proof.
  split.
  - unfold ends_with. intros H. apply andb_true_iff in H as [_ H]. apply str_eqb_eq in H.
    exists (firstn (length s - length p) s).
    transitivity (firstn (length s - length p) s ++ skipn (length s - length p) s);
      [symmetry; apply firstn_skipn|f_equal; exact H].
  - intros [a ->]. apply ends_with_app.
Qed.

Lemma strip_suffix_some s p v : strip_suffix s p = Some v <-> s = v ++ p.
Proof.
  unfold strip_suffix. split.
  - destruct (ends_with s p) eqn:E; [|discriminate]. apply ends_with_iff in E as [a ->].
    rewrite app_length. replace (length a + length p - length p)%nat with (length a) by lia.
    rewrite firstn_app_exact. intros H. inversion H. reflexivity.
  - intros ->. rewrite ends_with_app, app_length.
    replace (length v + length p - length p)%nat with (length v) by lia.
    rewrite firstn_app_exact. reflexivity.
Qed.

Lemma len_cons {A} (x : A) l : len (x :: l) = len l + 1.
Proof. unfold len. cbn [length]. lia. Qed.

Lemma nth_N_app_len {A} (a : list A) x r : nth_N (a ++ x :: r) (len a) = Some x.
Proof.
  induction a as [|y a IH]; cbn [app nth_N].
  - reflexivity.
  - rewrite len_cons. replace (len a + 1 =? 0) with false by (symmetry; apply N.eqb_neq; lia).
    replace (len a + 1 - 1) with (len a) by lia. exact IH.
Qed.

Lemma nth_N_len_none {A} (a : list A) : nth_N a (len a) = None.
Proof.
  induction a as [|y a IH]; cbn [nth_N]; [reflexivity|].
  rewrite len_cons. replace (len a + 1 =? 0) with false by (symmetry; apply N.eqb_neq; lia).
  replace (len a + 1 - 1) with (len a) by lia. exact IH.
Qed.

(* ---- pointer-shaped texts --------------------------------------------------------------------------- *)

Lemma ptr_shaped_nil : ptr_shaped [].
Proof. left. reflexivity. Qed.

Lemma ptr_shaped_slash r : ptr_shaped (SLASH :: r).
Proof. right. eauto. Qed.

Lemma ptr_shaped_cons_inv x r : ptr_shaped (x :: r) -> x = SLASH.
Proof. intros [H|[r' H]]; [discriminate|]. inversion H. reflexivity. Qed.

(* the filter of strip_prefix: `s.is_empty() || s.starts_with('/')` *)
Lemma boundary_check_iff s : is_root s || starts_with s [SLASH] = true <-> ptr_shaped s.
Proof.
  destruct s as [|x s]; cbn [is_root orb starts_with].
  - split; [intros _; apply ptr_shaped_nil|reflexivity].
  - replace (starts_with s []) with true by (destruct s; reflexivity).
    rewrite andb_true_r. split.
    + intros H. apply N.eqb_eq in H. subst x. apply ptr_shaped_slash.
    + intros H. apply ptr_shaped_cons_inv in H. subst x. reflexivity.
Qed.

Lemma ptr_shaped_app_l v q : ptr_shaped (v ++ q) -> q <> [] -> ptr_shaped q -> ptr_shaped v.
Proof.
  intros Hp Hq _. destruct v as [|x v]; [apply ptr_shaped_nil|].
  cbn [app] in Hp. apply ptr_shaped_cons_inv in Hp. subst x. apply ptr_shaped_slash.
Qed.

(* token-list prefix / suffix => text prefix / suffix *)
Lemma tokens_prefix_text p q rs :
  ptr_shaped p -> ptr_shaped q -> tokens p = tokens q ++ rs -> p = q ++ from_tokens_enc rs.
Proof.
  intros Hp Hq H. rewrite <- (from_tokens_enc_tokens p Hp), H, from_tokens_enc_app.
  rewrite (from_tokens_enc_tokens q Hq). reflexivity.
Qed.

Lemma tokens_suffix_text p q rs :
  ptr_shaped p -> ptr_shaped q -> tokens p = rs ++ tokens q -> p = from_tokens_enc rs ++ q.
Proof.
  intros Hp Hq H. rewrite <- (from_tokens_enc_tokens p Hp), H, from_tokens_enc_app.
  rewrite (from_tokens_enc_tokens q Hq). reflexivity.
Qed.

(* THE boundary lemma: a text split of a pointer whose right part is pointer-shaped is a split
   of its token list *)
Lemma boundary a b s :
  noslash_all a -> noslash_all b ->
  from_tokens_enc a = from_tokens_enc b ++ s -> s = [] \/ (exists r, s = SLASH :: r) ->
  a = b ++ skipn (length b) a /\ s = from_tokens_enc (skipn (length b) a).
Proof.
  intros Ha Hb H Hs.
  assert (Ht : a = b ++ tokens s).
  { rewrite <- (tokens_from_tokens_enc a Ha), H.
    rewrite tokens_app by (exact Hs || apply from_tokens_enc_shaped).
    rewrite tokens_from_tokens_enc by exact Hb. reflexivity. }
  assert (Hk : skipn (length b) a = tokens s) by (rewrite Ht; apply skipn_app_exact).
  rewrite Hk. split; [exact Ht|].
  symmetry. apply from_tokens_enc_tokens. exact Hs.
Qed.

Lemma forallb_valid_app_r a b : forallb valid_tok (a ++ b) = true -> forallb valid_tok b = true.
Proof. rewrite forallb_app. intros H. apply andb_true_iff in H. tauto. Qed.

Lemma forallb_valid_app_l a b : forallb valid_tok (a ++ b) = true -> forallb valid_tok a = true.
Proof. rewrite forallb_app. intros H. apply andb_true_iff in H. tauto. Qed.

Lemma valid_tokens p : valid_ptr p = true -> forallb valid_tok (tokens p) = true.
Proof. intros H. apply valid_ptr_decompose, H. Qed.

(* ---- concat (= append) is plain text concatenation ------------------------------------------------------ *)

Lemma append_is_app p q : append p q = p ++ q.
Proof.
  unfold append. destruct p as [|a p]; [reflexivity|]. destruct q as [|b q]; cbn [is_root negb].
  - rewrite app_nil_r. reflexivity.
  - reflexivity.
Qed.

Lemma concat_is_app p q : concat_ptr p q = p ++ q.
Proof. apply append_is_app. Qed.

Theorem concat_tokens p q :
  valid_ptr p = true -> valid_ptr q = true -> tokens (concat_ptr p q) = tokens p ++ tokens q.
Proof. apply append_tokens. Qed.

Theorem concat_valid p q :
  valid_ptr p = true -> valid_ptr q = true -> valid_ptr (concat_ptr p q) = true.
Proof. apply append_valid. Qed.

Theorem concat_dtokens p q :
  valid_ptr p = true -> valid_ptr q = true -> dtokens (concat_ptr p q) = dtokens p ++ dtokens q.
Proof. apply append_dtokens. Qed.

Lemma concat_assoc p q r : concat_ptr (concat_ptr p q) r = concat_ptr p (concat_ptr q r).
Proof. apply append_assoc. Qed.

Lemma concat_root_l q : concat_ptr [] q = q.
Proof. reflexivity. Qed.

Lemma concat_root_r p : concat_ptr p [] = p.
Proof. apply append_root_r. Qed.

(* ---- strip_prefix / starts_with ---------------------------------------------------------------------------- *)

Theorem p_strip_prefix_iff p q v :
  valid_ptr p = true -> valid_ptr q = true ->
  (p_strip_prefix p q = Some v <-> exists rs, tokens p = tokens q ++ rs /\ v = from_tokens_enc rs).
Proof.
  intros Hp Hq. pose proof (valid_ptr_shaped p Hp) as Sp. pose proof (valid_ptr_shaped q Hq) as Sq.
  unfold p_strip_prefix. split.
  - destruct (strip_prefix p q) as [s|] eqn:E; [|discriminate].
    destruct (is_root s || starts_with s [SLASH]) eqn:B; [|discriminate].
    intros H. inversion H. subst s. apply boundary_check_iff in B. apply strip_prefix_some in E.
    exists (tokens v). split; [|symmetry; apply from_tokens_enc_tokens, B].
    rewrite E. apply tokens_app; assumption.
  - intros (rs & Ht & ->). pose proof (tokens_prefix_text p q rs Sp Sq Ht) as E.
    apply strip_prefix_some in E. rewrite E.
    pose proof (from_tokens_enc_shaped rs) as B. apply boundary_check_iff in B. rewrite B. reflexivity.
Qed.

Theorem p_strip_prefix_some p q v :
  valid_ptr p = true -> valid_ptr q = true -> p_strip_prefix p q = Some v ->
  valid_ptr v = true /\ concat_ptr q v = p /\ p = q ++ v /\ tokens p = tokens q ++ tokens v.
Proof.
  intros Hp Hq H. apply (p_strip_prefix_iff p q v Hp Hq) in H as (rs & Ht & ->).
  pose proof (valid_ptr_shaped p Hp) as Sp. pose proof (valid_ptr_shaped q Hq) as Sq.
  pose proof (tokens_prefix_text p q rs Sp Sq Ht) as E.
  assert (Hv : valid_ptr (from_tokens_enc rs) = true).
  { apply valid_ptr_iff_tokens. split; [apply from_tokens_enc_shaped|].
    apply (forallb_valid_app_r (tokens q)).
    rewrite <- tokens_app by (exact Sq || apply from_tokens_enc_shaped). rewrite <- E.
    apply valid_tokens, Hp. }
  split; [exact Hv|]. rewrite concat_is_app. split; [symmetry; exact E|]. split; [exact E|].
  rewrite E at 1. apply tokens_app; [exact Sq|apply from_tokens_enc_shaped].
Qed.

Theorem p_strip_prefix_none_iff p q :
  valid_ptr p = true -> valid_ptr q = true ->
  (p_strip_prefix p q = None <-> ~ exists rs, tokens p = tokens q ++ rs).
Proof.
  intros Hp Hq. split.
  - intros H (rs & Ht).
    assert (E : p_strip_prefix p q = Some (from_tokens_enc rs)).
    { apply p_strip_prefix_iff; eauto. }
    rewrite E in H. discriminate.
  - intros H. destruct (p_strip_prefix p q) as [v|] eqn:E; [|reflexivity].
    exfalso. apply H. apply (p_strip_prefix_iff p q v Hp Hq) in E as (rs & Ht & _). eauto.
Qed.

Theorem p_starts_with_spec p q :
  valid_ptr p = true -> valid_ptr q = true ->
  exists b, p_starts_with p q = Ret b /\ (b = true <-> exists rs, tokens p = tokens q ++ rs).
Proof.
  intros Hp Hq. pose proof (valid_ptr_shaped p Hp) as Sp. pose proof (valid_ptr_shaped q Hq) as Sq.
  unfold p_starts_with. destruct (starts_with p q) eqn:E.
  - apply starts_with_iff in E as [s E].
    destruct (Nat.eqb (length q) (length p)) eqn:L.
    + exists true. split; [reflexivity|]. split; [intros _|reflexivity].
      apply Nat.eqb_eq in L. rewrite E, app_length in L. destruct s; [|cbn in L; lia].
      rewrite app_nil_r in E. subst p. exists []. rewrite app_nil_r. reflexivity.
    + apply Nat.eqb_neq in L. destruct s as [|x s]; [rewrite app_nil_r in E; subst p; lia|].
      unfold get_byte. rewrite E, nth_N_app_len. exists (x =? SLASH). split; [reflexivity|].
      split.
      * intros H. apply N.eqb_eq in H. subst x. exists (tokens (SLASH :: s)).
        apply tokens_app; [exact Sq|apply ptr_shaped_slash].
      * intros (rs & Ht). rewrite <- E in Ht. pose proof (tokens_prefix_text p q rs Sp Sq Ht) as E'.
        rewrite E in E'. apply app_inv_head in E'.
        pose proof (from_tokens_enc_shaped rs) as B. rewrite <- E' in B.
        apply ptr_shaped_cons_inv in B. subst x. reflexivity.
  - exists false. split; [reflexivity|]. split; [discriminate|].
    intros (rs & Ht). pose proof (tokens_prefix_text p q rs Sp Sq Ht) as E'.
    rewrite E', starts_with_app in E. discriminate.
Qed.

Corollary p_starts_with_true_iff p q :
  valid_ptr p = true -> valid_ptr q = true ->
  (p_starts_with p q = Ret true <-> exists rs, tokens p = tokens q ++ rs).
Proof.
  intros Hp Hq. destruct (p_starts_with_spec p q Hp Hq) as (b & E & Hb). rewrite E.
  split.
  - intros H. inversion H. subst b. apply Hb. reflexivity.
  - intros H. apply Hb in H. subst b. reflexivity.
Qed.

Corollary p_starts_with_false_iff p q :
  valid_ptr p = true -> valid_ptr q = true ->
  (p_starts_with p q = Ret false <-> ~ exists rs, tokens p = tokens q ++ rs).
Proof.
  intros Hp Hq. destruct (p_starts_with_spec p q Hp Hq) as (b & E & Hb). rewrite E.
  split.
  - intros H. inversion H. subst b. intros X. apply Hb in X. discriminate.
  - intros H. destruct b; [exfalso; apply H, Hb; reflexivity|reflexivity].
Qed.

Corollary p_strip_prefix_starts_with p q :
  valid_ptr p = true -> valid_ptr q = true ->
  (p_strip_prefix p q <> None <-> p_starts_with p q = Ret true).
Proof.
  intros Hp Hq. rewrite (p_starts_with_true_iff p q Hp Hq). split.
  - intros H. destruct (p_strip_prefix p q) as [v|] eqn:E; [|congruence].
    apply (p_strip_prefix_iff p q v Hp Hq) in E as (rs & Ht & _). eauto.
  - intros (rs & Ht) H. apply (p_strip_prefix_none_iff p q Hp Hq) in H. apply H. eauto.
Qed.

(* ---- strip_suffix / ends_with ------------------------------------------------------------------------------- *)

(* a text suffix that is a non-root pointer always starts at a token boundary *)
Lemma suffix_boundary p q v :
  ptr_shaped p -> ptr_shaped q -> p = v ++ q ->
  ptr_shaped v /\ tokens p = tokens v ++ tokens q.
Proof.
  intros Sp Sq E. destruct q as [|x q'].
  - rewrite app_nil_r in E. subst v. split; [exact Sp|]. cbn. rewrite app_nil_r. reflexivity.
  - assert (Sv : ptr_shaped v).
    { apply (ptr_shaped_app_l v (x :: q')); [rewrite <- E; exact Sp|discriminate|exact Sq]. }
    split; [exact Sv|]. rewrite E. apply tokens_app; assumption.
Qed.

Theorem p_strip_suffix_iff p q v :
  valid_ptr p = true -> valid_ptr q = true ->
  (p_strip_suffix p q = Some v <-> exists rs, tokens p = rs ++ tokens q /\ v = from_tokens_enc rs).
Proof.
  intros Hp Hq. pose proof (valid_ptr_shaped p Hp) as Sp. pose proof (valid_ptr_shaped q Hq) as Sq.
  unfold p_strip_suffix. rewrite strip_suffix_some. split.
  - intros E. destruct (suffix_boundary p q v Sp Sq E) as [Sv Ht].
    exists (tokens v). split; [exact Ht|symmetry; apply from_tokens_enc_tokens, Sv].
  - intros (rs & Ht & ->). apply tokens_suffix_text; assumption.
Qed.

Theorem p_strip_suffix_some p q v :
  valid_ptr p = true -> valid_ptr q = true -> p_strip_suffix p q = Some v ->
  valid_ptr v = true /\ concat_ptr v q = p /\ p = v ++ q /\ tokens p = tokens v ++ tokens q.
Proof.
  intros Hp Hq H. pose proof (valid_ptr_shaped p Hp) as Sp. pose proof (valid_ptr_shaped q Hq) as Sq.
  unfold p_strip_suffix in H. apply strip_suffix_some in H.
  destruct (suffix_boundary p q v Sp Sq H) as [Sv Ht].
  split.
  - apply valid_ptr_iff_tokens. split; [exact Sv|]. apply (forallb_valid_app_l _ (tokens q)).
    rewrite <- Ht. apply valid_tokens, Hp.
  - rewrite concat_is_app. split; [symmetry; exact H|]. split; [exact H|exact Ht].
Qed.

Theorem p_strip_suffix_none_iff p q :
  valid_ptr p = true -> valid_ptr q = true ->
  (p_strip_suffix p q = None <-> ~ exists rs, tokens p = rs ++ tokens q).
Proof.
  intros Hp Hq. split.
  - intros H (rs & Ht).
    assert (E : p_strip_suffix p q = Some (from_tokens_enc rs)).
    { apply p_strip_suffix_iff; eauto. }
    rewrite E in H. discriminate.
  - intros H. destruct (p_strip_suffix p q) as [v|] eqn:E; [|reflexivity].
    exfalso. apply H. apply (p_strip_suffix_iff p q v Hp Hq) in E as (rs & Ht & _). eauto.
Qed.

Theorem p_ends_with_iff p q :
  valid_ptr p = true -> valid_ptr q = true ->
  (p_ends_with p q = true <->
   (q = [] /\ p = []) \/ (q <> [] /\ exists rs, tokens p = rs ++ tokens q)).
Proof.
  intros Hp Hq. pose proof (valid_ptr_shaped p Hp) as Sp. pose proof (valid_ptr_shaped q Hq) as Sq.
  unfold p_ends_with. destruct q as [|x q'].
  - cbn [is_root negb andb]. rewrite andb_true_r, orb_false_r. destruct p as [|y p'].
    + split; [intros _; left; auto|reflexivity].
    + cbn [is_root]. split; [discriminate|]. intros [[_ H]|[H _]]; [discriminate|congruence].
  - cbn [is_root negb]. rewrite andb_false_r, orb_false_l, andb_true_l. split.
    + intros E. apply ends_with_iff in E as [v E]. right. split; [discriminate|].
      destruct (suffix_boundary p (x :: q') v Sp Sq E) as [_ Ht]. eauto.
    + intros [[H _]|[_ (rs & Ht)]]; [discriminate|].
      rewrite (tokens_suffix_text p (x :: q') rs Sp Sq Ht). apply ends_with_app.
Qed.

(* ends_with agrees with strip_suffix except on (non-root, root) *)
Corollary p_ends_with_strip_suffix p q :
  valid_ptr p = true -> valid_ptr q = true -> q <> [] ->
  (p_ends_with p q = true <-> p_strip_suffix p q <> None).
Proof.
  intros Hp Hq Hne. rewrite (p_ends_with_iff p q Hp Hq). split.
  - intros [[H _]|[_ (rs & Ht)]]; [contradiction|].
    intros H. apply (p_strip_suffix_none_iff p q Hp Hq) in H. apply H. eauto.
  - intros H. right. split; [exact Hne|].
    destruct (p_strip_suffix p q) as [v|] eqn:E; [|congruence].
    apply (p_strip_suffix_iff p q v Hp Hq) in E as (rs & Ht & _). eauto.
Qed.

(* ---- common_prefix ------------------------------------------------------------------------------------------------ *)

Lemma common_prefix_nil_r a : common_prefix a [] = [].
Proof. destruct a; reflexivity. Qed.

Lemma common_prefix_l a : forall b, exists ra, a = common_prefix a b ++ ra.
Proof.
  induction a as [|x a IH]; intros b; [exists []; reflexivity|].
  destruct b as [|y b]; cbn [common_prefix]; [eexists; reflexivity|].
  destruct (str_eqb x y); [|eexists; reflexivity].
  destruct (IH b) as [ra E]. exists ra. cbn [app]. rewrite <- E. reflexivity.
Qed.

Lemma str_eqb_sym x y : str_eqb x y = str_eqb y x.
Proof.
  destruct (str_eqb x y) eqn:E.
  - apply str_eqb_eq in E. subst y. symmetry. apply str_eqb_refl.
  - destruct (str_eqb y x) eqn:E'; [|reflexivity]. apply str_eqb_eq in E'. subst y.
    rewrite str_eqb_refl in E. discriminate.
Qed.

Lemma common_prefix_comm a : forall b, common_prefix a b = common_prefix b a.
Proof.
  induction a as [|x a IH]; intros [|y b]; cbn [common_prefix]; try reflexivity.
  rewrite (str_eqb_sym y x). destruct (str_eqb x y) eqn:E; [|reflexivity].
  apply str_eqb_eq in E. subst y. rewrite IH. reflexivity.
Qed.

Lemma common_prefix_r a b : exists rb, b = common_prefix a b ++ rb.
Proof. rewrite common_prefix_comm. apply common_prefix_l. Qed.

Lemma common_prefix_idem a : common_prefix a a = a.
Proof. induction a as [|x a IH]; [reflexivity|]. cbn [common_prefix]. rewrite str_eqb_refl, IH. reflexivity. Qed.

Lemma common_prefix_app c a b : common_prefix (c ++ a) (c ++ b) = c ++ common_prefix a b.
Proof. induction c as [|x c IH]; [reflexivity|]. cbn [app common_prefix]. rewrite str_eqb_refl, IH. reflexivity. Qed.

(* it is the LONGEST common leading sub-list: every common leading sub-list is a leading sub-list of it *)
Lemma common_prefix_greatest a b c :
  (exists ra, a = c ++ ra) -> (exists rb, b = c ++ rb) -> exists r, common_prefix a b = c ++ r.
Proof. intros [ra ->] [rb ->]. rewrite common_prefix_app. eauto. Qed.

(* ... and what follows it in a and in b starts with different tokens (or one side is exhausted) *)
Lemma common_prefix_split a : forall b, exists ra rb,
  a = common_prefix a b ++ ra /\ b = common_prefix a b ++ rb /\
  match ra, rb with x :: _, y :: _ => x <> y | _, _ => True end.
Proof.
  induction a as [|x a IH]; intros b.
  - exists [], b. cbn. auto.
  - destruct b as [|y b]; cbn [common_prefix].
    + exists (x :: a), []. cbn. auto.
    + destruct (str_eqb x y) eqn:E.
      * apply str_eqb_eq in E. subst y. destruct (IH b) as (ra & rb & Ea & Eb & Hd).
        exists ra, rb. cbn [app]. rewrite <- Ea, <- Eb. auto.
      * exists (x :: a), (y :: b). cbn [app]. split; [reflexivity|]. split; [reflexivity|].
        intros ->. rewrite str_eqb_refl in E. discriminate.
Qed.

(* ---- intersection ------------------------------------------------------------------------------------------------------ *)

Lemma inter_loop_spec ta : forall tb idx,
  inter_loop ta tb idx = idx + len (from_tokens_enc (common_prefix ta tb)).
Proof.
  induction ta as [|a ta IH]; intros tb idx; cbn [inter_loop common_prefix].
  - cbn. unfold len. cbn. lia.
  - destruct tb as [|b tb]; [unfold len; cbn; lia|].
    destruct (str_eqb a b); [|unfold len; cbn; lia].
    rewrite IH. unfold len. rewrite length_from_tokens_enc_cons. lia.
Qed.

Lemma intersection_enc a b :
  noslash_all a -> noslash_all b ->
  intersection (from_tokens_enc a) (from_tokens_enc b) = from_tokens_enc (common_prefix a b).
Proof.
  intros Ha Hb. unfold intersection. rewrite !is_root_from_tokens_enc.
  destruct a as [|x a']; [reflexivity|]. destruct b as [|y b']; [reflexivity|]. cbn [orb].
  rewrite !ptokens_tokens, !tokens_from_tokens_enc by assumption.
  rewrite inter_loop_spec, N.add_0_l.
  set (c := common_prefix (x :: a') (y :: b')).
  destruct (common_prefix_l (x :: a') (y :: b')) as [ra E]. fold c in E. clearbody c. rewrite E.
  rewrite from_tokens_enc_app. unfold split_at, get_byte.
  destruct ra as [|u ra'].
  - cbn [from_tokens_enc flat_map]. rewrite app_nil_r. fold (from_tokens_enc c).
    rewrite nth_N_len_none. reflexivity.
  - rewrite from_tokens_enc_cons, nth_N_app_len. bc. unfold len. rewrite Nat2N.id.
    rewrite firstn_app_exact. reflexivity.
Qed.

Theorem intersection_spec p q :
  valid_ptr p = true -> valid_ptr q = true ->
  intersection p q = from_tokens_enc (common_prefix (tokens p) (tokens q)).
Proof.
  intros Hp Hq. destruct (valid_ptr_decompose p Hp) as [Ep Vp]. destruct (valid_ptr_decompose q Hq) as [Eq Vq].
  rewrite Ep at 1. rewrite Eq at 1. apply intersection_enc; apply tokens_noslash.
Qed.

Lemma common_prefix_noslash p q : noslash_all (common_prefix (tokens p) (tokens q)).
Proof.
  destruct (common_prefix_l (tokens p) (tokens q)) as [ra E].
  pose proof (tokens_noslash p) as H. rewrite E in H. apply Forall_app in H. tauto.
Qed.

Theorem intersection_tokens p q :
  valid_ptr p = true -> valid_ptr q = true ->
  tokens (intersection p q) = common_prefix (tokens p) (tokens q).
Proof.
  intros Hp Hq. rewrite intersection_spec by assumption.
  apply tokens_from_tokens_enc, common_prefix_noslash.
Qed.

Theorem intersection_valid p q :
  valid_ptr p = true -> valid_ptr q = true -> valid_ptr (intersection p q) = true.
Proof.
  intros Hp Hq. rewrite intersection_spec by assumption. apply valid_ptr_from_tokens_enc.
  destruct (common_prefix_l (tokens p) (tokens q)) as [ra E].
  apply (forallb_valid_app_l _ ra). rewrite <- E. apply valid_tokens, Hp.
Qed.

Theorem intersection_comm p q :
  valid_ptr p = true -> valid_ptr q = true -> intersection p q = intersection q p.
Proof. intros Hp Hq. rewrite !intersection_spec by assumption. rewrite common_prefix_comm. reflexivity. Qed.

Theorem intersection_idem p : valid_ptr p = true -> intersection p p = p.
Proof.
  intros Hp. rewrite intersection_spec by assumption. rewrite common_prefix_idem.
  apply from_tokens_enc_tokens, valid_ptr_shaped, Hp.
Qed.

Lemma intersection_root_l q : intersection [] q = [].
Proof. reflexivity. Qed.

Lemma intersection_root_r p : intersection p [] = [].
Proof. unfold intersection. cbn [is_root]. rewrite orb_true_r. reflexivity. Qed.

(* a token-prefix of both arguments, and a text prefix (a view) of the first *)
Theorem intersection_prefix p q :
  valid_ptr p = true -> valid_ptr q = true ->
  (exists ra, tokens p = tokens (intersection p q) ++ ra)
  /\ (exists rb, tokens q = tokens (intersection p q) ++ rb)
  /\ (exists s, p = intersection p q ++ s)
  /\ intersection p q = firstn (length (intersection p q)) p.
Proof.
  intros Hp Hq. rewrite intersection_tokens by assumption.
  destruct (common_prefix_l (tokens p) (tokens q)) as [ra Ea].
  destruct (common_prefix_r (tokens p) (tokens q)) as [rb Eb].
  split; [eauto|]. split; [eauto|].
  assert (E : p = intersection p q ++ from_tokens_enc ra).
  { rewrite intersection_spec by assumption. rewrite <- from_tokens_enc_app, <- Ea.
    symmetry. apply from_tokens_enc_tokens, valid_ptr_shaped, Hp. }
  split; [eauto|]. rewrite E at 3. rewrite firstn_app_exact. reflexivity.
Qed.

(* the longest one: any pointer that is a token-prefix of both is a token-prefix of the intersection *)
Theorem intersection_greatest p q r :
  valid_ptr p = true -> valid_ptr q = true ->
  (exists ra, tokens p = tokens r ++ ra) -> (exists rb, tokens q = tokens r ++ rb) ->
  exists rc, tokens (intersection p q) = tokens r ++ rc.
Proof.
  intros Hp Hq Ha Hb. rewrite intersection_tokens by assumption.
  apply common_prefix_greatest; assumption.
Qed.

(* after the intersection the two pointers continue with different tokens, or one of them ends *)
Theorem intersection_maximal p q :
  valid_ptr p = true -> valid_ptr q = true ->
  exists ra rb, tokens p = tokens (intersection p q) ++ ra /\ tokens q = tokens (intersection p q) ++ rb
    /\ match ra, rb with x :: _, y :: _ => x <> y | _, _ => True end.
Proof.
  intros Hp Hq. rewrite intersection_tokens by assumption. apply common_prefix_split.
Qed.

Corollary intersection_starts_with p q :
  valid_ptr p = true -> valid_ptr q = true ->
  p_starts_with p (intersection p q) = Ret true /\ p_starts_with q (intersection p q) = Ret true.
Proof.
  intros Hp Hq. pose proof (intersection_valid p q Hp Hq) as Hi.
  destruct (intersection_prefix p q Hp Hq) as (Ha & Hb & _).
  split; apply p_starts_with_true_iff; assumption.
Qed.
