(* Proofs/ConvProofs.v -- C17 / C18: the text's comparison is a total order consistent with
   equality and hashing; conversions preserve the text; integer tokens are decimal spellings. *)
From Coq Require Import ZArith.
From JP Require Import Bytes Dec Spec Model.Token Model.Pointer Model.Index Model.Conv
  Proofs.BytesFacts Proofs.TokenProofs Proofs.SplitProofs Proofs.ValidateProofs Proofs.IndexProofs.

Arguments N.add : simpl never.
Arguments N.eqb : simpl never.

(* ---- str_cmp is a total order whose Eq case is equality --------------------------------------- *)

Lemma str_cmp_refl a : str_cmp a a = Eq.
Proof. induction a as [|x a IH]; cbn [str_cmp]; [reflexivity|]. rewrite N.compare_refl. exact IH. Qed.

Lemma str_cmp_eq_iff a b : str_cmp a b = Eq <-> a = b.
Proof.
  split; [|intros ->; apply str_cmp_refl].
  revert b; induction a as [|x a IH]; intros [|y b]; cbn [str_cmp]; intros H; try reflexivity; try discriminate.
  destruct (x ?= y) eqn:E; try discriminate. apply N.compare_eq_iff in E. subst y. f_equal. apply IH, H.
Qed.

Lemma str_cmp_antisym a b : str_cmp b a = CompOpp (str_cmp a b).
Proof.
  revert b; induction a as [|x a IH]; intros [|y b]; cbn [str_cmp]; try reflexivity.
  rewrite (N.compare_antisym x y). destruct (x ?= y); cbn [CompOpp]; [apply IH|reflexivity|reflexivity].
Qed.

Lemma str_cmp_trans_lt a b c : str_cmp a b = Lt -> str_cmp b c = Lt -> str_cmp a c = Lt.
Proof.
  revert b c; induction a as [|x a IH]; intros [|y b] [|z c]; cbn [str_cmp]; intros H1 H2;
    try reflexivity; try discriminate.
  destruct (x ?= y) eqn:Exy; try discriminate; destruct (y ?= z) eqn:Eyz; try discriminate.
  - apply N.compare_eq_iff in Exy, Eyz. subst. rewrite N.compare_refl. eapply IH; eassumption.
  - apply N.compare_eq_iff in Exy. subst. rewrite Eyz. reflexivity.
  - apply N.compare_eq_iff in Eyz. subst. rewrite Exy. reflexivity.
  - assert (x ?= z = Lt) as ->; [|reflexivity].
    change (x < y) in Exy. change (y < z) in Eyz. change (x < z). lia.
Qed.

Lemma str_cmp_total a b : str_cmp a b = Lt \/ a = b \/ str_cmp b a = Lt.
Proof.
  destruct (str_cmp a b) eqn:E; [right; left; apply str_cmp_eq_iff, E|left; reflexivity|].
  right; right. rewrite str_cmp_antisym, E. reflexivity.
Qed.

(* a proper prefix is smaller (so prefix-related pointers sort parent first) *)
Lemma str_cmp_prefix a x r : str_cmp a (a ++ x :: r) = Lt.
Proof. induction a as [|y a IH]; cbn [app str_cmp]; [reflexivity|]. rewrite N.compare_refl. exact IH. Qed.

(* equality, ordering and hashing are mutually consistent *)
Theorem cmp_consistent a b :
  (ptr_eq a b = true <-> a = b) /\
  (ptr_partial_cmp a b = Some Eq <-> a = b) /\
  (ptr_cmp a b = Eq <-> ptr_eq a b = true) /\
  (hash_stream a = hash_stream b <-> a = b).
Proof.
  unfold ptr_eq, ptr_partial_cmp, ptr_cmp, hash_stream. split; [apply str_eqb_eq|]. split.
  { split; [intros H; inversion H as [E]; apply str_cmp_eq_iff, E|intros ->; rewrite str_cmp_refl; reflexivity]. }
  split; [rewrite str_cmp_eq_iff, str_eqb_eq; reflexivity|].
  split; [intros H; apply app_inv_tail in H; exact H|intros ->; reflexivity].
Qed.

(* ---- serde and conversions ------------------------------------------------------------------- *)

Theorem serde_roundtrip p : valid_ptr p = true -> deserialize (serialize p) = Some p.
Proof. intros H. unfold deserialize, serialize. apply validate_ok_iff in H. rewrite H. reflexivity. Qed.

Theorem deserialize_refuses s : valid_ptr s = false -> deserialize s = None.
Proof.
  intros H. unfold deserialize. destruct (validate s) eqn:E; [reflexivity|].
  apply validate_ok_iff in E. congruence.
Qed.

Theorem deserialize_exact s r : deserialize s = Some r <-> valid_ptr s = true /\ r = s.
Proof.
  unfold deserialize. destruct (validate s) eqn:E.
  - split; [discriminate|]. intros [H _]. apply validate_ok_iff in H. congruence.
  - apply validate_ok_iff in E. split.
    + intros H. inversion H; subst. split; [exact E|reflexivity].
    + intros [_ ->]. reflexivity.
Qed.

(* ---- integer tokens ---------------------------------------------------------------------------- *)

Lemma digits_plain s : forallb is_digit s = true -> forallb (fun b => negb (is_special b)) s = true.
Proof.
  intros Hd. rewrite forallb_forall in *. intros b Hb. specialize (Hd b Hb).
  unfold is_digit in Hd. unfold is_special.
  apply andb_true_iff in Hd as [H1 H2]. apply N.leb_le in H1, H2.
  destruct (N.eqb_spec b SLASH) as [->|_]; [vm_compute in H1; congruence|].
  destruct (N.eqb_spec b TILDE) as [->|_]; [vm_compute in H2; congruence|]. reflexivity.
Qed.

Lemma dec_of_Z_plain z : forallb (fun b => negb (is_special b)) (dec_of_Z z) = true.
Proof.
  destruct z as [|p|p]; cbn [dec_of_Z]; [reflexivity|apply digits_plain, dec_of_N_digits|].
  cbn [forallb]. rewrite (digits_plain _ (dec_of_N_digits (Npos p))). reflexivity.
Qed.

(* the token of an integer is its decimal spelling: valid as it stands, decodes to itself,
   and for a non-negative integer parses back (as an index) to the same number *)
Theorem token_of_int_spec z :
  valid_tok (token_of_int z) = true /\
  decoded (token_of_int z) = dec_of_Z z /\
  encode (dec_of_Z z) = token_of_int z /\
  (forall n, z = Z.of_N n -> n <= USIZE_MAX -> index_from_str (token_of_int z) = Ok (Num n)).
Proof.
  unfold token_of_int. pose proof (dec_of_Z_plain z) as Hp.
  assert (He : encode (dec_of_Z z) = dec_of_Z z) by exact (encode_plain _ Hp).
  assert (Hv : valid_tok (dec_of_Z z) = true) by (rewrite <- He; apply valid_tok_encode).
  split; [exact Hv|]. split.
  { rewrite (decoded_unescape _ Hv). rewrite <- He at 1. apply unescape_encode. }
  split; [exact He|].
  intros n -> Hn. replace (dec_of_Z (Z.of_N n)) with (dec_of_N n) by (destruct n; reflexivity).
  apply index_from_str_num. split; [exact Hn|reflexivity].
Qed.

(* distinct integers have distinct tokens *)
Theorem dec_of_Z_inj z1 z2 : dec_of_Z z1 = dec_of_Z z2 -> z1 = z2.
Proof.
  assert (Hpos : forall p, dec_acc 0 (dec_of_N (Npos p)) = Some (Npos p)) by (intros; apply dec_acc_dec_of_N).
  assert (Hnd : forall p r, dec_of_N (Npos p) <> DASH :: r).
  { intros p r H. pose proof (dec_of_N_digits (Npos p)) as Hd. rewrite H in Hd. cbn in Hd. discriminate. }
  assert (Hnz : forall p, dec_of_N (Npos p) <> [48]).
  { intros p H. pose proof (Hpos p) as Hq. rewrite H in Hq. cbn in Hq. discriminate. }
  destruct z1 as [|p|p], z2 as [|q|q]; cbn [dec_of_Z]; intros H; try reflexivity;
    try (exfalso; first [exact (Hnz _ H)|exact (Hnz _ (eq_sym H))|exact (Hnd _ _ H)|exact (Hnd _ _ (eq_sym H))|discriminate H]).
  - pose proof (Hpos p) as H1. rewrite H, Hpos in H1. inversion H1. reflexivity.
  - inversion H as [H']. pose proof (Hpos p) as H1. rewrite H', Hpos in H1. inversion H1. reflexivity.
Qed.
