(* Proofs/AssignLaws.v -- C07: what a successful assign does to the document
   (read-your-write, frame, replaced / nothing overwritten, idempotence), on SpecTree.spec_assign. *)
From Coq Require Import Arith.
From JP Require Import Bytes Spec Value SpecTree Model.Token Model.Pointer Model.Index Model.Tree
  Proofs.BytesFacts Proofs.TokenProofs Proofs.SplitProofs Proofs.IndexProofs Proofs.ValueFacts
  Proofs.TreeRefine Proofs.TreeLaws.

Arguments N.add : simpl never.
Arguments N.eqb : simpl never.
Arguments N.ltb : simpl never.
Arguments N.leb : simpl never.
Arguments N.sub : simpl never.

(* ---- one step of resolve: introduction / inversion -------------------------------------------------- *)

Definition cons_sel (s : sel) (r : result (list sel * value) resolve_error) :=
  match r with Ok (p, v) => Ok (s :: p, v) | Err e => Err e end.

Lemma resolve_arr_step q qr a j c pos off :
  index_from_str q = Ok (Num j) -> j < len a -> nth_error a (N.to_nat j) = Some c ->
  spec_resolve (q :: qr) (Arr a) pos off
  = cons_sel (Idx (N.to_nat j)) (spec_resolve qr c (pos + 1) (off + (1 + len q))).
Proof.
  intros Hi Hj Hc. cbn [spec_resolve]. apply N.ltb_lt in Hj. rewrite Hi, Hj, Hc. reflexivity.
Qed.

Lemma resolve_obj_step q qr m c pos off :
  obj_lookup (unescape q) m = Some c ->
  spec_resolve (q :: qr) (Obj m) pos off
  = cons_sel (Key (unescape q)) (spec_resolve qr c (pos + 1) (off + (1 + len q))).
Proof. intros Hc. cbn [spec_resolve]. rewrite Hc. reflexivity. Qed.

Lemma resolve_arr_inv q qr a pos off path w :
  spec_resolve (q :: qr) (Arr a) pos off = Ok (path, w) ->
  exists j c p, index_from_str q = Ok (Num j) /\ j < len a /\ nth_error a (N.to_nat j) = Some c /\
    spec_resolve qr c (pos + 1) (off + (1 + len q)) = Ok (p, w) /\ path = Idx (N.to_nat j) :: p.
Proof.
  cbn [spec_resolve]. intros H.
  destruct (index_from_str q) as [[j|]|pe]; try discriminate.
  destruct (j <? len a) eqn:Hj; [|discriminate]. apply N.ltb_lt in Hj.
  destruct (nth_error a (N.to_nat j)) as [c|] eqn:Hc; [|discriminate].
  destruct (spec_resolve qr c (pos + 1) (off + (1 + len q))) as [[p w']|e] eqn:E; [|discriminate].
  inversion H; subst. exists j, c, p. auto.
Qed.

Lemma resolve_obj_inv q qr m pos off path w :
  spec_resolve (q :: qr) (Obj m) pos off = Ok (path, w) ->
  exists c p, obj_lookup (unescape q) m = Some c /\
    spec_resolve qr c (pos + 1) (off + (1 + len q)) = Ok (p, w) /\ path = Key (unescape q) :: p.
Proof.
  cbn [spec_resolve]. intros H.
  destruct (obj_lookup (unescape q) m) as [c|] eqn:Hc; [|discriminate].
  destruct (spec_resolve qr c (pos + 1) (off + (1 + len q))) as [[p w']|e] eqn:E; [|discriminate].
  inversion H; subst. exists c, p. auto.
Qed.

Lemma resolve_scalar_inv q qr d pos off path w :
  is_container d = false -> spec_resolve (q :: qr) d pos off = Ok (path, w) -> False.
Proof. destruct d; cbn; intros; discriminate. Qed.

(* ---- one step of a successful assign: inversion ------------------------------------------------------- *)

Lemma assign_arr_inv t r a v pos off d' res :
  spec_assign (t :: r) (Arr a) v pos off = (d', Ok res) ->
  (exists n c c', index_from_str t = Ok (Num n) /\ n < len a /\ nth_error a (N.to_nat n) = Some c /\
      spec_assign r c v (pos + 1) (off + (1 + len t)) = (c', Ok res) /\
      d' = Arr (set_nth (N.to_nat n) c' a))
  \/ ((index_from_str t = Ok (Num (len a)) \/ index_from_str t = Ok Next) /\
      d' = Arr (a ++ [materialise r v]) /\ res = None).
Proof.
  cbn [spec_assign]. intros H.
  destruct (index_from_str t) as [i|pe]; [|discriminate]. cbv zeta in H.
  destruct ((match i with Num n => n | Next => len a end) <? len a) eqn:Hn.
  - apply N.ltb_lt in Hn. destruct (nth_error_lt_len a _ Hn) as [c Hc]. rewrite Hc in H.
    destruct (spec_assign r c v (pos + 1) (off + (1 + len t))) as [c' res'] eqn:E.
    inversion H; subst. destruct i as [n|]; [|lia]. left. exists n, c, c'. auto.
  - destruct ((match i with Num n => n | Next => len a end) =? len a) eqn:Hq; [|discriminate].
    apply N.eqb_eq in Hq. inversion H; subst. right. split; [|auto].
    destruct i as [n|]; [left; subst; reflexivity|right; reflexivity].
Qed.

Lemma assign_obj_inv t r m v pos off d' res :
  spec_assign (t :: r) (Obj m) v pos off = (d', Ok res) ->
  (exists c c', obj_lookup (unescape t) m = Some c /\
      spec_assign r c v (pos + 1) (off + (1 + len t)) = (c', Ok res) /\
      d' = Obj (obj_insert (unescape t) c' m))
  \/ (obj_lookup (unescape t) m = None /\
      d' = Obj (obj_insert (unescape t) (materialise r v) m) /\ res = None).
Proof.
  cbn [spec_assign]. intros H.
  destruct (obj_lookup (unescape t) m) as [c|] eqn:Hc.
  - destruct (spec_assign r c v (pos + 1) (off + (1 + len t))) as [c' res'] eqn:E.
    inversion H; subst. left. exists c, c'. auto.
  - inversion H; subst. right. auto.
Qed.

Lemma assign_scalar_inv t r d v pos off d' res :
  is_container d = false ->
  spec_assign (t :: r) d v pos off = (d', Ok res) -> d' = materialise (t :: r) v /\ res = Some d.
Proof.
  intros Hd H. destruct d; try discriminate; cbn [spec_assign] in H; inversion H; auto.
Qed.

Lemma container_cases d : (exists a, d = Arr a) \/ (exists m, d = Obj m) \/ is_container d = false.
Proof. destruct d; eauto. Qed.

(* ---- index facts ---------------------------------------------------------------------------------------- *)

Lemma ifs_zero : index_from_str [ZERO] = Ok (Num 0).
Proof. reflexivity. Qed.

Lemma index_num_inj t u n : index_from_str t = Ok (Num n) -> index_from_str u = Ok (Num n) -> t = u.
Proof.
  intros Ht Hu. apply index_from_str_num in Ht as [_ ->]. apply index_from_str_num in Hu as [_ ->].
  reflexivity.
Qed.

Lemma len_set_nth {A} n (x : A) l : len (set_nth n x l) = len l.
Proof. unfold len. rewrite length_set_nth. reflexivity. Qed.

Lemma len_snoc {A} (l : list A) x : len (l ++ [x]) = len l + 1.
Proof. rewrite len_app, len_cons, len_nil. lia. Qed.

Lemma to_nat_lt_length {A} (a : list A) n : n < len a -> (N.to_nat n < length a)%nat.
Proof. unfold len. lia. Qed.

(* ---- read your write -------------------------------------------------------------------------------------- *)

Lemma materialise_resolve_last r : forall v, exists p, spec_resolve_last r (materialise r v) = Some (p, v).
Proof.
  induction r as [|t r IH]; intros v; [exists []; reflexivity|].
  destruct (IH v) as [p Hp]. cbn [materialise].
  destruct (str_eqb t [ZERO]) eqn:E0; [|destruct (str_eqb t [DASH]) eqn:E1]; cbn [orb].
  - apply str_eqb_eq in E0. subst t. exists (Idx 0 :: p). cbn [spec_resolve_last]. rewrite ifs_zero.
    change (0 <? len [materialise r v]) with true. cbn [N.to_nat nth_error]. rewrite Hp. reflexivity.
  - apply str_eqb_eq in E1. subst t. exists (Idx 0 :: p). cbn [spec_resolve_last]. rewrite ifs_dash.
    change (len [materialise r v] - 1) with 0.
    change (0 <? len [materialise r v]) with true. cbn [N.to_nat nth_error]. rewrite Hp. reflexivity.
  - exists (Key (unescape t) :: p). cbn [spec_resolve_last obj_lookup].
    rewrite str_eqb_refl, Hp. reflexivity.
Qed.

Theorem spec_assign_read_your_write ts : forall d v pos off d' res,
  spec_assign ts d v pos off = (d', Ok res) ->
  exists path, spec_resolve_last ts d' = Some (path, v).
Proof.
  induction ts as [|t r IH]; intros d v pos off d' res H.
  - cbn [spec_assign] in H. inversion H; subst. exists []. reflexivity.
  - destruct (container_cases d) as [[a ->]|[[m ->]|Hd]].
    + apply assign_arr_inv in H as [(n & c & c' & Hi & Hn & Hc & Hrec & ->)|(Hi & -> & ->)].
      * destruct (IH _ _ _ _ _ _ Hrec) as [p Hp]. exists (Idx (N.to_nat n) :: p).
        cbn [spec_resolve_last]. rewrite Hi, len_set_nth. apply N.ltb_lt in Hn. rewrite Hn.
        apply N.ltb_lt in Hn.
        rewrite nth_error_set_nth_same by (apply to_nat_lt_length, Hn). rewrite Hp. reflexivity.
      * destruct (materialise_resolve_last r v) as [p Hp].
        exists (Idx (N.to_nat (len a)) :: p). cbn [spec_resolve_last].
        assert (Hlast : len (a ++ [materialise r v]) - 1 = len a) by (rewrite len_snoc; lia).
        assert (Hlt : (len a <? len (a ++ [materialise r v])) = true)
          by (apply N.ltb_lt; rewrite len_snoc; lia).
        assert (Hnth : nth_error (a ++ [materialise r v]) (N.to_nat (len a)) = Some (materialise r v)).
        { unfold len. rewrite Nat2N.id. apply nth_error_snoc_last. }
        destruct Hi as [Hi|Hi]; rewrite Hi; cbv zeta; [|rewrite Hlast]; rewrite Hlt, Hnth, Hp; reflexivity.
    + apply assign_obj_inv in H as [(c & c' & Hc & Hrec & ->)|(Hc & -> & ->)].
      * destruct (IH _ _ _ _ _ _ Hrec) as [p Hp]. exists (Key (unescape t) :: p).
        cbn [spec_resolve_last]. rewrite obj_lookup_insert_same, Hp. reflexivity.
      * destruct (materialise_resolve_last r v) as [p Hp]. exists (Key (unescape t) :: p).
        cbn [spec_resolve_last]. rewrite obj_lookup_insert_same, Hp. reflexivity.
    + apply (assign_scalar_inv _ _ _ _ _ _ _ _ Hd) in H as [-> _].
      apply materialise_resolve_last.
Qed.


Lemma spec_resolve_last_dash_free ts : forall d pos off,
  dash_free ts ->
  spec_resolve_last ts d = match spec_resolve ts d pos off with Ok x => Some x | Err _ => None end.
Proof.
  induction ts as [|t r IH]; intros d pos off Hdf; [reflexivity|].
  inversion Hdf as [|? ? Ht Hr]; subst. cbn [spec_resolve_last spec_resolve].
  destruct d as [| | | | |a|m]; try reflexivity.
  - destruct (index_from_str t) as [[n|]|pe] eqn:Hi; try reflexivity.
    + cbv zeta. destruct (n <? len a); [|reflexivity].
      destruct (nth_error a (N.to_nat n)) as [c|]; [|reflexivity].
      rewrite (IH c (pos + 1) (off + (1 + len t)) Hr).
      destruct (spec_resolve r c (pos + 1) (off + (1 + len t))) as [[p v]|e]; reflexivity.
    + apply index_from_str_next in Hi. contradiction.
  - destruct (obj_lookup (unescape t) m) as [c|]; [|reflexivity].
    rewrite (IH c (pos + 1) (off + (1 + len t)) Hr).
    destruct (spec_resolve r c (pos + 1) (off + (1 + len t))) as [[p v]|e]; reflexivity.
Qed.

Corollary spec_assign_read_your_write_dash_free ts d v d' res :
  dash_free ts -> spec_assign ts d v 0 0 = (d', Ok res) ->
  exists path, spec_resolve ts d' 0 0 = Ok (path, v).
Proof.
  intros Hdf H. destruct (spec_assign_read_your_write _ _ _ _ _ _ _ H) as [path Hp].
  rewrite (spec_resolve_last_dash_free ts d' 0 0 Hdf) in Hp.
  destruct (spec_resolve ts d' 0 0) as [[p w]|e]; [|discriminate]. inversion Hp; subst. eauto.
Qed.

(* ---- replaced ------------------------------------------------------------------------------------------------ *)

Theorem spec_assign_replaced ts : forall d v pos off pos' off' path w,
  spec_resolve ts d pos' off' = Ok (path, w) -> snd (spec_assign ts d v pos off) = Ok (Some w).
Proof.
  induction ts as [|t r IH]; intros d v pos off pos' off' path w H.
  - cbn in H. inversion H; subst. reflexivity.
  - destruct (container_cases d) as [[a ->]|[[m ->]|Hd]].
    + apply resolve_arr_inv in H as (j & c & p & Hi & Hj & Hc & Hrec & ->).
      cbn [spec_assign]. rewrite Hi. cbv zeta. apply N.ltb_lt in Hj. rewrite Hj, Hc.
      specialize (IH c v (pos + 1) (off + (1 + len t)) _ _ _ _ Hrec).
      destruct (spec_assign r c v (pos + 1) (off + (1 + len t))) as [c' res]. exact IH.
    + apply resolve_obj_inv in H as (c & p & Hc & Hrec & ->).
      cbn [spec_assign]. rewrite Hc.
      specialize (IH c v (pos + 1) (off + (1 + len t)) _ _ _ _ Hrec).
      destruct (spec_assign r c v (pos + 1) (off + (1 + len t))) as [c' res]. exact IH.
    + exfalso. exact (resolve_scalar_inv _ _ _ _ _ _ _ Hd H).
Qed.

(* Ok None = something new was created: everything that existed is still there, in place *)
Theorem spec_assign_none_preserves ts : forall qs d v pos off d' pos' off' path w,
  spec_assign ts d v pos off = (d', Ok None) ->
  spec_resolve qs d pos' off' = Ok (path, w) ->
  exists w', spec_resolve qs d' pos' off' = Ok (path, w') /\ (is_scalar w -> w' = w).
Proof.
  induction ts as [|t r IH]; intros qs d v pos off d' pos' off' path w H Hq.
  - cbn in H. inversion H.
  - destruct qs as [|q qr].
    { cbn in Hq. inversion Hq; subst. exists d'. split; [reflexivity|].
      intros Hs. exfalso. unfold is_scalar in Hs.
      destruct (container_cases w) as [[a ->]|[[m ->]|Hd]]; try discriminate.
      apply (assign_scalar_inv _ _ _ _ _ _ _ _ Hd) in H as [_ H]. discriminate. }
    destruct (container_cases d) as [[a ->]|[[m ->]|Hd]].
    + apply resolve_arr_inv in Hq as (j & cj & p & Hi & Hj & Hcj & Hrec & ->).
      apply assign_arr_inv in H as [(n & c & c' & Hti & Hn & Hc & Hass & ->)|(Hti & -> & _)].
      * destruct (N.eq_dec j n) as [->|Hne].
        -- assert (cj = c) by congruence. subst cj.
           destruct (IH _ _ _ _ _ _ _ _ _ _ Hass Hrec) as (w' & Hw' & Hsc).
           exists w'. split; [|exact Hsc].
           rewrite (resolve_arr_step q qr _ n c' pos' off' Hi); [rewrite Hw'; reflexivity| |].
           ++ rewrite len_set_nth. exact Hn.
           ++ apply nth_error_set_nth_same, to_nat_lt_length, Hn.
        -- exists w. split; [|reflexivity].
           rewrite (resolve_arr_step q qr _ j cj pos' off' Hi); [rewrite Hrec; reflexivity| |].
           ++ rewrite len_set_nth. exact Hj.
           ++ rewrite nth_error_set_nth_other by lia. exact Hcj.
      * exists w. split; [|reflexivity].
        rewrite (resolve_arr_step q qr _ j cj pos' off' Hi); [rewrite Hrec; reflexivity| |].
        -- rewrite len_snoc. lia.
        -- rewrite nth_error_app1 by (apply to_nat_lt_length, Hj). exact Hcj.
    + apply resolve_obj_inv in Hq as (cj & p & Hcj & Hrec & ->).
      apply assign_obj_inv in H as [(c & c' & Hc & Hass & ->)|(Hc & -> & _)].
      * destruct (str_dec (unescape t) (unescape q)) as [E|Hne].
        -- rewrite E in *. assert (cj = c) by congruence. subst cj.
           destruct (IH _ _ _ _ _ _ _ _ _ _ Hass Hrec) as (w' & Hw' & Hsc).
           exists w'. split; [|exact Hsc].
           rewrite (resolve_obj_step q qr _ c' pos' off'); [rewrite Hw'; reflexivity|].
           apply obj_lookup_insert_same.
        -- exists w. split; [|reflexivity].
           rewrite (resolve_obj_step q qr _ cj pos' off'); [rewrite Hrec; reflexivity|].
           rewrite obj_lookup_insert_other by exact Hne. exact Hcj.
      * assert (Hne : unescape t <> unescape q) by (intros E; rewrite E in Hc; congruence).
        exists w. split; [|reflexivity].
        rewrite (resolve_obj_step q qr _ cj pos' off'); [rewrite Hrec; reflexivity|].
        rewrite obj_lookup_insert_other by exact Hne. exact Hcj.
    + exfalso. exact (resolve_scalar_inv _ _ _ _ _ _ _ Hd Hq).
Qed.

(* ---- idempotence ------------------------------------------------------------------------------------------------ *)

Lemma spec_assign_materialise r : forall v pos off,
  dash_free r -> spec_assign r (materialise r v) v pos off = (materialise r v, Ok (Some v)).
Proof.
  induction r as [|t r IH]; intros v pos off Hdf; [reflexivity|].
  inversion Hdf as [|? ? Ht Hr]; subst. cbn [materialise].
  destruct (str_eqb t [ZERO]) eqn:E0; [|destruct (str_eqb t [DASH]) eqn:E1]; cbn [orb].
  - apply str_eqb_eq in E0. subst t. cbn [spec_assign]. rewrite ifs_zero. cbv zeta.
    change (0 <? len [materialise r v]) with true. cbn [N.to_nat nth_error].
    rewrite (IH v _ _ Hr). reflexivity.
  - apply str_eqb_eq in E1. contradiction.
  - cbn [spec_assign obj_lookup]. rewrite str_eqb_refl. rewrite (IH v _ _ Hr).
    cbn [obj_insert]. rewrite str_cmp_refl. reflexivity.
Qed.

Theorem spec_assign_idempotent ts : forall d v pos off d' res,
  dash_free ts -> spec_assign ts d v pos off = (d', Ok res) ->
  spec_assign ts d' v pos off = (d', Ok (Some v)).
Proof.
  induction ts as [|t r IH]; intros d v pos off d' res Hdf H.
  - cbn in H. inversion H; subst. reflexivity.
  - inversion Hdf as [|? ? Ht Hr]; subst.
    destruct (container_cases d) as [[a ->]|[[m ->]|Hd]].
    + apply assign_arr_inv in H as [(n & c & c' & Hi & Hn & Hc & Hrec & ->)|(Hi & -> & ->)].
      * cbn [spec_assign]. rewrite Hi. cbv zeta. rewrite len_set_nth.
        pose proof Hn as Hn'. apply N.ltb_lt in Hn'. rewrite Hn'.
        rewrite nth_error_set_nth_same by (apply to_nat_lt_length, Hn).
        rewrite (IH _ _ _ _ _ _ Hr Hrec). rewrite set_nth_set_nth. reflexivity.
      * destruct Hi as [Hi|Hi]; [|apply index_from_str_next in Hi; contradiction].
        cbn [spec_assign]. rewrite Hi. cbv zeta.
        assert (Hlt : (len a <? len (a ++ [materialise r v])) = true)
          by (apply N.ltb_lt; rewrite len_snoc; lia).
        rewrite Hlt. unfold len at 1. rewrite Nat2N.id, nth_error_snoc_last.
        rewrite (spec_assign_materialise r v _ _ Hr).
        unfold len at 1. rewrite Nat2N.id.
        rewrite (set_nth_id _ _ _ (nth_error_snoc_last a (materialise r v))). reflexivity.
    + apply assign_obj_inv in H as [(c & c' & Hc & Hrec & ->)|(Hc & -> & ->)].
      * cbn [spec_assign]. rewrite obj_lookup_insert_same.
        rewrite (IH _ _ _ _ _ _ Hr Hrec). rewrite obj_insert_insert. reflexivity.
      * cbn [spec_assign]. rewrite obj_lookup_insert_same.
        rewrite (spec_assign_materialise r v _ _ Hr). rewrite obj_insert_insert. reflexivity.
    + apply (assign_scalar_inv _ _ _ _ _ _ _ _ Hd) in H as [-> _].
      apply spec_assign_materialise. exact Hdf.
Qed.

(* ---- frame -------------------------------------------------------------------------------------------------------- *)

Lemma is_prefix_nil {A} (l : list A) : is_prefix [] l.
Proof. exists l. reflexivity. Qed.

Lemma is_prefix_cons {A} (x : A) a b : is_prefix a b -> is_prefix (x :: a) (x :: b).
Proof. intros [c ->]. exists c. reflexivity. Qed.

Lemma valid_tok_unescape_inj t q :
  valid_tok t = true -> valid_tok q = true -> unescape t = unescape q -> t = q.
Proof.
  intros Ht Hq E. rewrite <- (encode_unescape t Ht), <- (encode_unescape q Hq), E. reflexivity.
Qed.

Theorem spec_assign_frame ts : forall qs d v pos off d' res pos' off' path w,
  forallb valid_tok ts = true -> forallb valid_tok qs = true ->
  spec_assign ts d v pos off = (d', Ok res) ->
  spec_resolve qs d pos' off' = Ok (path, w) ->
  ~ is_prefix qs ts -> ~ is_prefix ts qs ->
  spec_resolve qs d' pos' off' = Ok (path, w).
Proof.
  induction ts as [|t r IH]; intros qs d v pos off d' res pos' off' path w Hvt Hvq H Hq Hn1 Hn2.
  - exfalso. apply Hn2, is_prefix_nil.
  - destruct qs as [|q qr]; [exfalso; apply Hn1, is_prefix_nil|].
    apply forallb_valid_cons in Hvt as [Ht Hr]. apply forallb_valid_cons in Hvq as [Hqv Hqr].
    destruct (container_cases d) as [[a ->]|[[m ->]|Hd]].
    + apply resolve_arr_inv in Hq as (j & cj & p & Hi & Hj & Hcj & Hrec & ->).
      apply assign_arr_inv in H as [(n & c & c' & Hti & Hn & Hc & Hass & ->)|(Hti & -> & _)].
      * destruct (N.eq_dec j n) as [->|Hne].
        -- assert (cj = c) by congruence. subst cj.
           assert (t = q) by (exact (index_num_inj _ _ _ Hti Hi)). subst q.
           rewrite (resolve_arr_step t qr _ n c' pos' off' Hi).
           ++ rewrite (IH qr c v _ _ c' res _ _ p w Hr Hqr Hass Hrec); [reflexivity| |].
              ** intros Hp. apply Hn1, is_prefix_cons, Hp.
              ** intros Hp. apply Hn2, is_prefix_cons, Hp.
           ++ rewrite len_set_nth. exact Hn.
           ++ apply nth_error_set_nth_same, to_nat_lt_length, Hn.
        -- rewrite (resolve_arr_step q qr _ j cj pos' off' Hi); [rewrite Hrec; reflexivity| |].
           ++ rewrite len_set_nth. exact Hj.
           ++ rewrite nth_error_set_nth_other by lia. exact Hcj.
      * rewrite (resolve_arr_step q qr _ j cj pos' off' Hi); [rewrite Hrec; reflexivity| |].
        -- rewrite len_snoc. lia.
        -- rewrite nth_error_app1 by (apply to_nat_lt_length, Hj). exact Hcj.
    + apply resolve_obj_inv in Hq as (cj & p & Hcj & Hrec & ->).
      apply assign_obj_inv in H as [(c & c' & Hc & Hass & ->)|(Hc & -> & _)].
      * destruct (str_dec (unescape t) (unescape q)) as [E|Hne].
        -- assert (t = q) by (exact (valid_tok_unescape_inj _ _ Ht Hqv E)). subst q.
           assert (cj = c) by congruence. subst cj.
           rewrite (resolve_obj_step t qr _ c' pos' off') by apply obj_lookup_insert_same.
           rewrite (IH qr c v _ _ c' res _ _ p w Hr Hqr Hass Hrec); [reflexivity| |].
           ++ intros Hp. apply Hn1, is_prefix_cons, Hp.
           ++ intros Hp. apply Hn2, is_prefix_cons, Hp.
        -- rewrite (resolve_obj_step q qr _ cj pos' off'); [rewrite Hrec; reflexivity|].
           rewrite obj_lookup_insert_other by exact Hne. exact Hcj.
      * assert (Hne : unescape t <> unescape q) by (intros E; rewrite E in Hc; congruence).
        rewrite (resolve_obj_step q qr _ cj pos' off'); [rewrite Hrec; reflexivity|].
        rewrite obj_lookup_insert_other by exact Hne. exact Hcj.
    + exfalso. exact (resolve_scalar_inv _ _ _ _ _ _ _ Hd Hq).
Qed.

(* ---- C06: the clauses of assign, one by one ------------------------------------------------------------------------ *)

Lemma materialise_array t r v :
  t = [ZERO] \/ t = [DASH] -> materialise (t :: r) v = Arr [materialise r v].
Proof. intros [->| ->]; reflexivity. Qed.

Lemma materialise_object t r v :
  t <> [ZERO] -> t <> [DASH] -> materialise (t :: r) v = Obj [(unescape t, materialise r v)].
Proof.
  intros H0 H1. cbn [materialise]. apply str_eqb_neq in H0, H1. rewrite H0, H1. reflexivity.
Qed.

Lemma materialise_nil v : materialise [] v = v.
Proof. reflexivity. Qed.

Lemma spec_assign_root d v pos off : spec_assign [] d v pos off = (v, Ok (Some d)).
Proof. reflexivity. Qed.

Lemma spec_assign_scalar t r d v pos off :
  is_scalar d -> spec_assign (t :: r) d v pos off = (materialise (t :: r) v, Ok (Some d)).
Proof. unfold is_scalar. destruct d; try discriminate; reflexivity. Qed.

Lemma spec_assign_arr_existing t r a n c v pos off :
  index_from_str t = Ok (Num n) -> n < len a -> nth_error a (N.to_nat n) = Some c ->
  spec_assign (t :: r) (Arr a) v pos off =
  (Arr (set_nth (N.to_nat n) (fst (spec_assign r c v (pos + 1) (off + (1 + len t)))) a),
   snd (spec_assign r c v (pos + 1) (off + (1 + len t)))).
Proof.
  intros Hi Hn Hc. cbn [spec_assign]. rewrite Hi. cbv zeta. apply N.ltb_lt in Hn. rewrite Hn, Hc.
  destruct (spec_assign r c v (pos + 1) (off + (1 + len t))) as [c' res]. reflexivity.
Qed.

Lemma spec_assign_arr_append t r a v pos off :
  index_from_str t = Ok Next \/ index_from_str t = Ok (Num (len a)) ->
  spec_assign (t :: r) (Arr a) v pos off = (Arr (a ++ [materialise r v]), Ok None).
Proof.
  intros [Hi|Hi]; cbn [spec_assign]; rewrite Hi; cbv zeta; rewrite N.ltb_irrefl, N.eqb_refl; reflexivity.
Qed.

Lemma spec_assign_arr_out_of_bounds t r a n v pos off :
  index_from_str t = Ok (Num n) -> len a < n ->
  spec_assign (t :: r) (Arr a) v pos off = (Arr a, Err (AOutOfBounds pos off (len a) n)).
Proof.
  intros Hi Hn. cbn [spec_assign]. rewrite Hi. cbv zeta.
  assert (E1 : (n <? len a) = false) by (apply N.ltb_ge; lia).
  assert (E2 : (n =? len a) = false) by (apply N.eqb_neq; lia).
  rewrite E1, E2. reflexivity.
Qed.

Lemma spec_assign_arr_bad_index t r a pe v pos off :
  index_from_str t = Err pe ->
  spec_assign (t :: r) (Arr a) v pos off = (Arr a, Err (AFailedToParseIndex pos off pe)).
Proof. intros Hi. cbn [spec_assign]. rewrite Hi. reflexivity. Qed.

Lemma spec_assign_obj_existing t r m c v pos off :
  obj_lookup (unescape t) m = Some c ->
  spec_assign (t :: r) (Obj m) v pos off =
  (Obj (obj_insert (unescape t) (fst (spec_assign r c v (pos + 1) (off + (1 + len t)))) m),
   snd (spec_assign r c v (pos + 1) (off + (1 + len t)))).
Proof.
  intros Hc. cbn [spec_assign]. rewrite Hc.
  destruct (spec_assign r c v (pos + 1) (off + (1 + len t))) as [c' res]. reflexivity.
Qed.

Lemma spec_assign_obj_new t r m v pos off :
  obj_lookup (unescape t) m = None ->
  spec_assign (t :: r) (Obj m) v pos off =
  (Obj (obj_insert (unescape t) (materialise r v) m), Ok None).
Proof. intros Hc. cbn [spec_assign]. rewrite Hc. reflexivity. Qed.

(* ---- assign = walk the existing prefix like resolve, then act at the node reached --------------------- *)

Lemma spec_assign_along pre : forall rest d v pos off path c,
  spec_resolve pre d pos off = Ok (path, c) ->
  spec_assign (pre ++ rest) d v pos off =
  (update_at path (fun _ => fst (spec_assign rest c v (pos + len pre) (off + len (from_tokens_enc pre)))) d,
   snd (spec_assign rest c v (pos + len pre) (off + len (from_tokens_enc pre)))).
Proof.
  induction pre as [|t pre IH]; intros rest d v pos off path c H.
  - cbn in H. inversion H; subst. cbn [app from_tokens_enc flat_map update_at].
    rewrite len_nil, !N.add_0_r. destruct (spec_assign rest c v pos off); reflexivity.
  - assert (Hp : pos + len (t :: pre) = pos + 1 + len pre) by (rewrite len_cons; lia).
    assert (Ho : off + len (from_tokens_enc (t :: pre)) = off + (1 + len t) + len (from_tokens_enc pre))
      by (rewrite len_from_tokens_enc_cons; lia).
    rewrite Hp, Ho. cbn [app].
    destruct (container_cases d) as [[a ->]|[[m ->]|Hd]].
    + apply resolve_arr_inv in H as (j & c1 & p & Hi & Hj & Hc & Hrec & ->).
      rewrite (spec_assign_arr_existing t (pre ++ rest) a j c1 v pos off Hi Hj Hc).
      rewrite (IH rest c1 v _ _ p c Hrec). cbn [fst snd update_at]. rewrite Hc. reflexivity.
    + apply resolve_obj_inv in H as (c1 & p & Hc & Hrec & ->).
      rewrite (spec_assign_obj_existing t (pre ++ rest) m c1 v pos off Hc).
      rewrite (IH rest c1 v _ _ p c Hrec). cbn [fst snd update_at]. rewrite Hc. reflexivity.
    + exfalso. exact (resolve_scalar_inv _ _ _ _ _ _ _ Hd H).
Qed.

(* the converse of spec_assign_error_first_failure: assign fails exactly in those situations *)
Theorem spec_assign_error_iff ts d v e :
  snd (spec_assign ts d v 0 0) = Err e <-> assign_first_failure ts d e.
Proof.
  split.
  - intros H. destruct (spec_assign ts d v 0 0) as [d' res] eqn:E. cbn [snd] in H. subst res.
    exact (spec_assign_error_first_failure _ _ _ _ _ E).
  - intros (pre & t & post & path & a & -> & Hpre & Hp & Ho & Hcase).
    rewrite (spec_assign_along pre (t :: post) d v 0 0 path (Arr a) Hpre). cbn [snd].
    rewrite !N.add_0_l.
    destruct e as [p o pe|p o l i]; cbn [ae_position ae_offset] in Hp, Ho; subst p o.
    + rewrite (spec_assign_arr_bad_index t post a pe v _ _ Hcase). reflexivity.
    + destruct Hcase as (-> & Hi & Hlt).
      rewrite (spec_assign_arr_out_of_bounds t post a i v _ _ Hi Hlt). reflexivity.
Qed.
