(* Proofs/GenEquivToken.v -- part of the REGENERATED-MODEL tie (DESIGN 13): the definitions of Generated/Scan*.v are
   re-translated from the crate's current Rust source by tools/rs2v.py on every run; the lemmas here
   re-prove, for ALL inputs, that each equals the hand-written model function of Model/*.v that the
   property theorems are stated about.  An edit to a translated function changes the generated term and
   the lemma either still goes through (the edit preserves the function) or breaks (the check then
   searches for a failing input and reports).  Scripts name nothing generated except function names. *)

From JP Require Import Proofs.GenEquivBase Generated.ScanToken.

Arguments N.add : simpl never.
Arguments N.sub : simpl never.
Arguments N.eqb : simpl never.
Arguments N.ltb : simpl never.
Arguments N.leb : simpl never.
Arguments N.of_nat : simpl never.

(* ---- src/token.rs  Token::from_encoded -------------------------------------------------------------- *)

Lemma gen_from_encoded_loop_eq' : forall l pre esc,
  gen_Token_from_encoded_loop1 l (len pre) (pre ++ l) esc =
  Ret (match from_encoded_loop l (len pre) esc with
       | None => Ok (mk_Token (Cow_Borrowed (pre ++ l)))
       | Some (o, k) => Err (mk_EncodingError o (gen_kind k))
       end).
Proof.
  induction l as [|b r IH]; intros pre esc; cbn [gen_Token_from_encoded_loop1 from_encoded_loop].
  - rewrite app_nil_r. destruct esc; reflexivity.
  - change SLASH with 47. change TILDE with 126. change ZERO with 48. change ONE with 49.
    assert (Hstep : forall e, gen_Token_from_encoded_loop1 r (len pre + 1) (pre ++ b :: r) e =
                              Ret (match from_encoded_loop r (len pre + 1) e with
                                   | None => Ok (mk_Token (Cow_Borrowed (pre ++ b :: r)))
                                   | Some (o, k) => Err (mk_EncodingError o (gen_kind k)) end)).
    { intros e.
      replace (pre ++ b :: r) with ((pre ++ [b]) ++ r) by (rewrite <- app_assoc; reflexivity).
      replace (len pre + 1) with (len (pre ++ [b])) by (rewrite len_app; reflexivity).
      apply IH. }
    destruct (b =? 47) eqn:E47; [reflexivity|].
    destruct (b =? 126) eqn:E126.
    + destruct esc; [reflexivity|]. apply Hstep.
    + destruct ((b =? 48) || (b =? 49)) eqn:E01; cbn [andb].
      * destruct esc; cbn [andb]; apply Hstep || reflexivity.
      * destruct esc; [reflexivity|]. apply Hstep.
Qed.

Theorem gen_from_encoded_eq : forall s : str,
  gen_Token_from_encoded s =
  Ret (match from_encoded s with
       | None => Ok (gen_token (from_encoded_tok s))
       | Some (o, k) => Err (mk_EncodingError o (gen_kind k))
       end).
Proof.
  intros s. unfold gen_Token_from_encoded, from_encoded.
  pose proof (gen_from_encoded_loop_eq' s [] false) as L. cbn [app] in L. change (@len N []) with 0 in L.
  rewrite L. reflexivity.
Qed.

(* ---- src/token.rs  Token::new ----------------------------------------------------------------------- *)

Lemma gen_new_loop_eq : forall l s i input acc,
  gen_Token_new_loop1 l s i input acc = Ret (mk_Token (Cow_Owned (acc ++ new_loop l))).
Proof.
  induction l as [|b r IH]; intros s i input acc; cbn [gen_Token_new_loop1 new_loop].
  - rewrite app_nil_r. reflexivity.
  - change SLASH with 47. change TILDE with 126. change ZERO with 48. change ONE with 49.
    destruct (b =? 47); [rewrite IH, <- app_assoc; reflexivity|].
    destruct (b =? 126); rewrite IH, <- app_assoc; reflexivity.
Qed.

Lemma positionN_is_special s :
  positionN (fun b => (b =? 47) || (b =? 126)) s = option_map N.of_nat (position is_special s).
Proof. reflexivity. Qed.

Theorem gen_token_new_eq : forall (c : Cow),
  gen_Token_new c =
  Ret (mk_Token (match position is_special (cow_text c) with
                 | Some _ => Cow_Owned (ttext (token_new (cow_owned c) (cow_text c)))
                 | None => c
                 end)).
Proof.
  intros c. unfold gen_Token_new. rewrite positionN_is_special. unfold token_new.
  destruct (position is_special (cow_text c)) as [i|] eqn:P; cbn [option_map]; [|reflexivity].
  pose proof (position_lt _ _ _ P) as Hi.
  unfold slice_to, slice_from, len.
  destruct (N.leb_spec (N.of_nat i) (N.of_nat (length (cow_text c)))) as [H|H]; [|lia].
  rewrite Nat2N.id. cbn [app]. rewrite gen_new_loop_eq. reflexivity.
Qed.

(* the text and the Cow variant, in the model's own terms *)
Corollary gen_token_new_model : forall c,
  exists t, gen_Token_new c = Ret t /\
            cow_text (Token_inner t) = ttext (token_new (cow_owned c) (cow_text c)) /\
            cow_owned (Token_inner t) = towned (token_new (cow_owned c) (cow_text c)).
Proof.
  intros c. rewrite gen_token_new_eq. eexists; split; [reflexivity|].
  unfold token_new. destruct (position is_special (cow_text c)); cbn; [split; reflexivity|].
  destruct c; split; reflexivity.
Qed.

(* ---- src/token.rs  Token::decoded / encoded / into_owned / to_owned --------------------------------- *)

Lemma gen_decoded_loop_eq : forall l self i input acc esc,
  gen_Token_decoded_loop1 l self i input acc esc = Ret (Cow_Owned (acc ++ dec_loop l esc)).
Proof.
  induction l as [|b r IH]; intros self i input acc esc; cbn [gen_Token_decoded_loop1 dec_loop].
  - rewrite app_nil_r. reflexivity.
  - change SLASH with 47. change TILDE with 126. change ZERO with 48. change ONE with 49.
    destruct (b =? 126); [rewrite IH; reflexivity|].
    destruct ((b =? 48) && esc); [rewrite IH, <- app_assoc; reflexivity|].
    destruct ((b =? 49) && esc); rewrite IH, <- app_assoc; reflexivity.
Qed.

Lemma positionN_tilde s : positionN (fun b => b =? 126) s = option_map N.of_nat (position (N.eqb TILDE) s).
Proof.
  unfold positionN. f_equal. induction s as [|b r IH]; cbn [position]; [reflexivity|].
  change TILDE with 126. rewrite (N.eqb_sym 126 b). rewrite IH. reflexivity.
Qed.

Theorem gen_decoded_eq : forall t : Token,
  gen_Token_decoded t =
  Ret (let '(alloc, text) := decoded_cow (cow_text (Token_inner t)) in gen_cow alloc text).
Proof.
  intros t. unfold gen_Token_decoded, decoded_cow. rewrite positionN_tilde.
  destruct (position (N.eqb TILDE) (cow_text (Token_inner t))) as [i|] eqn:P; cbn [option_map]; [|reflexivity].
  pose proof (position_lt _ _ _ P) as Hi.
  unfold slice_to, slice_from, len.
  destruct (N.leb_spec (N.of_nat i) (N.of_nat (length (cow_text (Token_inner t))))) as [H|H]; [|lia].
  destruct (N.leb_spec (N.of_nat i + 1) (N.of_nat (length (cow_text (Token_inner t))))) as [H2|H2]; [|lia].
  rewrite Nat2N.id. replace (N.to_nat (N.of_nat i + 1)) with (S i) by lia.
  cbn [app]. rewrite gen_decoded_loop_eq. reflexivity.
Qed.

Lemma gen_encoded_eq t : gen_Token_encoded t = Ret (cow_text (Token_inner t)).
Proof. reflexivity. Qed.

Lemma gen_into_owned_eq t : gen_Token_into_owned (gen_token t) = Ret (gen_token (token_into_owned t)).
Proof. destruct t as [o s]; destruct o; reflexivity. Qed.

Lemma gen_to_owned_eq t : gen_Token_to_owned (gen_token t) = Ret (gen_token (token_into_owned t)).
Proof. destruct t as [o s]; destruct o; reflexivity. Qed.


(* ==== the properties, stated of the regenerated functions themselves ============================= *)

From JP Require Import Proofs.TokenProofs.

(* C03: Token::from_encoded, as it stands in the source, succeeds exactly on valid tokens, borrows the
   input verbatim, and its errors are truthful *)
Theorem gen_from_encoded_exact : forall e : str,
  (exists t, gen_Token_from_encoded e = Ret (Ok t)) <-> valid_tok e = true.
Proof.
  intros e. rewrite gen_from_encoded_eq, <- from_encoded_ok_iff.
  destruct (from_encoded e) as [[o k]|]; split; intros H; try reflexivity; try discriminate; eauto.
  destruct H as [t H]; discriminate.
Qed.

Theorem gen_from_encoded_borrows : forall (e : str) (t : Token),
  gen_Token_from_encoded e = Ret (Ok t) -> Token_inner t = Cow_Borrowed e.
Proof.
  intros e t. rewrite gen_from_encoded_eq. destruct (from_encoded e) as [[o k]|]; [discriminate|].
  intros [= <-]. reflexivity.
Qed.

Theorem gen_from_encoded_err_truthful : forall (e : str) (err : EncodingError),
  gen_Token_from_encoded e = Ret (Err err) ->
  exists a rest, e = a ++ rest /\ EncodingError_offset err = len a /\ prefix_extends a /\
    match EncodingError_source err with
    | InvalidEncoding_Slash => exists r, rest = SLASH :: r
    | InvalidEncoding_Tilde => (exists a', a = a' ++ [TILDE] /\ valid_tok a' = true) /\
                match rest with [] => True | c :: _ => c <> ZERO /\ c <> ONE end
    end.
Proof.
  intros e err. rewrite gen_from_encoded_eq. destruct (from_encoded e) as [[o k]|] eqn:F; [|discriminate].
  intros [= <-]. cbn [EncodingError_offset EncodingError_source].
  pose proof (from_encoded_err_truthful e o k F) as (a & rest & He & Ho & Hp & Hk).
  exists a, rest. repeat split; try assumption. destruct k; exact Hk.
Qed.

(* C03: Token::new escapes, and decoded() of the result gives the input back -- both as in the source *)
Theorem gen_new_encodes : forall c : Cow,
  exists t, gen_Token_new c = Ret t /\ cow_text (Token_inner t) = encode (cow_text c).
Proof.
  intros c. destruct (gen_token_new_model c) as (t & Ht & Htext & _).
  exists t. split; [exact Ht|]. rewrite Htext. apply token_new_text.
Qed.

Theorem gen_decode_new : forall c : Cow,
  exists t d, gen_Token_new c = Ret t /\ gen_Token_decoded t = Ret d /\ cow_text d = cow_text c.
Proof.
  intros c. destruct (gen_token_new_model c) as (t & Ht & Htext & _).
  exists t. eexists. split; [exact Ht|]. split; [apply gen_decoded_eq|].
  rewrite Htext. pose proof (decoded_new (cow_owned c) (cow_text c)) as D. unfold decoded in D.
  destruct (decoded_cow (ttext (token_new (cow_owned c) (cow_text c)))) as [al tx]. cbn [snd] in D.
  destruct al; exact D.
Qed.

Theorem gen_decoded_inverse : forall t : Token,
  valid_tok (cow_text (Token_inner t)) = true ->
  exists d, gen_Token_decoded t = Ret d /\ cow_text d = unescape (cow_text (Token_inner t)) /\
            encode (cow_text d) = cow_text (Token_inner t).
Proof.
  intros t V. eexists. split; [apply gen_decoded_eq|].
  pose proof (decoded_unescape _ V) as D. unfold decoded in D.
  destruct (decoded_cow (cow_text (Token_inner t))) as [al tx]. cbn [snd] in D.
  assert (Htx : cow_text (gen_cow al tx) = tx) by (destruct al; reflexivity).
  rewrite Htx, D. split; [reflexivity|apply encode_unescape, V].
Qed.

(* C19 (logical part): which Cow variant the source builds *)
Theorem gen_new_keeps_plain_input : forall c : Cow,
  forallb (fun b => negb (is_special b)) (cow_text c) = true -> gen_Token_new c = Ret (mk_Token c).
Proof.
  intros c H. rewrite gen_token_new_eq. apply position_none in H. rewrite H. reflexivity.
Qed.

Theorem gen_new_owned_when_special : forall c : Cow,
  forallb (fun b => negb (is_special b)) (cow_text c) = false ->
  exists t, gen_Token_new c = Ret t /\ cow_owned (Token_inner t) = true.
Proof.
  intros c H. rewrite gen_token_new_eq. eexists. split; [reflexivity|].
  destruct (position is_special (cow_text c)) eqn:P; [reflexivity|].
  apply position_none in P. congruence.
Qed.

Theorem gen_decoded_borrows_iff_no_escape : forall t : Token,
  gen_Token_decoded t = Ret (Cow_Borrowed (cow_text (Token_inner t))) <->
  forallb (fun b => negb (TILDE =? b)) (cow_text (Token_inner t)) = true.
Proof.
  intros t. rewrite gen_decoded_eq. unfold decoded_cow.
  destruct (position (N.eqb TILDE) (cow_text (Token_inner t))) eqn:P; cbn [gen_cow].
  - split; [discriminate|]. intros H. apply position_none in H. congruence.
  - split; [intros _; apply position_none, P|reflexivity].
Qed.

Theorem gen_from_encoded_never_owns : forall e t, gen_Token_from_encoded e = Ret (Ok t) -> cow_owned (Token_inner t) = false.
Proof. intros e t H. rewrite (gen_from_encoded_borrows e t H). reflexivity. Qed.
