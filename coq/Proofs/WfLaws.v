(* Proofs/WfLaws.v -- the document invariants are preserved by the three writes:
   [sorted_value] (BTreeMap keys strictly increasing) always; [wf_value] (that, and array lengths
   within usize) by delete, by writing through resolve_mut, and by every assign that does not
   report Ok None (the only clause that makes an array longer is the append, which reports None). *)
From Coq Require Import Arith.
From JP Require Import Bytes Spec Value SpecTree Model.Token Model.Pointer Model.Index Model.Tree
  Proofs.BytesFacts Proofs.TokenProofs Proofs.SplitProofs Proofs.IndexProofs Proofs.ValueFacts
  Proofs.TreeRefine Proofs.TreeLaws Proofs.AssignLaws Proofs.DeleteLaws.

Arguments N.add : simpl never.
Arguments N.eqb : simpl never.
Arguments N.ltb : simpl never.
Arguments N.leb : simpl never.
Arguments N.sub : simpl never.

Section Preserve.
  Variable P : value -> Prop.
  Hypothesis P_nth : forall l n c, P (Arr l) -> nth_error l n = Some c -> P c.
  Hypothesis P_set : forall l n c, P (Arr l) -> P c -> P (Arr (set_nth n c l)).
  Hypothesis P_lookup : forall m k c, P (Obj m) -> obj_lookup k m = Some c -> P c.
  Hypothesis P_insert : forall m k c, P (Obj m) -> P c -> P (Obj (obj_insert k c m)).
  Hypothesis P_remove_nth : forall l n, P (Arr l) -> P (Arr (remove_nth n l)).
  Hypothesis P_obj_remove : forall m k, P (Obj m) -> P (Obj (obj_remove k m)).
  Hypothesis P_single_arr : forall c, P c -> P (Arr [c]).
  Hypothesis P_single_obj : forall k c, P c -> P (Obj [(k, c)]).

  Lemma P_update_at path : forall d f, P d -> (forall c, P c -> P (f c)) -> P (update_at path f d).
  Proof.
    induction path as [|s p IH]; intros d f Hd Hf; cbn [update_at]; [apply Hf, Hd|].
    destruct s as [n|k].
    - destruct d; try exact Hd. destruct (nth_error l n) as [c|] eqn:E; [|exact Hd].
      apply P_set; [exact Hd|]. apply IH; [exact (P_nth _ _ _ Hd E)|exact Hf].
    - destruct d; try exact Hd. destruct (obj_lookup k m) as [c|] eqn:E; [|exact Hd].
      apply P_insert; [exact Hd|]. apply IH; [exact (P_lookup _ _ _ Hd E)|exact Hf].
  Qed.

  Lemma P_remove_child s d : P d -> P (remove_child s d).
  Proof.
    intros Hd. destruct s as [n|k]; destruct d; cbn [remove_child]; try exact Hd.
    - apply P_remove_nth, Hd.
    - apply P_obj_remove, Hd.
  Qed.

  Lemma P_remove_at path d : P d -> P (remove_at path d).
  Proof.
    intros Hd. destruct (tokens_snoc_cases path) as [->|(init & s & ->)]; [exact Hd|].
    rewrite remove_at_snoc. apply P_update_at; [exact Hd|]. intros c. apply P_remove_child.
  Qed.

  Lemma P_spec_delete be ts d : P (empty_root be) -> P d -> P (fst (spec_delete be ts d)).
  Proof.
    intros He Hd. unfold spec_delete. destruct ts as [|t r]; [exact He|].
    destruct (spec_resolve (t :: r) d 0 0) as [[path v]|e]; cbn [fst]; [apply P_remove_at, Hd|exact Hd].
  Qed.

  Lemma P_spec_write_through ts d v d' : P d -> P v -> spec_write_through ts d v = Ok d' -> P d'.
  Proof.
    intros Hd Hv. unfold spec_write_through.
    destruct (spec_resolve ts d 0 0) as [[path w]|e]; [|discriminate].
    intros H. inversion H; subst. apply P_update_at; [exact Hd|]. intros _ _. exact Hv.
  Qed.

  Lemma P_materialise ts v : P v -> P (materialise ts v).
  Proof.
    intros Hv. induction ts as [|t r IH]; [exact Hv|]. cbn [materialise].
    destruct (str_eqb t [ZERO] || str_eqb t [DASH]); [apply P_single_arr|apply P_single_obj]; exact IH.
  Qed.

  Lemma P_spec_assign ts : forall d v pos off,
    P d -> P v ->
    snd (spec_assign ts d v pos off) <> Ok None \/ (forall l c, P (Arr l) -> P c -> P (Arr (l ++ [c]))) ->
    P (fst (spec_assign ts d v pos off)).
  Proof.
    induction ts as [|t r IH]; intros d v pos off Hd Hv Hcase; [exact Hv|].
    destruct (container_cases d) as [[a ->]|[[m ->]|Hsc]].
    - cbn [spec_assign] in *. destruct (index_from_str t) as [i|pe]; [|exact Hd]. cbv zeta in *.
      destruct ((match i with Num n => n | Next => len a end) <? len a).
      + destruct (nth_error a (N.to_nat match i with Num n => n | Next => len a end)) as [c|] eqn:Hc;
          [|exact Hd].
        specialize (IH c v (pos + 1) (off + (1 + len t)) (P_nth _ _ _ Hd Hc) Hv).
        destruct (spec_assign r c v (pos + 1) (off + (1 + len t))) as [c' res]. cbn [fst snd] in *.
        apply P_set; [exact Hd|]. apply IH, Hcase.
      + destruct ((match i with Num n => n | Next => len a end) =? len a); [|exact Hd].
        cbn [fst snd] in *. destruct Hcase as [Hc|Happ]; [contradiction|].
        apply Happ; [exact Hd|apply P_materialise, Hv].
    - cbn [spec_assign] in *. destruct (obj_lookup (unescape t) m) as [c|] eqn:Hc.
      + specialize (IH c v (pos + 1) (off + (1 + len t)) (P_lookup _ _ _ Hd Hc) Hv).
        destruct (spec_assign r c v (pos + 1) (off + (1 + len t))) as [c' res]. cbn [fst snd] in *.
        apply P_insert; [exact Hd|]. apply IH, Hcase.
      + cbn [fst]. apply P_insert; [exact Hd|apply P_materialise, Hv].
    - rewrite (spec_assign_scalar t r d v pos off Hsc). cbn [fst]. apply P_materialise, Hv.
  Qed.
End Preserve.

(* ---- sorted_value ------------------------------------------------------------------------------------ *)

Lemma sorted_set l n c : sorted_value (Arr l) -> sorted_value c -> sorted_value (Arr (set_nth n c l)).
Proof. intros H Hc. apply sorted_Arr, Forall_set_nth; [exact Hc|apply sorted_Arr_inv, H]. Qed.

Lemma sorted_insert m k c : sorted_value (Obj m) -> sorted_value c -> sorted_value (Obj (obj_insert k c m)).
Proof.
  intros H Hc. apply sorted_Obj_inv in H as [Hs HF].
  apply sorted_Obj; [apply keys_sorted_insert, Hs|apply Forall_obj_insert; [exact Hc|exact HF]].
Qed.

Lemma sorted_remove_nth l n : sorted_value (Arr l) -> sorted_value (Arr (remove_nth n l)).
Proof. intros H. apply sorted_Arr, Forall_remove_nth, sorted_Arr_inv, H. Qed.

Lemma sorted_obj_remove m k : sorted_value (Obj m) -> sorted_value (Obj (obj_remove k m)).
Proof.
  intros H. apply sorted_Obj_inv in H as [Hs HF].
  apply sorted_Obj; [apply keys_sorted_remove, Hs|apply Forall_obj_remove, HF].
Qed.

Lemma sorted_single_arr c : sorted_value c -> sorted_value (Arr [c]).
Proof. intros H. apply sorted_Arr. constructor; [exact H|constructor]. Qed.

Lemma sorted_single_obj k c : sorted_value c -> sorted_value (Obj [(k, c)]).
Proof. intros H. apply sorted_Obj; [reflexivity|]. constructor; [exact H|constructor]. Qed.

Lemma sorted_append l c : sorted_value (Arr l) -> sorted_value c -> sorted_value (Arr (l ++ [c])).
Proof.
  intros H Hc. apply sorted_Arr, Forall_app. split; [apply sorted_Arr_inv, H|].
  constructor; [exact Hc|constructor].
Qed.

Lemma sorted_empty_root be : sorted_value (empty_root be).
Proof. destruct be; [apply sorted_scalar; reflexivity|apply sorted_Obj; [reflexivity|constructor]]. Qed.

Theorem spec_assign_sorted ts d v pos off :
  sorted_value d -> sorted_value v -> sorted_value (fst (spec_assign ts d v pos off)).
Proof.
  intros Hd Hv.
  apply (P_spec_assign sorted_value sorted_nth sorted_set sorted_lookup sorted_insert
           sorted_single_arr sorted_single_obj ts d v pos off Hd Hv).
  right. exact sorted_append.
Qed.

Theorem spec_delete_sorted be ts d : sorted_value d -> sorted_value (fst (spec_delete be ts d)).
Proof.
  apply (P_spec_delete sorted_value sorted_nth sorted_set sorted_lookup sorted_insert
           sorted_remove_nth sorted_obj_remove be ts d (sorted_empty_root be)).
Qed.

Theorem spec_write_through_sorted ts d v d' :
  sorted_value d -> sorted_value v -> spec_write_through ts d v = Ok d' -> sorted_value d'.
Proof.
  apply (P_spec_write_through sorted_value sorted_nth sorted_set sorted_lookup sorted_insert ts d v d').
Qed.

(* ---- wf_value ------------------------------------------------------------------------------------------ *)

Lemma wf_set l n c : wf_value (Arr l) -> wf_value c -> wf_value (Arr (set_nth n c l)).
Proof.
  intros H Hc. apply wf_Arr_inv in H as [Hl HF].
  apply wf_Arr; [rewrite len_set_nth; exact Hl|apply Forall_set_nth; assumption].
Qed.

Lemma wf_insert m k c : wf_value (Obj m) -> wf_value c -> wf_value (Obj (obj_insert k c m)).
Proof.
  intros H Hc. apply wf_Obj_inv in H as [Hs HF].
  apply wf_Obj; [apply keys_sorted_insert, Hs|apply Forall_obj_insert; [exact Hc|exact HF]].
Qed.

Lemma length_remove_nth_le {A} n : forall l : list A, (length (remove_nth n l) <= length l)%nat.
Proof.
  induction n as [|n IH]; intros [|y l]; cbn [remove_nth length]; try lia. specialize (IH l). lia.
Qed.

Lemma wf_remove_nth l n : wf_value (Arr l) -> wf_value (Arr (remove_nth n l)).
Proof.
  intros H. apply wf_Arr_inv in H as [Hl HF]. apply wf_Arr; [|apply Forall_remove_nth, HF].
  pose proof (length_remove_nth_le n l). unfold len in *. lia.
Qed.

Lemma wf_obj_remove m k : wf_value (Obj m) -> wf_value (Obj (obj_remove k m)).
Proof.
  intros H. apply wf_Obj_inv in H as [Hs HF].
  apply wf_Obj; [apply keys_sorted_remove, Hs|apply Forall_obj_remove, HF].
Qed.

Lemma wf_single_arr c : wf_value c -> wf_value (Arr [c]).
Proof. intros H. apply wf_Arr; [vm_compute; discriminate|]. constructor; [exact H|constructor]. Qed.

Lemma wf_single_obj k c : wf_value c -> wf_value (Obj [(k, c)]).
Proof. intros H. apply wf_Obj; [reflexivity|]. constructor; [exact H|constructor]. Qed.

Lemma wf_empty_root be : wf_value (empty_root be).
Proof. destruct be; [apply wf_scalar; reflexivity|apply wf_Obj; [reflexivity|constructor]]. Qed.

Theorem spec_delete_wf be ts d : wf_value d -> wf_value (fst (spec_delete be ts d)).
Proof.
  apply (P_spec_delete wf_value wf_nth wf_set wf_lookup wf_insert wf_remove_nth wf_obj_remove
           be ts d (wf_empty_root be)).
Qed.

Theorem spec_write_through_wf ts d v d' :
  wf_value d -> wf_value v -> spec_write_through ts d v = Ok d' -> wf_value d'.
Proof. apply (P_spec_write_through wf_value wf_nth wf_set wf_lookup wf_insert ts d v d'). Qed.

Theorem spec_assign_wf ts d v pos off :
  wf_value d -> wf_value v -> snd (spec_assign ts d v pos off) <> Ok None ->
  wf_value (fst (spec_assign ts d v pos off)).
Proof.
  intros Hd Hv Hn.
  apply (P_spec_assign wf_value wf_nth wf_set wf_lookup wf_insert wf_single_arr wf_single_obj
           ts d v pos off Hd Hv).
  left. exact Hn.
Qed.

Theorem materialise_wf ts v : wf_value v -> wf_value (materialise ts v).
Proof. apply (P_materialise wf_value wf_single_arr wf_single_obj). Qed.
