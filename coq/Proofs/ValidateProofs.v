(* Proofs/ValidateProofs.v -- validate / validate_bytes against the grammar (C02) and the
   error bookkeeping of the scanner (C14). *)
From Coq Require Import Arith.
From JP Require Import Bytes Spec Model.Token Model.Pointer Proofs.BytesFacts Proofs.TokenProofs Proofs.SplitProofs.

Arguments N.add : simpl never.
Arguments N.eqb : simpl never.
Arguments N.ltb : simpl never.
Arguments N.sub : simpl never.

Ltac beq b c := destruct (N.eqb_spec b c); [subst b; bc|].

(* ---- acceptance ------------------------------------------------------------------------ *)

Lemma validate_loop_ok s : forall i po to, validate_loop s i po to = None <-> escapes_ok s = true.
Proof.
  revert s. apply (tilde_ind (fun s => forall i po to, validate_loop s i po to = None <-> escapes_ok s = true)).
  - intros; cbn; tauto.
  - intros b r Hb IH i po to. cbn [validate_loop escapes_ok]. apply N.eqb_neq in Hb. rewrite Hb.
    destruct (b =? SLASH); apply IH.
  - intros i po to. cbn [validate_loop escapes_ok]. bc. split; discriminate.
  - intros c r IH i po to. cbn [validate_loop escapes_ok]. bc.
    destruct (c =? ZERO) eqn:E0; cbn [negb andb orb].
    + apply IH.
    + destruct (c =? ONE) eqn:E1; cbn [negb andb orb]; [apply IH|split; discriminate].
Qed.

Theorem validate_ok_iff s : validate s = None <-> valid_ptr s = true.
Proof.
  destruct s as [|b r]; [cbn; tauto|]. unfold validate, valid_ptr.
  destruct (N.eqb_spec b SLASH) as [->|Hb]; cbn [negb andb].
  - apply validate_loop_ok.
  - split; discriminate.
Qed.

(* ---- errors ----------------------------------------------------------------------------- *)

(* what follows an offending '~': nothing, or a byte other than '0' / '1' *)
Definition bad_follow (rest : str) : Prop :=
  match rest with [] => True | c :: _ => c <> ZERO /\ c <> ONE end.

Lemma validate_loop_never_nls s : forall i po to, validate_loop s i po to <> Some NoLeadingSlash.
Proof.
  revert s. apply (tilde_ind (fun s => forall i po to, validate_loop s i po to <> Some NoLeadingSlash)).
  - intros; cbn; discriminate.
  - intros b r Hb IH i po to. cbn [validate_loop]. apply N.eqb_neq in Hb. rewrite Hb.
    destruct (b =? SLASH); apply IH.
  - intros; cbn [validate_loop]; bc; discriminate.
  - intros c r IH i po to. cbn [validate_loop]. bc.
    destruct (negb (c =? ZERO) && negb (c =? ONE)); [discriminate|apply IH].
Qed.

Lemma validate_loop_err s : forall i po to po' so',
  validate_loop s i po to = Some (InvalidEncoding po' so') ->
  exists a rest, s = a ++ TILDE :: rest /\ escapes_ok a = true /\ bad_follow rest /\
    ((no_slash a = true /\ po' = po /\ so' = to + len a) \/
     (exists a1 a2, a = a1 ++ SLASH :: a2 /\ no_slash a2 = true /\ po' = i + len a1 /\ so' = 1 + len a2)).
Proof.
  revert s. apply (tilde_ind (fun s => forall i po to po' so',
    validate_loop s i po to = Some (InvalidEncoding po' so') ->
    exists a rest, s = a ++ TILDE :: rest /\ escapes_ok a = true /\ bad_follow rest /\
      ((no_slash a = true /\ po' = po /\ so' = to + len a) \/
       (exists a1 a2, a = a1 ++ SLASH :: a2 /\ no_slash a2 = true /\ po' = i + len a1 /\ so' = 1 + len a2)))).
  - intros; cbn in *; discriminate.
  - intros b r Hb IH i po to po' so' H. cbn [validate_loop] in H.
    pose proof Hb as Hb'. apply N.eqb_neq in Hb'. rewrite Hb' in H.
    destruct (N.eqb_spec b SLASH) as [->|Hs].
    + destruct (IH _ _ _ _ _ H) as (a & rest & -> & Ha & Hr & Hc).
      exists (SLASH :: a), rest. split; [reflexivity|]. split; [cbn [escapes_ok]; bc; exact Ha|]. split; [exact Hr|].
      right. destruct Hc as [(Hn & -> & ->)|(a1 & a2 & -> & Hn & -> & ->)].
      * exists [], a. unfold len. cbn [length app]. repeat split; try assumption; lia.
      * exists (SLASH :: a1), a2. unfold len. cbn [length app]. repeat split; try assumption; lia.
    + destruct (IH _ _ _ _ _ H) as (a & rest & -> & Ha & Hr & Hc).
      exists (b :: a), rest. split; [reflexivity|]. split; [cbn [escapes_ok]; rewrite Hb'; exact Ha|]. split; [exact Hr|].
      destruct Hc as [(Hn & -> & ->)|(a1 & a2 & -> & Hn & -> & ->)].
      * left. rewrite no_slash_cons. apply N.eqb_neq in Hs. rewrite Hs. unfold len. cbn [length negb andb].
        repeat split; try assumption; lia.
      * right. exists (b :: a1), a2. unfold len. cbn [length app]. repeat split; try assumption; lia.
  - intros i po to po' so' H. cbn [validate_loop] in H. bc_in H. inversion H; subst.
    exists [], []. unfold len. cbn. repeat split. left. repeat split; lia.
  - intros c r IH i po to po' so' H. cbn [validate_loop] in H. bc_in H.
    destruct (negb (c =? ZERO) && negb (c =? ONE)) eqn:E.
    + inversion H; subst. exists [], (c :: r). unfold len. cbn [app length bad_follow].
      apply andb_true_iff in E as [E0 E1]. apply negb_true_iff, N.eqb_neq in E0, E1.
      repeat split; try assumption. left. repeat split; lia.
    + destruct (IH _ _ _ _ _ H) as (a & rest & -> & Ha & Hr & Hc).
      assert (Hc01 : (c =? ZERO) || (c =? ONE) = true).
      { destruct (c =? ZERO); [reflexivity|]. destruct (c =? ONE); [reflexivity|discriminate]. }
      assert (Hcs : (c =? SLASH) = false).
      { apply orb_true_iff in Hc01 as [E0|E1]; apply N.eqb_eq in E0 || apply N.eqb_eq in E1; subst c; reflexivity. }
      exists (TILDE :: c :: a), rest. split; [reflexivity|].
      split; [cbn [escapes_ok]; bc; rewrite Hc01; exact Ha|]. split; [exact Hr|].
      destruct Hc as [(Hn & -> & ->)|(a1 & a2 & -> & Hn & -> & ->)].
      * left. rewrite !no_slash_cons. bc. rewrite Hcs. unfold len. cbn [length negb andb].
        repeat split; try assumption; lia.
      * right. exists (TILDE :: c :: a1), a2. unfold len. cbn [length app]. repeat split; try assumption; lia.
Qed.

(* NoLeadingSlash exactly for a non-empty input that does not start with '/' *)
Theorem validate_nls_iff s :
  validate s = Some NoLeadingSlash <-> exists b r, s = b :: r /\ b <> SLASH.
Proof.
  destruct s as [|b r]; unfold validate.
  - split; [discriminate|intros (b & r & H & _); discriminate].
  - destruct (N.eqb_spec b SLASH) as [->|Hb]; cbn [negb].
    + split; [intros H; exfalso; exact (validate_loop_never_nls _ _ _ _ H)|].
      intros (b & r' & H & Hb). inversion H; subst. congruence.
    + split; [intros _; eauto|reflexivity].
Qed.

(* InvalidEncoding pinpoints the first '~' that is not followed by '0'/'1':
   the text before it is fine, the pointer offset is the nearest '/' at or before it,
   the source offset is the distance from that '/' *)
Theorem validate_enc_err s po so :
  validate s = Some (InvalidEncoding po so) ->
  exists a1 a2 rest,
    s = a1 ++ SLASH :: a2 ++ TILDE :: rest /\
    escapes_ok (a1 ++ SLASH :: a2) = true /\ bad_follow rest /\
    no_slash a2 = true /\ po = len a1 /\ so = 1 + len a2 /\
    (a1 = [] \/ exists r, a1 = SLASH :: r).
Proof.
  destruct s as [|b r]; unfold validate; [discriminate|].
  destruct (N.eqb_spec b SLASH) as [->|Hb]; cbn [negb]; [|discriminate].
  intros H. destruct (validate_loop_err _ _ _ _ _ _ H) as (a & rest & Hs & Ha & Hr & Hc).
  destruct Hc as [(Hn & _ & _)|(a1 & a2 & -> & Hn & -> & ->)].
  - (* a has no slash, yet the text starts with one *)
    destruct a as [|x a]; [inversion Hs|]. inversion Hs; subst. rewrite no_slash_cons in Hn. bc_in Hn. discriminate.
  - exists a1, a2, rest. rewrite <- app_assoc in Hs. cbn [app] in Hs.
    split; [exact Hs|]. split; [exact Ha|]. split; [exact Hr|]. split; [exact Hn|].
    split; [apply N.add_0_l|]. split; [reflexivity|].
    destruct a1 as [|x a1]; [left; reflexivity|right]. inversion Hs; subst. eauto.
Qed.

(* the offsets as the accessors present them *)
Corollary validate_enc_offsets s po so :
  validate s = Some (InvalidEncoding po so) ->
  let e := InvalidEncoding po so in
  exists a rest,
    s = a ++ TILDE :: rest /\ escapes_ok a = true /\ bad_follow rest /\
    pe_complete_offset e = len a /\                     (* index of the first offending '~' *)
    nth_N s (pe_pointer_offset e) = Some SLASH /\        (* a '/' sits at pointer_offset ... *)
    pe_pointer_offset e <= pe_complete_offset e /\
    no_slash (firstn (N.to_nat (so - 1)) (skipn (S (N.to_nat po)) s)) = true /\  (* ... none after it up to the '~' *)
    pe_source_offset e = pe_complete_offset e - pe_pointer_offset e.
Proof.
  intros H e. destruct (validate_enc_err _ _ _ H) as (a1 & a2 & rest & -> & Ha & Hr & Hn & -> & -> & _).
  exists (a1 ++ SLASH :: a2), rest. subst e. unfold pe_complete_offset, pe_pointer_offset, pe_source_offset.
  split; [rewrite <- app_assoc; reflexivity|]. split; [exact Ha|]. split; [exact Hr|].
  assert (Hl : len (a1 ++ SLASH :: a2) = 1 + len a2 + len a1).
  { unfold len. rewrite app_length. cbn [length]. lia. }
  split; [exact (eq_sym Hl)|]. split.
  { clear. unfold len. induction a1 as [|x a1 IH]; [reflexivity|].
    cbn [app nth_N length]. rewrite Nat2N.inj_succ. destruct (N.eqb_spec (N.succ (N.of_nat (length a1))) 0); [lia|].
    replace (N.succ (N.of_nat (length a1)) - 1) with (N.of_nat (length a1)) by lia. exact IH. }
  split; [lia|]. split; [|lia].
  unfold len. replace (1 + N.of_nat (length a2) - 1) with (N.of_nat (length a2)) by lia.
  rewrite !Nat2N.id.
  replace (S (length a1)) with (length (a1 ++ [SLASH])) by (rewrite app_length; cbn; lia).
  replace (a1 ++ SLASH :: a2 ++ TILDE :: rest) with ((a1 ++ [SLASH]) ++ a2 ++ TILDE :: rest)
    by (rewrite <- app_assoc; reflexivity).
  rewrite skipn_app_exact, firstn_app_exact. exact Hn.
Qed.

(* the diagnostic label lies inside the subject and starts at the offending '~' *)
Theorem label_inside s e :
  validate s = Some e ->
  exists o l, pe_label e s = Ret (o, l) /\ o + l <= len s /\ o = pe_complete_offset e /\
    match e with
    | NoLeadingSlash => o = 0 /\ l = 0
    | InvalidEncoding _ _ => nth_N s o = Some TILDE /\ (l = 1 \/ l = 2)
    end.
Proof.
  intros H. destruct e as [|po so].
  - exists 0, 0. cbn. repeat split; lia.
  - destruct (validate_enc_err _ _ _ H) as (a1 & a2 & rest & -> & Ha & Hr & Hn & -> & -> & _).
    unfold pe_label, pe_invalid_encoding_len, pe_complete_offset, pe_source_offset, pe_pointer_offset.
    set (s := a1 ++ SLASH :: a2 ++ TILDE :: rest).
    assert (Hl : len s = len a1 + 1 + len a2 + 1 + len rest).
    { unfold s, len. rewrite !app_length. cbn [length]. rewrite !app_length. cbn [length]. lia. }
    destruct (N.eqb_spec (len s) 0) as [E|E]; [lia|].
    eexists _, _. split; [reflexivity|].
    assert (Hnth : nth_N s (1 + len a2 + len a1) = Some TILDE).
    { unfold s. replace (a1 ++ SLASH :: a2 ++ TILDE :: rest) with ((a1 ++ SLASH :: a2) ++ TILDE :: rest)
        by (rewrite <- app_assoc; reflexivity).
      replace (1 + len a2 + len a1) with (len (a1 ++ SLASH :: a2))
        by (unfold len; rewrite app_length; cbn [length]; lia).
      generalize (a1 ++ SLASH :: a2). clear. intros a. unfold len. induction a as [|x a IH]; [reflexivity|].
      cbn [app nth_N length]. rewrite Nat2N.inj_succ.
      destruct (N.eqb_spec (N.succ (N.of_nat (length a))) 0); [lia|].
      replace (N.succ (N.of_nat (length a)) - 1) with (N.of_nat (length a)) by lia. exact IH. }
    destruct (N.ltb_spec (1 + len a2 + len a1) (len s - 1)).
    + split; [lia|]. split; [reflexivity|]. split; [exact Hnth|right; reflexivity].
    + split; [lia|]. split; [reflexivity|]. split; [exact Hnth|left; reflexivity].
Qed.

(* ---- the eight doors ------------------------------------------------------------------------ *)

(* every door takes the decision of [validate] and keeps the text; the error value, where one is
   returned, is [validate]'s *)
Theorem doors_agree d s :
  match validate s with
  | None => door_run d s = DoorOk s
  | Some e =>
      match d with
      | DParse | DFromStr | DTryFromStr | DTryFromString => door_run d s = DoorErr e
      | DBufParse => door_run d s = DoorReport e s
      | DDeBorrowed | DDeOwned => door_run d s = DoorSerdeErr
      | DFromStatic => door_run d s = DoorPanic
      end
  end.
Proof. destruct d; cbn [door_run]; destruct (validate s); reflexivity. Qed.
