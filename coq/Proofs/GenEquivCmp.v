(* Proofs/GenEquivCmp.v -- part of the REGENERATED-MODEL tie (DESIGN 13.10): every hand-written mixed comparison of
   src/pointer.rs (`impl PartialEq<X> for Y`, `impl PartialOrd<X> for Y` between Pointer, PointerBuf, str, String and references
   to them; 32 impls, discovered and re-translated by tools/rs2v.py on every run into Generated/ScanCmp.v) IS the comparison of
   the two texts: [ptr_eq] / [ptr_partial_cmp] of Model/Conv.v.  The operand order matters for partial_cmp (an impl that
   compared other with self would be the opposite order): the statements fix it.

   The DERIVED impls (PartialEq, Eq, PartialOrd, Ord, Hash on Pointer(str) and PointerBuf(String)) are not functions of the
   source; what they depend on -- both types being one-field tuple structs over their text, and the five traits being derived --
   is re-read from the declarations on every run ([gen_*_derives_*], [gen_*_is_newtype_over_*]) and pinned here.  That rustc's
   derive on a one-field tuple struct compares / hashes that field is part of the trusted base; the differential check (suite cmp,
   recording Hasher, map lookups) exercises it. *)

From JP Require Import Bytes Value GenPrelude Model.Conv Generated.ScanTypes Generated.ScanCmp.

Lemma gen_eq_PointerBuf_Pointer_ok (a b : str) : gen_eq_PointerBuf_Pointer a b = Ret (ptr_eq a b).
Proof. reflexivity. Qed.

Lemma gen_eq_PointerBuf_String_ok (a b : str) : gen_eq_PointerBuf_String a b = Ret (ptr_eq a b).
Proof. reflexivity. Qed.

Lemma gen_eq_PointerBuf_refPointer_ok (a b : str) : gen_eq_PointerBuf_refPointer a b = Ret (ptr_eq a b).
Proof. reflexivity. Qed.

Lemma gen_eq_PointerBuf_refstr_ok (a b : str) : gen_eq_PointerBuf_refstr a b = Ret (ptr_eq a b).
Proof. reflexivity. Qed.

Lemma gen_eq_PointerBuf_str_ok (a b : str) : gen_eq_PointerBuf_str a b = Ret (ptr_eq a b).
Proof. reflexivity. Qed.

Lemma gen_eq_Pointer_PointerBuf_ok (a b : str) : gen_eq_Pointer_PointerBuf a b = Ret (ptr_eq a b).
Proof. reflexivity. Qed.

Lemma gen_eq_Pointer_String_ok (a b : str) : gen_eq_Pointer_String a b = Ret (ptr_eq a b).
Proof. reflexivity. Qed.

Lemma gen_eq_Pointer_refstr_ok (a b : str) : gen_eq_Pointer_refstr a b = Ret (ptr_eq a b).
Proof. reflexivity. Qed.

Lemma gen_eq_Pointer_str_ok (a b : str) : gen_eq_Pointer_str a b = Ret (ptr_eq a b).
Proof. reflexivity. Qed.

Lemma gen_eq_String_Pointer_ok (a b : str) : gen_eq_String_Pointer a b = Ret (ptr_eq a b).
Proof. reflexivity. Qed.

Lemma gen_eq_String_PointerBuf_ok (a b : str) : gen_eq_String_PointerBuf a b = Ret (ptr_eq a b).
Proof. reflexivity. Qed.

Lemma gen_eq_refPointer_PointerBuf_ok (a b : str) : gen_eq_refPointer_PointerBuf a b = Ret (ptr_eq a b).
Proof. reflexivity. Qed.

Lemma gen_eq_refPointer_String_ok (a b : str) : gen_eq_refPointer_String a b = Ret (ptr_eq a b).
Proof. reflexivity. Qed.

Lemma gen_eq_refstr_Pointer_ok (a b : str) : gen_eq_refstr_Pointer a b = Ret (ptr_eq a b).
Proof. reflexivity. Qed.

Lemma gen_eq_refstr_PointerBuf_ok (a b : str) : gen_eq_refstr_PointerBuf a b = Ret (ptr_eq a b).
Proof. reflexivity. Qed.

Lemma gen_eq_str_Pointer_ok (a b : str) : gen_eq_str_Pointer a b = Ret (ptr_eq a b).
Proof. reflexivity. Qed.

Lemma gen_eq_str_PointerBuf_ok (a b : str) : gen_eq_str_PointerBuf a b = Ret (ptr_eq a b).
Proof. reflexivity. Qed.

Lemma gen_partial_cmp_PointerBuf_Pointer_ok (a b : str) : gen_partial_cmp_PointerBuf_Pointer a b = Ret (ptr_partial_cmp a b).
Proof. reflexivity. Qed.

Lemma gen_partial_cmp_PointerBuf_String_ok (a b : str) : gen_partial_cmp_PointerBuf_String a b = Ret (ptr_partial_cmp a b).
Proof. reflexivity. Qed.

Lemma gen_partial_cmp_PointerBuf_refPointer_ok (a b : str) : gen_partial_cmp_PointerBuf_refPointer a b = Ret (ptr_partial_cmp a b).
Proof. reflexivity. Qed.

Lemma gen_partial_cmp_PointerBuf_refstr_ok (a b : str) : gen_partial_cmp_PointerBuf_refstr a b = Ret (ptr_partial_cmp a b).
Proof. reflexivity. Qed.

Lemma gen_partial_cmp_Pointer_PointerBuf_ok (a b : str) : gen_partial_cmp_Pointer_PointerBuf a b = Ret (ptr_partial_cmp a b).
Proof. reflexivity. Qed.

Lemma gen_partial_cmp_Pointer_String_ok (a b : str) : gen_partial_cmp_Pointer_String a b = Ret (ptr_partial_cmp a b).
Proof. reflexivity. Qed.

Lemma gen_partial_cmp_String_Pointer_ok (a b : str) : gen_partial_cmp_String_Pointer a b = Ret (ptr_partial_cmp a b).
Proof. reflexivity. Qed.

Lemma gen_partial_cmp_String_PointerBuf_ok (a b : str) : gen_partial_cmp_String_PointerBuf a b = Ret (ptr_partial_cmp a b).
Proof. reflexivity. Qed.

Lemma gen_partial_cmp_refPointer_PointerBuf_ok (a b : str) : gen_partial_cmp_refPointer_PointerBuf a b = Ret (ptr_partial_cmp a b).
Proof. reflexivity. Qed.

Lemma gen_partial_cmp_refPointer_String_ok (a b : str) : gen_partial_cmp_refPointer_String a b = Ret (ptr_partial_cmp a b).
Proof. reflexivity. Qed.

Lemma gen_partial_cmp_refPointer_refstr_ok (a b : str) : gen_partial_cmp_refPointer_refstr a b = Ret (ptr_partial_cmp a b).
Proof. reflexivity. Qed.

Lemma gen_partial_cmp_refstr_Pointer_ok (a b : str) : gen_partial_cmp_refstr_Pointer a b = Ret (ptr_partial_cmp a b).
Proof. reflexivity. Qed.

Lemma gen_partial_cmp_refstr_PointerBuf_ok (a b : str) : gen_partial_cmp_refstr_PointerBuf a b = Ret (ptr_partial_cmp a b).
Proof. reflexivity. Qed.

Lemma gen_partial_cmp_str_Pointer_ok (a b : str) : gen_partial_cmp_str_Pointer a b = Ret (ptr_partial_cmp a b).
Proof. reflexivity. Qed.

Lemma gen_partial_cmp_str_PointerBuf_ok (a b : str) : gen_partial_cmp_str_PointerBuf a b = Ret (ptr_partial_cmp a b).
Proof. reflexivity. Qed.

(* all of them at once: (left operand text, right operand text) -> the text comparison *)
Definition gen_eq_impls : list (str -> str -> outcome bool) :=
  [gen_eq_PointerBuf_Pointer;
   gen_eq_PointerBuf_String;
   gen_eq_PointerBuf_refPointer;
   gen_eq_PointerBuf_refstr;
   gen_eq_PointerBuf_str;
   gen_eq_Pointer_PointerBuf;
   gen_eq_Pointer_String;
   gen_eq_Pointer_refstr;
   gen_eq_Pointer_str;
   gen_eq_String_Pointer;
   gen_eq_String_PointerBuf;
   gen_eq_refPointer_PointerBuf;
   gen_eq_refPointer_String;
   gen_eq_refstr_Pointer;
   gen_eq_refstr_PointerBuf;
   gen_eq_str_Pointer;
   gen_eq_str_PointerBuf].

Definition gen_partial_cmp_impls : list (str -> str -> outcome (option comparison)) :=
  [gen_partial_cmp_PointerBuf_Pointer;
   gen_partial_cmp_PointerBuf_String;
   gen_partial_cmp_PointerBuf_refPointer;
   gen_partial_cmp_PointerBuf_refstr;
   gen_partial_cmp_Pointer_PointerBuf;
   gen_partial_cmp_Pointer_String;
   gen_partial_cmp_String_Pointer;
   gen_partial_cmp_String_PointerBuf;
   gen_partial_cmp_refPointer_PointerBuf;
   gen_partial_cmp_refPointer_String;
   gen_partial_cmp_refPointer_refstr;
   gen_partial_cmp_refstr_Pointer;
   gen_partial_cmp_refstr_PointerBuf;
   gen_partial_cmp_str_Pointer;
   gen_partial_cmp_str_PointerBuf].

Theorem gen_eq_impls_are_text_eq : forall f, In f gen_eq_impls -> forall a b, f a b = Ret (ptr_eq a b).
Proof. intros f H a b. cbn [gen_eq_impls In] in H. repeat (destruct H as [<-|H]; [reflexivity|]). contradiction. Qed.

Theorem gen_partial_cmp_impls_are_text_cmp : forall f, In f gen_partial_cmp_impls -> forall a b, f a b = Ret (ptr_partial_cmp a b).
Proof. intros f H a b. cbn [gen_partial_cmp_impls In] in H. repeat (destruct H as [<-|H]; [reflexivity|]). contradiction. Qed.

(* every impl the translator found is in one of the two lists (a new hand-written comparison makes this fail until it is added) *)
Theorem gen_cmp_impls_all_listed : gen_cmp_impl_count = N.of_nat (length gen_eq_impls + length gen_partial_cmp_impls).
Proof. reflexivity. Qed.

Theorem gen_cmp_declarations :
  gen_Pointer_is_newtype_over_str = true /\ gen_PointerBuf_is_newtype_over_String = true /\
  forallb (fun b => b) [gen_Pointer_derives_PartialEq; gen_Pointer_derives_Eq; gen_Pointer_derives_PartialOrd; gen_Pointer_derives_Ord;
                        gen_Pointer_derives_Hash; gen_PointerBuf_derives_PartialEq; gen_PointerBuf_derives_Eq;
                        gen_PointerBuf_derives_PartialOrd; gen_PointerBuf_derives_Ord; gen_PointerBuf_derives_Hash] = true.
Proof. repeat split. Qed.
