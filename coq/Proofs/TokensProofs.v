(* Proofs/TokensProofs.v -- C04: a pointer is exactly its list of decoded tokens. *)
From JP Require Import Bytes Spec Model.Token Model.Pointer
  Proofs.BytesFacts Proofs.TokenProofs Proofs.SplitProofs.

Arguments N.add : simpl never.
Arguments N.eqb : simpl never.

(* ---- from_tokens: the fold of pushes is the flat-map spec ----------------------------------- *)

Lemma buf_from_tokens_acc L acc :
  fold_left (fun inner t => inner ++ SLASH :: ttext (token_new false t)) L acc = acc ++ from_tokens L.
Proof.
  revert acc. induction L as [|t L IH]; intros acc; cbn [fold_left].
  - unfold from_tokens, from_tokens_enc. cbn. rewrite app_nil_r. reflexivity.
  - rewrite IH, token_new_text. unfold from_tokens. cbn [map]. rewrite from_tokens_enc_cons.
    rewrite <- app_assoc. reflexivity.
Qed.

Theorem buf_from_tokens_spec L : buf_from_tokens L = from_tokens L.
Proof. unfold buf_from_tokens. rewrite buf_from_tokens_acc. reflexivity. Qed.

Lemma map_encode_noslash L : Forall (fun u => no_slash u = true) (map encode L).
Proof. apply Forall_forall. intros u Hu. apply in_map_iff in Hu as (s & <- & _). apply no_slash_encode. Qed.

Lemma map_encode_valid L : forallb valid_tok (map encode L) = true.
Proof. apply forallb_forall. intros u Hu. apply in_map_iff in Hu as (s & <- & _). apply valid_tok_encode. Qed.

(* build -> iterate gives the list back *)
Theorem tokens_from_tokens L : tokens (from_tokens L) = map encode L.
Proof. unfold from_tokens. apply tokens_from_tokens_enc, map_encode_noslash. Qed.

Theorem dtokens_from_tokens L : dtokens (from_tokens L) = L.
Proof.
  unfold dtokens. rewrite tokens_from_tokens, map_map.
  rewrite <- (map_id L) at 2. apply map_ext. apply unescape_encode.
Qed.

Theorem count_from_tokens L : count (from_tokens L) = length L.
Proof. unfold count. rewrite tokens_from_tokens. apply map_length. Qed.

Theorem from_tokens_valid L : valid_ptr (from_tokens L) = true.
Proof. apply valid_ptr_from_tokens_enc, map_encode_valid. Qed.

(* iterate -> build gives the text back *)
Theorem from_tokens_dtokens p : valid_ptr p = true -> from_tokens (dtokens p) = p.
Proof.
  intros H. destruct (valid_ptr_decompose p H) as [Hp Hv].
  unfold from_tokens, dtokens. rewrite map_map.
  rewrite Hp at 2. f_equal.
  rewrite <- (map_id (tokens p)) at 2. apply map_ext_in.
  intros t Ht. apply encode_unescape. rewrite forallb_forall in Hv. apply Hv, Ht.
Qed.

(* text and token list determine each other: from_tokens is injective, and onto the valid texts *)
Theorem from_tokens_inj L1 L2 : from_tokens L1 = from_tokens L2 -> L1 = L2.
Proof. intros H. rewrite <- (dtokens_from_tokens L1), <- (dtokens_from_tokens L2), H. reflexivity. Qed.

(* ---- accessors against the token list ------------------------------------------------------- *)

Section Accessors.
  Variable ts : list str.
  Hypothesis Hts : Forall (fun u => no_slash u = true) ts.
  Let p := from_tokens_enc ts.

  Lemma acc_tokens : ptokens p = ts.
  Proof. apply tokens_from_tokens_enc, Hts. Qed.

  Lemma acc_count : pcount p = len ts.
  Proof. unfold pcount. rewrite acc_tokens. reflexivity. Qed.

  Lemma acc_is_root : is_root p = true <-> ts = [].
  Proof. unfold p. destruct ts; cbn; split; congruence. Qed.

  Lemma acc_get i : get_tok p i = nth_N ts i.
  Proof. unfold get_tok. rewrite acc_tokens. reflexivity. Qed.

  Lemma acc_components : components p = CRoot :: map CToken ts.
  Proof. unfold components. rewrite acc_tokens. reflexivity. Qed.

  Lemma acc_front : front p = hd_error ts.
  Proof.
    unfold p. destruct ts as [|t r]; [reflexivity|].
    inversion Hts as [|? ? Ht Hr]; subst.
    unfold front. rewrite from_tokens_enc_cons. cbn [is_root skipn].
    destruct r as [|u r'].
    - cbn [from_tokens_enc flat_map]. rewrite app_nil_r. unfold split_once.
      rewrite find_noslash by assumption. reflexivity.
    - rewrite from_tokens_enc_cons. unfold split_once. rewrite find_app_slash by assumption.
      rewrite firstn_app_exact. reflexivity.
  Qed.

  Lemma acc_split_front : split_front p = match ts with [] => None | t :: r => Some (t, from_tokens_enc r) end.
  Proof.
    unfold p. destruct ts as [|t r]; [reflexivity|]. inversion Hts; subst. apply split_front_cons. assumption.
  Qed.

  Lemma acc_split_back :
    split_back p = match rev ts with [] => None | t :: r => Some (from_tokens_enc (rev r), t) end.
  Proof.
    unfold p. destruct (tokens_snoc_cases ts) as [->|(a & x & ->)]; [reflexivity|].
    rewrite rev_app_distr. cbn [rev app]. rewrite rev_involutive.
    apply split_back_snoc. apply Forall_app in Hts as [_ Hx]. inversion Hx; assumption.
  Qed.

  Lemma acc_back : back p = match rev ts with [] => None | t :: _ => Some t end.
  Proof.
    unfold back. change (rsplit_once SLASH p) with (split_back p). rewrite acc_split_back.
    destruct (rev ts); reflexivity.
  Qed.

  Lemma acc_parent : parent p = match rev ts with [] => None | _ :: r => Some (from_tokens_enc (rev r)) end.
  Proof.
    unfold parent. change (rsplit_once SLASH p) with (split_back p). rewrite acc_split_back.
    destruct (rev ts); reflexivity.
  Qed.
End Accessors.

(* with_trailing_token / with_leading_token / concat as list operations *)
Lemma tokens_push_back ts t :
  Forall (fun u => no_slash u = true) ts -> no_slash t = true ->
  push_back (from_tokens_enc ts) t = from_tokens_enc (ts ++ [t]).
Proof.
  intros _ _. unfold push_back. rewrite from_tokens_enc_app. cbn [from_tokens_enc flat_map].
  rewrite app_nil_r. reflexivity.
Qed.

Lemma tokens_push_front ts t : push_front (from_tokens_enc ts) t = from_tokens_enc (t :: ts).
Proof. reflexivity. Qed.

Lemma append_from_tokens_enc a b : append (from_tokens_enc a) (from_tokens_enc b) = from_tokens_enc (a ++ b).
Proof.
  unfold append. rewrite !is_root_from_tokens_enc.
  destruct a as [|x a]; [reflexivity|]. destruct b as [|y b]; cbn [negb].
  - rewrite app_nil_r. reflexivity.
  - symmetry. apply from_tokens_enc_app.
Qed.

(* for every valid pointer: all of the above through [tokens p] *)
Theorem accessors_agree p :
  valid_ptr p = true ->
  let ts := tokens p in
  pcount p = len ts /\
  (is_root p = true <-> ts = []) /\
  front p = hd_error ts /\
  back p = (match rev ts with [] => None | t :: _ => Some t end) /\
  (forall i, get_tok p i = nth_N ts i) /\
  components p = CRoot :: map CToken ts /\
  split_front p = (match ts with [] => None | t :: r => Some (t, from_tokens_enc r) end) /\
  split_back p = (match rev ts with [] => None | t :: r => Some (from_tokens_enc (rev r), t) end) /\
  parent p = (match rev ts with [] => None | _ :: r => Some (from_tokens_enc (rev r)) end).
Proof.
  intros H ts. destruct (valid_ptr_decompose p H) as [Hp Hv].
  pose proof (tokens_noslash p) as Hn. fold ts in Hp, Hn. rewrite Hp.
  repeat split.
  - apply acc_count, Hn.
  - apply (proj1 (acc_is_root ts Hn)).
  - apply (proj2 (acc_is_root ts Hn)).
  - apply acc_front, Hn.
  - apply acc_back, Hn.
  - intros i. apply acc_get, Hn.
  - apply acc_components, Hn.
  - apply acc_split_front, Hn.
  - apply acc_split_back, Hn.
  - apply acc_parent, Hn.
Qed.

Theorem builders_agree p t q :
  valid_ptr p = true -> valid_ptr q = true ->
  tokens (with_trailing_token p (encode t)) = tokens p ++ [encode t] /\
  tokens (with_leading_token p (encode t)) = encode t :: tokens p /\
  tokens (concat_ptr p q) = tokens p ++ tokens q /\
  valid_ptr (with_trailing_token p (encode t)) = true /\
  valid_ptr (with_leading_token p (encode t)) = true /\
  valid_ptr (concat_ptr p q) = true.
Proof.
  intros Hp Hq.
  destruct (valid_ptr_decompose p Hp) as [Ep Vp]. destruct (valid_ptr_decompose q Hq) as [Eq Vq].
  pose proof (tokens_noslash p) as Np. pose proof (tokens_noslash q) as Nq.
  remember (tokens p) as tp eqn:Etp. remember (tokens q) as tq eqn:Etq. clear Etp Etq Hp Hq. subst p q.
  unfold with_trailing_token, with_leading_token, concat_ptr.
  rewrite tokens_push_back by (assumption || apply no_slash_encode).
  rewrite tokens_push_front, append_from_tokens_enc.
  assert (V1 : forallb valid_tok (tp ++ [encode t]) = true).
  { rewrite forallb_app, Vp. cbn. rewrite valid_tok_encode. reflexivity. }
  assert (V2 : forallb valid_tok (encode t :: tp) = true).
  { cbn. rewrite valid_tok_encode, Vp. reflexivity. }
  assert (V3 : forallb valid_tok (tp ++ tq) = true).
  { rewrite forallb_app, Vp, Vq. reflexivity. }
  repeat split; try (apply valid_ptr_from_tokens_enc; assumption);
    apply tokens_from_tokens_enc, Forall_forall; intros u Hu; apply valid_tok_no_slash.
  - rewrite forallb_forall in V1. apply V1, Hu.
  - rewrite forallb_forall in V2. apply V2, Hu.
  - rewrite forallb_forall in V3. apply V3, Hu.
Qed.
