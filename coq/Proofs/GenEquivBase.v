(* Proofs/GenEquivBase.v -- part of the REGENERATED-MODEL tie (DESIGN 13): the definitions of Generated/Scan*.v are
   re-translated from the crate's current Rust source by tools/rs2v.py on every run; the lemmas here
   re-prove, for ALL inputs, that each equals the hand-written model function of Model/*.v that the
   property theorems are stated about.  An edit to a translated function changes the generated term and
   the lemma either still goes through (the edit preserves the function) or breaks (the check then
   searches for a failing input and reports).  Scripts name nothing generated except function names. *)

From JP Require Export Bytes Dec Spec GenPrelude Model.Token Model.Pointer Model.Index Generated.ScanTypes
  Proofs.BytesFacts.
From Coq Require Export Lia.

Arguments N.add : simpl never.
Arguments N.sub : simpl never.
Arguments N.eqb : simpl never.
Arguments N.ltb : simpl never.
Arguments N.leb : simpl never.
Arguments N.of_nat : simpl never.

(* ---- correspondence of the generated types with the model's -------------------------------- *)

Definition gen_kind (k : enc_kind) : InvalidEncoding :=
  match k with KTilde => InvalidEncoding_Tilde | KSlash => InvalidEncoding_Slash end.

Definition gen_pe (e : parse_error) : ParseError :=
  match e with
  | NoLeadingSlash => ParseError_NoLeadingSlash
  | Pointer.InvalidEncoding po so => ParseError_InvalidEncoding po (mk_EncodingError so InvalidEncoding_Tilde)
  end.

(* every ParseError the parser produces is the image of a model error; for the accessors we go the other way *)
Definition model_pe (e : ParseError) : parse_error :=
  match e with
  | ParseError_NoLeadingSlash => NoLeadingSlash
  | ParseError_InvalidEncoding po src => Pointer.InvalidEncoding po (EncodingError_offset src)
  end.

Lemma model_gen_pe e : model_pe (gen_pe e) = e.
Proof. destruct e; reflexivity. Qed.

Definition gen_index (i : index) : Index := match i with Num n => Index_Num n | Next => Index_Next end.

Definition gen_cow (owned : bool) (s : str) : Cow := if owned then Cow_Owned s else Cow_Borrowed s.
Definition gen_token (t : token) : Token := mk_Token (gen_cow (towned t) (ttext t)).

(* ---- list / index facts ---------------------------------------------------------------------- *)

Lemma len_app {A} (a b : list A) : len (a ++ b) = len a + len b.
Proof. unfold len. rewrite app_length. lia. Qed.

Lemma len_cons {A} (x : A) (l : list A) : len (x :: l) = len l + 1.
Proof. unfold len. cbn [length]. lia. Qed.

Lemma len_nil {A} : len (@nil A) = 0.
Proof. reflexivity. Qed.

Lemma nth_N_app_len {A} (pre : list A) b r : nth_N (pre ++ b :: r) (len pre) = Some b.
Proof.
  induction pre as [|x pre IH]; cbn [app nth_N].
  - reflexivity.
  - rewrite len_cons.
    destruct (N.eqb_spec (len pre + 1) 0) as [E|E]; [lia|].
    replace (len pre + 1 - 1) with (len pre) by lia. exact IH.
Qed.

Lemma nth_N_app_len1 {A} (pre : list A) b c r : nth_N (pre ++ b :: c :: r) (len pre + 1) = Some c.
Proof.
  replace (pre ++ b :: c :: r) with ((pre ++ [b]) ++ c :: r) by (rewrite <- app_assoc; reflexivity).
  replace (len pre + 1) with (len (pre ++ [b])) by (rewrite len_app; reflexivity).
  apply nth_N_app_len.
Qed.


Lemma position_lt f s i : position f s = Some i -> (i < length s)%nat.
Proof.
  revert i; induction s as [|b r IH]; intros i; cbn [position]; [discriminate|].
  destruct (f b); [intros [= <-]; cbn; lia|].
  destruct (position f r) as [j|]; cbn [option_map]; [|discriminate].
  intros [= <-]. specialize (IH j eq_refl). cbn [length]. lia.
Qed.
