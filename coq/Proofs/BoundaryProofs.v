(* Proofs/BoundaryProofs.v -- the char-boundary panic of `&s[a..b]`, `String::insert`, `String::remove` and
   `String::split_off`, which the primitives of GenPrelude.v leave out (DESIGN 13.12 / 13.18), cannot fire where the
   crate cuts: on well-formed UTF-8 (every Rust `str`), core's byte-level test `is_char_boundary` is EXACTLY "both sides
   are well-formed", and it holds at, and one past, every ASCII byte - the only places the source computes a position
   for (`find('/')`, `rfind('/')`, `find('~')`, `+ 1`).  The faithful variants of the primitives (with that panic) are
   defined here and shown to coincide with the bounds-only ones at such positions. *)
From Coq Require Import ZArith.
From JP Require Import Bytes Dec Utf8 GenPrelude Proofs.BytesFacts Proofs.SliceProofs Proofs.Utf8Proofs.

Arguments N.add : simpl never.
Arguments N.sub : simpl never.
Arguments N.eqb : simpl never.
Arguments N.ltb : simpl never.
Arguments N.leb : simpl never.

(* the third disjunct of core's test is `is_cont` negated *)
Lemma boundary_byte_is_cont b : negb ((128 <=? b) && (b <=? 191)) = negb (is_cont b).
Proof. reflexivity. Qed.

Lemma skipn_nth_error_head {A} (l : list A) k :
  match skipn k l with [] => nth_error l k = None | c :: _ => nth_error l k = Some c end.
Proof.
  revert l; induction k as [|k IH]; intros [|x l]; cbn [skipn nth_error]; try reflexivity.
  apply IH.
Qed.

Lemma nocont_head_skipn s k :
  nocont_head (skipn k s) <->
  match nth_error s k with Some b => is_cont b = false | None => True end.
Proof.
  pose proof (skipn_nth_error_head s k) as H. destruct (skipn k s) as [|c r]; rewrite H; cbn [nocont_head]; tauto.
Qed.

(* ---- the byte test is the semantic notion ------------------------------------------------------ *)
Theorem is_char_boundary_iff s i :
  utf8_valid s = true -> i <= len s ->
  (is_char_boundary s i = true <-> char_boundary s (N.to_nat i)).
Proof.
  intros Hs Hi. unfold is_char_boundary, char_boundary. rewrite nth_N_nth_error.
  assert (Hlen : (N.to_nat i <= length s)%nat) by (unfold len in Hi; lia).
  split.
  - intros H. apply utf8_app_inv_boundary; [rewrite firstn_skipn; exact Hs|].
    apply nocont_head_skipn.
    destruct (nth_error s (N.to_nat i)) as [b|] eqn:E; [|exact I].
    apply Bool.orb_true_iff in H as [H|H].
    + apply Bool.orb_true_iff in H as [H|H].
      * apply N.eqb_eq in H. subst i. cbn in E.
        destruct s as [|c r]; [discriminate|]. cbn in E. injection E as <-.
        pose proof (utf8_nocont_head _ Hs) as Hn. exact Hn.
      * apply N.eqb_eq in H. exfalso. assert (E' : nth_error s (N.to_nat i) <> None) by congruence.
        apply nth_error_Some in E'. unfold len in H. lia.
    + rewrite boundary_byte_is_cont in H. destruct (is_cont b); [discriminate|reflexivity].
  - intros [_ Hr]. pose proof (utf8_nocont_head _ Hr) as Hn. apply nocont_head_skipn in Hn.
    destruct (nth_error s (N.to_nat i)) as [b|] eqn:E.
    + rewrite boundary_byte_is_cont, Hn. cbn [negb]. apply Bool.orb_true_r.
    + apply nth_error_None in E. assert (i = len s) as -> by (unfold len in *; lia).
      rewrite N.eqb_refl. rewrite Bool.orb_true_r. reflexivity.
Qed.

(* at an ASCII byte, and one past it *)
Theorem boundary_at_ascii s k c :
  utf8_valid s = true -> nth_N s k = Some c -> c < 128 ->
  is_char_boundary s k = true /\ is_char_boundary s (k + 1) = true.
Proof.
  intros Hs E Hc.
  assert (Hk : k < len s).
  { rewrite nth_N_nth_error in E. assert (E' : nth_error s (N.to_nat k) <> None) by congruence.
    apply nth_error_Some in E'. unfold len. lia. }
  split.
  - apply is_char_boundary_iff; [exact Hs|lia|]. exact (char_boundary_at_ascii s k c Hs E Hc).
  - apply is_char_boundary_iff; [exact Hs|lia|].
    rewrite nth_N_nth_error in E. apply nth_error_split in E as (a & r & -> & Hlen).
    replace (N.to_nat (k + 1)) with (S (length a)) by lia.
    unfold char_boundary. rewrite firstn_S_app_exact, skipn_S_app_exact.
    destruct (utf8_split_ascii a c r Hc Hs) as [Ha Hr].
    split; [|exact Hr]. apply utf8_app; [exact Ha|]. rewrite utf8_cons_ascii by exact Hc. reflexivity.
Qed.

(* ---- the faithful primitives: bounds check AND boundary check, as in std ------------------------- *)
Definition slice_from_cb (s : str) (i : N) : outcome str :=
  if (i <=? len s) && is_char_boundary s i then Ret (skipn (N.to_nat i) s) else Panic.
Definition slice_to_cb (s : str) (i : N) : outcome str :=
  if (i <=? len s) && is_char_boundary s i then Ret (firstn (N.to_nat i) s) else Panic.
Definition slice_range_cb (s : str) (a b : N) : outcome str :=
  if (a <=? b) && (b <=? len s) && is_char_boundary s a && is_char_boundary s b
  then Ret (firstn (N.to_nat (b - a)) (skipn (N.to_nat a) s)) else Panic.
Definition str_split_off_cb (s : str) (i : N) : outcome (str * str) :=
  if (i <=? len s) && is_char_boundary s i then Ret (firstn (N.to_nat i) s, skipn (N.to_nat i) s) else Panic.
Definition str_insert_cb (s : str) (i : N) (x : str) : outcome str :=
  if (i <=? len s) && is_char_boundary s i then Ret (firstn (N.to_nat i) s ++ x ++ skipn (N.to_nat i) s) else Panic.
(* `String::remove(i)` removes the CHAR at i; for an ASCII byte that is the one byte *)
Definition str_remove_cb (s : str) (i : N) : outcome str :=
  if (i <? len s) && is_char_boundary s i then Ret (firstn (N.to_nat i) s ++ skipn (S (N.to_nat i)) s) else Panic.

(* a position the crate may cut at: 0, the end, at an ASCII byte, one past an ASCII byte *)
Definition cut_ok (s : str) (i : N) : Prop :=
  i = 0 \/ i = len s \/
  (exists c, nth_N s i = Some c /\ c < 128) \/
  (exists j c, i = j + 1 /\ nth_N s j = Some c /\ c < 128).

Lemma cut_ok_boundary s i : utf8_valid s = true -> cut_ok s i -> is_char_boundary s i = true.
Proof.
  intros Hs [->|[->|[(c & E & Hc)|(j & c & -> & E & Hc)]]].
  - reflexivity.
  - unfold is_char_boundary. rewrite N.eqb_refl, Bool.orb_true_r. reflexivity.
  - apply (boundary_at_ascii s i c Hs E Hc).
  - apply (boundary_at_ascii s j c Hs E Hc).
Qed.

Theorem slicing_prims_faithful s :
  utf8_valid s = true ->
  (forall i, cut_ok s i -> slice_from_cb s i = slice_from s i) /\
  (forall i, cut_ok s i -> slice_to_cb s i = slice_to s i) /\
  (forall a b, cut_ok s a -> cut_ok s b -> slice_range_cb s a b = slice_range s a b) /\
  (forall i, cut_ok s i -> str_split_off_cb s i = str_split_off s i) /\
  (forall i x, cut_ok s i -> str_insert_cb s i x = str_insert s i x) /\
  (forall i, cut_ok s i -> str_remove_cb s i = str_remove s i).
Proof.
  intros Hs.
  repeat split; intros;
    unfold slice_from_cb, slice_to_cb, slice_range_cb, str_split_off_cb, str_insert_cb, str_remove_cb,
           slice_from, slice_to, slice_range, str_split_off, str_insert, str_remove;
    repeat match goal with H : cut_ok s _ |- _ => rewrite (cut_ok_boundary s _ Hs H); clear H end;
    rewrite ?Bool.andb_true_r; reflexivity.
Qed.

(* and where the test fails, the faithful primitives do panic: the hypothesis above is needed *)
Theorem slicing_prims_panic_inside_char s i :
  is_char_boundary s i = false ->
  slice_from_cb s i = Panic /\ slice_to_cb s i = Panic /\ str_split_off_cb s i = Panic /\
  (forall x, str_insert_cb s i x = Panic) /\ str_remove_cb s i = Panic /\ str_split_at s i = Panic.
Proof.
  intros H. unfold slice_from_cb, slice_to_cb, str_split_off_cb, str_insert_cb, str_remove_cb, str_split_at.
  rewrite H, !Bool.andb_false_r. repeat split.
Qed.

(* "é" = C3 A9: position 1 is inside the character; "/é" cut at 1 (one past '/') is fine *)
Example boundary_examples :
  is_char_boundary [195; 169] 1 = false /\ slice_from_cb [195; 169] 1 = Panic /\
  slice_from [195; 169] 1 = Ret [169] /\
  is_char_boundary [47; 195; 169] 1 = true /\ slice_from_cb [47; 195; 169] 1 = Ret [195; 169] /\
  cut_ok [47; 195; 169] 1.
Proof. repeat split; try reflexivity. right. right. right. exists 0, 47. repeat split. Qed.

(* ---- the positions the source computes ARE cut_ok ---------------------------------------------------
   `s.find(c)` / `s.rfind(c)` for an ASCII needle (the crate searches for '/' and '~' only), and that position + 1 *)
Lemma nth_N_app_exact (a : str) c r : nth_N (a ++ c :: r) (N.of_nat (length a)) = Some c.
Proof.
  rewrite nth_N_nth_error, Nnat.Nat2N.id. rewrite nth_error_app2 by lia. rewrite Nat.sub_diag. reflexivity.
Qed.

Theorem find_cut_ok c s i :
  c < 128 -> findN c s = Some i -> cut_ok s i /\ cut_ok s (i + 1).
Proof.
  intros Hc E. unfold findN in E. destruct (find c s) as [k|] eqn:F; [|discriminate]. cbn in E. injection E as <-.
  apply find_some in F as (a & r & -> & <-).
  split.
  - right. right. left. exists c. split; [apply nth_N_app_exact|exact Hc].
  - right. right. right. exists (N.of_nat (length a)), c. repeat split; [apply nth_N_app_exact|exact Hc].
Qed.

Theorem rfind_cut_ok c s i :
  c < 128 -> rfindN c s = Some i -> cut_ok s i /\ cut_ok s (i + 1).
Proof.
  intros Hc E. unfold rfindN in E. destruct (rfind c s) as [k|] eqn:F; [|discriminate]. cbn in E. injection E as <-.
  assert (H : nth_N s (N.of_nat k) = Some c).
  { rewrite nth_N_nth_error, Nnat.Nat2N.id. clear Hc. revert k F.
    induction s as [|b t IH]; intros k F; [discriminate|]. cbn [rfind] in F.
    destruct (rfind c t) as [j|] eqn:G.
    - injection F as <-. cbn [nth_error]. apply IH. reflexivity.
    - destruct (N.eqb_spec c b) as [->|]; [|discriminate]. injection F as <-. reflexivity. }
  split.
  - right. right. left. exists c. split; assumption.
  - right. right. right. exists (N.of_nat k), c. repeat split; assumption.
Qed.

(* so: a cut at (or one past) a found '/' or '~' of a `str` never takes the boundary panic *)
Corollary slice_at_found_faithful s c i :
  utf8_valid s = true -> c < 128 -> (findN c s = Some i \/ rfindN c s = Some i) ->
  slice_from_cb s i = slice_from s i /\ slice_from_cb s (i + 1) = slice_from s (i + 1) /\
  slice_to_cb s i = slice_to s i /\ slice_to_cb s (i + 1) = slice_to s (i + 1) /\
  str_split_off_cb s i = str_split_off s i /\ str_split_off_cb s (i + 1) = str_split_off s (i + 1) /\
  (forall x, str_insert_cb s i x = str_insert s i x) /\ (forall x, str_insert_cb s (i + 1) x = str_insert s (i + 1) x) /\
  str_remove_cb s i = str_remove s i.
Proof.
  intros Hs Hc H.
  assert (Hcut : cut_ok s i /\ cut_ok s (i + 1)) by (destruct H; [eapply find_cut_ok|eapply rfind_cut_ok]; eassumption).
  destruct Hcut as [H0 H1].
  destruct (slicing_prims_faithful s Hs) as (Pf & Pt & _ & Po & Pi & Pr).
  repeat split; intros; auto.
Qed.
