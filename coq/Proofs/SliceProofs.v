(* Proofs/SliceProofs.v -- C12: splitting and range-slicing against the token list.

   A pointer text is `p = from_tokens_enc ts` with every token slash-free ([toks_ok ts]);
   every valid pointer has this form (SplitProofs.valid_ptr_decompose).
   `off ts k` is the byte offset at which token number k starts (the position of its '/'),
   `off ts (length ts) = len p`.  Every range form of `get` is computed in closed form. *)
From Coq Require Import Arith.
From JP Require Import Bytes Spec Model.Token Model.Pointer Model.Slice
  Proofs.BytesFacts Proofs.TokenProofs Proofs.SplitProofs.

Arguments N.add : simpl never.
Arguments N.eqb : simpl never.
Arguments N.ltb : simpl never.
Arguments N.leb : simpl never.
Arguments N.sub : simpl never.

(* case split on every N comparison in the goal *)
Ltac bdN :=
  repeat match goal with
  | |- context [N.leb ?a ?b] => destruct (N.leb_spec a b)
  | |- context [N.ltb ?a ?b] => destruct (N.ltb_spec a b)
  | |- context [N.eqb ?a ?b] => destruct (N.eqb_spec a b)
  end; cbn [andb orb negb].

(* componentwise equality of tuples / options *)
Ltac tup :=
  repeat match goal with
  | |- (_, _) = (_, _) => f_equal
  | |- Some _ = Some _ => f_equal
  | |- Ret _ = Ret _ => f_equal
  end.

(* ---- vocabulary ------------------------------------------------------------------------ *)

Definition toks_ok (ts : list str) : Prop := Forall (fun t => no_slash t = true) ts.

(* byte offset of the start of token k (nat- and N-valued) *)
Definition offn (ts : list str) (k : nat) : nat := length (from_tokens_enc (firstn k ts)).
Definition off (ts : list str) (k : nat) : N := N.of_nat (offn ts k).
Definition offN (ts : list str) (k : N) : N := off ts (N.to_nat k).

(* the bytes of p in the half-open range [x, y) *)
Definition bytes_at (p : str) (x y : N) : str := firstn (N.to_nat (y - x)) (skipn (N.to_nat x) p).

(* tokens number i, ..., j-1 *)
Definition sub_tokens (ts : list str) (i j : nat) : list str := firstn (j - i) (skipn i ts).

(* ---- len ----------------------------------------------------------------------------- *)

Lemma len_nil {A} : len (@nil A) = 0.
Proof. reflexivity. Qed.

Lemma len_cons {A} (x : A) l : len (x :: l) = len l + 1.
Proof. unfold len. cbn [length]. lia. Qed.

Lemma len_app {A} (a b : list A) : len (a ++ b) = len a + len b.
Proof. unfold len. rewrite app_length. lia. Qed.

(* ---- off ----------------------------------------------------------------------------- *)

Lemma off_len ts k : off ts k = len (from_tokens_enc (firstn k ts)).
Proof. reflexivity. Qed.

Lemma offn_0 ts : offn ts 0 = 0%nat.
Proof. reflexivity. Qed.

Lemma off_0 ts : off ts 0 = 0.
Proof. reflexivity. Qed.

Lemma offn_nil k : offn [] k = 0%nat.
Proof. unfold offn. rewrite firstn_nil. reflexivity. Qed.

Lemma off_nil k : off [] k = 0.
Proof. unfold off. rewrite offn_nil. reflexivity. Qed.

Lemma offn_cons_S t r k : offn (t :: r) (S k) = (S (length t) + offn r k)%nat.
Proof. unfold offn. cbn [firstn]. rewrite length_from_tokens_enc_cons. reflexivity. Qed.

Lemma off_cons_S t r k : off (t :: r) (S k) = (len t + 1) + off r k.
Proof. unfold off. rewrite offn_cons_S. unfold len. lia. Qed.

Lemma offn_all ts k : (length ts <= k)%nat -> offn ts k = length (from_tokens_enc ts).
Proof. intros H. unfold offn. rewrite firstn_all2 by exact H. reflexivity. Qed.

Lemma off_all ts k : (length ts <= k)%nat -> off ts k = len (from_tokens_enc ts).
Proof. intros H. unfold off. rewrite offn_all by exact H. reflexivity. Qed.

Lemma firstn_add {A} (l : list A) i d : firstn (i + d) l = firstn i l ++ firstn d (skipn i l).
Proof.
  revert l. induction i as [|i IH]; intros l; [reflexivity|].
  destruct l as [|x l]; cbn [Nat.add firstn skipn app].
  - rewrite firstn_nil. reflexivity.
  - rewrite IH. reflexivity.
Qed.

Lemma offn_add ts i d :
  offn ts (i + d) = (offn ts i + length (from_tokens_enc (firstn d (skipn i ts))))%nat.
Proof. unfold offn. rewrite firstn_add, length_from_tokens_enc_app. reflexivity. Qed.

Lemma offn_mono ts i j : (i <= j)%nat -> (offn ts i <= offn ts j)%nat.
Proof. intros H. replace j with (i + (j - i))%nat by lia. rewrite offn_add. lia. Qed.

Lemma off_mono ts i j : (i <= j)%nat -> off ts i <= off ts j.
Proof. intros H. unfold off. pose proof (offn_mono ts i j H). lia. Qed.

(* each token occupies at least its separator: off is strictly monotone on 0..length ts *)
Lemma offn_strict ts i j : (i < j <= length ts)%nat -> (offn ts i + (j - i) <= offn ts j)%nat.
Proof.
  intros H. replace j with (i + (j - i))%nat at 2 by lia. rewrite offn_add.
  pose proof (length_from_tokens_enc_ge (firstn (j - i) (skipn i ts))) as Hge.
  rewrite firstn_length, skipn_length in Hge. lia.
Qed.

Lemma off_strict ts i j : (i < j <= length ts)%nat -> off ts i < off ts j.
Proof. intros H. unfold off. pose proof (offn_strict ts i j H). lia. Qed.

Lemma off_inj ts i j : (i <= length ts)%nat -> (j <= length ts)%nat -> off ts i = off ts j -> i = j.
Proof.
  intros Hi Hj H. destruct (lt_eq_lt_dec i j) as [[Hlt|Heq]|Hgt]; [|exact Heq|].
  - pose proof (off_strict ts i j). lia.
  - pose proof (off_strict ts j i). lia.
Qed.

Lemma offn_le_len ts k : (offn ts k <= length (from_tokens_enc ts))%nat.
Proof.
  destruct (le_lt_dec (length ts) k) as [H|H].
  - rewrite offn_all by exact H. lia.
  - rewrite <- (offn_all ts (length ts)) by lia. apply offn_mono. lia.
Qed.

Lemma off_le_len ts k : off ts k <= len (from_tokens_enc ts).
Proof. unfold off, len. pose proof (offn_le_len ts k). lia. Qed.

(* the token count never exceeds the text length *)
Lemma count_le_len ts : len ts <= len (from_tokens_enc ts).
Proof. unfold len. pose proof (length_from_tokens_enc_ge ts). lia. Qed.

(* ---- views: the bytes between two token offsets (item 8) ---------------------------------- *)

Lemma ts_split3 (ts : list str) i j : (i <= j)%nat ->
  ts = firstn i ts ++ sub_tokens ts i j ++ skipn (j - i) (skipn i ts).
Proof.
  intros H. unfold sub_tokens. rewrite (firstn_skipn (j - i) (skipn i ts)), firstn_skipn. reflexivity.
Qed.

Theorem view_content_nat ts i j : (i <= j)%nat ->
  firstn (offn ts j - offn ts i) (skipn (offn ts i) (from_tokens_enc ts))
  = from_tokens_enc (sub_tokens ts i j).
Proof.
  intros H.
  assert (E : from_tokens_enc ts = from_tokens_enc (firstn i ts) ++
              from_tokens_enc (sub_tokens ts i j) ++ from_tokens_enc (skipn (j - i) (skipn i ts))).
  { rewrite <- !from_tokens_enc_app, <- ts_split3 by exact H. reflexivity. }
  assert (L : (offn ts j - offn ts i)%nat = length (from_tokens_enc (sub_tokens ts i j))).
  { replace j with (i + (j - i))%nat at 1 by lia. rewrite offn_add. unfold sub_tokens. lia. }
  rewrite L, E. change (offn ts i) with (length (from_tokens_enc (firstn i ts))).
  rewrite skipn_app_exact. apply firstn_app_exact.
Qed.

Theorem view_content ts i j : (i <= j)%nat ->
  bytes_at (from_tokens_enc ts) (off ts i) (off ts j) = from_tokens_enc (sub_tokens ts i j).
Proof.
  intros H. unfold bytes_at, off. rewrite <- (view_content_nat ts i j H).
  f_equal; [|f_equal]; pose proof (offn_mono ts i j H); lia.
Qed.

(* the view lies inside the text *)
Theorem view_in_bounds ts i j : (i <= j)%nat ->
  off ts i <= off ts j /\ off ts j <= len (from_tokens_enc ts).
Proof. intros H. split; [apply off_mono, H|apply off_le_len]. Qed.

(* ---- the loops, generalised over the starting counters ------------------------------------ *)

Lemma to_nat_sub_S a b : b < a -> N.to_nat (a - b) = S (N.to_nat (a - (b + 1))).
Proof. lia. Qed.

(* `..b` loop: stops at idx = e if e is among the indices idx .. idx + len ts - 1 *)
Lemma to_loop_spec ts : forall idx o e,
  to_loop ts idx o e =
    if (idx <=? e) && (e <? idx + len ts)
    then (e, o + off ts (N.to_nat (e - idx)), Some (o + off ts (N.to_nat (e - idx))))
    else (idx + len ts, o + off ts (length ts), None).
Proof.
  induction ts as [|t r IH]; intros idx o e; cbn [to_loop].
  - rewrite len_nil, !off_nil. bdN; try lia; rewrite !N.add_0_r; reflexivity.
  - rewrite len_cons. cbn [length]. rewrite off_cons_S.
    destruct (N.eqb_spec idx e) as [->|Hne].
    + rewrite N.sub_diag. cbn [N.to_nat]. rewrite off_0, N.add_0_r. bdN; try lia. reflexivity.
    + rewrite IH. bdN; try lia.
      1: { rewrite (to_nat_sub_S e idx) by lia. rewrite off_cons_S.
           rewrite !N.add_assoc. reflexivity. }
      all: tup; lia.
Qed.

(* `a..` loop *)
Lemma from_loop_spec ts : forall idx o s,
  from_loop ts idx o s =
    if (idx <=? s) && (s <? idx + len ts) then Some (o + off ts (N.to_nat (s - idx))) else None.
Proof.
  induction ts as [|t r IH]; intros idx o s; cbn [from_loop].
  - rewrite len_nil. bdN; try lia; reflexivity.
  - rewrite len_cons.
    destruct (N.eqb_spec idx s) as [->|Hne].
    + rewrite N.sub_diag. cbn [N.to_nat]. rewrite off_0, N.add_0_r. bdN; try lia. reflexivity.
    + rewrite IH. bdN; try lia; try reflexivity.
      rewrite (to_nat_sub_S s idx) by lia. rewrite off_cons_S. tup; lia.
Qed.

(* `..=b` loop *)
Lemma to_incl_loop_spec ts : forall idx o e,
  to_incl_loop ts idx o e =
    if (idx <=? e) && (e <? idx + len ts) then Some (o + off ts (S (N.to_nat (e - idx)))) else None.
Proof.
  induction ts as [|t r IH]; intros idx o e; cbn [to_incl_loop].
  - rewrite len_nil. bdN; try lia; reflexivity.
  - rewrite len_cons.
    destruct (N.eqb_spec idx e) as [->|Hne].
    + rewrite N.sub_diag. cbn [N.to_nat]. rewrite off_cons_S, off_0, N.add_0_r. bdN; try lia. reflexivity.
    + rewrite IH. bdN; try lia; try reflexivity.
      rewrite (to_nat_sub_S e idx) by lia. rewrite (off_cons_S t r (S _)). tup; lia.
Qed.

(* `a..b` loop (under the guard s <= e established by get_range) *)
Lemma range_loop_spec ts : forall idx o s e so, s <= e ->
  range_loop ts idx o s e so =
    let so' := if (idx <=? s) && (s <? idx + len ts)
               then Some (o + off ts (N.to_nat (s - idx))) else so in
    if (idx <=? e) && (e <? idx + len ts)
    then (e, o + off ts (N.to_nat (e - idx)), so', Some (o + off ts (N.to_nat (e - idx))))
    else (idx + len ts, o + off ts (length ts), so', None).
Proof.
  induction ts as [|t r IH]; intros idx o s e so Hse; cbn [range_loop]; cbv zeta.
  - rewrite len_nil, !off_nil. bdN; try lia; rewrite !N.add_0_r; reflexivity.
  - rewrite len_cons. cbn [length]. rewrite (off_cons_S t r (length r)).
    destruct (N.eqb_spec idx e) as [->|Hne].
    + rewrite N.sub_diag. cbn [N.to_nat]. rewrite off_0, N.add_0_r.
      destruct (N.eqb_spec e s) as [->|Hne2].
      * rewrite N.sub_diag. cbn [N.to_nat]. rewrite off_0, N.add_0_r. bdN; try lia. reflexivity.
      * bdN; try lia. reflexivity.
    + rewrite IH by exact Hse. cbv zeta.
      destruct (N.eqb_spec idx s) as [->|Hne2].
      * rewrite N.sub_diag. cbn [N.to_nat]. rewrite off_0, N.add_0_r.
        bdN; try lia.
        1: rewrite (to_nat_sub_S e s) by lia; rewrite off_cons_S.
        all: tup; lia.
      * bdN; try lia.
        all: try (rewrite (to_nat_sub_S e idx) by lia; rewrite (off_cons_S t r (N.to_nat _))).
        all: try (rewrite (to_nat_sub_S s idx) by lia; rewrite (off_cons_S t r (N.to_nat _))).
        all: tup; try reflexivity; lia.
Qed.

(* `a..=b` loop (under the guard s <= e established by get_range_incl) *)
Lemma incl_loop_spec ts : forall idx o s e so, s <= e ->
  incl_loop ts idx o s e so =
    let so' := if (idx <=? s) && (s <? idx + len ts)
               then Some (o + off ts (N.to_nat (s - idx))) else so in
    if (idx <=? e) && (e <? idx + len ts)
    then (so', Some (o + off ts (S (N.to_nat (e - idx)))))
    else (so', None).
Proof.
  induction ts as [|t r IH]; intros idx o s e so Hse; cbn [incl_loop]; cbv zeta.
  - rewrite len_nil. bdN; try lia; reflexivity.
  - rewrite len_cons.
    destruct (N.eqb_spec idx e) as [->|Hne].
    + rewrite N.sub_diag. cbn [N.to_nat]. rewrite off_cons_S, off_0, N.add_0_r.
      destruct (N.eqb_spec e s) as [->|Hne2].
      * rewrite N.sub_diag. cbn [N.to_nat]. rewrite off_0, N.add_0_r. bdN; try lia. reflexivity.
      * bdN; try lia. reflexivity.
    + rewrite IH by exact Hse. cbv zeta.
      destruct (N.eqb_spec idx s) as [->|Hne2].
      * rewrite N.sub_diag. cbn [N.to_nat]. rewrite off_0, N.add_0_r.
        bdN; try lia.
        1: rewrite (to_nat_sub_S e s) by lia; rewrite (off_cons_S t r (S _)).
        all: tup; lia.
      * bdN; try lia.
        all: try (rewrite (to_nat_sub_S e idx) by lia; rewrite (off_cons_S t r (S _))).
        all: try (rewrite (to_nat_sub_S s idx) by lia; rewrite (off_cons_S t r (N.to_nat _))).
        all: tup; try reflexivity; lia.
Qed.

(* ---- the range forms of `get` in closed form (items 1-6) ------------------------------------ *)

Lemma to_nat_len {A} (l : list A) : N.to_nat (len l) = length l.
Proof. unfold len. lia. Qed.

Lemma ptokens_fte ts : toks_ok ts -> ptokens (from_tokens_enc ts) = ts.
Proof. intros H. rewrite ptokens_tokens. apply tokens_from_tokens_enc, H. Qed.

Lemma opt_slice_off ts i j : (i <= j)%nat ->
  opt_slice (from_tokens_enc ts) (Some (off ts i)) (Some (off ts j)) = Ret (Some (off ts i, off ts j)).
Proof.
  intros H. unfold opt_slice, slice_range.
  pose proof (off_mono ts i j H). pose proof (off_le_len ts j). bdN; try lia. reflexivity.
Qed.

Lemma opt_slice_off0 ts j :
  opt_slice (from_tokens_enc ts) (Some 0) (Some (off ts j)) = Ret (Some (0, off ts j)).
Proof. rewrite <- (off_0 ts). apply opt_slice_off. lia. Qed.

Lemma opt_slice_none_l p eo : opt_slice p None eo = Ret None.
Proof. reflexivity. Qed.

Lemma opt_slice_none_r p so : opt_slice p so None = Ret None.
Proof. destruct so; reflexivity. Qed.

Theorem get_range_spec ts a b : toks_ok ts ->
  get_range (from_tokens_enc ts) a b =
    Ret (if (a <=? b) && (b <=? len ts) && (a <? len ts) then Some (offN ts a, offN ts b) else None).
Proof.
  intros Hts. unfold get_range, offN. rewrite ptokens_fte by exact Hts.
  destruct (N.ltb_spec b a) as [Hba|Hab].
  - bdN; try lia; reflexivity.
  - rewrite range_loop_spec by exact Hab. cbv zeta. rewrite !N.add_0_l, !N.sub_0_r.
    destruct (N.ltb_spec b (len ts)) as [Hb|Hb].
    + (* the loop stops at b *)
      replace (0 <=? b) with true by (symmetry; apply N.leb_le; lia). cbn [andb].
      rewrite N.eqb_refl.
      bdN; try lia. apply opt_slice_off. lia.
    + replace ((0 <=? b) && false) with false by (rewrite andb_false_r; reflexivity).
      destruct (N.eqb_spec (len ts) b) as [<-|Hne].
      * bdN; try lia.
        -- rewrite to_nat_len. apply opt_slice_off. unfold len in *. lia.
        -- apply opt_slice_none_l.
      * bdN; try lia; apply opt_slice_none_r.
Qed.

Lemma off_length ts : off ts (length ts) = len (from_tokens_enc ts).
Proof. apply off_all. lia. Qed.

Theorem get_range_from_spec ts a : toks_ok ts ->
  get_range_from (from_tokens_enc ts) a =
    Ret (if a <? len ts then Some (offN ts a, len (from_tokens_enc ts)) else None).
Proof.
  intros Hts. unfold get_range_from, offN. rewrite ptokens_fte by exact Hts.
  rewrite from_loop_spec, !N.add_0_l, !N.sub_0_r.
  replace (0 <=? a) with true by (symmetry; apply N.leb_le; lia). cbn [andb].
  destruct (N.ltb_spec a (len ts)) as [Ha|Ha]; [|reflexivity].
  rewrite <- off_length. apply opt_slice_off. unfold len in *. lia.
Qed.

Theorem get_range_to_spec ts b : toks_ok ts ->
  get_range_to (from_tokens_enc ts) b =
    Ret (if b <=? len ts then Some (0, offN ts b) else None).
Proof.
  intros Hts. unfold get_range_to, offN. rewrite ptokens_fte by exact Hts.
  rewrite to_loop_spec, !N.add_0_l, !N.sub_0_r.
  replace (0 <=? b) with true by (symmetry; apply N.leb_le; lia). cbn [andb].
  destruct (N.ltb_spec b (len ts)) as [Hb|Hb].
  - rewrite N.eqb_refl. bdN; try lia. apply opt_slice_off0.
  - destruct (N.eqb_spec (len ts) b) as [<-|Hne].
    + bdN; try lia. rewrite to_nat_len. apply opt_slice_off0.
    + bdN; try lia. reflexivity.
Qed.

Theorem get_range_full_spec p : get_range_full p = Ret (Some (0, len p)).
Proof. reflexivity. Qed.

Theorem get_range_incl_spec ts a b : toks_ok ts ->
  get_range_incl (from_tokens_enc ts) a b =
    Ret (if (a <=? b) && (b <? len ts) then Some (offN ts a, offN ts (b + 1)) else None).
Proof.
  intros Hts. unfold get_range_incl, offN. rewrite ptokens_fte by exact Hts.
  destruct (N.ltb_spec b a) as [Hba|Hab].
  - bdN; try lia; reflexivity.
  - rewrite incl_loop_spec by exact Hab. cbv zeta. rewrite !N.add_0_l, !N.sub_0_r.
    replace (0 <=? b) with true by (symmetry; apply N.leb_le; lia).
    replace (0 <=? a) with true by (symmetry; apply N.leb_le; lia). cbn [andb].
    destruct (N.ltb_spec b (len ts)) as [Hb|Hb].
    + bdN; try lia. replace (N.to_nat (b + 1)) with (S (N.to_nat b)) by lia.
      apply opt_slice_off. lia.
    + bdN; try lia; apply opt_slice_none_r.
Qed.

Theorem get_range_to_incl_spec ts b : toks_ok ts ->
  get_range_to_incl (from_tokens_enc ts) b =
    Ret (if b <? len ts then Some (0, offN ts (b + 1)) else None).
Proof.
  intros Hts. unfold get_range_to_incl, offN. rewrite ptokens_fte by exact Hts.
  rewrite to_incl_loop_spec, !N.add_0_l, !N.sub_0_r.
  replace (0 <=? b) with true by (symmetry; apply N.leb_le; lia). cbn [andb].
  destruct (N.ltb_spec b (len ts)) as [Hb|Hb]; [|reflexivity].
  replace (N.to_nat (b + 1)) with (S (N.to_nat b)) by lia.
  apply opt_slice_off0.
Qed.

(* ---- explicit Bound pairs (item 7) ----------------------------------------------------------- *)

(* the closed forms above, named *)
Definition range_spec (ts : list str) (a b : N) : option (N * N) :=
  if (a <=? b) && (b <=? len ts) && (a <? len ts) then Some (offN ts a, offN ts b) else None.
Definition from_spec (ts : list str) (a : N) : option (N * N) :=
  if a <? len ts then Some (offN ts a, len (from_tokens_enc ts)) else None.
Definition to_spec (ts : list str) (b : N) : option (N * N) :=
  if b <=? len ts then Some (0, offN ts b) else None.
Definition incl_spec (ts : list str) (a b : N) : option (N * N) :=
  if (a <=? b) && (b <? len ts) then Some (offN ts a, offN ts (b + 1)) else None.
Definition to_incl_spec (ts : list str) (b : N) : option (N * N) :=
  if b <? len ts then Some (0, offN ts (b + 1)) else None.
Definition full_spec (ts : list str) : option (N * N) := Some (0, len (from_tokens_enc ts)).

(* an excluded START bound s means s + 1, and no start at all when s = usize::MAX *)
Definition bounds_spec (ts : list str) (lo hi : bound) : option (N * N) :=
  match lo, hi with
  | Included s, Included e => incl_spec ts s e
  | Included s, Excluded e => range_spec ts s e
  | Included s, Unbounded => from_spec ts s
  | Excluded s, Included e => if s =? USIZE_MAX then None else incl_spec ts (s + 1) e
  | Excluded s, Excluded e => if s =? USIZE_MAX then None else range_spec ts (s + 1) e
  | Excluded s, Unbounded => if s =? USIZE_MAX then None else from_spec ts (s + 1)
  | Unbounded, Included e => to_incl_spec ts e
  | Unbounded, Excluded e => to_spec ts e
  | Unbounded, Unbounded => full_spec ts
  end.

Theorem get_bounds_spec ts lo hi : toks_ok ts ->
  get_bounds (from_tokens_enc ts) lo hi = Ret (bounds_spec ts lo hi).
Proof.
  intros Hts. destruct lo as [s|s|], hi as [e|e|]; cbn [get_bounds bounds_spec]; unfold checked_add1;
    try destruct (s =? USIZE_MAX); try reflexivity;
    first [ apply get_range_incl_spec | apply get_range_spec | apply get_range_from_spec
          | apply get_range_to_incl_spec | apply get_range_to_spec ]; exact Hts.
Qed.

Corollary get_bounds_no_panic ts lo hi : toks_ok ts ->
  get_bounds (from_tokens_enc ts) lo hi <> Panic /\ get_bounds (from_tokens_enc ts) lo hi <> OutOfFuel.
Proof. intros Hts. rewrite get_bounds_spec by exact Hts. split; discriminate. Qed.

(* usize::MAX as an excluded start: None, for every end bound and every pointer text at all *)
Theorem get_bounds_excluded_max p hi : get_bounds p (Excluded USIZE_MAX) hi = Ret None.
Proof. destruct hi; reflexivity. Qed.

(* ---- what a range denotes: a pair of token indices ------------------------------------------- *)

(* the crate's range rule on a pointer of n tokens: the half-open token-index range [i, j) *)
Definition denote_from (n s : N) (hi : bound) : option (N * N) :=
  match hi with
  | Included e => if (s <=? e) && (e <? n) then Some (s, e + 1) else None
  | Excluded e => if (s <=? e) && (e <=? n) && (s <? n) then Some (s, e) else None
  | Unbounded => if s <? n then Some (s, n) else None
  end.

Definition denote (n : N) (lo hi : bound) : option (N * N) :=
  match lo with
  | Included s => denote_from n s hi
  | Excluded s => if s =? USIZE_MAX then None else denote_from n (s + 1) hi
  | Unbounded =>
      match hi with
      | Included e => if e <? n then Some (0, e + 1) else None
      | Excluded e => if e <=? n then Some (0, e) else None
      | Unbounded => Some (0, n)
      end
  end.

Lemma denote_from_wf n s hi i j : denote_from n s hi = Some (i, j) -> i = s /\ i <= j /\ j <= n.
Proof.
  destruct hi as [e|e|]; cbn [denote_from]; bdN; intros Hd; inversion Hd; subst; lia.
Qed.

Lemma denote_wf n lo hi i j : denote n lo hi = Some (i, j) -> i <= j /\ j <= n.
Proof.
  destruct lo as [s|s|]; cbn [denote].
  - intros H. apply denote_from_wf in H. lia.
  - destruct (s =? USIZE_MAX); [discriminate|]. intros H. apply denote_from_wf in H. lia.
  - destruct hi as [e|e|]; bdN; intros Hd; inversion Hd; subst; lia.
Qed.

Lemma offN_0 ts : offN ts 0 = 0.
Proof. reflexivity. Qed.

Lemma offN_len ts : offN ts (len ts) = len (from_tokens_enc ts).
Proof. unfold offN. rewrite to_nat_len. apply off_length. Qed.

Definition off_pair (ts : list str) (ij : N * N) : N * N := (offN ts (fst ij), offN ts (snd ij)).

Theorem bounds_spec_denote ts lo hi :
  bounds_spec ts lo hi = option_map (off_pair ts) (denote (len ts) lo hi).
Proof.
  destruct lo as [s|s|], hi as [e|e|]; cbn [bounds_spec denote denote_from];
    unfold incl_spec, range_spec, from_spec, to_incl_spec, to_spec, full_spec;
    try destruct (s =? USIZE_MAX); try reflexivity;
    repeat match goal with |- context [if ?c then _ else _] => destruct c end;
    unfold off_pair; cbn [option_map fst snd]; rewrite ?offN_0, ?offN_len; reflexivity.
Qed.

Theorem get_bounds_denote ts lo hi : toks_ok ts ->
  get_bounds (from_tokens_enc ts) lo hi = Ret (option_map (off_pair ts) (denote (len ts) lo hi)).
Proof. intros Hts. rewrite get_bounds_spec by exact Hts. rewrite bounds_spec_denote. reflexivity. Qed.

(* ---- every Some result is a view whose content is the denoted token sub-list ------------------ *)

Lemma In_firstn {A} (x : A) n l : In x (firstn n l) -> In x l.
Proof. intros H. rewrite <- (firstn_skipn n l). apply in_or_app. left. exact H. Qed.

Lemma In_skipn {A} (x : A) n l : In x (skipn n l) -> In x l.
Proof. intros H. rewrite <- (firstn_skipn n l). apply in_or_app. right. exact H. Qed.

Lemma toks_ok_firstn ts k : toks_ok ts -> toks_ok (firstn k ts).
Proof. unfold toks_ok. rewrite !Forall_forall. intros H x Hx. apply H, (In_firstn _ _ _ Hx). Qed.

Lemma toks_ok_skipn ts k : toks_ok ts -> toks_ok (skipn k ts).
Proof. unfold toks_ok. rewrite !Forall_forall. intros H x Hx. apply H, (In_skipn _ _ _ Hx). Qed.

Lemma toks_ok_sub ts i j : toks_ok ts -> toks_ok (sub_tokens ts i j).
Proof. intros H. apply toks_ok_firstn, toks_ok_skipn, H. Qed.

Lemma forallb_sub (f : str -> bool) ts i j :
  forallb f ts = true -> forallb f (sub_tokens ts i j) = true.
Proof.
  rewrite !forallb_forall. intros H x Hx. apply H. unfold sub_tokens in Hx.
  apply (In_skipn _ i), (In_firstn _ (j - i)), Hx.
Qed.

Lemma valid_toks_ok ts : forallb valid_tok ts = true -> toks_ok ts.
Proof.
  intros H. apply Forall_forall. intros t Ht. rewrite forallb_forall in H.
  apply valid_tok_no_slash, H, Ht.
Qed.

(* the view between two token offsets, on N indices *)
Theorem view_content_N ts i j : i <= j ->
  bytes_at (from_tokens_enc ts) (offN ts i) (offN ts j)
  = from_tokens_enc (sub_tokens ts (N.to_nat i) (N.to_nat j)).
Proof. intros H. apply view_content. lia. Qed.

Theorem get_bounds_view ts lo hi x y : toks_ok ts ->
  get_bounds (from_tokens_enc ts) lo hi = Ret (Some (x, y)) ->
  exists i j,
    denote (len ts) lo hi = Some (i, j) /\ i <= j /\ j <= len ts /\
    x = offN ts i /\ y = offN ts j /\ x <= y /\ y <= len (from_tokens_enc ts) /\
    bytes_at (from_tokens_enc ts) x y = from_tokens_enc (sub_tokens ts (N.to_nat i) (N.to_nat j)) /\
    ptokens (bytes_at (from_tokens_enc ts) x y) = sub_tokens ts (N.to_nat i) (N.to_nat j).
Proof.
  intros Hts H. rewrite get_bounds_denote in H by exact Hts.
  destruct (denote (len ts) lo hi) as [[i j]|] eqn:Hd; cbn [option_map] in H; [|discriminate].
  unfold off_pair in H. cbn [fst snd] in H. inversion H; subst x y. clear H.
  destruct (denote_wf _ _ _ _ _ Hd) as [Hij Hjn].
  assert (Hv := view_content_N ts i j Hij).
  exists i, j. repeat split; try assumption.
  - apply off_mono. lia.
  - apply off_le_len.
  - rewrite Hv. apply ptokens_fte, toks_ok_sub, Hts.
Qed.

Theorem get_bounds_none_iff ts lo hi : toks_ok ts ->
  (get_bounds (from_tokens_enc ts) lo hi = Ret None <-> denote (len ts) lo hi = None).
Proof.
  intros Hts. rewrite get_bounds_denote by exact Hts.
  destruct (denote (len ts) lo hi); cbn [option_map]; split; intros H; try discriminate; reflexivity.
Qed.

(* the view of a pointer made of valid tokens is a valid pointer *)
Theorem get_bounds_valid ts lo hi x y : forallb valid_tok ts = true ->
  get_bounds (from_tokens_enc ts) lo hi = Ret (Some (x, y)) ->
  valid_ptr (bytes_at (from_tokens_enc ts) x y) = true.
Proof.
  intros Hv H. destruct (get_bounds_view ts lo hi x y (valid_toks_ok ts Hv) H)
    as (i & j & _ & _ & _ & _ & _ & _ & _ & Hb & _).
  rewrite Hb. apply valid_ptr_from_tokens_enc, forallb_sub, Hv.
Qed.

(* ---- nth_N ------------------------------------------------------------------------------------ *)

Lemma nth_N_nth_error {A} (l : list A) : forall i, nth_N l i = nth_error l (N.to_nat i).
Proof.
  induction l as [|x l IH]; intros i; cbn [nth_N].
  - destruct (N.to_nat i); reflexivity.
  - destruct (N.eqb_spec i 0) as [->|Hi]; [reflexivity|].
    rewrite IH. replace (N.to_nat i) with (S (N.to_nat (i - 1))) by lia. reflexivity.
Qed.

Lemma nth_error_no_slash t i : no_slash t = true -> nth_error t i <> Some SLASH.
Proof.
  intros Ht H. apply nth_error_In in H. unfold no_slash in Ht. rewrite forallb_forall in Ht.
  specialize (Ht _ H). rewrite N.eqb_refl in Ht. discriminate.
Qed.

(* ---- get(usize) (item 9) -------------------------------------------------------------------- *)

Theorem get_tok_spec ts i : toks_ok ts -> get_tok (from_tokens_enc ts) i = nth_N ts i.
Proof. intros Hts. unfold get_tok. rewrite ptokens_fte by exact Hts. reflexivity. Qed.

Lemma fte_split_at_token ts i t : nth_error ts i = Some t ->
  from_tokens_enc ts = from_tokens_enc (firstn i ts) ++ SLASH :: t ++ from_tokens_enc (skipn (S i) ts)
  /\ skipn i ts = t :: skipn (S i) ts.
Proof.
  intros H. destruct (nth_error_split ts i H) as (l1 & l2 & E & Hl). subst i ts.
  rewrite firstn_app_exact, skipn_app_exact.
  assert (E2 : skipn (S (length l1)) (l1 ++ t :: l2) = l2).
  { replace (S (length l1)) with (length (l1 ++ [t])) by (rewrite app_length; cbn; lia).
    replace (l1 ++ t :: l2) with ((l1 ++ [t]) ++ l2) by (rewrite <- app_assoc; reflexivity).
    apply skipn_app_exact. }
  rewrite E2, from_tokens_enc_app, from_tokens_enc_cons. split; reflexivity.
Qed.

(* token i sits right after the separator at off i, and off (i+1) is its end *)
Theorem token_bytes ts i t : nth_error ts i = Some t ->
  nth_N (from_tokens_enc ts) (off ts i) = Some SLASH /\
  bytes_at (from_tokens_enc ts) (off ts i + 1) (off ts i + 1 + len t) = t /\
  off ts (S i) = off ts i + 1 + len t.
Proof.
  intros H. destruct (fte_split_at_token ts i t H) as [E Es].
  set (A := from_tokens_enc (firstn i ts)) in *.
  assert (Ho : off ts i = len A) by reflexivity.
  split; [|split].
  - rewrite nth_N_nth_error, E, Ho, to_nat_len. rewrite nth_error_app2 by lia.
    rewrite Nat.sub_diag. reflexivity.
  - unfold bytes_at. rewrite E, Ho.
    replace (N.to_nat (len A + 1 + len t - (len A + 1))) with (length t) by (unfold len; lia).
    replace (N.to_nat (len A + 1)) with (length (A ++ [SLASH])) by (rewrite app_length; unfold len; cbn; lia).
    replace (A ++ SLASH :: t ++ from_tokens_enc (skipn (S i) ts))
      with ((A ++ [SLASH]) ++ t ++ from_tokens_enc (skipn (S i) ts)) by (rewrite <- app_assoc; reflexivity).
    rewrite skipn_app_exact. apply firstn_app_exact.
  - unfold off. replace (S i) with (i + 1)%nat by lia. rewrite offn_add, Es.
    cbn [firstn]. rewrite length_from_tokens_enc_cons. cbn [from_tokens_enc flat_map length].
    unfold len. lia.
Qed.

Theorem get_tok_bytes ts i t : toks_ok ts -> get_tok (from_tokens_enc ts) i = Some t ->
  nth_N (from_tokens_enc ts) (offN ts i) = Some SLASH /\
  bytes_at (from_tokens_enc ts) (offN ts i + 1) (offN ts i + 1 + len t) = t /\
  offN ts (i + 1) = offN ts i + 1 + len t.
Proof.
  intros Hts H. rewrite get_tok_spec, nth_N_nth_error in H by exact Hts.
  unfold offN. replace (N.to_nat (i + 1)) with (S (N.to_nat i)) by lia.
  apply token_bytes, H.
Qed.

(* ---- split_at (item 10) --------------------------------------------------------------------- *)

Theorem split_at_iff p k h t :
  split_at p k = Some (h, t) <->
  nth_N p k = Some SLASH /\ h = firstn (N.to_nat k) p /\ t = skipn (N.to_nat k) p.
Proof.
  unfold split_at, get_byte. destruct (nth_N p k) as [b|]; [|split; [discriminate|intros [H _]; discriminate]].
  destruct (N.eqb_spec b SLASH) as [->|Hb]; split.
  - intros H. inversion H. auto.
  - intros (_ & -> & ->). reflexivity.
  - discriminate.
  - intros [H _]. inversion H. contradiction.
Qed.

Theorem split_at_none_iff p k : split_at p k = None <-> nth_N p k <> Some SLASH.
Proof.
  unfold split_at, get_byte. destruct (nth_N p k) as [b|]; [|split; [discriminate|reflexivity]].
  destruct (N.eqb_spec b SLASH) as [->|Hb]; split; try discriminate; try reflexivity.
  - intros H. exfalso. apply H. reflexivity.
  - intros _ H. inversion H. contradiction.
Qed.

(* no separator at or beyond the end of the text *)
Theorem split_at_beyond p k : len p <= k -> split_at p k = None.
Proof.
  intros H. apply split_at_none_iff. rewrite nth_N_nth_error.
  assert (E : nth_error p (N.to_nat k) = None) by (apply nth_error_None; unfold len in H; lia).
  rewrite E. discriminate.
Qed.

Theorem split_at_concat p k h t : split_at p k = Some (h, t) -> h ++ t = p.
Proof. intros H. apply split_at_iff in H as (_ & -> & ->). apply firstn_skipn. Qed.

(* the separators of a pointer text are exactly the token offsets *)
Lemma slash_at_off ts j : (j < length ts)%nat -> nth_N (from_tokens_enc ts) (off ts j) = Some SLASH.
Proof.
  intros Hj. destruct (nth_error ts j) as [t|] eqn:E.
  - apply (token_bytes ts j t E).
  - apply nth_error_None in E. lia.
Qed.

Lemma slash_is_off ts : toks_ok ts -> forall k,
  nth_N (from_tokens_enc ts) k = Some SLASH -> exists j, (j < length ts)%nat /\ k = off ts j.
Proof.
  intros Hts. induction Hts as [|t r Ht Hr IH]; intros k H.
  - rewrite nth_N_nth_error in H. destruct (N.to_nat k); discriminate.
  - destruct (N.eqb_spec k 0) as [->|Hk].
    + exists 0%nat. cbn [length]. split; [lia|reflexivity].
    + rewrite from_tokens_enc_cons in H. cbn [nth_N] in H.
      destruct (N.eqb_spec k 0) as [|_]; [contradiction|].
      destruct (N.ltb_spec (k - 1) (len t)) as [Hlt|Hge].
      * exfalso. rewrite nth_N_nth_error, nth_error_app1 in H by (unfold len in Hlt; lia).
        exact (nth_error_no_slash t _ Ht H).
      * rewrite nth_N_nth_error, nth_error_app2 in H by (unfold len in Hge; lia).
        replace (N.to_nat (k - 1) - length t)%nat with (N.to_nat (k - 1 - len t)) in H by (unfold len; lia).
        rewrite <- nth_N_nth_error in H. destruct (IH _ H) as (j & Hj & Ek).
        exists (S j). cbn [length]. split; [lia|]. rewrite off_cons_S. lia.
Qed.

Theorem slash_positions ts k : toks_ok ts ->
  (nth_N (from_tokens_enc ts) k = Some SLASH <-> exists j, (j < length ts)%nat /\ k = off ts j).
Proof.
  intros Hts. split; [apply slash_is_off, Hts|]. intros (j & Hj & ->). apply slash_at_off, Hj.
Qed.

Lemma to_nat_off ts j : N.to_nat (off ts j) = length (from_tokens_enc (firstn j ts)).
Proof. unfold off, offn. lia. Qed.

(* splitting at the offset of token j gives the pointers of the first j / the remaining tokens *)
Theorem split_at_off ts j : (j < length ts)%nat ->
  split_at (from_tokens_enc ts) (off ts j)
  = Some (from_tokens_enc (firstn j ts), from_tokens_enc (skipn j ts)).
Proof.
  intros Hj. apply split_at_iff. split; [apply slash_at_off, Hj|].
  rewrite to_nat_off.
  assert (E : from_tokens_enc ts = from_tokens_enc (firstn j ts) ++ from_tokens_enc (skipn j ts)).
  { rewrite <- from_tokens_enc_app, firstn_skipn. reflexivity. }
  rewrite E, firstn_app_exact, skipn_app_exact. split; reflexivity.
Qed.

Theorem split_at_tokens ts k h t : toks_ok ts ->
  split_at (from_tokens_enc ts) k = Some (h, t) ->
  exists j, (j < length ts)%nat /\ k = off ts j /\
    h = from_tokens_enc (firstn j ts) /\ t = from_tokens_enc (skipn j ts).
Proof.
  intros Hts H. pose proof H as H'. apply split_at_iff in H' as (Hs & _ & _).
  destruct (slash_is_off ts Hts k Hs) as (j & Hj & ->).
  rewrite split_at_off in H by exact Hj. inversion H. exists j. auto.
Qed.

(* split_at succeeds exactly at token offsets *)
Theorem split_at_some_iff ts k : toks_ok ts ->
  (split_at (from_tokens_enc ts) k <> None <-> exists j, (j < length ts)%nat /\ k = off ts j).
Proof.
  intros Hts. rewrite <- slash_positions by exact Hts. rewrite split_at_none_iff.
  destruct (nth_N (from_tokens_enc ts) k) as [b|]; [|split; [intros H; exfalso; apply H; discriminate|discriminate]].
  destruct (N.eq_dec b SLASH) as [->|Hb]; split; intros H; try reflexivity.
  - intros H'. apply H'. reflexivity.
  - exfalso. apply H. intros E. inversion E. contradiction.
  - inversion H. contradiction.
Qed.

(* both pieces of a valid pointer are valid pointers *)
Theorem split_at_valid ts k h t : forallb valid_tok ts = true ->
  split_at (from_tokens_enc ts) k = Some (h, t) -> valid_ptr h = true /\ valid_ptr t = true.
Proof.
  intros Hv H. destruct (split_at_tokens ts k h t (valid_toks_ok ts Hv) H) as (j & _ & _ & -> & ->).
  split; apply valid_ptr_from_tokens_enc; rewrite forallb_forall in *; intros x Hx; apply Hv.
  - apply (In_firstn _ _ _ Hx).
  - apply (In_skipn _ _ _ Hx).
Qed.

(* ---- split_front / split_back / parent (item 11) ---------------------------------------------- *)

Theorem split_front_spec ts : toks_ok ts ->
  split_front (from_tokens_enc ts) = match ts with [] => None | t :: r => Some (t, from_tokens_enc r) end.
Proof.
  intros Hts. destruct Hts as [|t r Ht Hr]; [reflexivity|]. apply split_front_cons, Ht.
Qed.

Theorem split_front_none_iff p : split_front p = None <-> p = [].
Proof.
  unfold split_front. destruct p as [|b r]; cbn [is_root]; [tauto|].
  destruct (find SLASH (skipn 1 (b :: r))); split; discriminate.
Qed.

Theorem split_front_none_tokens ts : split_front (from_tokens_enc ts) = None <-> ts = [].
Proof.
  rewrite split_front_none_iff. destruct ts as [|t r]; [tauto|].
  rewrite from_tokens_enc_cons. split; discriminate.
Qed.

(* for every text: the pieces re-concatenate behind the first byte, the token is slash-free,
   the rest is pointer-shaped *)
Theorem split_front_concat_gen p t rest : split_front p = Some (t, rest) ->
  firstn 1 p ++ t ++ rest = p /\ no_slash t = true /\ ptr_shaped rest.
Proof.
  unfold split_front. destruct p as [|b r]; cbn [is_root]; [discriminate|]. cbn [skipn firstn app].
  destruct (find SLASH r) as [i|] eqn:E; intros H; inversion H; subst; clear H.
  - rewrite firstn_skipn. split; [reflexivity|].
    unfold find in E. destruct (position_some _ _ _ E) as (a & c & r' & -> & <- & Hc & Ha).
    apply N.eqb_eq in Hc. subst c. rewrite firstn_app_exact, skipn_app_exact. split.
    + unfold no_slash. rewrite forallb_forall in *. intros x Hx. rewrite N.eqb_sym. apply Ha, Hx.
    + right. eauto.
  - rewrite app_nil_r. split; [reflexivity|]. split; [|left; reflexivity].
    unfold find in E. apply position_none in E. unfold no_slash.
    rewrite forallb_forall in *. intros x Hx. rewrite N.eqb_sym. apply E, Hx.
Qed.

Theorem split_front_concat ts t rest :
  split_front (from_tokens_enc ts) = Some (t, rest) -> SLASH :: t ++ rest = from_tokens_enc ts.
Proof.
  intros H. destruct (split_front_concat_gen _ _ _ H) as (E & _ & _).
  destruct ts as [|u r]; [discriminate|]. rewrite from_tokens_enc_cons in *. exact E.
Qed.

Lemma rfind_some c s : forall i, rfind c s = Some i ->
  exists a b, s = a ++ c :: b /\ length a = i /\ rfind c b = None.
Proof.
  induction s as [|x r IH]; cbn [rfind]; intros i H; [discriminate|].
  destruct (rfind c r) as [j|] eqn:E.
  - inversion H; subst i. destruct (IH j eq_refl) as (a & b & -> & Hl & Hb).
    exists (x :: a), b. cbn [app length]. rewrite Hl. auto.
  - destruct (N.eqb_spec c x) as [->|Hne]; [|discriminate]. inversion H; subst i.
    exists [], r. auto.
Qed.

Lemma rfind_none_no_slash b : rfind SLASH b = None -> no_slash b = true.
Proof.
  induction b as [|x r IH]; cbn [rfind]; intros H; [reflexivity|].
  destruct (rfind SLASH r); [discriminate|]. destruct (N.eqb_spec SLASH x) as [|Hne]; [discriminate|].
  rewrite no_slash_cons, IH by reflexivity. destruct (N.eqb_spec x SLASH); [congruence|reflexivity].
Qed.

(* for every text: the pieces re-concatenate around the last '/', the token is slash-free *)
Theorem split_back_concat p f t : split_back p = Some (f, t) ->
  f ++ SLASH :: t = p /\ no_slash t = true.
Proof.
  unfold split_back, rsplit_once. destruct (rfind SLASH p) as [i|] eqn:E; [|discriminate].
  destruct (rfind_some _ _ _ E) as (a & b & -> & <- & Hb).
  rewrite firstn_app_exact.
  assert (E2 : skipn (S (length a)) (a ++ SLASH :: b) = b).
  { replace (S (length a)) with (length (a ++ [SLASH])) by (rewrite app_length; cbn; lia).
    replace (a ++ SLASH :: b) with ((a ++ [SLASH]) ++ b) by (rewrite <- app_assoc; reflexivity).
    apply skipn_app_exact. }
  rewrite E2. intros H. inversion H; subst f t. split; [reflexivity|apply rfind_none_no_slash, Hb].
Qed.

Theorem split_back_none_tokens ts : toks_ok ts -> (split_back (from_tokens_enc ts) = None <-> ts = []).
Proof.
  intros Hts. destruct (tokens_snoc_cases ts) as [->|(a & x & ->)]; [split; reflexivity|].
  rewrite split_back_snoc.
  - split; [discriminate|]. intros H. destruct a; discriminate.
  - unfold toks_ok in Hts. apply Forall_app in Hts as [_ Hx]. inversion Hx; assumption.
Qed.

Theorem split_back_tokens ts f t : toks_ok ts ->
  split_back (from_tokens_enc ts) = Some (f, t) ->
  exists ts', ts = ts' ++ [t] /\ f = from_tokens_enc ts'.
Proof.
  intros Hts H. destruct (tokens_snoc_cases ts) as [->|(a & x & ->)]; [discriminate|].
  rewrite split_back_snoc in H.
  - inversion H; subst. eauto.
  - unfold toks_ok in Hts. apply Forall_app in Hts as [_ Hx]. inversion Hx; assumption.
Qed.

Theorem parent_split_back p : parent p = option_map fst (split_back p).
Proof. reflexivity. Qed.

Theorem parent_snoc ts t : no_slash t = true ->
  parent (from_tokens_enc (ts ++ [t])) = Some (from_tokens_enc ts).
Proof. intros Ht. rewrite parent_split_back, split_back_snoc by exact Ht. reflexivity. Qed.

Theorem parent_none_tokens ts : toks_ok ts -> (parent (from_tokens_enc ts) = None <-> ts = []).
Proof.
  intros Hts. rewrite <- (split_back_none_tokens ts Hts), parent_split_back.
  destruct (split_back (from_tokens_enc ts)); cbn [option_map]; split; intros H; try discriminate; reflexivity.
Qed.

(* the parent is the view `..n-1`, the same bytes get(..n-1) returns *)
Theorem parent_is_range_to ts t : toks_ok (ts ++ [t]) ->
  get_range_to (from_tokens_enc (ts ++ [t])) (len ts) = Ret (Some (0, len (from_tokens_enc ts))) /\
  parent (from_tokens_enc (ts ++ [t])) = Some (bytes_at (from_tokens_enc (ts ++ [t])) 0 (len (from_tokens_enc ts))).
Proof.
  intros Hts. pose proof Hts as Hts'. unfold toks_ok in Hts'. apply Forall_app in Hts' as [_ Hx]. inversion Hx as [|? ? Ht _]; subst.
  split.
  - rewrite get_range_to_spec by exact Hts. rewrite len_app. cbn [len length].
    bdN; try lia. unfold offN, off, offn. rewrite to_nat_len, firstn_app_exact. reflexivity.
  - rewrite parent_snoc by exact Ht. unfold bytes_at. rewrite N.sub_0_r. cbn [N.to_nat skipn].
    rewrite to_nat_len, from_tokens_enc_app, firstn_app_exact. reflexivity.
Qed.

(* ---- the counters never overflow: `usize` may be modelled by unbounded N ---------------------- *)

(* The same five loops with every addition checked against a maximum (None = the addition
   would exceed it): Mi for the token counter `idx`, Mo for `offset` and `len t + 1`.
   With Mi = the token count and Mo = len p no check ever fails and the checked loop returns
   exactly what the unbounded model returns: every `idx` computed is <= the token count
   (<= len p), every `offset` and every `len t + 1` is <= len p.  Hence nothing overflows
   on a text of at most usize::MAX bytes. *)
Definition add_chk (M a b : N) : option N := if a + b <=? M then Some (a + b) else None.

(* idx += 1; offset += token.encoded().len() + 1 *)
Definition step_chk (Mi Mo idx offset : N) (t : str) : option (N * N) :=
  match add_chk Mi idx 1, add_chk Mo (len t) 1 with
  | Some idx', Some l1 =>
      match add_chk Mo offset l1 with Some offset' => Some (idx', offset') | None => None end
  | _, _ => None
  end.

Lemma step_chk_ok Mi Mo idx offset t r :
  idx + len (t :: r) <= Mi -> offset + len (from_tokens_enc (t :: r)) <= Mo ->
  step_chk Mi Mo idx offset t = Some (idx + 1, offset + (len t + 1)) /\
  idx + 1 + len r <= Mi /\ offset + (len t + 1) + len (from_tokens_enc r) <= Mo.
Proof.
  intros Hi Ho. rewrite len_cons in Hi. rewrite from_tokens_enc_cons, len_cons, len_app in Ho.
  unfold step_chk, add_chk. bdN; try lia. repeat split; lia.
Qed.

Fixpoint range_loop_chk (Mi Mo : N) (ts : list str) (idx offset start end_ : N) (so : option N)
  : option (N * N * option N * option N) :=
  match ts with
  | [] => Some (idx, offset, so, None)
  | t :: r =>
      let so' := if idx =? start then Some offset else so in
      if idx =? end_ then Some (idx, offset, so', Some offset)
      else match step_chk Mi Mo idx offset t with
           | Some (idx', offset') => range_loop_chk Mi Mo r idx' offset' start end_ so'
           | None => None
           end
  end.

Fixpoint from_loop_chk (Mi Mo : N) (ts : list str) (idx offset start : N) : option (option N) :=
  match ts with
  | [] => Some None
  | t :: r => if idx =? start then Some (Some offset)
              else match step_chk Mi Mo idx offset t with
                   | Some (idx', offset') => from_loop_chk Mi Mo r idx' offset' start
                   | None => None
                   end
  end.

Fixpoint to_loop_chk (Mi Mo : N) (ts : list str) (idx offset end_ : N) : option (N * N * option N) :=
  match ts with
  | [] => Some (idx, offset, None)
  | t :: r => if idx =? end_ then Some (idx, offset, Some offset)
              else match step_chk Mi Mo idx offset t with
                   | Some (idx', offset') => to_loop_chk Mi Mo r idx' offset' end_
                   | None => None
                   end
  end.

(* the inclusive loops add to offset first, then compare; enumerate() bumps idx on the next turn *)
Fixpoint incl_loop_chk (Mi Mo : N) (ts : list str) (idx offset start end_ : N) (so : option N)
  : option (option N * option N) :=
  match ts with
  | [] => Some (so, None)
  | t :: r =>
      let so' := if idx =? start then Some offset else so in
      match step_chk Mi Mo idx offset t with
      | Some (idx', offset') =>
          if idx =? end_ then Some (so', Some offset')
          else incl_loop_chk Mi Mo r idx' offset' start end_ so'
      | None => None
      end
  end.

Fixpoint to_incl_loop_chk (Mi Mo : N) (ts : list str) (idx offset end_ : N) : option (option N) :=
  match ts with
  | [] => Some None
  | t :: r =>
      match step_chk Mi Mo idx offset t with
      | Some (idx', offset') =>
          if idx =? end_ then Some (Some offset') else to_incl_loop_chk Mi Mo r idx' offset' end_
      | None => None
      end
  end.

Lemma range_loop_chk_ok Mi Mo ts : forall idx o s e so,
  idx + len ts <= Mi -> o + len (from_tokens_enc ts) <= Mo ->
  range_loop_chk Mi Mo ts idx o s e so = Some (range_loop ts idx o s e so).
Proof.
  induction ts as [|t r IH]; intros idx o s e so Hi Ho; cbn [range_loop_chk range_loop]; [reflexivity|].
  destruct (step_chk_ok Mi Mo idx o t r Hi Ho) as (-> & Hi' & Ho').
  destruct (idx =? e); [reflexivity|]. apply IH; assumption.
Qed.

Lemma from_loop_chk_ok Mi Mo ts : forall idx o s,
  idx + len ts <= Mi -> o + len (from_tokens_enc ts) <= Mo ->
  from_loop_chk Mi Mo ts idx o s = Some (from_loop ts idx o s).
Proof.
  induction ts as [|t r IH]; intros idx o s Hi Ho; cbn [from_loop_chk from_loop]; [reflexivity|].
  destruct (step_chk_ok Mi Mo idx o t r Hi Ho) as (-> & Hi' & Ho').
  destruct (idx =? s); [reflexivity|]. apply IH; assumption.
Qed.

Lemma to_loop_chk_ok Mi Mo ts : forall idx o e,
  idx + len ts <= Mi -> o + len (from_tokens_enc ts) <= Mo ->
  to_loop_chk Mi Mo ts idx o e = Some (to_loop ts idx o e).
Proof.
  induction ts as [|t r IH]; intros idx o e Hi Ho; cbn [to_loop_chk to_loop]; [reflexivity|].
  destruct (step_chk_ok Mi Mo idx o t r Hi Ho) as (-> & Hi' & Ho').
  destruct (idx =? e); [reflexivity|]. apply IH; assumption.
Qed.

Lemma incl_loop_chk_ok Mi Mo ts : forall idx o s e so,
  idx + len ts <= Mi -> o + len (from_tokens_enc ts) <= Mo ->
  incl_loop_chk Mi Mo ts idx o s e so = Some (incl_loop ts idx o s e so).
Proof.
  induction ts as [|t r IH]; intros idx o s e so Hi Ho; cbn [incl_loop_chk incl_loop]; [reflexivity|].
  destruct (step_chk_ok Mi Mo idx o t r Hi Ho) as (-> & Hi' & Ho').
  destruct (idx =? e); [reflexivity|]. apply IH; assumption.
Qed.

Lemma to_incl_loop_chk_ok Mi Mo ts : forall idx o e,
  idx + len ts <= Mi -> o + len (from_tokens_enc ts) <= Mo ->
  to_incl_loop_chk Mi Mo ts idx o e = Some (to_incl_loop ts idx o e).
Proof.
  induction ts as [|t r IH]; intros idx o e Hi Ho; cbn [to_incl_loop_chk to_incl_loop]; [reflexivity|].
  destruct (step_chk_ok Mi Mo idx o t r Hi Ho) as (-> & Hi' & Ho').
  destruct (idx =? e); [reflexivity|]. apply IH; assumption.
Qed.

(* as the getters run them: from (0, 0) over the tokens of a text that fits in usize.
   Holds for EVERY text p (pointer-shaped or not) and all bounds. *)
Lemma tokens_fit p : len (ptokens p) <= len p /\ len (from_tokens_enc (ptokens p)) <= len p.
Proof.
  rewrite ptokens_tokens. destruct p as [|b r]; [cbn; lia|].
  unfold tokens. cbn [split_on]. destruct (N.eqb_spec b SLASH) as [->|Hb].
  - cbn [tl]. pose proof (from_tokens_enc_split r) as E.
    pose proof (split_on_nonempty SLASH r) as Hne.
    destruct (split_on SLASH r) as [|h l] eqn:Es; [contradiction|]. clear Hne.
    assert (L : len (from_tokens_enc (h :: l)) = len (SLASH :: r)) by (rewrite E; reflexivity).
    pose proof (count_le_len (h :: l)). lia.
  - pose proof (from_tokens_enc_split r) as E.
    pose proof (split_on_nonempty SLASH r) as Hne.
    destruct (split_on SLASH r) as [|h l] eqn:Es; [contradiction|]. clear Hne. cbn [tl].
    assert (L : len (from_tokens_enc (h :: l)) = len (SLASH :: r)) by (rewrite E; reflexivity).
    rewrite from_tokens_enc_cons, len_cons, len_app in L. rewrite !len_cons in *.
    pose proof (count_le_len l). lia.
Qed.

Theorem loops_counters_bounded p Mi Mo : len (ptokens p) <= Mi -> len p <= Mo ->
  (forall s e so, range_loop_chk Mi Mo (ptokens p) 0 0 s e so = Some (range_loop (ptokens p) 0 0 s e so)) /\
  (forall s, from_loop_chk Mi Mo (ptokens p) 0 0 s = Some (from_loop (ptokens p) 0 0 s)) /\
  (forall e, to_loop_chk Mi Mo (ptokens p) 0 0 e = Some (to_loop (ptokens p) 0 0 e)) /\
  (forall s e so, incl_loop_chk Mi Mo (ptokens p) 0 0 s e so = Some (incl_loop (ptokens p) 0 0 s e so)) /\
  (forall e, to_incl_loop_chk Mi Mo (ptokens p) 0 0 e = Some (to_incl_loop (ptokens p) 0 0 e)).
Proof.
  intros Hi Ho. destruct (tokens_fit p) as [H1 H2].
  repeat split; intros;
    [apply range_loop_chk_ok|apply from_loop_chk_ok|apply to_loop_chk_ok
    |apply incl_loop_chk_ok|apply to_incl_loop_chk_ok]; lia.
Qed.

(* tight: idx never exceeds the token count, offset never exceeds the text length *)
Corollary loops_counters_tight p :
  let Mi := len (ptokens p) in let Mo := len p in
  (forall s e so, range_loop_chk Mi Mo (ptokens p) 0 0 s e so = Some (range_loop (ptokens p) 0 0 s e so)) /\
  (forall s, from_loop_chk Mi Mo (ptokens p) 0 0 s = Some (from_loop (ptokens p) 0 0 s)) /\
  (forall e, to_loop_chk Mi Mo (ptokens p) 0 0 e = Some (to_loop (ptokens p) 0 0 e)) /\
  (forall s e so, incl_loop_chk Mi Mo (ptokens p) 0 0 s e so = Some (incl_loop (ptokens p) 0 0 s e so)) /\
  (forall e, to_incl_loop_chk Mi Mo (ptokens p) 0 0 e = Some (to_incl_loop (ptokens p) 0 0 e)).
Proof. cbv zeta. apply loops_counters_bounded; lia. Qed.

Corollary loops_no_overflow p : len p <= USIZE_MAX ->
  let M := USIZE_MAX in
  (forall s e so, range_loop_chk M M (ptokens p) 0 0 s e so = Some (range_loop (ptokens p) 0 0 s e so)) /\
  (forall s, from_loop_chk M M (ptokens p) 0 0 s = Some (from_loop (ptokens p) 0 0 s)) /\
  (forall e, to_loop_chk M M (ptokens p) 0 0 e = Some (to_loop (ptokens p) 0 0 e)) /\
  (forall s e so, incl_loop_chk M M (ptokens p) 0 0 s e so = Some (incl_loop (ptokens p) 0 0 s e so)) /\
  (forall e, to_incl_loop_chk M M (ptokens p) 0 0 e = Some (to_incl_loop (ptokens p) 0 0 e)).
Proof.
  intros Hp. cbv zeta. destruct (tokens_fit p) as [H1 _]. apply loops_counters_bounded; lia.
Qed.

(* ---- adjacent views re-concatenate ------------------------------------------------------------ *)

Lemma skipn_add {A} (l : list A) i d : skipn d (skipn i l) = skipn (i + d) l.
Proof.
  revert l. induction i as [|i IH]; intros l; [reflexivity|].
  destruct l as [|x l]; cbn [Nat.add skipn]; [destruct d; reflexivity|apply IH].
Qed.

Lemma sub_tokens_app ts i j k : (i <= j <= k)%nat ->
  sub_tokens ts i j ++ sub_tokens ts j k = sub_tokens ts i k.
Proof.
  intros H. unfold sub_tokens. replace (k - i)%nat with ((j - i) + (k - j))%nat by lia.
  rewrite firstn_add, skipn_add. replace (i + (j - i))%nat with j by lia. reflexivity.
Qed.

Lemma sub_tokens_all ts : sub_tokens ts 0 (length ts) = ts.
Proof. unfold sub_tokens. cbn [skipn]. rewrite Nat.sub_0_r. apply firstn_all. Qed.

Theorem views_concat ts i j k : (i <= j <= k)%nat ->
  bytes_at (from_tokens_enc ts) (off ts i) (off ts j) ++ bytes_at (from_tokens_enc ts) (off ts j) (off ts k)
  = bytes_at (from_tokens_enc ts) (off ts i) (off ts k).
Proof.
  intros H. rewrite !view_content by lia. rewrite <- from_tokens_enc_app, sub_tokens_app by exact H.
  reflexivity.
Qed.

Theorem bytes_at_whole p : bytes_at p 0 (len p) = p.
Proof. unfold bytes_at. rewrite N.sub_0_r, to_nat_len. cbn [N.to_nat skipn]. apply firstn_all. Qed.

(* get(..b) and get(b..), when both exist, are the two halves of the pointer *)
Theorem range_to_from_concat ts b x1 y1 x2 y2 : toks_ok ts ->
  get_range_to (from_tokens_enc ts) b = Ret (Some (x1, y1)) ->
  get_range_from (from_tokens_enc ts) b = Ret (Some (x2, y2)) ->
  y1 = x2 /\
  bytes_at (from_tokens_enc ts) x1 y1 ++ bytes_at (from_tokens_enc ts) x2 y2 = from_tokens_enc ts.
Proof.
  intros Hts H1 H2. rewrite get_range_to_spec in H1 by exact Hts. rewrite get_range_from_spec in H2 by exact Hts.
  destruct (N.leb_spec b (len ts)) as [Hb|Hb]; [|discriminate].
  destruct (N.ltb_spec b (len ts)) as [Hb'|Hb']; [|discriminate].
  inversion H1; inversion H2; subst. split; [reflexivity|].
  rewrite <- off_length. rewrite <- (off_0 ts). unfold offN.
  rewrite views_concat by (unfold len in *; lia).
  rewrite off_0, off_length. apply bytes_at_whole.
Qed.

(* ---- every pointer-shaped text (in particular every valid pointer) ----------------------------- *)

Theorem get_bounds_ptr p lo hi : ptr_shaped p ->
  get_bounds p lo hi = Ret (option_map (off_pair (tokens p)) (denote (len (tokens p)) lo hi)).
Proof.
  intros Hp. rewrite <- (from_tokens_enc_tokens p Hp) at 1. apply get_bounds_denote, tokens_noslash.
Qed.

Theorem get_bounds_valid_ptr p lo hi : valid_ptr p = true ->
  get_bounds p lo hi = Ret (option_map (off_pair (tokens p)) (denote (len (tokens p)) lo hi)).
Proof. intros Hp. apply get_bounds_ptr, valid_ptr_shaped, Hp. Qed.

Theorem get_bounds_valid_ptr_view p lo hi x y : valid_ptr p = true ->
  get_bounds p lo hi = Ret (Some (x, y)) ->
  x <= y /\ y <= len p /\ valid_ptr (bytes_at p x y) = true /\
  exists i j, denote (len (tokens p)) lo hi = Some (i, j) /\
    tokens (bytes_at p x y) = sub_tokens (tokens p) (N.to_nat i) (N.to_nat j).
Proof.
  intros Hp H. destruct (valid_ptr_decompose p Hp) as [E Hv].
  rewrite E in H. pose proof (get_bounds_valid _ _ _ _ _ Hv H) as Hvalid.
  destruct (get_bounds_view _ _ _ _ _ (valid_toks_ok _ Hv) H)
    as (i & j & Hd & _ & _ & _ & _ & Hxy & Hy & _ & Ht).
  rewrite <- E in *. repeat split; try assumption. exists i, j. split; [exact Hd|exact Ht].
Qed.
