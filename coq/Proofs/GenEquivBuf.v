(* Proofs/GenEquivBuf.v -- part of the REGENERATED-MODEL tie (DESIGN 13): the PointerBuf mutators of
   Generated/ScanBuf.v (re-translated from src/pointer.rs on every run; a `&mut self` method returns the pair
   (self afterwards, result)) equal the hand-written byte-splicing models of Model/Pointer.v, for ALL inputs.
   (PointerBuf::replace and from_tokens are modelled by hand only.) *)

From JP Require Import Proofs.GenEquivBase Generated.ScanToken Generated.ScanPtrOps Generated.ScanBuf Proofs.GenEquivPtrOps.

Arguments N.add : simpl never.
Arguments N.sub : simpl never.
Arguments N.eqb : simpl never.
Arguments N.ltb : simpl never.
Arguments N.leb : simpl never.
Arguments N.of_nat : simpl never.

Definition tokO (t : str) : Token := mk_Token (Cow_Owned t).

Lemma rfind_lt c s i : rfind c s = Some i -> (i < length s)%nat.
Proof.
  revert i; induction s as [|b r IH]; intros i; cbn [rfind]; [discriminate|].
  destruct (rfind c r) as [j|].
  - intros [= <-]. specialize (IH j eq_refl). cbn [length]. lia.
  - destruct (c =? b); [intros [= <-]; cbn [length]; lia|discriminate].
Qed.

Lemma find_lt c s i : find c s = Some i -> (i < length s)%nat.
Proof. unfold find. apply position_lt. Qed.

Theorem gen_push_front_eq (p : str) (t : Token) :
  gen_PointerBuf_push_front p t = Ret (push_front p (cow_text (Token_inner t)), tt).
Proof.
  unfold gen_PointerBuf_push_front, str_insert, push_front.
  destruct (N.leb_spec 0 (len p)) as [_|H]; [|lia].
  cbn [N.to_nat firstn skipn app]. unfold gen_Token_encoded.
  rewrite len_cons. destruct (N.leb_spec 1 (len p + 1)) as [_|H]; [|lia].
  change (N.to_nat 1) with 1%nat. cbn [firstn skipn app]. reflexivity.
Qed.

Theorem gen_push_back_eq (p : str) (t : Token) :
  gen_PointerBuf_push_back p t = Ret (push_back p (cow_text (Token_inner t)), tt).
Proof.
  unfold gen_PointerBuf_push_back, push_back, gen_Token_encoded. rewrite <- app_assoc. reflexivity.
Qed.

Theorem gen_pop_back_eq (p : str) :
  gen_PointerBuf_pop_back p = Ret (let '(p', r) := pop_back p in (p', option_map tokO r)).
Proof.
  unfold gen_PointerBuf_pop_back, pop_back, rfindN. change SLASH with 47.
  destruct (rfind 47 p) as [i|] eqn:R; cbn [option_map]; [|reflexivity].
  pose proof (rfind_lt _ _ _ R) as Hi.
  unfold str_split_off, len.
  destruct (N.leb_spec (N.of_nat i + 1) (N.of_nat (length p))) as [_|H]; [|lia].
  replace (N.to_nat (N.of_nat i + 1)) with (S i) by lia. cbn [fst snd]. reflexivity.
Qed.

Theorem gen_pop_front_eq (p : str) :
  gen_PointerBuf_pop_front p =
  match pop_front p with
  | Ret (p', r) => Ret (p', option_map tokO r)
  | Panic => Panic
  | OutOfFuel => OutOfFuel
  end.
Proof.
  unfold gen_PointerBuf_pop_front, pop_front. rewrite gen_is_root_eq.
  destruct p as [|b r]; [reflexivity|]. cbn [is_root negb].
  rewrite slice_from_1_cons. cbn [skipn]. unfold findN. change SLASH with 47.
  destruct (find 47 r) as [i|] eqn:F; cbn [option_map].
  - pose proof (find_lt _ _ _ F) as Hi.
    unfold str_split_off. rewrite len_cons. unfold len.
    destruct (N.leb_spec (N.of_nat i + 1) (N.of_nat (length r) + 1)) as [_|H]; [|lia].
    replace (N.to_nat (N.of_nat i + 1)) with (S i) by lia. cbn [fst snd firstn skipn].
    unfold str_remove. rewrite len_cons.
    destruct (N.ltb_spec 0 (len (firstn i r) + 1)) as [_|H]; [|lia].
    cbn [N.to_nat firstn skipn app]. reflexivity.
  - unfold str_remove. rewrite len_cons.
    destruct (N.ltb_spec 0 (len r + 1)) as [_|H]; [|lia].
    cbn [N.to_nat firstn skipn app]. reflexivity.
Qed.

Theorem gen_append_eq (p q : str) : gen_PointerBuf_append p q = Ret (append p q, append p q).
Proof.
  unfold gen_PointerBuf_append, append. rewrite !gen_is_root_eq.
  destruct (is_root p); [reflexivity|]. destruct (is_root q); reflexivity.
Qed.

Theorem gen_clear_eq (p : str) : gen_PointerBuf_clear p = Ret (clear p, tt).
Proof. reflexivity. Qed.

(* ---- PointerBuf::replace ----------------------------------------------------------------------------- *)

Lemma nth_N_nth_error' {A} (l : list A) : forall i, nth_N l i = nth_error l (N.to_nat i).
Proof.
  induction l as [|x r IH]; intros i; cbn [nth_N].
  - destruct (N.to_nat i); reflexivity.
  - destruct (N.eqb_spec i 0) as [->|H]; [reflexivity|].
    rewrite IH. replace (N.to_nat i) with (S (N.to_nat (i - 1))) by lia. reflexivity.
Qed.

Lemma gen_replace_loop_eq : forall l self index token tokens old buf,
  gen_PointerBuf_replace_loop1 l self index token tokens old buf = Ret (buf ++ from_tokens_enc l, Ok old).
Proof.
  induction l as [|t r IH]; intros self index token tokens old buf; cbn [gen_PointerBuf_replace_loop1 from_tokens_enc flat_map].
  - rewrite app_nil_r. reflexivity.
  - rewrite IH. change SLASH with 47. rewrite <- !app_assoc. reflexivity.
Qed.

Definition gen_repl (r : replace_result) : result (option Token) ReplaceError :=
  match r with ReplOk old => Ok (option_map tokO old) | ReplErr i c => Err (mk_ReplaceError i c) end.

Theorem gen_replace_eq (p : str) (index : N) (t : Token) :
  gen_PointerBuf_replace p index t =
  Ret (let '(p', r) := replace_tok p index (cow_text (Token_inner t)) in (p', gen_repl r)).
Proof.
  unfold gen_PointerBuf_replace, replace_tok. rewrite gen_is_root_eq.
  destruct (is_root p).
  - rewrite gen_count_eq. reflexivity.
  - rewrite str_tokens_eq. destruct (len (ptokens p) <=? index) eqn:E; [reflexivity|].
    apply N.leb_gt in E. unfold list_set.
    destruct (N.ltb_spec index (len (ptokens p))) as [_|H]; [|lia].
    rewrite gen_replace_loop_eq. cbn [app gen_repl]. rewrite nth_N_nth_error'. reflexivity.
Qed.

(* ---- PointerBuf::from_tokens ------------------------------------------------------------------------ *)

Lemma gen_from_tokens_loop_eq : forall l tokens inner,
  gen_PointerBuf_from_tokens_loop1 l tokens inner =
  Ret (inner ++ from_tokens_enc (map (fun t => cow_text (Token_inner t)) l)).
Proof.
  induction l as [|t r IH]; intros tokens inner; cbn [gen_PointerBuf_from_tokens_loop1 map from_tokens_enc flat_map].
  - rewrite app_nil_r. reflexivity.
  - unfold gen_Token_encoded. rewrite IH. change SLASH with 47. rewrite <- !app_assoc. reflexivity.
Qed.

Theorem gen_from_tokens_eq (ts : list Token) :
  gen_PointerBuf_from_tokens ts = Ret (from_tokens_enc (map (fun t => cow_text (Token_inner t)) ts)).
Proof. unfold gen_PointerBuf_from_tokens. rewrite gen_from_tokens_loop_eq. reflexivity. Qed.

(* no mutator ever panics, except pop_front exactly when the model says so -- which it never does (BufProofs) *)
Theorem gen_buf_total : forall (p q : str) (t : Token),
  (exists r, gen_PointerBuf_push_front p t = Ret r) /\ (exists r, gen_PointerBuf_push_back p t = Ret r) /\
  (exists r, gen_PointerBuf_pop_back p = Ret r) /\ (exists r, gen_PointerBuf_pop_front p = Ret r) /\
  (exists r, gen_PointerBuf_append p q = Ret r) /\ (exists r, gen_PointerBuf_clear p = Ret r).
Proof.
  intros p q t. rewrite gen_push_front_eq, gen_push_back_eq, gen_pop_back_eq, gen_pop_front_eq, gen_append_eq, gen_clear_eq.
  repeat split; eauto.
  unfold pop_front. destruct p as [|b r]; cbn [is_root]; [eauto|].
  cbn [skipn]. destruct (find SLASH r) as [i|]; cbn [firstn]; eauto.
Qed.

(* ==== the property, stated of the regenerated functions themselves ============================= *)

From JP Require Import SpecBuf Generated.ScanToken Proofs.TokenProofs Proofs.BufProofs Proofs.GenEquivToken.

(* a token built by the source's Token::new and pushed by the source's push_back / push_front behaves like
   pushing the raw string on a deque of decoded tokens *)
Theorem gen_push_refines_deque : forall (p : str) (c : Cow),
  valid_ptr p = true ->
  exists t pb pf,
    gen_Token_new c = Ret t /\
    gen_PointerBuf_push_back p t = Ret (pb, tt) /\ valid_ptr pb = true /\ dtokens pb = dtokens p ++ [cow_text c] /\
    gen_PointerBuf_push_front p t = Ret (pf, tt) /\ valid_ptr pf = true /\ dtokens pf = cow_text c :: dtokens p.
Proof.
  intros p c Hp. destruct (gen_token_new_model c) as (t & Ht & Htext & _).
  exists t. rewrite gen_push_back_eq, gen_push_front_eq, Htext, token_new_text.
  rewrite <- (token_new_text false (cow_text c)).
  destruct (push_back_refines p (cow_text c) Hp) as (_ & Hv & Hd).
  destruct (push_front_refines p (cow_text c) Hp) as (_ & Hv' & Hd').
  do 2 eexists. repeat split; try reflexivity; assumption.
Qed.

(* the source's pop_back / pop_front remove the last / first decoded token, or return None on root *)
Theorem gen_pop_refines_deque : forall p : str,
  valid_ptr p = true ->
  (exists pb rb, gen_PointerBuf_pop_back p = Ret (pb, rb) /\ valid_ptr pb = true /\
     match dtokens p with
     | [] => rb = None /\ pb = p
     | _ :: _ => exists t, rb = Some (tokO t) /\ valid_tok t = true /\ unescape t = last (dtokens p) [] /\
                           dtokens pb = removelast (dtokens p)
     end) /\
  (exists pf rf, gen_PointerBuf_pop_front p = Ret (pf, rf) /\ valid_ptr pf = true /\
     match dtokens p with
     | [] => rf = None /\ pf = p
     | x :: l => exists t, rf = Some (tokO t) /\ valid_tok t = true /\ unescape t = x /\ dtokens pf = l
     end).
Proof.
  intros p Hp. split.
  - rewrite gen_pop_back_eq. destruct (pop_back_refines p Hp) as (Hv & Hm).
    destruct (pop_back p) as [pb rb] eqn:E. cbn [fst snd] in *.
    exists pb, (option_map tokO rb). split; [reflexivity|]. split; [exact Hv|].
    destruct (dtokens p) as [|x l].
    + destruct Hm as (-> & -> & _). split; reflexivity.
    + destruct Hm as (t & -> & Ht & Hu & _ & Hd). exists t. repeat split; assumption.
  - rewrite gen_pop_front_eq. destruct (pop_front_refines p Hp) as (pf & rf & E & Hv & Hm).
    rewrite E. exists pf, (option_map tokO rf). split; [reflexivity|]. split; [exact Hv|].
    destruct (dtokens p) as [|x l].
    + destruct Hm as (-> & -> & _). split; reflexivity.
    + destruct Hm as (t & -> & Ht & Hu & _ & Hd). exists t. repeat split; assumption.
Qed.

Theorem gen_append_refines_deque : forall p q : str,
  valid_ptr p = true -> valid_ptr q = true ->
  exists r, gen_PointerBuf_append p q = Ret (r, r) /\ valid_ptr r = true /\ dtokens r = dtokens p ++ dtokens q.
Proof.
  intros p q Hp Hq. rewrite gen_append_eq. destruct (append_refines p q Hp Hq) as (_ & Hv & Hd).
  eexists. repeat split; [exact Hv|exact Hd].
Qed.

(* the source's replace, fed with a token built by the source's Token::new: out-of-bounds error with the index and the
   token count and the buffer untouched, or the previous token and the deque updated in place *)
Theorem gen_replace_refines_deque : forall (p : str) (index : N) (c : Cow),
  valid_ptr p = true ->
  exists t p' r,
    gen_Token_new c = Ret t /\ gen_PointerBuf_replace p index t = Ret (p', r) /\ valid_ptr p' = true /\
    (len (tokens p) <= index -> r = Err (mk_ReplaceError index (len (tokens p))) /\ p' = p) /\
    (index < len (tokens p) ->
       exists old, r = Ok (Some (tokO old)) /\ valid_tok old = true /\
         unescape old = nth (N.to_nat index) (dtokens p) [] /\
         dtokens p' = set_nth (N.to_nat index) (cow_text c) (dtokens p)).
Proof.
  intros p index c Hp. destruct (gen_token_new_model c) as (t & Ht & Htext & _).
  exists t. rewrite gen_replace_eq, Htext, token_new_text, <- (token_new_text false (cow_text c)).
  pose proof (replace_refines p index (cow_text c) Hp) as R. cbv zeta in R.
  destruct (replace_tok p index (ttext (token_new false (cow_text c)))) as [p' r] eqn:E. cbn [fst snd] in R.
  destruct R as (Hv & Herr & Hok).
  exists p', (gen_repl r). split; [exact Ht|]. split; [reflexivity|]. split; [exact Hv|]. split.
  - intros H. destruct (Herr H) as [-> ->]. split; reflexivity.
  - intros H. destruct (Hok H) as (old & -> & Ho & Hu & _ & Hd). exists old. repeat split; assumption.
Qed.
