(* Proofs/TreeRefine.v -- the model of resolve.rs / assign.rs / delete.rs (Model/Tree.v: text,
   fuel, [outcome]) computes exactly the token-list specification of SpecTree.v.
   Consequently no walk ever panics or runs out of fuel on a valid pointer. *)
From Coq Require Import Arith.
From JP Require Import Bytes Spec Value SpecTree Model.Token Model.Pointer Model.Index Model.Tree
  Proofs.BytesFacts Proofs.TokenProofs Proofs.SplitProofs.

Arguments N.add : simpl never.
Arguments N.eqb : simpl never.
Arguments N.ltb : simpl never.
Arguments N.leb : simpl never.
Arguments N.sub : simpl never.

(* ---- small facts ------------------------------------------------------------------------------ *)

Lemma len_length {A} (l : list A) : len l = N.of_nat (length l).
Proof. reflexivity. Qed.

Lemma nth_error_lt_len {A} (a : list A) n : n < len a -> exists c, nth_error a (N.to_nat n) = Some c.
Proof.
  intros H. destruct (nth_error a (N.to_nat n)) as [c|] eqn:E; [eauto|].
  apply nth_error_None in E. unfold len in H. lia.
Qed.

Lemma forallb_valid_cons t ts :
  forallb valid_tok (t :: ts) = true -> valid_tok t = true /\ forallb valid_tok ts = true.
Proof. cbn [forallb]. intros H. apply andb_true_iff in H. exact H. Qed.

Lemma forallb_valid_app a b :
  forallb valid_tok (a ++ b) = true -> forallb valid_tok a = true /\ forallb valid_tok b = true.
Proof. rewrite forallb_app. intros H. apply andb_true_iff in H. exact H. Qed.

(* ---- resolve ------------------------------------------------------------------------------------ *)

Definition shift_path (rpath : list sel) (r : result (list sel * value) resolve_error) :=
  match r with
  | Ok (p, v) => Ok (rev rpath ++ p, v)
  | Err e => Err e
  end.

Lemma resolve_loop_spec ts : forall fuel d off pos rpath,
  forallb valid_tok ts = true -> (length ts < fuel)%nat ->
  resolve_loop fuel (from_tokens_enc ts) d off pos rpath
  = Ret (shift_path rpath (spec_resolve ts d pos off)).
Proof.
  induction ts as [|t r IH]; intros fuel d off pos rpath Hv Hf;
    (destruct fuel as [|fuel]; [cbn [length] in Hf; lia|]); cbn [resolve_loop].
  - cbn [from_tokens_enc flat_map]. rewrite split_front_nil. cbn [spec_resolve shift_path].
    rewrite app_nil_r. reflexivity.
  - apply forallb_valid_cons in Hv as [Ht Hr]. cbn [length] in Hf.
    rewrite split_front_cons by (apply valid_tok_no_slash, Ht).
    cbn [spec_resolve].
    destruct d as [| | | | |a|m]; try reflexivity.
    + destruct (index_from_str t) as [[n|]|e]; cbn [for_len shift_path]; try reflexivity.
      destruct (n <? len a) eqn:Hn; [|reflexivity].
      apply N.ltb_lt in Hn. destruct (nth_error_lt_len a n Hn) as [c Hc]. rewrite Hc.
      rewrite IH by (assumption || lia).
      destruct (spec_resolve r c (pos + 1) (off + (1 + len t))) as [[p v]|e]; cbn [shift_path rev];
        [rewrite <- app_assoc|]; reflexivity.
    + rewrite (decoded_unescape t Ht).
      destruct (obj_lookup (unescape t) m) as [c|]; [|reflexivity].
      rewrite IH by (assumption || lia).
      destruct (spec_resolve r c (pos + 1) (off + (1 + len t))) as [[p v]|e]; cbn [shift_path rev];
        [rewrite <- app_assoc|]; reflexivity.
Qed.

Lemma resolve_tokens ts d :
  forallb valid_tok ts = true -> resolve (from_tokens_enc ts) d = Ret (spec_resolve ts d 0 0).
Proof.
  intros Hv. unfold resolve. rewrite resolve_loop_spec.
  - destruct (spec_resolve ts d 0 0) as [[p v]|e]; reflexivity.
  - exact Hv.
  - pose proof (length_from_tokens_enc_ge ts). lia.
Qed.

Theorem resolve_refines p d :
  valid_ptr p = true -> resolve p d = Ret (spec_resolve (tokens p) d 0 0).
Proof.
  intros H. destruct (valid_ptr_decompose p H) as [Hp Hv].
  rewrite Hp at 1. apply resolve_tokens, Hv.
Qed.

Corollary resolve_no_panic p d :
  valid_ptr p = true -> resolve p d <> Panic /\ resolve p d <> OutOfFuel.
Proof. intros H. rewrite (resolve_refines p d H). split; discriminate. Qed.

Theorem write_through_refines p d v :
  valid_ptr p = true -> write_through p d v = Ret (spec_write_through (tokens p) d v).
Proof.
  intros H. unfold write_through, resolve_mut, spec_write_through. rewrite (resolve_refines p d H).
  destruct (spec_resolve (tokens p) d 0 0) as [[path w]|e]; reflexivity.
Qed.

(* ---- expand ---------------------------------------------------------------------------------------- *)

Lemma materialise_app a b v : materialise (a ++ b) v = materialise a (materialise b v).
Proof.
  induction a as [|t a IH]; [reflexivity|]. cbn [app materialise]. rewrite IH. reflexivity.
Qed.

Lemma expand_loop_spec n : forall ts fuel v,
  length ts = n -> forallb valid_tok ts = true -> (length ts < fuel)%nat ->
  expand_loop fuel (from_tokens_enc ts) v = Ret (materialise ts v).
Proof.
  induction n as [|n IH]; intros ts fuel v Hl Hv Hf;
    (destruct fuel as [|fuel]; [lia|]); cbn [expand_loop].
  - destruct ts; [|discriminate]. reflexivity.
  - destruct (tokens_snoc_cases ts) as [->|(a & t & ->)]; [discriminate|].
    apply forallb_valid_app in Hv as [Ha Ht]. cbn [forallb] in Ht. rewrite andb_true_r in Ht.
    rewrite app_length in Hl, Hf. cbn [length] in Hl, Hf.
    rewrite split_back_snoc by (apply valid_tok_no_slash, Ht).
    rewrite materialise_app. cbn [materialise].
    destruct (str_eqb t [ZERO] || str_eqb t [DASH]).
    + apply IH; (assumption || lia).
    + rewrite (decoded_unescape t Ht). cbn [obj_insert]. apply IH; (assumption || lia).
Qed.

Lemma expand_tokens ts v :
  forallb valid_tok ts = true -> expand (from_tokens_enc ts) v = Ret (materialise ts v).
Proof.
  intros Hv. unfold expand. apply (expand_loop_spec (length ts)); [reflexivity|exact Hv|].
  pose proof (length_from_tokens_enc_ge ts). lia.
Qed.

Theorem expand_refines p v :
  valid_ptr p = true -> expand p v = Ret (materialise (tokens p) v).
Proof.
  intros H. destruct (valid_ptr_decompose p H) as [Hp Hv].
  rewrite Hp at 1. apply expand_tokens, Hv.
Qed.

(* ---- assign ---------------------------------------------------------------------------------------- *)

Lemma spec_assign_nil d v pos off : spec_assign [] d v pos off = (v, Ok (Some d)).
Proof. reflexivity. Qed.

Lemma assign_loop_spec ts : forall fuel d v off pos,
  forallb valid_tok ts = true -> (length ts < fuel)%nat ->
  assign_loop fuel (from_tokens_enc ts) d v off pos = Ret (spec_assign ts d v pos off).
Proof.
  induction ts as [|t r IH]; intros fuel d v off pos Hv Hf;
    (destruct fuel as [|fuel]; [cbn [length] in Hf; lia|]); cbn [assign_loop].
  - cbn [from_tokens_enc flat_map]. rewrite split_front_nil. reflexivity.
  - pose proof Hv as Hv'. apply forallb_valid_cons in Hv as [Ht Hr]. cbn [length] in Hf.
    rewrite split_front_cons by (apply valid_tok_no_slash, Ht).
    destruct d as [| | | | |a|m];
      try (rewrite (expand_tokens (t :: r) v Hv'); reflexivity).
    + cbn [spec_assign].
      destruct (index_from_str t) as [i|e]; [|reflexivity].
      assert (Hcase :
        match for_len_incl i (len a) with
        | Ok idx => idx = match i with Num n => n | Next => len a end /\ idx <= len a
        | Err (l, ix) => l = len a /\ ix = match i with Num n => n | Next => len a end /\ len a < ix
        end).
      { destruct i as [n|]; cbn [for_len_incl].
        - destruct (n <=? len a) eqn:E; [apply N.leb_le in E|apply N.leb_gt in E]; auto.
        - split; [reflexivity|lia]. }
      destruct (for_len_incl i (len a)) as [idx|[l ix]].
      * destruct Hcase as [<- Hle].
        destruct (idx <? len a) eqn:Hlt.
        -- apply N.ltb_lt in Hlt. destruct (nth_error_lt_len a idx Hlt) as [c Hc]. rewrite Hc.
           destruct r as [|u r'].
           ++ cbn [from_tokens_enc flat_map is_root]. reflexivity.
           ++ rewrite is_root_from_tokens_enc.
              rewrite IH by (assumption || lia).
              destruct (spec_assign (u :: r') c v (pos + 1) (off + (1 + len t))) as [c' res].
              reflexivity.
        -- apply N.ltb_ge in Hlt. assert (idx = len a) as -> by lia.
           rewrite N.eqb_refl. rewrite (expand_tokens r v Hr). reflexivity.
      * destruct Hcase as (-> & <- & Hgt).
        assert (E1 : (ix <? len a) = false) by (apply N.ltb_ge; lia).
        assert (E2 : (ix =? len a) = false) by (apply N.eqb_neq; lia).
        rewrite E1, E2. reflexivity.
    + cbn [spec_assign]. rewrite (decoded_unescape t Ht).
      destruct (obj_lookup (unescape t) m) as [c|].
      * destruct r as [|u r'].
        -- cbn [from_tokens_enc flat_map is_root]. reflexivity.
        -- rewrite is_root_from_tokens_enc.
           rewrite IH by (assumption || lia).
           destruct (spec_assign (u :: r') c v (pos + 1) (off + (1 + len t))) as [c' res].
           reflexivity.
      * rewrite (expand_tokens r v Hr). reflexivity.
Qed.

Lemma assign_tokens ts d v :
  forallb valid_tok ts = true -> assign (from_tokens_enc ts) d v = Ret (spec_assign ts d v 0 0).
Proof.
  intros Hv. unfold assign. apply assign_loop_spec; [exact Hv|].
  pose proof (length_from_tokens_enc_ge ts). lia.
Qed.

Theorem assign_refines p d v :
  valid_ptr p = true -> assign p d v = Ret (spec_assign (tokens p) d v 0 0).
Proof.
  intros H. destruct (valid_ptr_decompose p H) as [Hp Hv].
  rewrite Hp at 1. apply assign_tokens, Hv.
Qed.

Corollary assign_no_panic p d v :
  valid_ptr p = true -> assign p d v <> Panic /\ assign p d v <> OutOfFuel.
Proof. intros H. rewrite (assign_refines p d v H). split; discriminate. Qed.

(* ---- facts about the specification used for delete (and by the laws) --------------------------- *)

(* C05: the walk returns the selector path of that very node *)
Lemma spec_resolve_by_reference ts : forall d pos off path v,
  spec_resolve ts d pos off = Ok (path, v) -> get_at path d = Some v /\ length path = length ts.
Proof.
  induction ts as [|t r IH]; intros d pos off path v H; cbn [spec_resolve] in H.
  - inversion H; subst. split; reflexivity.
  - destruct d as [| | | | |a|m]; try discriminate.
    + destruct (index_from_str t) as [[n|]|e]; try discriminate.
      destruct (n <? len a); [|discriminate].
      destruct (nth_error a (N.to_nat n)) as [c|] eqn:Hc; [|discriminate].
      destruct (spec_resolve r c (pos + 1) (off + (1 + len t))) as [[p w]|e] eqn:E; [|discriminate].
      inversion H; subst. destruct (IH _ _ _ _ _ E) as [Hg Hl].
      cbn [get_at length]. rewrite Hc, Hg, Hl. split; reflexivity.
    + destruct (obj_lookup (unescape t) m) as [c|] eqn:Hc; [|discriminate].
      destruct (spec_resolve r c (pos + 1) (off + (1 + len t))) as [[p w]|e] eqn:E; [|discriminate].
      inversion H; subst. destruct (IH _ _ _ _ _ E) as [Hg Hl].
      cbn [get_at length]. rewrite Hc, Hg, Hl. split; reflexivity.
Qed.

Lemma len_cons {A} (x : A) l : len (x :: l) = 1 + len l.
Proof. unfold len. cbn [length]. lia. Qed.

Lemma len_app {A} (a b : list A) : len (a ++ b) = len a + len b.
Proof. unfold len. rewrite app_length. lia. Qed.

Lemma len_nil {A} : len (@nil A) = 0.
Proof. reflexivity. Qed.

Lemma len_from_tokens_enc_cons t ts : len (from_tokens_enc (t :: ts)) = 1 + len t + len (from_tokens_enc ts).
Proof. rewrite from_tokens_enc_cons, len_cons, len_app. lia. Qed.

(* walking a ++ b = walking a, then b from the node reached, positions / offsets carried on *)
Lemma spec_resolve_app a : forall b d pos off,
  spec_resolve (a ++ b) d pos off =
  match spec_resolve a d pos off with
  | Ok (p, c) =>
      match spec_resolve b c (pos + len a) (off + len (from_tokens_enc a)) with
      | Ok (p', v) => Ok (p ++ p', v)
      | Err e => Err e
      end
  | Err e => Err e
  end.
Proof.
  induction a as [|t a IH]; intros b d pos off.
  - cbn [app spec_resolve from_tokens_enc flat_map]. rewrite len_nil, !N.add_0_r.
    destruct (spec_resolve b d pos off) as [[p v]|e]; reflexivity.
  - cbn [app spec_resolve].
    assert (Hp : pos + len (t :: a) = pos + 1 + len a) by (rewrite len_cons; lia).
    assert (Ho : off + len (from_tokens_enc (t :: a)) = off + (1 + len t) + len (from_tokens_enc a))
      by (rewrite len_from_tokens_enc_cons; lia).
    rewrite Hp, Ho.
    destruct d as [| | | | |l|m]; try reflexivity.
    + destruct (index_from_str t) as [[n|]|e]; try reflexivity.
      destruct (n <? len l); [|reflexivity].
      destruct (nth_error l (N.to_nat n)) as [c|]; [|reflexivity].
      rewrite IH.
      destruct (spec_resolve a c (pos + 1) (off + (1 + len t))) as [[p c']|e]; [|reflexivity].
      destruct (spec_resolve b c' (pos + 1 + len a) (off + (1 + len t) + len (from_tokens_enc a)))
        as [[p' v]|e]; reflexivity.
    + destruct (obj_lookup (unescape t) m) as [c|]; [|reflexivity].
      rewrite IH.
      destruct (spec_resolve a c (pos + 1) (off + (1 + len t))) as [[p c']|e]; [|reflexivity].
      destruct (spec_resolve b c' (pos + 1 + len a) (off + (1 + len t) + len (from_tokens_enc a)))
        as [[p' v]|e]; reflexivity.
Qed.

Lemma get_at_app p : forall q d,
  get_at (p ++ q) d = match get_at p d with Some c => get_at q c | None => None end.
Proof.
  induction p as [|s p IH]; intros q d; [reflexivity|].
  cbn [app get_at]. destruct s as [n|k].
  - destruct d; try reflexivity. destruct (nth_error l n); [apply IH|reflexivity].
  - destruct d; try reflexivity. destruct (obj_lookup k m); [apply IH|reflexivity].
Qed.

Lemma update_at_ext path : forall f g d c,
  get_at path d = Some c -> f c = g c -> update_at path f d = update_at path g d.
Proof.
  induction path as [|s p IH]; intros f g d c Hg Hfg; cbn [get_at update_at] in *.
  - inversion Hg; subst. exact Hfg.
  - destruct s as [n|k].
    + destruct d; try reflexivity. destruct (nth_error l n) as [c0|]; [|reflexivity].
      rewrite (IH f g c0 c Hg Hfg). reflexivity.
    + destruct d; try reflexivity. destruct (obj_lookup k m) as [c0|]; [|reflexivity].
      rewrite (IH f g c0 c Hg Hfg). reflexivity.
Qed.

Lemma remove_at_snoc path : forall s d,
  remove_at (path ++ [s]) d = update_at path (remove_child s) d.
Proof.
  induction path as [|s0 p IH]; intros s d; [reflexivity|].
  cbn [app remove_at update_at].
  destruct (p ++ [s]) as [|x y] eqn:E; [destruct p; discriminate|]. rewrite <- E.
  destruct s0 as [n|k].
  - destruct d; try reflexivity. destruct (nth_error l n); [|reflexivity]. rewrite IH. reflexivity.
  - destruct d; try reflexivity. destruct (obj_lookup k m); [|reflexivity]. rewrite IH. reflexivity.
Qed.

(* ---- delete ------------------------------------------------------------------------------------------ *)

Lemma delete_tokens be ts d :
  forallb valid_tok ts = true -> delete be (from_tokens_enc ts) d = Ret (spec_delete be ts d).
Proof.
  intros Hv. unfold delete.
  destruct (tokens_snoc_cases ts) as [->|(init & last & ->)].
  - cbn [from_tokens_enc flat_map]. rewrite split_back_nil. destruct be; reflexivity.
  - apply forallb_valid_app in Hv as [Hi Hl]. cbn [forallb] in Hl. rewrite andb_true_r in Hl.
    rewrite split_back_snoc by (apply valid_tok_no_slash, Hl).
    unfold resolve_mut. rewrite (resolve_tokens init d Hi).
    unfold spec_delete.
    destruct (init ++ [last]) as [|x y] eqn:E; [destruct init; discriminate|]. rewrite <- E. clear E x y.
    rewrite spec_resolve_app.
    destruct (spec_resolve init d 0 0) as [[path parent]|e] eqn:Hres; [|reflexivity].
    destruct (spec_resolve_by_reference _ _ _ _ _ _ Hres) as [Hget _].
    cbn [spec_resolve].
    destruct parent as [| | | | |a|m]; try reflexivity.
    + destruct (index_from_str last) as [[n|]|e]; cbn [for_len]; try reflexivity.
      destruct (n <? len a) eqn:Hn; [|reflexivity].
      apply N.ltb_lt in Hn. destruct (nth_error_lt_len a n Hn) as [c Hc]. rewrite Hc.
      rewrite remove_at_snoc.
      rewrite (update_at_ext path (fun _ => Arr (remove_nth (N.to_nat n) a))
                 (remove_child (Idx (N.to_nat n))) d (Arr a) Hget eq_refl).
      reflexivity.
    + rewrite (decoded_unescape last Hl).
      destruct (obj_lookup (unescape last) m) as [c|]; [|reflexivity].
      rewrite remove_at_snoc.
      rewrite (update_at_ext path (fun _ => Obj (obj_remove (unescape last) m))
                 (remove_child (Key (unescape last))) d (Obj m) Hget eq_refl).
      reflexivity.
Qed.

Theorem delete_refines be p d :
  valid_ptr p = true -> delete be p d = Ret (spec_delete be (tokens p) d).
Proof.
  intros H. destruct (valid_ptr_decompose p H) as [Hp Hv].
  rewrite Hp at 1. apply delete_tokens, Hv.
Qed.

Corollary delete_no_panic be p d :
  valid_ptr p = true -> delete be p d <> Panic /\ delete be p d <> OutOfFuel.
Proof. intros H. rewrite (delete_refines be p d H). split; discriminate. Qed.
