(* Proofs/BufProofs.v -- C11: the PointerBuf mutators refine a deque of decoded tokens. *)
From Coq Require Import Arith.
From JP Require Import Bytes Spec Model.Token Model.Pointer SpecBuf
  Proofs.BytesFacts Proofs.TokenProofs Proofs.SplitProofs.

Arguments N.add : simpl never.
Arguments N.eqb : simpl never.
Arguments N.leb : simpl never.
Arguments N.ltb : simpl never.
Arguments N.sub : simpl never.

Notation noslash_all := (Forall (fun u : str => no_slash u = true)).

(* ---- lists of encoded / decoded tokens ------------------------------------------------ *)

Lemma valid_toks_noslash ts : forallb valid_tok ts = true -> noslash_all ts.
Proof.
  intros H. apply Forall_forall. intros t Ht. rewrite forallb_forall in H.
  apply valid_tok_no_slash, H, Ht.
Qed.

Lemma map_encode_valid L : forallb valid_tok (map encode L) = true.
Proof.
  apply forallb_forall. intros t Ht. apply in_map_iff in Ht as (x & <- & _). apply valid_tok_encode.
Qed.

Lemma map_encode_noslash L : noslash_all (map encode L).
Proof. apply valid_toks_noslash, map_encode_valid. Qed.

Lemma map_unescape_encode L : map unescape (map encode L) = L.
Proof.
  induction L as [|x L IH]; [reflexivity|]. cbn [map]. rewrite unescape_encode, IH. reflexivity.
Qed.

Lemma map_encode_unescape ts : forallb valid_tok ts = true -> map encode (map unescape ts) = ts.
Proof.
  induction ts as [|t ts IH]; [reflexivity|]. cbn [map forallb]. intros H.
  apply andb_true_iff in H as [Ht Hts]. rewrite encode_unescape, IH by assumption. reflexivity.
Qed.

Lemma encode_inj a b : encode a = encode b -> a = b.
Proof. intros H. rewrite <- (unescape_encode a), <- (unescape_encode b), H. reflexivity. Qed.

(* ---- from_tokens / dtokens: the abstraction function and its inverse ---------------------- *)

Lemma tokens_from_tokens L : tokens (from_tokens L) = map encode L.
Proof. unfold from_tokens. apply tokens_from_tokens_enc, map_encode_noslash. Qed.

Lemma dtokens_from_tokens L : dtokens (from_tokens L) = L.
Proof. unfold dtokens. rewrite tokens_from_tokens. apply map_unescape_encode. Qed.

Lemma valid_ptr_from_tokens L : valid_ptr (from_tokens L) = true.
Proof. unfold from_tokens. apply valid_ptr_from_tokens_enc, map_encode_valid. Qed.

Lemma from_tokens_dtokens p : valid_ptr p = true -> from_tokens (dtokens p) = p.
Proof.
  intros H. destruct (valid_ptr_decompose p H) as [Hp Hv].
  unfold from_tokens, dtokens. rewrite map_encode_unescape by exact Hv. symmetry. exact Hp.
Qed.

Lemma from_tokens_inj L M : from_tokens L = from_tokens M -> L = M.
Proof. intros H. rewrite <- (dtokens_from_tokens L), <- (dtokens_from_tokens M), H. reflexivity. Qed.

Lemma from_tokens_app L M : from_tokens (L ++ M) = from_tokens L ++ from_tokens M.
Proof. unfold from_tokens. rewrite map_app. apply from_tokens_enc_app. Qed.

Lemma from_tokens_cons x L : from_tokens (x :: L) = SLASH :: encode x ++ from_tokens L.
Proof. reflexivity. Qed.

Lemma dtokens_length p : length (dtokens p) = length (tokens p).
Proof. unfold dtokens. apply map_length. Qed.

(* ---- the mutators on from_tokens_enc -------------------------------------------------------- *)

Lemma push_front_enc ts tok : push_front (from_tokens_enc ts) tok = from_tokens_enc (tok :: ts).
Proof. reflexivity. Qed.

Lemma push_back_enc ts tok : push_back (from_tokens_enc ts) tok = from_tokens_enc (ts ++ [tok]).
Proof.
  unfold push_back. rewrite from_tokens_enc_app. cbn [from_tokens_enc flat_map]. rewrite app_nil_r.
  reflexivity.
Qed.

Lemma pop_back_nil : pop_back [] = ([], None).
Proof. reflexivity. Qed.

Lemma removelast_snoc {A} (a : list A) x : removelast (a ++ [x]) = a.
Proof. apply removelast_last. Qed.

Lemma pop_back_snoc ts t :
  no_slash t = true -> pop_back (from_tokens_enc (ts ++ [t])) = (from_tokens_enc ts, Some t).
Proof.
  intros Ht. rewrite from_tokens_enc_app. cbn [from_tokens_enc flat_map]. rewrite app_nil_r.
  fold (from_tokens_enc ts). unfold pop_back.
  rewrite rfind_app_slash by assumption.
  replace (S (length (from_tokens_enc ts))) with (length (from_tokens_enc ts ++ [SLASH]))
    by (rewrite app_length; cbn; lia).
  replace (from_tokens_enc ts ++ SLASH :: t) with ((from_tokens_enc ts ++ [SLASH]) ++ t)
    by (rewrite <- app_assoc; reflexivity).
  rewrite firstn_app_exact, skipn_app_exact, removelast_snoc. reflexivity.
Qed.

Lemma pop_front_nil : pop_front [] = Ret ([], None).
Proof. reflexivity. Qed.

Lemma pop_front_cons t ts :
  no_slash t = true -> pop_front (from_tokens_enc (t :: ts)) = Ret (from_tokens_enc ts, Some t).
Proof.
  intros Ht. rewrite from_tokens_enc_cons. unfold pop_front. cbn [is_root skipn].
  destruct ts as [|u ts'].
  - cbn [from_tokens_enc flat_map]. rewrite app_nil_r, find_noslash by assumption. reflexivity.
  - rewrite from_tokens_enc_cons, find_app_slash by assumption.
    cbn [firstn skipn]. rewrite firstn_app_exact, skipn_app_exact. reflexivity.
Qed.

Lemma append_enc a b : append (from_tokens_enc a) (from_tokens_enc b) = from_tokens_enc (a ++ b).
Proof.
  unfold append. rewrite !is_root_from_tokens_enc. destruct a as [|x a]; [reflexivity|].
  destruct b as [|y b]; cbn [negb].
  - rewrite app_nil_r. reflexivity.
  - rewrite from_tokens_enc_app. reflexivity.
Qed.

Lemma len_nil {A} : len (@nil A) = 0.
Proof. reflexivity. Qed.

Lemma replace_enc ts index tok :
  noslash_all ts ->
  replace_tok (from_tokens_enc ts) index tok =
    if len ts <=? index then (from_tokens_enc ts, ReplErr index (len ts))
    else (from_tokens_enc (set_nth (N.to_nat index) tok ts), ReplOk (nth_error ts (N.to_nat index))).
Proof.
  intros Hts. unfold replace_tok, pcount. rewrite ptokens_tokens, tokens_from_tokens_enc by assumption.
  rewrite is_root_from_tokens_enc. destruct ts as [|t ts']; [|reflexivity].
  rewrite len_nil. replace (0 <=? index) with true by (symmetry; apply N.leb_le; lia). reflexivity.
Qed.

(* ---- list facts for the deque side ------------------------------------------------------------- *)

Lemma set_nth_map {A B} (f : A -> B) n x l : set_nth n (f x) (map f l) = map f (set_nth n x l).
Proof.
  revert n; induction l as [|y l IH]; intros [|n]; cbn [set_nth map]; try reflexivity.
  rewrite IH. reflexivity.
Qed.

Lemma set_nth_length {A} n (x : A) l : length (set_nth n x l) = length l.
Proof.
  revert n; induction l as [|y l IH]; intros [|n]; cbn [set_nth length]; try reflexivity.
  rewrite IH. reflexivity.
Qed.

Lemma len_map {A B} (f : A -> B) l : len (map f l) = len l.
Proof. unfold len. rewrite map_length. reflexivity. Qed.

Lemma nth_error_nth_lt {A} (l : list A) n d : (n < length l)%nat -> nth_error l n = Some (nth n l d).
Proof.
  revert n; induction l as [|x l IH]; intros [|n] H; cbn in *; try lia; [reflexivity|].
  apply IH. lia.
Qed.

(* ---- one step: the implementation on [from_tokens L] against the deque on [L] ----------------- *)

Theorem step_refines L op :
  op_ok op ->
  exists r, impl_step (from_tokens L) op = Ret (from_tokens (fst (deque_step L op)), r)
            /\ ret_corr r (snd (deque_step L op)).
Proof.
  intros Hok. destruct op as [raw|raw| | |q|index raw|]; cbn [impl_step deque_step fst snd].
  - (* push_front *)
    exists RUnit. split; [|exact I]. rewrite token_new_text. reflexivity.
  - (* push_back *)
    exists RUnit. split; [|exact I]. rewrite token_new_text. unfold from_tokens.
    rewrite push_back_enc, map_app. reflexivity.
  - (* pop_front *)
    destruct L as [|x L'].
    + exists (RPop None). split; [reflexivity|exact I].
    + exists (RPop (Some (encode x))). unfold from_tokens. cbn [map].
      rewrite pop_front_cons by apply no_slash_encode. split; [reflexivity|].
      cbn [ret_corr snd]. split; [apply valid_tok_encode|apply unescape_encode].
  - (* pop_back *)
    destruct (tokens_snoc_cases L) as [->|(L' & x & ->)].
    + exists (RPop None). split; [reflexivity|exact I].
    + exists (RPop (Some (encode x))). unfold from_tokens. rewrite map_app. cbn [map].
      rewrite pop_back_snoc by apply no_slash_encode.
      destruct (L' ++ [x]) as [|y l] eqn:E; [destruct L'; discriminate|]. rewrite <- E.
      cbn [fst snd]. rewrite removelast_snoc, last_last. split; [reflexivity|].
      cbn [ret_corr]. split; [apply valid_tok_encode|apply unescape_encode].
  - (* append *)
    exists RUnit. split; [|exact I]. cbn [op_ok] in Hok.
    rewrite <- (from_tokens_dtokens q Hok) at 1. unfold from_tokens.
    rewrite append_enc, map_app. reflexivity.
  - (* replace *)
    rewrite token_new_text. unfold from_tokens at 1.
    rewrite replace_enc by apply map_encode_noslash. rewrite len_map.
    destruct (len L <=? index) eqn:Hle.
    + exists (RRepl (ReplErr index (len L))). split; [reflexivity|]. cbn [snd ret_corr]. auto.
    + apply N.leb_gt in Hle.
      assert (Hlt : (N.to_nat index < length L)%nat) by (unfold len in Hle; lia).
      exists (RRepl (ReplOk (Some (encode (nth (N.to_nat index) L []))))).
      rewrite set_nth_map, nth_error_map, (nth_error_nth_lt L _ [] Hlt). cbn [option_map fst snd].
      split; [reflexivity|]. cbn [ret_corr]. split; [apply valid_tok_encode|apply unescape_encode].
  - (* clear *)
    exists RUnit. split; [reflexivity|exact I].
Qed.

(* the same for any valid text *)
Corollary step_refines_valid p op :
  valid_ptr p = true -> op_ok op ->
  exists p' r, impl_step p op = Ret (p', r)
    /\ p' = from_tokens (fst (deque_step (dtokens p) op))
    /\ valid_ptr p' = true
    /\ dtokens p' = fst (deque_step (dtokens p) op)
    /\ ret_corr r (snd (deque_step (dtokens p) op)).
Proof.
  intros Hp Hok. destruct (step_refines (dtokens p) op Hok) as (r & Hs & Hr).
  rewrite from_tokens_dtokens in Hs by exact Hp.
  eexists _, r. split; [exact Hs|]. split; [reflexivity|]. split; [apply valid_ptr_from_tokens|].
  split; [apply dtokens_from_tokens|exact Hr].
Qed.

(* ---- histories ------------------------------------------------------------------------------------ *)

Lemma run_refines ops : forall L,
  Forall op_ok ops ->
  exists rs, impl_run (from_tokens L) ops = Ret (from_tokens (fst (deque_run L ops)), rs)
             /\ Forall2 ret_corr rs (snd (deque_run L ops)).
Proof.
  induction ops as [|op ops IH]; intros L Hok.
  - exists []. split; [reflexivity|constructor].
  - inversion Hok as [|? ? Hop Hops]; subst.
    destruct (step_refines L op Hop) as (r & Hs & Hr).
    cbn [impl_run deque_run]. rewrite Hs.
    destruct (deque_step L op) as [L' d]. cbn [fst snd] in *.
    destruct (IH L' Hops) as (rs & Hrun & Hrs). rewrite Hrun.
    destruct (deque_run L' ops) as [L'' ds]. cbn [fst snd] in *.
    exists (r :: rs). split; [reflexivity|constructor; assumption].
Qed.

Theorem refines_deque p0 ops :
  valid_ptr p0 = true -> Forall op_ok ops ->
  exists p rs,
    impl_run p0 ops = Ret (p, rs)
    /\ p = from_tokens (fst (deque_run (dtokens p0) ops))
    /\ valid_ptr p = true
    /\ dtokens p = fst (deque_run (dtokens p0) ops)
    /\ Forall2 ret_corr rs (snd (deque_run (dtokens p0) ops)).
Proof.
  intros Hp Hok. destruct (run_refines ops (dtokens p0) Hok) as (rs & Hrun & Hrs).
  rewrite from_tokens_dtokens in Hrun by exact Hp.
  eexists _, rs. split; [exact Hrun|]. split; [reflexivity|]. split; [apply valid_ptr_from_tokens|].
  split; [apply dtokens_from_tokens|exact Hrs].
Qed.

(* ---- the seven mutators, one by one, for every valid pointer ----------------------------------- *)

Lemma valid_ptr_as_from_tokens p : valid_ptr p = true -> exists L, p = from_tokens L.
Proof. intros H. exists (dtokens p). symmetry. apply from_tokens_dtokens, H. Qed.

Theorem push_front_refines p raw :
  valid_ptr p = true ->
  push_front p (ttext (token_new false raw)) = from_tokens (raw :: dtokens p)
  /\ valid_ptr (push_front p (ttext (token_new false raw))) = true
  /\ dtokens (push_front p (ttext (token_new false raw))) = raw :: dtokens p.
Proof.
  intros Hp. destruct (valid_ptr_as_from_tokens p Hp) as [L ->]. rewrite dtokens_from_tokens.
  assert (E : push_front (from_tokens L) (ttext (token_new false raw)) = from_tokens (raw :: L)).
  { rewrite token_new_text. reflexivity. }
  rewrite E. split; [reflexivity|]. split; [apply valid_ptr_from_tokens|apply dtokens_from_tokens].
Qed.

Theorem push_back_refines p raw :
  valid_ptr p = true ->
  push_back p (ttext (token_new false raw)) = from_tokens (dtokens p ++ [raw])
  /\ valid_ptr (push_back p (ttext (token_new false raw))) = true
  /\ dtokens (push_back p (ttext (token_new false raw))) = dtokens p ++ [raw].
Proof.
  intros Hp. destruct (valid_ptr_as_from_tokens p Hp) as [L ->]. rewrite dtokens_from_tokens.
  assert (E : push_back (from_tokens L) (ttext (token_new false raw)) = from_tokens (L ++ [raw])).
  { rewrite token_new_text. unfold from_tokens. rewrite push_back_enc, map_app. reflexivity. }
  rewrite E. split; [reflexivity|]. split; [apply valid_ptr_from_tokens|apply dtokens_from_tokens].
Qed.

(* pop_front never panics; it removes and returns the first token, or None on root *)
Theorem pop_front_refines p :
  valid_ptr p = true ->
  exists p' r,
    pop_front p = Ret (p', r)
    /\ valid_ptr p' = true
    /\ match dtokens p with
       | [] => r = None /\ p' = p /\ p = []
       | x :: l => exists t, r = Some t /\ valid_tok t = true /\ unescape t = x
                             /\ p' = from_tokens l /\ dtokens p' = l
       end.
Proof.
  intros Hp. destruct (valid_ptr_as_from_tokens p Hp) as [L ->]. rewrite dtokens_from_tokens.
  destruct L as [|x L'].
  - exists [], None. repeat split; reflexivity.
  - exists (from_tokens L'), (Some (encode x)). unfold from_tokens at 1. cbn [map].
    rewrite pop_front_cons by apply no_slash_encode. split; [reflexivity|].
    split; [apply valid_ptr_from_tokens|]. exists (encode x).
    split; [reflexivity|]. split; [apply valid_tok_encode|]. split; [apply unescape_encode|].
    split; [reflexivity|apply dtokens_from_tokens].
Qed.

Theorem pop_back_refines p :
  valid_ptr p = true ->
  valid_ptr (fst (pop_back p)) = true
  /\ match dtokens p with
     | [] => snd (pop_back p) = None /\ fst (pop_back p) = p /\ p = []
     | _ :: _ => exists t, snd (pop_back p) = Some t /\ valid_tok t = true
                           /\ unescape t = last (dtokens p) []
                           /\ fst (pop_back p) = from_tokens (removelast (dtokens p))
                           /\ dtokens (fst (pop_back p)) = removelast (dtokens p)
     end.
Proof.
  intros Hp. destruct (valid_ptr_as_from_tokens p Hp) as [L ->]. rewrite dtokens_from_tokens.
  destruct (tokens_snoc_cases L) as [->|(L' & x & ->)].
  - repeat split; reflexivity.
  - assert (E0 : pop_back (from_tokens (L' ++ [x])) = (from_tokens L', Some (encode x))).
    { unfold from_tokens. rewrite map_app. cbn [map]. apply pop_back_snoc, no_slash_encode. }
    rewrite E0. cbn [fst snd].
    split; [apply valid_ptr_from_tokens|].
    destruct (L' ++ [x]) as [|y l] eqn:E; [destruct L'; discriminate|]. rewrite <- E.
    rewrite removelast_snoc, last_last. exists (encode x).
    split; [reflexivity|]. split; [apply valid_tok_encode|]. split; [apply unescape_encode|].
    split; [reflexivity|apply dtokens_from_tokens].
Qed.

Theorem clear_refines p : clear p = from_tokens [] /\ valid_ptr (clear p) = true /\ dtokens (clear p) = [].
Proof. repeat split; reflexivity. Qed.

(* replace: Err {index, count} exactly when index >= count, and then nothing changes;
   otherwise Ok(Some(previous token)) and the token list is updated at [index] *)
Theorem replace_refines p index raw :
  valid_ptr p = true ->
  let p' := fst (replace_tok p index (ttext (token_new false raw))) in
  let r := snd (replace_tok p index (ttext (token_new false raw))) in
  valid_ptr p' = true
  /\ (len (tokens p) <= index -> r = ReplErr index (len (tokens p)) /\ p' = p)
  /\ (index < len (tokens p) ->
        exists old, r = ReplOk (Some old) /\ valid_tok old = true
          /\ unescape old = nth (N.to_nat index) (dtokens p) []
          /\ p' = from_tokens (set_nth (N.to_nat index) raw (dtokens p))
          /\ dtokens p' = set_nth (N.to_nat index) raw (dtokens p)).
Proof.
  intros Hp. destruct (valid_ptr_as_from_tokens p Hp) as [L ->].
  rewrite dtokens_from_tokens, tokens_from_tokens, len_map, token_new_text. cbv zeta.
  assert (E0 : replace_tok (from_tokens L) index (encode raw) =
               if len L <=? index then (from_tokens L, ReplErr index (len L))
               else (from_tokens (set_nth (N.to_nat index) raw L),
                     ReplOk (option_map encode (nth_error L (N.to_nat index))))).
  { unfold from_tokens. rewrite replace_enc by apply map_encode_noslash.
    rewrite len_map, set_nth_map, nth_error_map. reflexivity. }
  rewrite E0. clear E0.
  destruct (len L <=? index) eqn:Hle; cbn [fst snd].
  - apply N.leb_le in Hle. split; [apply valid_ptr_from_tokens|]. split; [auto|]. intros Hlt. lia.
  - apply N.leb_gt in Hle.
    assert (Hlt : (N.to_nat index < length L)%nat) by (unfold len in Hle; lia).
    rewrite (nth_error_nth_lt L _ [] Hlt). cbn [option_map].
    split; [apply valid_ptr_from_tokens|]. split; [intros H; lia|]. intros _.
    exists (encode (nth (N.to_nat index) L [])).
    split; [reflexivity|]. split; [apply valid_tok_encode|]. split; [apply unescape_encode|].
    split; [reflexivity|apply dtokens_from_tokens].
Qed.

Corollary replace_err_iff p index raw :
  valid_ptr p = true ->
  (exists i c, snd (replace_tok p index (ttext (token_new false raw))) = ReplErr i c)
  <-> len (tokens p) <= index.
Proof.
  intros Hp. destruct (replace_refines p index raw Hp) as (_ & Herr & Hok). cbv zeta in *.
  split.
  - intros (i & c & E). destruct (N.le_gt_cases (len (tokens p)) index) as [Hle|Hgt]; [exact Hle|].
    destruct (Hok Hgt) as (old & E' & _). rewrite E' in E. discriminate.
  - intros Hle. destruct (Herr Hle) as [E _]. eauto.
Qed.

(* ---- append ------------------------------------------------------------------------------------ *)

Lemma append_root_l q : append [] q = q.
Proof. reflexivity. Qed.

Lemma append_root_r p : append p [] = p.
Proof. destruct p; reflexivity. Qed.

Lemma append_assoc p q r : append (append p q) r = append p (append q r).
Proof.
  destruct p as [|a p]; [reflexivity|]. destruct q as [|b q]; [reflexivity|].
  destruct r as [|c r]; [reflexivity|]. unfold append. cbn [is_root negb app].
  rewrite <- app_assoc. reflexivity.
Qed.

Lemma append_tokens_enc p q :
  valid_ptr p = true -> valid_ptr q = true ->
  append p q = from_tokens_enc (tokens p ++ tokens q).
Proof.
  intros Hp Hq. destruct (valid_ptr_decompose p Hp) as [Ep _]. destruct (valid_ptr_decompose q Hq) as [Eq _].
  rewrite Ep at 1. rewrite Eq at 1. apply append_enc.
Qed.

Theorem append_tokens p q :
  valid_ptr p = true -> valid_ptr q = true ->
  tokens (append p q) = tokens p ++ tokens q.
Proof.
  intros Hp Hq. rewrite append_tokens_enc by assumption. apply tokens_from_tokens_enc.
  apply Forall_app. split; apply tokens_noslash.
Qed.

Theorem append_valid p q :
  valid_ptr p = true -> valid_ptr q = true -> valid_ptr (append p q) = true.
Proof.
  intros Hp Hq. rewrite append_tokens_enc by assumption. apply valid_ptr_from_tokens_enc.
  rewrite forallb_app. destruct (valid_ptr_decompose p Hp) as [_ ->]. destruct (valid_ptr_decompose q Hq) as [_ ->].
  reflexivity.
Qed.

Theorem append_dtokens p q :
  valid_ptr p = true -> valid_ptr q = true ->
  dtokens (append p q) = dtokens p ++ dtokens q.
Proof. intros Hp Hq. unfold dtokens. rewrite append_tokens by assumption. apply map_app. Qed.

Theorem append_refines p q :
  valid_ptr p = true -> valid_ptr q = true ->
  append p q = from_tokens (dtokens p ++ dtokens q)
  /\ valid_ptr (append p q) = true
  /\ dtokens (append p q) = dtokens p ++ dtokens q.
Proof.
  intros Hp Hq. split; [|split; [apply append_valid|apply append_dtokens]; assumption].
  rewrite <- append_dtokens by assumption. symmetry. apply from_tokens_dtokens, append_valid; assumption.
Qed.

(* ---- PointerBuf::from_tokens ------------------------------------------------------------------------ *)

Lemma buf_from_tokens_acc L : forall acc,
  fold_left (fun inner t => inner ++ SLASH :: ttext (token_new false t)) L acc = acc ++ from_tokens L.
Proof.
  induction L as [|x L IH]; intros acc; cbn [fold_left].
  - cbn. rewrite app_nil_r. reflexivity.
  - rewrite IH, token_new_text, from_tokens_cons, <- app_assoc. reflexivity.
Qed.

Theorem buf_from_tokens_spec L : buf_from_tokens L = from_tokens L.
Proof. unfold buf_from_tokens. rewrite buf_from_tokens_acc. reflexivity. Qed.

Corollary buf_from_tokens_dtokens L :
  valid_ptr (buf_from_tokens L) = true /\ dtokens (buf_from_tokens L) = L.
Proof. rewrite buf_from_tokens_spec. split; [apply valid_ptr_from_tokens|apply dtokens_from_tokens]. Qed.

(* the correspondence of returned tokens, said differently: the implementation returns exactly
   the encoding of the deque's element *)
Lemma tok_corr_iff t x : (valid_tok t = true /\ unescape t = x) <-> t = encode x.
Proof.
  split.
  - intros [Hv <-]. symmetry. apply encode_unescape, Hv.
  - intros ->. split; [apply valid_tok_encode|apply unescape_encode].
Qed.
