(* ProtoValue.v -- protocol encoding of documents, selector paths, options, views. *)

From Coq Require Import String.
From JP Require Import Bytes Dec Proto Value Model.Conv.


(* ---- integers -------------------------------------------------------------------------- *)

Definition parse_Z (f : str) : option Z :=
  match f with
  | 45 :: r => option_map (fun n => Z.opp (Z.of_N n)) (parse_dec r)
  | _ => option_map Z.of_N (parse_dec f)
  end.

(* ---- values:   n | t | f | i<dec> | s<hex> | o<dec> | [ v ... ] | { k<hex> v ... }  (one field each) ---- *)

Fixpoint print_value (v : value) : list str :=
  match v with
  | Null => [s2b "n"]
  | VBool true => [s2b "t"]
  | VBool false => [s2b "f"]
  | VInt z => [105 :: dec_of_Z z]
  | VStr s => [115 :: hex_encode s]
  | VOther t => [111 :: dec_of_N t]
  | Arr l => s2b "[" :: flat_map print_value l ++ [s2b "]"]
  | Obj m =>
      s2b "{" ::
      (fix go (m : list (str * value)) : list str :=
         match m with
         | [] => []
         | (k, c) :: r => (107 :: hex_encode k) :: print_value c ++ go r
         end) m ++ [s2b "}"]
  end.

Definition value_field (v : value) : str := out (print_value v).

(* recursive-descent parser over the field list, on fuel; returns the value and the remaining fields.
   Objects are re-sorted on the way in (obj_insert), so a model value is always key-sorted. *)
Fixpoint parse_value (fuel : nat) (fs : list str) : option (value * list str) :=
  match fuel with
  | O => None
  | S fuel' =>
      match fs with
      | [] => None
      | f :: rest =>
          match f with
          | [110] => Some (Null, rest)
          | [116] => Some (VBool true, rest)
          | [102] => Some (VBool false, rest)
          | 105 :: d => match parse_Z d with Some z => Some (VInt z, rest) | None => None end
          | 115 :: h => match hex_decode h with Some s => Some (VStr s, rest) | None => None end
          | 111 :: d => match parse_dec d with Some t => Some (VOther t, rest) | None => None end
          | [91] =>
              (fix items (n : nat) (fs : list str) (acc : list value) : option (value * list str) :=
                 match n with
                 | O => None
                 | S n' =>
                     match fs with
                     | [93] :: rest' => Some (Arr (rev acc), rest')
                     | _ => match parse_value fuel' fs with
                            | Some (v, rest') => items n' rest' (v :: acc)
                            | None => None
                            end
                     end
                 end) fuel' rest []
          | [123] =>
              (fix members (n : nat) (fs : list str) (acc : obj) : option (value * list str) :=
                 match n with
                 | O => None
                 | S n' =>
                     match fs with
                     | [125] :: rest' => Some (Obj acc, rest')
                     | (107 :: kh) :: rest' =>
                         match hex_decode kh, parse_value fuel' rest' with
                         | Some k, Some (v, rest'') => members n' rest'' (obj_insert k v acc)
                         | _, _ => None
                         end
                     | _ => None
                     end
                 end) fuel' rest []
          | _ => None
          end
      end
  end.

Definition parse_value_fields (fs : list str) : option (value * list str) :=
  parse_value (S (length fs)) fs.

(* ---- selector paths:  P  |  Pi<n>,k<hex>,... ------------------------------------------------- *)

Definition print_sel (s : sel) : str :=
  match s with
  | Idx n => 105 :: dec_of_nat n
  | Key k => 107 :: hex_encode k
  end.

Definition path_field (p : list sel) : str := 80 :: join 44 (map print_sel p).

(* ---- options / views ---------------------------------------------------------------------------- *)

(* a borrowed result that is a sub-slice [start, start+len) of the subject; empty results print "@e"
   (an empty slice has no meaningful address) *)
Definition view_field (start length : nat) : str :=
  match length with
  | O => s2b "@e"
  | _ => 64 :: dec_of_nat start ++ 43 :: dec_of_nat length
  end.

Definition none_field : str := s2b "-".

(* result known to be a suffix / prefix of subject p *)
Definition suffix_view (p s : str) : str := view_field (length p - length s) (length s).
Definition prefix_view (p s : str) : str := view_field 0 (length s).

Definition bool_field (b : bool) : str := if b then [49] else [48].
