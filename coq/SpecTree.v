(* SpecTree.v -- what resolve / assign / delete MEAN, as structural recursion on the list of
   ENCODED tokens of the pointer.  No pointer text, no fuel, no [outcome].
   [pos] / [off] are the index and the byte offset (of the introducing '/') of the head token.
   Definitions only; Proofs/TreeRefine.v shows the model (Model/Tree.v) computes exactly these,
   Proofs/TreeLaws*.v prove the laws C05-C08, C15 about them. *)

From JP Require Export Value Spec Model.Index Model.Tree.

(* ---- scalars, well-formed documents -------------------------------------------------------- *)

Definition is_scalar (v : value) : Prop := is_container v = false.

(* what serde_json / toml can actually hold: BTreeMap keys strictly increasing, Vec length a usize *)
Inductive wf_value : value -> Prop :=
| wf_scalar v : is_container v = false -> wf_value v
| wf_Arr l : len l <= USIZE_MAX -> Forall wf_value l -> wf_value (Arr l)
| wf_Obj m : keys_sorted m = true -> Forall (fun kv => wf_value (snd kv)) m -> wf_value (Obj m).

(* the part of well-formedness the write laws need: only the BTreeMap invariant *)
Inductive sorted_value : value -> Prop :=
| sorted_scalar v : is_container v = false -> sorted_value v
| sorted_Arr l : Forall sorted_value l -> sorted_value (Arr l)
| sorted_Obj m : keys_sorted m = true -> Forall (fun kv => sorted_value (snd kv)) m -> sorted_value (Obj m).

(* ---- resolve -------------------------------------------------------------------------------- *)

Fixpoint spec_resolve (ts : list str) (d : value) (pos off : N)
  : result (list sel * value) resolve_error :=
  match ts with
  | [] => Ok ([], d)
  | t :: r =>
      match d with
      | Arr a =>
          match index_from_str t with
          | Err e => Err (RFailedToParseIndex pos off e)
          | Ok Next => Err (ROutOfBounds pos off (len a) (len a))
          | Ok (Num n) =>
              if n <? len a then
                match nth_error a (N.to_nat n) with
                | Some c =>
                    match spec_resolve r c (pos + 1) (off + (1 + len t)) with
                    | Ok (p, v) => Ok (Idx (N.to_nat n) :: p, v)
                    | Err e => Err e
                    end
                | None => Err (ROutOfBounds pos off (len a) n)     (* not reachable: n < len a *)
                end
              else Err (ROutOfBounds pos off (len a) n)
          end
      | Obj m =>
          match obj_lookup (unescape t) m with
          | Some c =>
              match spec_resolve r c (pos + 1) (off + (1 + len t)) with
              | Ok (p, v) => Ok (Key (unescape t) :: p, v)
              | Err e => Err e
              end
          | None => Err (RNotFound pos off)
          end
      | _ => Err (RUnreachable pos off)
      end
  end.

(* the same walk, but '-' on an array reads its LAST element (used to state read-your-write) *)
Fixpoint spec_resolve_last (ts : list str) (d : value) : option (list sel * value) :=
  match ts with
  | [] => Some ([], d)
  | t :: r =>
      match d with
      | Arr a =>
          match index_from_str t with
          | Err _ => None
          | Ok i =>
              let n := match i with Num n => n | Next => len a - 1 end in
              if n <? len a then
                match nth_error a (N.to_nat n) with
                | Some c =>
                    match spec_resolve_last r c with
                    | Some (p, v) => Some (Idx (N.to_nat n) :: p, v)
                    | None => None
                    end
                | None => None
                end
              else None
          end
      | Obj m =>
          match obj_lookup (unescape t) m with
          | Some c =>
              match spec_resolve_last r c with
              | Some (p, v) => Some (Key (unescape t) :: p, v)
              | None => None
              end
          | None => None
          end
      | _ => None
      end
  end.

(* writing through resolve_mut *)
Definition spec_write_through (ts : list str) (d v : value) : result value resolve_error :=
  match spec_resolve ts d 0 0 with
  | Ok (path, _) => Ok (update_at path (fun _ => v) d)
  | Err e => Err e
  end.

(* ---- assign --------------------------------------------------------------------------------- *)

(* the value built around [v] for the tokens that do not exist yet:
   exactly "0" and "-" make a one-element array, every other token an object keyed by the
   DECODED token *)
Fixpoint materialise (ts : list str) (v : value) : value :=
  match ts with
  | [] => v
  | t :: r =>
      if str_eqb t [ZERO] || str_eqb t [DASH] then Arr [materialise r v]
      else Obj [(unescape t, materialise r v)]
  end.

Fixpoint spec_assign (ts : list str) (d v : value) (pos off : N)
  : value * result (option value) assign_error :=
  match ts with
  | [] => (v, Ok (Some d))                                   (* root: replace, return the old *)
  | t :: r =>
      match d with
      | Arr a =>
          match index_from_str t with
          | Err e => (d, Err (AFailedToParseIndex pos off e))
          | Ok i =>
              let n := match i with Num n => n | Next => len a end in     (* '-' = the length *)
              if n <? len a then
                match nth_error a (N.to_nat n) with
                | Some c =>
                    let '(c', res) := spec_assign r c v (pos + 1) (off + (1 + len t)) in
                    (Arr (set_nth (N.to_nat n) c' a), res)
                | None => (d, Err (AOutOfBounds pos off (len a) n))        (* not reachable *)
                end
              else if n =? len a then (Arr (a ++ [materialise r v]), Ok None)   (* append *)
              else (d, Err (AOutOfBounds pos off (len a) n))
          end
      | Obj m =>
          match obj_lookup (unescape t) m with
          | Some c =>
              let '(c', res) := spec_assign r c v (pos + 1) (off + (1 + len t)) in
              (Obj (obj_insert (unescape t) c' m), res)
          | None => (Obj (obj_insert (unescape t) (materialise r v) m), Ok None)
          end
      | _ => (materialise (t :: r) v, Ok (Some d))           (* a scalar is replaced *)
      end
  end.

(* ---- delete --------------------------------------------------------------------------------- *)

Definition remove_child (s : sel) (d : value) : value :=
  match s, d with
  | Idx n, Arr a => Arr (remove_nth n a)
  | Key k, Obj m => Obj (obj_remove k m)
  | _, _ => d
  end.

(* the document with exactly the member / element at [path] removed *)
Fixpoint remove_at (path : list sel) (d : value) : value :=
  match path with
  | [] => d
  | s :: r =>
      match r with
      | [] => remove_child s d
      | _ :: _ =>
          match s, d with
          | Idx n, Arr a =>
              match nth_error a n with
              | Some c => Arr (set_nth n (remove_at r c) a)
              | None => d
              end
          | Key k, Obj m =>
              match obj_lookup k m with
              | Some c => Obj (obj_insert k (remove_at r c) m)
              | None => d
              end
          | _, _ => d
          end
      end
  end.

Definition empty_root (be : backend) : value :=
  match be with Json => Null | Toml => Obj [] end.

Definition spec_delete (be : backend) (ts : list str) (d : value) : value * option value :=
  match ts with
  | [] => (empty_root be, Some d)
  | _ :: _ =>
      match spec_resolve ts d 0 0 with
      | Ok (path, v) => (remove_at path d, Some v)
      | Err _ => (d, None)
      end
  end.

(* ---- token-list prefixes (for the frame law) --------------------------------------------------- *)

Definition is_prefix {A} (a b : list A) : Prop := exists c, b = a ++ c.

(* ==== vocabulary of the property statements (C05, C06, C07, C15) ==================================== *)

Definition dash_free (ts : list str) : Prop := Forall (fun t => t <> [DASH]) ts.

(* the statement of C05 (errors), per constructor *)
Definition first_failure (ts : list str) (d : value) (e : resolve_error) : Prop :=
  exists pre t post path c,
    ts = pre ++ t :: post /\ spec_resolve pre d 0 0 = Ok (path, c) /\
    re_position e = len pre /\ re_offset e = len (from_tokens_enc pre) /\
    match e with
    | RUnreachable _ _ => is_scalar c
    | RNotFound _ _ => exists m, c = Obj m /\ obj_lookup (unescape t) m = None
    | RFailedToParseIndex _ _ pe => exists a, c = Arr a /\ index_from_str t = Err pe
    | ROutOfBounds _ _ l i =>
        exists a, c = Arr a /\ l = len a /\
          ((index_from_str t = Ok Next /\ i = len a) \/ (index_from_str t = Ok (Num i) /\ len a <= i))
    end.

(* the only errors of assign: on an EXISTING array, a non-index token or an index > length *)
Definition assign_first_failure (ts : list str) (d : value) (e : assign_error) : Prop :=
  exists pre t post path a,
    ts = pre ++ t :: post /\ spec_resolve pre d 0 0 = Ok (path, Arr a) /\
    ae_position e = len pre /\ ae_offset e = len (from_tokens_enc pre) /\
    match e with
    | AFailedToParseIndex _ _ pe => index_from_str t = Err pe
    | AOutOfBounds _ _ l i => l = len a /\ index_from_str t = Ok (Num i) /\ len a < i
    end.

(* token number [k] of [ts], reported as (position, offset) *)
Definition locates (ts : list str) (k : nat) (position offset : N) : Prop :=
  (k < length ts)%nat /\ position = N.of_nat k /\ offset = len (from_tokens_enc (firstn k ts)).

(* the label (o, l) covers exactly the culprit's bytes inside p (an empty span at that place for an
   empty token) *)
Definition label_covers (p culprit : str) (offset o l : N) : Prop :=
  l = len culprit /\
  (culprit <> [] -> o = offset + 1 /\ firstn (N.to_nat l) (skipn (N.to_nat o) p) = culprit) /\
  (culprit = [] -> (o = offset \/ o = offset + 1) /\ o <= len p).

(* (position, offset) point at token number k of p: p.get(position) is that token, p.split_at(offset)
   cuts directly before it, the byte there is '/', and the diagnostic label covers it *)
Definition error_locates_culprit (p : str) (position offset : N) : Prop :=
  exists k culprit,
    locates (tokens p) k position offset /\
    nth_error (tokens p) k = Some culprit /\
    get_tok p position = Some culprit /\
    split_at p offset = Some (from_tokens_enc (firstn k (tokens p)), from_tokens_enc (skipn k (tokens p))) /\
    get_byte p offset = Some SLASH /\
    exists o l, walk_label position offset p = Some (o, l) /\ label_covers p culprit offset o l.
