(* GenPrelude.v -- the handful of primitives the GENERATED definitions (Generated/Scanners.v, written by
   tools/rs2v.py from the crate's current source) are expressed in.  Hand-written, definitions only.

   Every generated function returns [outcome T]: an out-of-range index or slice, a usize subtraction
   that would underflow (a panic in debug builds) are [Panic]; a `while` loop runs on explicit fuel. *)

From JP Require Export Bytes Dec.

(* `a[i]` *)
Definition idx_get (s : str) (i : N) : outcome N :=
  match nth_N s i with Some b => Ret b | None => Panic end.

(* usize `a - b` (debug-build semantics: underflow panics) *)
Definition sub_chk (a b : N) : outcome N := if a <? b then Panic else Ret (a - b).

(* usize `a + b` where an operand comes from the caller (any value up to usize::MAX): debug-build semantics, overflow panics.
   (Additions on counters derived from lengths are translated to unbounded `+`: they cannot reach 2^64.) *)
Definition add_chk (a b : N) : outcome N := if a + b <=? USIZE_MAX then Ret (a + b) else Panic.

(* `&s[i..]`, `&s[..i]`, `&s[a..b]` *)
Definition slice_from (s : str) (i : N) : outcome str :=
  if i <=? len s then Ret (skipn (N.to_nat i) s) else Panic.
Definition slice_to (s : str) (i : N) : outcome str :=
  if i <=? len s then Ret (firstn (N.to_nat i) s) else Panic.
Definition slice_range (s : str) (a b : N) : outcome str :=
  if (a <=? b) && (b <=? len s) then Ret (firstn (N.to_nat (b - a)) (skipn (N.to_nat a) s)) else Panic.

(* `s.bytes().position(f)` with the index as a usize *)
Definition positionN (f : N -> bool) (s : str) : option N := option_map N.of_nat (position f s).

(* alloc::borrow::Cow<'_, str> *)
Inductive Cow := Cow_Borrowed (s : str) | Cow_Owned (s : str).
Definition cow_text (c : Cow) : str := match c with Cow_Borrowed s => s | Cow_Owned s => s end.
Definition cow_owned (c : Cow) : bool := match c with Cow_Borrowed _ => false | Cow_Owned _ => true end.

(* Option<usize> equality, `usize::checked_add`, `str::find / rfind` with the index as a usize *)
Definition optN_eqb (a b : option N) : bool :=
  match a, b with Some x, Some y => x =? y | None, None => true | _, _ => false end.
Definition checked_add_usize (a b : N) : option N := if a + b <=? USIZE_MAX then Some (a + b) else None.
Definition findN (c : N) (s : str) : option N := option_map N.of_nat (find c s).
Definition rfindN (c : N) (s : str) : option N := option_map N.of_nat (rfind c s).

(* `str::is_char_boundary(i)` (core): 0 and len are boundaries; otherwise the byte at i must not be a UTF-8 continuation byte
   (0x80..=0xBF).  A purely byte-level test, exactly the one core performs. *)
Definition is_char_boundary (s : str) (i : N) : bool :=
  (i =? 0) || (i =? len s) ||
  match nth_N s i with Some b => negb ((128 <=? b) && (b <=? 191)) | None => false end.

(* `s.split_at(i)` on a `str`: panics when i > len AND when i is not a char boundary *)
Definition str_split_at (s : str) (i : N) : outcome (str * str) :=
  if (i <=? len s) && is_char_boundary s i then Ret (firstn (N.to_nat i) s, skipn (N.to_nat i) s) else Panic.

(* `String::split_off(i)`: panics when i > len (its char-boundary panic is NOT modelled, like that of `&s[a..b]`, `String::insert`
   and `String::remove`: DESIGN 13.12; the crate only ever calls these at positions it computed from `find` / `rfind`) *)
Definition str_split_off (s : str) (i : N) : outcome (str * str) :=
  if i <=? len s then Ret (firstn (N.to_nat i) s, skipn (N.to_nat i) s) else Panic.

(* `Pointer::tokens()`: `self.0.split('/')` with the first (empty) piece skipped; items are modelled by their
   encoded text.  A primitive of the translation (the Tokens / Split iterator structs are not translated). *)
Definition str_tokens (p : str) : list str := tl (split_on 47 p).

(* `String::insert(idx, ch)` / `insert_str(idx, s)` and `String::remove(idx)`: panic when idx is out of range
   (and when it is not a char boundary: not modelled) *)
Definition str_insert (s : str) (i : N) (x : str) : outcome str :=
  if i <=? len s then Ret (firstn (N.to_nat i) s ++ x ++ skipn (N.to_nat i) s) else Panic.
Definition str_remove (s : str) (i : N) : outcome str :=
  if i <? len s then Ret (firstn (N.to_nat i) s ++ skipn (S (N.to_nat i)) s) else Panic.

(* `s.chars()`: the code points of a (well-formed) UTF-8 text.  One character is read at a time by the width its lead
   byte announces; on ill-formed input the result is unspecified (Rust `str`s are always well formed: the theorems
   that use [str_chars] assume [utf8_valid]).  `s.chars().position(f)` is [chars_positionN]. *)
Fixpoint str_chars (s : str) : list N :=
  match s with
  | [] => []
  | b :: r =>
      if b <? 128 then b :: str_chars r
      else if b <? 224 then
        match r with
        | c1 :: r' => ((b - 192) * 64 + (c1 - 128)) :: str_chars r'
        | [] => [b]
        end
      else if b <? 240 then
        match r with
        | c1 :: c2 :: r' => ((b - 224) * 4096 + (c1 - 128) * 64 + (c2 - 128)) :: str_chars r'
        | _ => [b]
        end
      else
        match r with
        | c1 :: c2 :: c3 :: r' => ((b - 240) * 262144 + (c1 - 128) * 4096 + (c2 - 128) * 64 + (c3 - 128)) :: str_chars r'
        | _ => [b]
        end
  end.

Definition chars_positionN (f : N -> bool) (s : str) : option N := positionN f (str_chars s).

(* `v[i] = x` on a Vec: panics when i is out of range *)
Definition list_set {A} (l : list A) (i : N) (x : A) : outcome (list A) :=
  if i <? len l then Ret (set_nth (N.to_nat i) x l) else Panic.
