(* GenPrelude.v -- the handful of primitives the GENERATED definitions (Generated/Scanners.v, written by
   tools/rs2v.py from the crate's current source) are expressed in.  Hand-written, definitions only.

   Every generated function returns [outcome T]: an out-of-range index or slice, a usize subtraction
   that would underflow (a panic in debug builds) are [Panic]; a `while` loop runs on explicit fuel. *)

From JP Require Export Bytes Dec.

(* `a[i]` *)
Definition idx_get (s : str) (i : N) : outcome N :=
  match nth_N s i with Some b => Ret b | None => Panic end.

(* usize `a - b` (debug-build semantics: underflow panics) *)
Definition sub_chk (a b : N) : outcome N := if a <? b then Panic else Ret (a - b).

(* `&s[i..]`, `&s[..i]`, `&s[a..b]` *)
Definition slice_from (s : str) (i : N) : outcome str :=
  if i <=? len s then Ret (skipn (N.to_nat i) s) else Panic.
Definition slice_to (s : str) (i : N) : outcome str :=
  if i <=? len s then Ret (firstn (N.to_nat i) s) else Panic.
Definition slice_range (s : str) (a b : N) : outcome str :=
  if (a <=? b) && (b <=? len s) then Ret (firstn (N.to_nat (b - a)) (skipn (N.to_nat a) s)) else Panic.

(* `s.bytes().position(f)` with the index as a usize *)
Definition positionN (f : N -> bool) (s : str) : option N := option_map N.of_nat (position f s).

(* alloc::borrow::Cow<'_, str> *)
Inductive Cow := Cow_Borrowed (s : str) | Cow_Owned (s : str).
Definition cow_text (c : Cow) : str := match c with Cow_Borrowed s => s | Cow_Owned s => s end.
Definition cow_owned (c : Cow) : bool := match c with Cow_Borrowed _ => false | Cow_Owned _ => true end.

(* Option<usize> equality, `usize::checked_add`, `str::find / rfind` with the index as a usize *)
Definition optN_eqb (a b : option N) : bool :=
  match a, b with Some x, Some y => x =? y | None, None => true | _, _ => false end.
Definition checked_add_usize (a b : N) : option N := if a + b <=? USIZE_MAX then Some (a + b) else None.
Definition findN (c : N) (s : str) : option N := option_map N.of_nat (find c s).
Definition rfindN (c : N) (s : str) : option N := option_map N.of_nat (rfind c s).

(* `s.split_at(i)`: panics when i > len (and when i is not a char boundary: not modelled, see DESIGN 13) *)
Definition str_split_at (s : str) (i : N) : outcome (str * str) :=
  if i <=? len s then Ret (firstn (N.to_nat i) s, skipn (N.to_nat i) s) else Panic.

(* `Pointer::tokens()`: `self.0.split('/')` with the first (empty) piece skipped; items are modelled by their
   encoded text.  A primitive of the translation (the Tokens / Split iterator structs are not translated). *)
Definition str_tokens (p : str) : list str := tl (split_on 47 p).

(* `String::insert(idx, ch)` / `insert_str(idx, s)` and `String::remove(idx)`: panic when idx is out of range
   (and when it is not a char boundary: not modelled) *)
Definition str_insert (s : str) (i : N) (x : str) : outcome str :=
  if i <=? len s then Ret (firstn (N.to_nat i) s ++ x ++ skipn (N.to_nat i) s) else Panic.
Definition str_remove (s : str) (i : N) : outcome str :=
  if i <? len s then Ret (firstn (N.to_nat i) s ++ skipn (S (N.to_nat i)) s) else Panic.
