#!/bin/bash
# build the extracted model runner: /verif/runner/runner
set -e
cd "$(dirname "$0")"
cp ../coq/model.ml ../coq/model.mli .
ocamlfind ocamlopt -O3 -unboxed-types 2>/dev/null >/dev/null || true
ocamlfind ocamlopt -w -a -o runner model.mli model.ml driver.ml
