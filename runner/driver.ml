(* driver.ml -- reads one case per line on stdin, prints the model's result per line.
   All protocol parsing/printing is inside the extracted Gallina [Model.run_line];
   this file only converts between OCaml chars and Coq's binary naturals. *)

let rec pos_of_int (n : int) : Model.positive =
  if n = 1 then Model.XH
  else if n land 1 = 0 then Model.XO (pos_of_int (n lsr 1))
  else Model.XI (pos_of_int (n lsr 1))

let n_of_int (n : int) : Model.n = if n = 0 then Model.N0 else Model.Npos (pos_of_int n)

let rec int_of_pos (p : Model.positive) : int =
  match p with
  | Model.XH -> 1
  | Model.XO q -> 2 * int_of_pos q
  | Model.XI q -> 2 * int_of_pos q + 1

let int_of_n (n : Model.n) : int = match n with Model.N0 -> 0 | Model.Npos p -> int_of_pos p

(* table of the 256 byte values, built once *)
let table = Array.init 256 n_of_int

let list_of_line (s : string) : Model.n list =
  let r = ref [] in
  for i = String.length s - 1 downto 0 do
    r := table.(Char.code s.[i]) :: !r
  done;
  !r

let () =
  let buf = Buffer.create 4096 in
  let out = Buffer.create (1 lsl 16) in
  (try
     while true do
       let line = input_line stdin in
       (* the extracted functions are not tail recursive; on a very long case with a small stack limit the
          model gives up on that case (the check counts it as skipped) instead of crashing *)
       let res = try Model.run_line (list_of_line line)
                 with Stack_overflow -> list_of_line "model-stack-overflow" in
       Buffer.clear buf;
       List.iter (fun b -> Buffer.add_char buf (Char.chr ((int_of_n b) land 255))) res;
       Buffer.add_buffer out buf;
       Buffer.add_char out '\n';
       if Buffer.length out > (1 lsl 16) then (print_string (Buffer.contents out); Buffer.clear out)
     done
   with End_of_file -> ());
  print_string (Buffer.contents out)
