"""rsparse.py -- lexer and parser for the subset of Rust used by the functions that tools/rs2v.py
translates to Gallina.  Anything outside the subset raises RsError (the caller reports the function
as 'not translatable', which is a broken obligation, never a silent skip).

AST (tuples):
  expressions
    ('int', n) ('byte', n) ('char', n) ('str', bytes) ('bstr', bytes) ('bool', b)
    ('path', [seg, ...])                      # a, Self::Num, core::mem::take ; generic args dropped
    ('unary', op, e)   op in '!', '-', '*', '&', '&mut'
    ('binary', op, l, r)
    ('field', e, name) ('mcall', recv, name, [args]) ('call', f, [args]) ('index', e, idx)
    ('range', lo|None, hi|None, inclusive)
    ('struct', path, [(field, expr)], has_rest)
    ('closure', [pat], body)
    ('if', cond, then_block, else_expr|None)  # cond may be ('let', pat, expr)
    ('match', scrut, [([pat, ...], guard|None, expr)])
    ('block', [stmt], tail|None)              # unsafe blocks are plain blocks
    ('return', e|None) ('break',) ('continue',)
    ('macro', name, [token])
    ('tuple', [e]) ('try', e) ('cast', e, type_tokens)
  statements
    ('let', pat, init|None) ('assign', lhs, op, rhs) ('expr', e)
    ('while', cond, block) ('for', pat, iter, block)
  patterns
    ('p_wild',) ('p_bind', name) ('p_lit', expr) ('p_path', [seg]) ('p_tuple', [pat])
    ('p_ctor', [seg], [pat]) ('p_struct', [seg], [(field, pat)], has_rest) ('p_ref', pat) ('p_range', lo, hi)
"""
import re


class RsError(Exception):
    pass


TOKEN_RE = re.compile(r"""
    (?P<ws>\s+)
  | (?P<lcomment>//[^\n]*)
  | (?P<bcomment>/\*.*?\*/)
  | (?P<bytelit>b'(?:\\.|[^\\'])')
  | (?P<bstr>b"(?:\\.|[^\\"])*")
  | (?P<str>"(?:\\.|[^\\"])*")
  | (?P<charlit>'(?:\\(?:x[0-9a-fA-F]{2}|u\{[0-9a-fA-F]+\}|.)|[^\\'])')
  | (?P<lifetime>'[A-Za-z_][A-Za-z0-9_]*)
  | (?P<num>0x[0-9a-fA-F_]+(?:usize|u8|u16|u32|u64|u128|isize|i8|i16|i32|i64|i128)?|0b[01_]+(?:usize|u8|u16|u32|u64)?|[0-9][0-9_]*(?:usize|u8|u16|u32|u64|u128|isize|i8|i16|i32|i64|i128)?)
  | (?P<ident>r\#[A-Za-z_][A-Za-z0-9_]*|[A-Za-z_][A-Za-z0-9_]*)
  | (?P<punct>\.\.=|\.\.\.|<<=|>>=|::|->|=>|==|!=|<=|>=|&&|\|\||\+=|-=|\*=|/=|%=|\^=|&=|\|=|<<|>>|\.\.|[{}()\[\];,.:<>=+\-*/%!&|^?#@$~])
""", re.X | re.S)


def unescape(body):
    out = bytearray()
    i = 0
    while i < len(body):
        c = body[i]
        if c == "\\":
            n = body[i + 1]
            if n == "n": out.append(10); i += 2
            elif n == "r": out.append(13); i += 2
            elif n == "t": out.append(9); i += 2
            elif n == "0": out.append(0); i += 2
            elif n == "\\": out.append(92); i += 2
            elif n == "'": out.append(39); i += 2
            elif n == '"': out.append(34); i += 2
            elif n == "x": out.append(int(body[i + 2:i + 4], 16)); i += 4
            elif n == "u":
                j = body.index("}", i)
                out += chr(int(body[i + 3:j], 16)).encode(); i = j + 1
            else: raise RsError(f"unknown escape \\{n}")
        else:
            out += c.encode(); i += 1
    return bytes(out)


COQ_RESERVED = {"end", "at", "fix", "cofix", "fun", "with", "then", "forall", "exists", "exists2", "Type", "Prop", "Set", "using"}


PRELUDE_NAMES = {"len", "length", "rev", "app", "fst", "snd", "combine", "firstn", "skipn", "negb", "andb", "orb"}


def lex(src, renames=None):
    toks = []
    pos = 0
    n = len(src)
    while pos < n:
        m = TOKEN_RE.match(src, pos)
        if not m:
            raise RsError(f"cannot lex at offset {pos}: {src[pos:pos+30]!r}")
        kind = m.lastgroup
        text = m.group(0)
        pos = m.end()
        if kind in ("ws", "lcomment", "bcomment"):
            continue
        if kind == "ident" and renames and text in renames:
            text = renames[text]         # per-file type renames (e.g. resolve::Error -> ResolveError)
        if kind == "ident" and text in COQ_RESERVED:
            text = text + "_"            # `end`, `at`, ... are Coq keywords: renamed consistently everywhere
        if kind == "ident" and text in PRELUDE_NAMES and not (toks and toks[-1][1] in (".", "::", "fn")):
            text = text + "_"            # a local named like a Gallina function the generated code uses (`len`, ...)
        toks.append((kind, text, m.start()))
    return toks


KEYWORDS = {"let", "mut", "if", "else", "match", "while", "for", "in", "return", "break", "continue", "unsafe",
            "fn", "pub", "impl", "struct", "enum", "const", "as", "loop", "ref", "move", "true", "false", "where",
            "use", "mod", "trait", "type", "static", "crate", "self", "Self", "super", "dyn"}


class Parser:
    def __init__(self, toks, i=0):
        self.t = toks
        self.i = i

    # -- token helpers
    def peek(self, k=0):
        j = self.i + k
        return self.t[j] if j < len(self.t) else ("eof", "", -1)

    def at(self, text, k=0):
        return self.peek(k)[1] == text and self.peek(k)[0] in ("punct", "ident")

    def eat(self, text):
        if self.at(text):
            self.i += 1
            return True
        return False

    def expect(self, text):
        if not self.eat(text):
            k, t, p = self.peek()
            raise RsError(f"expected {text!r}, found {t!r} (token {self.i})")

    def ident(self):
        k, t, p = self.peek()
        if k != "ident":
            raise RsError(f"expected identifier, found {t!r}")
        self.i += 1
        return t

    # -- types: consumed, returned as the list of token texts
    def parse_type(self, stop=(",", ")", "=", ";", "{", "|", ">")):
        out = []
        depth = 0
        while True:
            k, t, p = self.peek()
            if k == "eof": break
            if depth == 0 and t in stop and k == "punct":
                # '>' closes only if it is not ours
                break
            if t in ("<", "(", "["): depth += 1
            elif t == "<<": depth += 2
            elif t in (">", ")", "]"):
                depth -= 1
            elif t == ">>":
                depth -= 2
            elif t == "->" and depth == 0 and "->" in stop:
                break
            out.append(t)
            self.i += 1
        return out

    def skip_generics(self):
        """at '<': skip a balanced <...>"""
        assert self.at("<")
        depth = 0
        while True:
            k, t, p = self.peek()
            if k == "eof": raise RsError("unbalanced <>")
            if t == "<": depth += 1
            elif t == "<<": depth += 2
            elif t == ">": depth -= 1
            elif t == ">>": depth -= 2
            self.i += 1
            if depth <= 0: break

    # -- paths
    def parse_path(self, expr_ctx=True):
        segs = []
        if self.eat("::"): pass
        while True:
            k, t, p = self.peek()
            if k != "ident":
                raise RsError(f"expected path segment, found {t!r}")
            segs.append(t); self.i += 1
            if self.at("::"):
                if self.at("<", 1):          # turbofish
                    self.i += 1
                    start = self.i
                    self.skip_generics()
                    segs[-1] = segs[-1] + "::<" + "".join(x[1] for x in self.t[start + 1:self.i - 1]) + ">"
                    if self.at("::"):
                        self.i += 1
                        continue
                    break
                self.i += 1
                continue
            if not expr_ctx and self.at("<"):
                self.skip_generics()
                if self.eat("::"): continue
            break
        return segs

    # -- patterns
    def parse_pattern(self):
        alts = [self.parse_pattern1()]
        while self.at("|"):
            self.i += 1
            alts.append(self.parse_pattern1())
        return alts if len(alts) > 1 else alts[0]

    def parse_pattern_alts(self):
        p = self.parse_pattern()
        return p if isinstance(p, list) else [p]

    def parse_pattern1(self):
        k, t, p = self.peek()
        if t == "_" and k == "ident":
            self.i += 1; return ("p_wild",)
        if t == "&":
            self.i += 1
            self.eat("mut")
            return ("p_ref", self.parse_pattern1())
        if t == "(":
            self.i += 1
            items = []
            while not self.at(")"):
                items.append(self.parse_pattern())
                if not self.eat(","): break
            self.expect(")")
            return ("p_tuple", items)
        if k in ("bytelit", "charlit", "num", "str", "bstr") or t in ("true", "false") or t == "-":
            e = self.parse_unary()
            if self.at("..="):
                self.i += 1
                hi = self.parse_unary()
                return ("p_range", e, hi)
            return ("p_lit", e)
        if k == "ident":
            if t in ("ref", "mut"):
                self.i += 1
                return self.parse_pattern1()
            segs = self.parse_path(expr_ctx=False)
            if self.at("("):
                self.i += 1
                items = []
                while not self.at(")"):
                    if self.at(".."):
                        self.i += 1; items.append(("p_rest",))
                    else:
                        items.append(self.parse_pattern())
                    if not self.eat(","): break
                self.expect(")")
                return ("p_ctor", segs, items)
            if self.at("{"):
                self.i += 1
                fields, rest = [], False
                while not self.at("}"):
                    if self.at(".."):
                        self.i += 1; rest = True
                    else:
                        self.eat("ref"); self.eat("mut")
                        f = self.ident()
                        if self.eat(":"):
                            fields.append((f, self.parse_pattern()))
                        else:
                            fields.append((f, ("p_bind", f)))
                    if not self.eat(","): break
                self.expect("}")
                return ("p_struct", segs, fields, rest)
            if len(segs) == 1 and not segs[0][0].isupper():
                if self.at("@"):
                    raise RsError("@ patterns not supported")
                return ("p_bind", segs[0])
            return ("p_path", segs)
        raise RsError(f"cannot parse pattern at {t!r}")

    # -- blocks and statements
    def parse_block(self):
        self.expect("{")
        stmts = []
        tail = None
        while not self.at("}"):
            k, t, p = self.peek()
            if k == "eof": raise RsError("unterminated block")
            if t == ";" and k == "punct":
                self.i += 1; continue
            if t == "#":                       # attribute on a statement
                self.i += 1
                self.eat("!")
                self.skip_balanced("[", "]")
                continue
            if t == "let":
                self.i += 1
                pat = self.parse_pattern()
                if self.eat(":"):
                    self.parse_type(stop=("=", ";"))
                init = None
                if self.eat("="):
                    init = self.parse_expr()
                    if self.at("else"):
                        self.i += 1
                        els = self.parse_block()
                        self.expect(";")
                        stmts.append(("letelse", pat, init, els))
                        continue
                self.expect(";")
                stmts.append(("let", pat, init))
                continue
            if t == "while":
                self.i += 1
                cond = self.parse_cond()
                body = self.parse_block()
                stmts.append(("while", cond, body))
                continue
            if t == "for":
                self.i += 1
                pat = self.parse_pattern()
                self.expect("in")
                it = self.parse_expr(nostruct=True)
                body = self.parse_block()
                stmts.append(("for", pat, it, body))
                continue
            if t == "loop":
                raise RsError("loop not supported")
            if t in ("fn", "const", "use", "struct", "enum", "impl", "static"):
                raise RsError(f"nested item `{t}` not supported")
            e = self.parse_expr()
            if self.at("=") or self.peek()[1] in ("+=", "-=", "*=", "/=", "%="):
                op = self.peek()[1]
                self.i += 1
                rhs = self.parse_expr()
                self.expect(";")
                stmts.append(("assign", e, op, rhs))
                continue
            if self.eat(";"):
                stmts.append(("expr", e))
                continue
            if self.at("}"):
                tail = e
                break
            if e[0] in ("if", "match", "block"):     # block-like expression statement
                stmts.append(("expr", e))
                continue
            raise RsError(f"expected ';' or '}}' after expression, found {self.peek()[1]!r}")
        self.expect("}")
        return ("block", stmts, tail)

    def skip_balanced(self, o, c):
        self.expect(o)
        depth = 1
        while depth:
            k, t, p = self.peek()
            if k == "eof": raise RsError("unbalanced")
            if t == o and k == "punct": depth += 1
            elif t == c and k == "punct": depth -= 1
            self.i += 1

    def parse_cond(self):
        if self.at("let"):
            self.i += 1
            pat = self.parse_pattern()
            self.expect("=")
            e = self.parse_expr(nostruct=True)
            return ("let", pat, e)
        return self.parse_expr(nostruct=True)

    # -- expressions (precedence climbing)
    BINOPS = [
        ("||",), ("&&",), ("==", "!=", "<", ">", "<=", ">="), ("|",), ("^",), ("&",), ("<<", ">>"), ("+", "-"), ("*", "/", "%"),
    ]

    def parse_expr(self, nostruct=False):
        old = getattr(self, "nostruct", False)
        self.nostruct = nostruct
        try:
            return self.parse_range()
        finally:
            self.nostruct = old

    def range_end_here(self):
        k, t, p = self.peek()
        return t in (")", "]", "}", ",", ";", "=>") or k == "eof" or (t == "{" and self.nostruct)

    def parse_range(self):
        if self.at("..") or self.at("..="):
            incl = self.peek()[1] == "..="
            self.i += 1
            hi = None if self.range_end_here() else self.parse_bin(0)
            return ("range", None, hi, incl)
        lo = self.parse_bin(0)
        if self.at("..") or self.at("..="):
            incl = self.peek()[1] == "..="
            self.i += 1
            hi = None if self.range_end_here() else self.parse_bin(0)
            return ("range", lo, hi, incl)
        return lo

    def parse_bin(self, level):
        if level == len(self.BINOPS):
            return self.parse_cast()
        l = self.parse_bin(level + 1)
        while self.peek()[0] == "punct" and self.peek()[1] in self.BINOPS[level]:
            op = self.peek()[1]
            # `|` could start a closure only in prefix position, so here it is an operator
            self.i += 1
            r = self.parse_bin(level + 1)
            l = ("binary", op, l, r)
        return l

    def parse_cast(self):
        e = self.parse_unary()
        while self.at("as"):
            self.i += 1
            ty = self.parse_type(stop=(",", ")", "=", ";", "{", "|", ">", "+", "-", "*", "/", "==", "!=", "<", "<=", ">=", "&&", "||", "]", "}", "=>", "..", "?", "."))
            e = ("cast", e, ty)
        return e

    def parse_unary(self):
        k, t, p = self.peek()
        if k == "punct" and t in ("!", "-", "*"):
            self.i += 1
            return ("unary", t, self.parse_unary())
        if k == "punct" and t in ("&", "&&"):
            self.i += 1
            if self.eat("mut"):
                e = ("unary", "&mut", self.parse_unary())
            else:
                e = ("unary", "&", self.parse_unary())
            if t == "&&": e = ("unary", "&", e)
            return e
        return self.parse_postfix()

    def parse_args(self):
        self.expect("(")
        args = []
        old = self.nostruct
        self.nostruct = False
        while not self.at(")"):
            args.append(self.parse_range())
            if not self.eat(","): break
        self.expect(")")
        self.nostruct = old
        return args

    def parse_postfix(self):
        e = self.parse_primary()
        while True:
            if self.at("?"):
                self.i += 1
                e = ("try", e)
            elif self.at("."):
                k2, t2, _ = self.peek(1)
                if k2 == "num":
                    self.i += 2
                    e = ("field", e, t2)
                    continue
                if k2 != "ident":
                    break
                self.i += 1
                name = self.ident()
                if self.at("::"):
                    self.i += 1
                    start = self.i
                    self.skip_generics()
                    name = name + "::<" + "".join(x[1] for x in self.t[start + 1:self.i - 1]) + ">"
                if self.at("("):
                    e = ("mcall", e, name, self.parse_args())
                else:
                    e = ("field", e, name)
            elif self.at("("):
                e = ("call", e, self.parse_args())
            elif self.at("["):
                self.i += 1
                old = self.nostruct
                self.nostruct = False
                idx = self.parse_range()
                self.nostruct = old
                self.expect("]")
                e = ("index", e, idx)
            else:
                break
        return e

    def parse_primary(self):
        k, t, p = self.peek()
        if k == "num":
            self.i += 1
            t2 = re.sub(r"(usize|u8|u16|u32|u64|u128|isize|i8|i16|i32|i64|i128)$", "", t.replace("_", ""))
            if t2.startswith("0x"): return ("int", int(t2[2:], 16))
            if t2.startswith("0b"): return ("int", int(t2[2:], 2))
            return ("int", int(t2 or "0"))
        if k == "bytelit":
            self.i += 1
            b = unescape(t[2:-1])
            return ("byte", b[0])
        if k == "charlit":
            self.i += 1
            b = unescape(t[1:-1]).decode()
            return ("char", ord(b))
        if k == "str":
            self.i += 1
            return ("str", unescape(t[1:-1]))
        if k == "bstr":
            self.i += 1
            return ("bstr", unescape(t[2:-1]))
        if t == "true" or t == "false":
            self.i += 1
            return ("bool", t == "true")
        if t == "(":
            self.i += 1
            old = self.nostruct
            self.nostruct = False
            if self.at(")"):
                self.i += 1; self.nostruct = old
                return ("tuple", [])
            e = self.parse_range()
            if self.at(","):
                items = [e]
                while self.eat(","):
                    if self.at(")"): break
                    items.append(self.parse_range())
                self.expect(")")
                self.nostruct = old
                return ("tuple", items)
            self.expect(")")
            self.nostruct = old
            return ("paren", e)
        if t == "{" and k == "punct":
            return self.parse_block()
        if t == "unsafe":
            self.i += 1
            return self.parse_block()
        if t == "if":
            self.i += 1
            cond = self.parse_cond()
            then = self.parse_block()
            els = None
            if self.eat("else"):
                if self.at("if"):
                    els = self.parse_primary()
                else:
                    els = self.parse_block()
            return ("if", cond, then, els)
        if t == "match":
            self.i += 1
            scrut = self.parse_expr(nostruct=True)
            self.expect("{")
            arms = []
            while not self.at("}"):
                self.eat("|")
                pats = self.parse_pattern_alts()
                guard = None
                if self.eat("if"):
                    guard = self.parse_expr()
                self.expect("=>")
                body = self.parse_expr()
                arms.append((pats, guard, body))
                if not self.eat(","):
                    if not self.at("}") and body[0] != "block" and body[0] != "if" and body[0] != "match":
                        raise RsError("expected ',' between match arms")
            self.expect("}")
            return ("match", scrut, arms)
        if t == "return":
            self.i += 1
            if self.peek()[1] in (";", "}", ",", ")"):
                return ("return", None)
            return ("return", self.parse_range())
        if t == "break":
            self.i += 1
            if self.peek()[1] not in (";", "}", ","):
                raise RsError("break with label/value not supported")
            return ("break",)
        if t == "continue":
            self.i += 1
            return ("continue",)
        if t in ("|", "||") and k == "punct":
            params = []
            if t == "||":
                self.i += 1
            else:
                self.i += 1
                while not self.at("|"):
                    params.append(self.parse_pattern1())
                    if self.eat(":"):
                        self.parse_type(stop=(",", "|"))
                    if not self.eat(","): break
                self.expect("|")
            if self.at("->"):
                raise RsError("closure return types not supported")
            body = self.parse_range()
            return ("closure", params, body)
        if t == "move":
            self.i += 1
            return self.parse_primary()
        if k == "ident":
            if t == "<" : raise RsError("qualified paths not supported")
            segs = self.parse_path()
            if self.at("!") and not self.at("!=") and self.peek(1)[1] in ("(", "[", "{"):
                self.i += 1
                o = self.peek()[1]
                c = {"(": ")", "[": "]", "{": "}"}[o]
                start = self.i + 1
                self.skip_balanced(o, c)
                return ("macro", "::".join(segs), self.t[start:self.i - 1])
            if self.at("{") and not self.nostruct and (segs[-1][0].isupper()):
                # struct literal
                self.i += 1
                fields, rest = [], False
                old = self.nostruct
                self.nostruct = False
                while not self.at("}"):
                    if self.at(".."):
                        raise RsError("struct update syntax not supported")
                    f = self.ident()
                    if self.eat(":"):
                        fields.append((f, self.parse_range()))
                    else:
                        fields.append((f, ("path", [f])))
                    if not self.eat(","): break
                self.expect("}")
                self.nostruct = old
                return ("struct", segs, fields, rest)
            return ("path", segs)
        if t == "<" and k == "punct":
            raise RsError("qualified path expressions (<T as Trait>::f) not supported")
        raise RsError(f"cannot parse expression at {t!r} (token {self.i})")


# ------------------------------------------------------------------------------------ items

def strip_attrs_and_docs(toks):
    return toks


def find_items(src, renames=None):
    """Scan a source file's top level (and impl blocks) for fn / struct / enum / const items.
    Returns dict:  'fns': {(impl_type|None, trait|None, name): (params, ret_tokens, body_ast, span)},
                   'structs': {name: [(field, type_tokens)]}, 'enums': {name: [(variant, kind, payload)]},
                   'consts': {name: expr_ast}"""
    toks = lex(src, renames)
    out = {"fns": {}, "structs": {}, "enums": {}, "consts": {}, "errors": {}}
    scan_items(toks, 0, len(toks), None, None, out, src)
    return out


def match_brace(toks, i):
    """toks[i] is '{' / '(' / '[' / '<': index just past its partner"""
    o = toks[i][1]
    c = {"{": "}", "(": ")", "[": "]"}[o]
    depth = 0
    while i < len(toks):
        k, t, p = toks[i]
        if k == "punct":
            if t == o: depth += 1
            elif t == c:
                depth -= 1
                if depth == 0: return i + 1
        i += 1
    raise RsError("unbalanced braces")


def skip_angle(toks, i):
    depth = 0
    while i < len(toks):
        t = toks[i][1]
        if toks[i][0] == "punct":
            if t == "<": depth += 1
            elif t == "<<": depth += 2
            elif t == ">": depth -= 1
            elif t == ">>": depth -= 2
            elif t == "->" : pass
        i += 1
        if depth <= 0: return i
    raise RsError("unbalanced <>")


def scan_items(toks, i, end, impl_ty, impl_trait, out, src, mod=None):
    cfg_test = False
    while i < end:
        k, t, p = toks[i]
        if t == "#" and k == "punct":
            j = i + 1
            if toks[j][1] == "!": j += 1
            j2 = match_brace(toks, j)
            attr = "".join(x[1] for x in toks[j:j2])
            if "cfg(test)" in attr.replace(" ", ""):
                cfg_test = True
            i = j2
            continue
        if t in ("pub", "unsafe", "async", "default"):
            i += 1
            if toks[i][1] == "(":
                i = match_brace(toks, i)
            continue
        if t == "mod":
            # mod name { ... } or mod name;
            j = i + 2
            if toks[j][1] == "{":
                j2 = match_brace(toks, j)
                if not cfg_test:
                    scan_items(toks, j + 1, j2 - 1, None, None, out, src, toks[i + 1][1] if mod is None else mod + "::" + toks[i + 1][1])
                i = j2
            else:
                i = j + 1
            cfg_test = False
            continue
        if t == "impl":
            j = i + 1
            if toks[j][1] == "<": j = skip_angle(toks, j)
            # collect header tokens up to '{'
            hdr = []
            while toks[j][1] != "{" or toks[j][0] != "punct":
                hdr.append(toks[j]); j += 1
            texts = [x[1] for x in hdr]
            if "where" in texts: texts = texts[:texts.index("where")]
            if "for" in texts:
                k_ = texts.index("for")
                tr = "".join(texts[:k_]); ty = "".join(texts[k_ + 1:])
            else:
                tr = None; ty = "".join(texts)
            ty_name = re.sub(r"<.*$", "", ty).lstrip("&")
            tr_name = tr
            if tr is not None and ty.startswith("&"): tr_name = tr + "@ref"       # `impl Tr for &T` and `impl Tr for T` are different items
            j2 = match_brace(toks, j)
            if not cfg_test:
                scan_items(toks, j + 1, j2 - 1, ty_name, tr_name, out, src, mod)
            i = j2
            cfg_test = False
            continue
        if t == "const" and toks[i + 1][1] != "fn":
            name = toks[i + 1][1]
            j = i + 2
            while toks[j][1] != "=" and toks[j][1] != ";": j += 1
            if toks[j][1] == "=":
                ps = Parser(toks, j + 1)
                try:
                    e = ps.parse_expr()
                    out["consts"][name] = e
                    j = ps.i
                except RsError:
                    while toks[j][1] != ";": j += 1
            i = j + 1
            cfg_test = False
            continue
        if t == "const" and toks[i + 1][1] == "fn":
            i += 1
            continue
        if t == "fn":
            name = toks[i + 1][1]
            j = i + 2
            if toks[j][1] == "<": j = skip_angle(toks, j)
            # params
            pend = match_brace(toks, j)
            ps = Parser(toks, j + 1)
            params = []
            while ps.i < pend - 1:
                # self forms
                save = ps.i
                txt = [x[1] for x in toks[ps.i:ps.i + 4]]
                if txt[0] == "self" or txt[:2] == ["&", "self"] or txt[:3] == ["&", "mut", "self"] or txt[:2] == ["mut", "self"] \
                        or (txt[0] == "&" and toks[ps.i + 1][0] == "lifetime" and "self" in txt[2:4]):
                    while toks[ps.i][1] != "self": ps.i += 1
                    ps.i += 1
                    params.append(("self", ["Self"]))
                else:
                    pat = ps.parse_pattern1()
                    ps.expect(":")
                    ty = ps.parse_type(stop=(",", ")"))
                    params.append((pat, ty))
                if not ps.eat(","): break
            j = pend
            ret = []
            if toks[j][1] == "->":
                ps = Parser(toks, j + 1)
                ret = ps.parse_type(stop=("{", ";", "where"))
                j = ps.i
            while toks[j][1] not in ("{", ";"): j += 1
            if toks[j][1] == ";":
                i = j + 1; cfg_test = False
                continue
            j2 = match_brace(toks, j)
            if not cfg_test:
                key = (impl_ty, impl_trait, name, mod)
                try:
                    ps = Parser(toks, j)
                    body = ps.parse_block()
                    out["fns"][key] = (params, ret, body, (toks[i][2], toks[j2 - 1][2] + 1))
                except RsError as e:
                    out["errors"][key] = str(e)
                    out["fns"][key] = (params, ret, None, (toks[i][2], toks[j2 - 1][2] + 1))
            i = j2
            cfg_test = False
            continue
        if t == "struct":
            name = toks[i + 1][1]
            j = i + 2
            if toks[j][1] == "<": j = skip_angle(toks, j)
            if toks[j][1] == "{":
                j2 = match_brace(toks, j)
                fields = []
                ps = Parser(toks, j + 1)
                while ps.i < j2 - 1:
                    while ps.at("#"):
                        ps.i += 1; ps.skip_balanced("[", "]")
                    if ps.i >= j2 - 1: break
                    if ps.eat("pub"):
                        if ps.at("("): ps.skip_balanced("(", ")")
                    f = ps.ident()
                    ps.expect(":")
                    ty = ps.parse_type(stop=(",", "}"))
                    fields.append((f, ty))
                    if not ps.eat(","): break
                out["structs"][name] = fields
                i = j2
            elif toks[j][1] == "(":
                j2 = match_brace(toks, j)
                ps = Parser(toks, j + 1)
                fields = []
                n = 0
                while ps.i < j2 - 1:
                    while ps.at("#"):
                        ps.i += 1; ps.skip_balanced("[", "]")
                    if ps.eat("pub"):
                        if ps.at("("): ps.skip_balanced("(", ")")
                    ty = ps.parse_type(stop=(",", ")"))
                    fields.append((str(n), ty)); n += 1
                    if not ps.eat(","): break
                out["structs"][name] = fields
                i = j2
            else:
                i = j + 1
            cfg_test = False
            continue
        if t == "enum":
            name = toks[i + 1][1]
            j = i + 2
            if toks[j][1] == "<": j = skip_angle(toks, j)
            j2 = match_brace(toks, j)
            ps = Parser(toks, j + 1)
            variants = []
            while ps.i < j2 - 1:
                while ps.at("#"):
                    ps.i += 1; ps.skip_balanced("[", "]")
                if ps.i >= j2 - 1: break
                v = ps.ident()
                if ps.at("("):
                    ps.i += 1
                    tys = []
                    while not ps.at(")"):
                        tys.append(ps.parse_type(stop=(",", ")")))
                        if not ps.eat(","): break
                    ps.expect(")")
                    variants.append((v, "tuple", tys))
                elif ps.at("{"):
                    ps.i += 1
                    fs = []
                    while not ps.at("}"):
                        while ps.at("#"):
                            ps.i += 1; ps.skip_balanced("[", "]")
                        if ps.at("}"): break
                        f = ps.ident(); ps.expect(":")
                        fs.append((f, ps.parse_type(stop=(",", "}"))))
                        if not ps.eat(","): break
                    ps.expect("}")
                    variants.append((v, "struct", fs))
                else:
                    variants.append((v, "unit", []))
                if not ps.eat(","): break
            out["enums"][name] = variants
            i = j2
            cfg_test = False
            continue
        if t in ("use", "extern", "type", "static"):
            while toks[i][1] != ";":
                if toks[i][1] == "{": i = match_brace(toks, i)
                else: i += 1
            i += 1
            cfg_test = False
            continue
        if t == "macro_rules":
            j = i + 3
            i = match_brace(toks, j)
            if i < end and toks[i][1] == ";": i += 1
            cfg_test = False
            continue
        if t == "trait":
            j = i
            while toks[j][1] != "{": j += 1
            i = match_brace(toks, j)
            cfg_test = False
            continue
        # macro invocation at item level:  name!(...);
        if k == "ident" and toks[i + 1][1] == "!":
            j = i + 2
            i = match_brace(toks, j)
            if i < end and toks[i][1] == ";": i += 1
            cfg_test = False
            continue
        i += 1


if __name__ == "__main__":
    import sys, pprint
    items = find_items(open(sys.argv[1]).read())
    for kf, v in items["fns"].items():
        print(kf, "PARSED" if v[2] else "ERR " + items["errors"].get(kf, ""))
    print("structs", list(items["structs"]))
    print("enums", {k: [x[0] for x in v] for k, v in items["enums"].items()})
    print("consts", items["consts"])
