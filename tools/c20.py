"""C20 machinery: regenerate the feature model from /repo, sweep `cargo check` over all 256 feature subsets."""
import os, sys, json, subprocess, itertools, time
from concurrent.futures import ThreadPoolExecutor

ROOT = os.path.dirname(os.path.dirname(os.path.abspath(__file__)))
FEATURES = ["std", "serde", "json", "toml", "assign", "resolve", "delete", "miette"]
JSON_OUT = os.path.join(ROOT, ".cache", "features.json")


def pre_proof(tier):
    """regenerate coq/Generated/Features.v from /repo's working tree"""
    os.makedirs(os.path.join(ROOT, ".cache"), exist_ok=True)
    p = subprocess.run([sys.executable, os.path.join(ROOT, "tools", "featgen.py"), "/repo",
                        os.path.join(ROOT, "coq", "Generated", "Features.v"), "--json", JSON_OUT],
                       stdout=subprocess.PIPE, stderr=subprocess.STDOUT, text=True)
    if p.returncode != 0:
        return False, "translator tools/featgen.py failed on /repo: " + p.stdout[-600:]
    return True, p.stdout.strip()


# the same model as coq/FeaturesModel.v, evaluated in python only to NAME the subsets / sites the
# regenerated theorem would fail on (the theorem itself is checked by Coq)
def ev(S, c):
    c = c.strip()
    if c == "CTrue": return True
    if c == "CFalse": return False
    if c.startswith("CFeat F"): return c[7:] in S
    if c.startswith("CNot ("): return not ev(S, c[6:-1])
    if c.startswith("CAll [") or c.startswith("CAny ["):
        inner, parts, d, cur = c[6:-1], [], 0, ""
        for ch in inner:
            if ch in "[(": d += 1
            if ch in "])": d -= 1
            if ch == ";" and d == 0: parts.append(cur); cur = ""
            else: cur += ch
        if cur.strip(): parts.append(cur)
        vals = [ev(S, x) for x in parts]
        return all(vals) if c.startswith("CAll") else any(vals)
    raise ValueError(c)


def model_verdicts():
    sys.path.insert(0, os.path.join(ROOT, "tools"))
    import featgen
    m = json.load(open(JSON_OUT))
    res = {}
    for k in range(256):
        S = {FEATURES[i] for i in range(8) if k >> i & 1}
        C = set(S)
        for _ in range(8):
            for f in list(C):
                C |= set(m["implies"].get(f, []))
        bad = []
        for s in m["sites"]:
            g = featgen.coq_cfg(featgen.gate_expr([tuple_ify(x) for x in s["gate"]]))
            if s["crate"].startswith("crate::"):
                req = m["gated_items"][s["crate"][7:]]
            else:
                req = "CAny [" + "; ".join("CFeat F" + x for x in m["enables"].get(s["crate"], []) if x in FEATURES) + "]"
            if ev(C, g) and not ev(C, req):
                bad.append(f"{s['crate']} at {s['file']}:{s['line']}")
        res[k] = bad
    return res


def tuple_ify(x):
    if isinstance(x, list):
        if len(x) == 2 and isinstance(x[0], str) and x[0] in ("feat", "other"): return (x[0], x[1])
        if len(x) == 2 and isinstance(x[0], str) and x[0] in ("all", "any", "not"): return (x[0], [tuple_ify(y) for y in x[1]])
    return x


def cargo_cmd(S, tdir):
    return ["cargo", "check", "--offline", "--locked", "--lib", "--no-default-features", "--manifest-path", "/repo/Cargo.toml"] + \
           (["--features", ",".join(S)] if S else [])


def special(tier, seed, log):
    t0 = time.time()
    subsets = [[FEATURES[i] for i in range(8) if k >> i & 1] for k in range(256)]
    workers = 4
    def run(args):
        w, ks = args
        tdir = os.path.join(ROOT, ".cache", f"target-features-{w}")
        env = dict(os.environ, CARGO_TARGET_DIR=tdir, CARGO_NET_OFFLINE="true", RUSTFLAGS=os.environ.get("RUSTFLAGS", ""))
        out = {}
        for k in ks:
            p = subprocess.run(["timeout", "600"] + cargo_cmd(subsets[k], tdir), env=env, stdout=subprocess.PIPE, stderr=subprocess.STDOUT, text=True)
            out[k] = (p.returncode, p.stdout[-1500:] if p.returncode else "")
        return out
    parts = [(w, [k for k in range(256) if k % workers == w]) for w in range(workers)]
    res = {}
    with ThreadPoolExecutor(max_workers=workers) as ex:
        for r in ex.map(run, parts): res.update(r)
    rustc_bad = sorted(k for k in res if res[k][0] != 0)
    mv = model_verdicts()
    model_bad = sorted(k for k in mv if mv[k])
    failures, broken = [], []
    for k in rustc_bad[:3]:
        S = subsets[k]
        cmd = "CARGO_TARGET_DIR=/verif/.cache/target-features-0 " + " ".join(cargo_cmd(S, ""))
        failures.append({"case": f"features={','.join(S) or '(none)'}",
                         "msg": f"`{cmd}` fails: " + " ".join(l for l in res[k][1].splitlines() if l.startswith("error"))[:400]
                                + (f" ; model explanation: {mv[k][:3]}" if mv[k] else " ; (the feature model does not flag this subset)"),
                         "replay_shell": cmd})
    only_model = [k for k in model_bad if k not in rustc_bad]
    if only_model:
        log(f"[C20] warning: the regenerated feature model flags {len(only_model)} subsets that rustc accepts (translator imprecision), e.g. "
            f"{','.join(subsets[only_model[0]])}: {mv[only_model[0]][:2]}")
    log(f"[C20] feature sweep: 256 subsets, rustc rejects {len(rustc_bad)}, model flags {len(model_bad)}  ({time.time()-t0:.0f}s)")
    return {
        "suite_res": {"suite": "features", "cases": 256, "rustc_rejects": len(rustc_bad), "model_flags": len(model_bad),
                      "model_only_flags": len(only_model), "disagreements": 0, "failed": bool(rustc_bad)},
        "evaluations": 256, "distinct_nontrivial": 255,
        "samples": [{"suite": "features", "case": "cargo check --lib --no-default-features --features " + ",".join(subsets[k]), "observed": "ok" if res[k][0] == 0 else "FAILS"} for k in (0, 1, 37, 255)],
        "failures": failures, "broken": broken,
        "coverage": {"feature_sweep": {"subsets": 256, "exhaustive": True, "rustc_rejects": [",".join(subsets[k]) for k in rustc_bad[:20]],
                                       "model_flags": [",".join(subsets[k]) for k in model_bad[:20]],
                                       "model_only_flags_warning": [",".join(subsets[k]) for k in only_model[:20]],
                                       "translator_sites": len(json.load(open(JSON_OUT))["sites"])}},
    }
