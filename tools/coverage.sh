#!/bin/bash
# Development aid (not part of any check): line/region coverage of /repo/src under the harness suites,
# to see which source lines no generated case reaches (places where a code change could hide).
# usage: tools/coverage.sh [tier]   -> writes .cache/cov/report.txt and .cache/cov/uncovered.txt
set -e
cd "$(dirname "$0")/.."
TIER=${1:-quick}
LL=$(ls -d ~/.rustup/toolchains/nightly-x86_64-unknown-linux-gnu/lib/rustlib/*/bin)
export CARGO_NET_OFFLINE=true CARGO_TARGET_DIR=$PWD/.cache/target-cov RUSTFLAGS="-C instrument-coverage"
cargo +nightly build --offline --locked --manifest-path harness/Cargo.toml 2>&1 | tail -2
EXE=$CARGO_TARGET_DIR/debug/jp-harness
rm -rf .cache/cov; mkdir -p .cache/cov
for s in token parse tokens buf slice prefix index tree hist cmp conv alloc; do
  LLVM_PROFILE_FILE=.cache/cov/gen-$s.profraw $EXE gen $s $TIER 1 > .cache/cov/$s.cases
  split -n l/16 .cache/cov/$s.cases .cache/cov/$s.part.
  for f in .cache/cov/$s.part.*; do
    LLVM_PROFILE_FILE=$f.profraw $EXE exec < $f > /dev/null &
  done
  wait
  rm -f .cache/cov/$s.part.?? .cache/cov/$s.cases
done
$LL/llvm-profdata merge -sparse .cache/cov/*.profraw -o .cache/cov/all.profdata
rm -f .cache/cov/*.profraw
$LL/llvm-cov report $EXE -instr-profile=.cache/cov/all.profdata --ignore-filename-regex='(registry|rustc|harness)' > .cache/cov/report.txt
$LL/llvm-cov show $EXE -instr-profile=.cache/cov/all.profdata --ignore-filename-regex='(registry|rustc|harness)' --show-line-counts-or-regions > .cache/cov/show.txt
cat .cache/cov/report.txt
