#!/bin/bash
# usage: goal.sh <file.v> <line> [extra tactic text]  -- show the proof state after line <line> of <file.v>
# (run from /verif/coq)
f=$1; n=$2; shift 2
tmp=$(mktemp /tmp/goalXXXX.v)
head -n "$n" "$f" > "$tmp"
echo "$*" >> "$tmp"
echo "Show." >> "$tmp"
timeout 120 coqtop -Q . JP -w -notation-overridden,-deprecated-hint-without-locality -batch -l "$tmp" 2>&1 | tail -n 60
rm -f "$tmp"
