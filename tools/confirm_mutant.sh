#!/bin/bash
# confirm_mutant.sh <worktree> <n>: verify a seeded change in its scratch worktree:
#  with the change: the crate's test suite passes and the demonstration fails; without it: the demonstration passes
wt=$1; n=$2
cd "$wt" || exit 2
export CARGO_TARGET_DIR=$wt/target CARGO_NET_OFFLINE=true
git checkout -q -- . 2>/dev/null
git apply --check mutant_$n.diff || { echo "RESULT diff-does-not-apply"; exit 1; }
rundemo() {
  if [ -f demo_$n.sh ]; then bash demo_$n.sh >/dev/null 2>&1; echo $?
  elif [ -d demo_$n ]; then (cd demo_$n && CARGO_TARGET_DIR=$wt/target-demo cargo run --offline -q >/dev/null 2>&1); echo $?
  elif [ -f tests/demo_$n.rs ]; then cargo test --offline -q --test demo_$n >/dev/null 2>&1; echo $?
  else echo nodemo; fi
}
clean_demo=$(rundemo)
git apply mutant_$n.diff
suite=$(cargo test --offline --workspace --no-fail-fast 2>&1 | grep "^test result" | awk '{p+=$4; f+=$6} END {print p" passed "f" failed"}')
mut_demo=$(rundemo)
git checkout -q -- .
echo "RESULT suite_with_mutant=[$suite] demo_with_mutant_exit=$mut_demo demo_without_exit=$clean_demo"
