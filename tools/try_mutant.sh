#!/bin/bash
# try_mutant.sh <diff> <property> [<property> ...]: apply a seeded change to /repo, run the quick checks, undo it
diff=$(realpath "$1"); shift
cd /repo && git status --short | grep -q . && { echo "/repo not clean"; exit 2; }
git -C /repo apply "$diff" || exit 2
cd /verif
for p in "$@"; do
  out=$(./check $p 2>&1); rc=$?
  echo "== $p exit=$rc"
  echo "$out" | grep -E "VIOLATION|KNOWN|disagreements=[1-9]|oracle_failures=[1-9]|BROKEN" | head -6
done
git -C /repo checkout -- .
git -C /repo status --short
